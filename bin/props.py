"""Per-property configuration of bin/check."""

LIB = [
    "Go runtime and standard library (sync, sync/atomic, bufio, io) as exercised by the correspondence check",
]

SCHED_TB = [
    "GenAtomicShapes.lean lists, in source order, the shared-memory operations of Emit, resetUint64 and the "
    "register functions (ksextract, go/ast)",
    "classification of a shape into a protocol (Sched/Protocols.lean isAtomic*) and the modelling assumption that "
    "a mutex-protected region is one atomic step (all accesses to the protected data are inside such regions)",
    "atomicity of sync.Map operations, sync.Mutex and sync/atomic (Go memory model below the yield points)",
]

PROPS = {
    "C09": dict(
        proof_modules=["KsVerif.Proofs.C09"],
        families=["sched.match.redis", "sched.match.http"],
        rule="every schedule of the two halves of a connection at the yield points (each register is one step "
             "under the matcher mutex), i.e. every order-preserving merge of the two message sequences, exhaustively "
             "for 1-2 exchanges (quick) / 1-3 (thorough), random merges for 3-8 exchanges; non-trivial = the schedule "
             "switches goroutine at least twice",
        trusted_base=SCHED_TB + LIB,
        assumptions=["ident strings are an injective image of (connection, ordinal)"],
    ),
    "C10": dict(
        proof_modules=["KsVerif.Proofs.C10"],
        families=["sched.match.redis", "sched.match.http"],
        rule="the real Dissect of both halves runs in two controlled goroutines sharing matcher, counters and emitter; "
             "every interleaving at the yield points, exhaustively (stateless DFS) for 1-2 exchanges (quick) / 1-3 "
             "(thorough), seeded random schedules for 3-8 exchanges; trace, items, indices, residue and statistics "
             "compared with the Lean interpreter of the regenerated shapes; non-trivial = at least two goroutine switches",
        trusted_base=SCHED_TB + LIB,
        assumptions=["kafka's polling matcher is not covered by the atomic-register theorem (see DESIGN.md C10)"],
    ),
    "C19": dict(
        proof_modules=["KsVerif.Proofs.C19"],
        families=["sched.emit"],
        rule="the real Emitting.Emit called from 2-3 controlled goroutines on one or two streams sharing AppStats; every "
             "interleaving at the yield points for small N (exhaustive DFS), seeded random schedules up to 4 tasks x 12 "
             "emits; non-trivial = at least two goroutine switches",
        trusted_base=SCHED_TB + LIB,
        assumptions=["TcpStream.GetIndex / IncrementItemCount are individually atomic (mock stream uses sync/atomic)"],
    ),
    "C20": dict(
        proof_modules=["KsVerif.Proofs.C20"],
        families=["progress", "sched.dump"],
        rule="sched.dump: the real DumpStats and Inc* run as controlled goroutines; every interleaving at the "
             "yield points for small configurations (exhaustive DFS), seeded random schedules for up to 4 dumps x 12 "
             "increments; progress: every feed/current/reset sequence up to length 6 (quick) / 8 (thorough) over "
             "{feed 3, feed 10, current, reset}, plus seeded random sequences up to 40 operations over "
             "boundary byte counts; non-trivial = at least two readings; distinct by payload",
        trusted_base=["GenReadProgress.lean is a statement-level translation of ReadProgress.Feed/Current/Reset "
                      "(Go int modelled as unbounded Int)"] + LIB,
        assumptions=["Go int arithmetic does not overflow for byte counts"],
    ),
}
