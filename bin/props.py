"""Per-property configuration of bin/check."""

LIB = [
    "Go runtime and standard library (sync, sync/atomic, bufio, io) as exercised by the correspondence check",
]

SCHED_TB = [
    "GenAtomicShapes.lean lists, in source order, the shared-memory operations of Emit, resetUint64 and the "
    "register functions (ksextract, go/ast)",
    "classification of a shape into a protocol (Sched/Protocols.lean isAtomic*) and the modelling assumption that "
    "a mutex-protected region is one atomic step (all accesses to the protected data are inside such regions)",
    "atomicity of sync.Map operations, sync.Mutex and sync/atomic (Go memory model below the yield points)",
]

REDIS_TB = [
    "Redis/Model.lean is a hand-written model of read.go + the Dissect loop on the remaining bytes; tied to the code "
    "by the correspondence check (packets, end kind, items)",
    "bufio.Reader.Read delivers at most one underlying read per call (modelled by Proofs/C08 Win/fill)",
    "strings.ToUpper modelled for ASCII; strconv.Atoi modelled without overflow",
]

KFL_TB = [
    "Kfl/{Ast,Precompute,Eval,Path,Json}.lean are hand-written models of precompute.go, eval.go and of the ojg subset "
    "(jp.ParseString / Get / Set, oj.ParseString) KFL uses; tied to the code by the correspondence check",
    "the query reaches the model as the syntax tree the generator meant; the real parser is checked to build that tree",
    "float64 stands for exact decimals with <= 15 significant digits; regexp modelled for a literal/./*/+/?/^/$ subset",
    "time helpers, datetime() and xml() are outside the model (covered by the no-crash family only)",
]
KFL_RULE = ("a coherence block - every comparison operator between a path (plain, nested, c.*, arr.*.x) and each of 10 numbers "
            "(5 ... 2^24+1, 2^32+1, 2^53-1, 0.1, 0.1000000001) in both orders, the record holding that number as integer / "
            "float / numeric string or its neighbours -, then, with records biased towards the numeric literals of the query, "
            "type-directed random queries (all operators, literals incl. 1234567 / 1000000 / decimals, paths present and "
            "absent, index / key / wildcard / descent selectors, helpers well- and ill-typed, json() selectors plain and "
            "base64, nested parentheses, unary operators) x records in which every field is independently present and "
            "of varying type; the generator's syntax tree must equal the real parser's; ")

PROPS = {
    "C11": dict(
        proof_modules=["KsVerif.Proofs.C11", "KsVerif.Proofs.C11Amqp"],
        families=["stages.redis", "stages.amqp", "stages.http", "stages.dns", "stages.kafka",
                  "stages.redismut", "stages.amqpmut", "stages.httpmut", "stages.kafkamut", "stages.h2c", "cost.wide"],
        rule="stages.<proto>mut: the same conversations with 1-3 byte-level mutations (a byte or a 16/32-bit field set to a "
             "boundary value, a truncation) - every item the dissector still emits goes through the stages; "
             "stages.<proto>: the conversations of redis.conv, amqp.conv (every method, tables holding every field type, "
             "contents) and http.conv (1-4 exchanges, bodies across 4096 / 8192, chunked / fixed / close-delimited; for stages.http also "
             "request targets without a path: absolute-form without one, authority-form CONNECT, OPTIONS *) are "
             "dissected by the real code; every emitted item is marshalled to JSON and back, analysed, the entry "
             "marshalled and back, summarised and represented; DNS entries with every record type, 0-2 questions and "
             "0-2 records per section go through the same stages; panic / error / well-formedness of the representation "
             "(sections of type table or body, table data a JSON list) recorded per item; non-trivial = at least one item",
        trusted_base=["Stages/Driver.lean redisShape = the json tags of RedisPacket; demands read off representGeneric / Summarize",
                      "internal/stages reproduces the JSON round trips of worker and hub"] + LIB,
        assumptions=["stages.kafka covers the APIs / versions the layouts can express (see C06 deviations); DNS items are built as the tap would (all record fields present as strings)"],
    ),
    "C16": dict(
        proof_modules=["KsVerif.Proofs.C16", "KsVerif.Proofs.C16Paths"],
        families=["queries.redis", "queries.amqp", "queries.http", "queries.dns", "queries.kafka", "queries.h2c"],
        rule="queries.<proto>: for every entry produced from the conversations of the stages families, its method, summary "
             "and status queries and every registered macro are evaluated on that entry by the real kfl.Apply; the Lean "
             "side parses the same query texts (shapes Summarize produces), prepares and evaluates them on the entry with "
             "the KFL model and must agree; spec: each non-empty query is true, a macro is true iff its definition names "
             "the entry's protocol; non-trivial = at least one entry",
        trusted_base=KFL_TB + ["Kfl/QueryParse.lean: parser for the query shapes Summarize and Macros() produce"] + LIB,
        assumptions=["values holding quotes, backslashes or control characters give invalid / false queries: recorded finding"],
    ),
    "C12": dict(
        proof_modules=["KsVerif.Proofs.C12", "KsVerif.Proofs.C12Dec"],
        families=["kfl.eval", "kfl.api"],
        rule="kfl.api: Apply and PrepareQuery + Eval against the steps they are made of (ExpandMacros, Parse, Precompute, Eval) on a "
             "sample of the kfl.eval cases, each entry point twice, and time-helper queries prepared twice with the record "
             "stamped in between (now() is the instant of this preparation); kfl.eval: " + KFL_RULE + "truth and limit compared three ways (real code, model, reference semantics); "
             "non-trivial = inside the model and the reference semantics' domain",
        trusted_base=KFL_TB + LIB,
        assumptions=["where the statement is silent the reference semantics follows the implementation: array-vs-array "
                     "comparisons, `!`/`-` on operands of other types, truthiness of objects, which of several limit() wins"],
    ),
    "C13": dict(
        proof_modules=["KsVerif.Proofs.C13"],
        families=["kfl.fuzz"],
        facts=[],
        rule="kfl.fuzz: fixed corpus of historically crashing queries (incl. regexp literals that do not compile, compared in "
             "non-final position so that a later operand clears the compile error); every helper x 0..3 arguments x 12 argument kinds as "
             "function, method, inside json() and xml(); random chains of json()/xml()/index/key/descent selectors; nesting "
             "depth 10..5000; random bytes and token soup; each against a record with embedded JSON / XML / base64 / "
             "garbage and against a random record (incl. malformed); Validate, PrepareQuery, Eval, Apply; "
             "non-trivial = more than a trivial text",
        trusted_base=KFL_TB + LIB,
        assumptions=["participle (parser), regexp2 (macros), mxj (XML) are exercised, not modelled",
                     "goroutine stack exhaustion on very deep nests is a runtime limit outside the model"],
        impl_timeout=300,
    ),
    "C14": dict(
        proof_modules=["KsVerif.Proofs.C14"],
        families=["kfl.frame"],
        rule="kfl.frame: " + KFL_RULE + "the returned record must equal the given record as a JSON value "
             "(queries without redact); non-trivial = inside the model",
        trusted_base=KFL_TB + LIB,
        assumptions=["ojg parse / print round-trips JSON values (numbers compared as exact decimals)"],
    ),
    "C15": dict(
        proof_modules=["KsVerif.Proofs.C15", "KsVerif.Proofs.C15Spec"],
        families=["kfl.redact", "kfl.redactf", "kfl.redactxml"],
        rule="kfl.redactxml: XML documents (key paths, an indexed path, attributes, a namespaced envelope; element and attribute text "
             "with entities, CDATA, character references, quotes; with and without a declaration on the same line, on its own line, "
             "with CR LF) held plainly and base64-wrapped, redacted through an xml() hop: the document as the XML reader reads it "
             "afterwards must be the one it read before with the marker at the path and nothing else changed, the declaration kept, "
             "the target's text gone, the marker visible to the read path (`<field>.xml().<path> == \"[REDACTED]\"` true of the returned record), and a path that is not in the document changes nothing (metamorphic: the reader is mxj, the "
             "judge computes the expected tree and, where the path is in its subset - 560 of 630 cases - checks that C15's structural spec "
             "RedactSpec, the one the theorems are about, gives the same tree); "
             "kfl.redactf: `F and redact(P)` for 17 filter shapes F (plain, bracket-key, index + field - after which the grammar "
             "nests the rest of the query -, negated, parenthesised, conjunctions) on the records and path sets of kfl.redact: where F "
             "holds the returned record must be the one redact(P) alone returns; "
             "kfl.redact: records with unique sentinel strings at every leaf (objects, arrays, nested objects, JSON "
             "documents held plainly and base64-wrapped in string fields, a document nested two levels deep) x 1-3 "
             "redaction paths drawn from plain, indexed, bracket-key, wildcard, recursive-descent paths, one and two "
             ".json() hops, non-existing and overlapping paths in any order; the returned record is compared as a value, "
             "looking through nested documents, with the spec's structural rewrite and with the model; "
             "non-trivial = the spec changes the record",
        trusted_base=KFL_TB + ["Kfl/RedactSpec.lean: the structural rewrite the property statement describes"] + LIB,
        assumptions=["XML hops (mxj) are outside the Lean model and RedactSpec: kfl.redactxml judges them against the document as "
                     "mxj itself reads it before and after"],
    ),
    "C18": dict(
        proof_modules=["KsVerif.Proofs.C18"],
        families=["kfl.reuse", "kfl.shared"],
        facts=["kfl_eval_stores.json"],
        rule="kfl.reuse: " + KFL_RULE + "the prepared query is evaluated a second time and from 8 goroutines at once, "
             "each result compared with the first; the prepared tree is deep-compared before and after; "
             "non-trivial = inside the model",
        trusted_base=KFL_TB + ["store facts: eval.go assigns to no field (go/ast scan, expectation committed)"] + LIB,
        assumptions=["compiled third-party objects (regexp.Regexp, jp.Expr) are read-only when used"],
    ),
    "C17": dict(
        proof_modules=["KsVerif.Proofs.C17", "KsVerif.Proofs.C17Spec"],
        families=["kfl.macro"],
        impl_timeout=150,
        rule="kfl.macro: macro names inside terminated and unterminated literals followed by 5-200 more characters (the look-ahead "
             "that skips literals must stay linear); fixed corpus (names as prefix/infix/suffix of identifiers, inside literals, after dots, "
             "unbalanced and escaped quotes), every macro name of the regenerated table in every one of 11x11 "
             "left/right contexts, seeded random concatenations of names, operators, literals and identifier pieces; "
             "each text is expanded 13 times (Go re-randomises the map order on every call), and the result expanded "
             "again; non-trivial = the text contains a macro name",
        trusted_base=["Kfl/Macro.lean models ExpandMacros (regexp2 look-around semantics for this one pattern, ASCII)",
                      "GenMacros.lean = the Macros() of every registered dissector, read by running the code"] + LIB,
        assumptions=["regexp2 Replace scans left to right for non-overlapping matches of the original text",
                     "order independence, idempotence and model = token spec are checked on every generated text, "
                     "not yet proved for all texts"],
    ),
    "C01": dict(
        proof_modules=["KsVerif.Proofs.C01", "KsVerif.Proofs.C01Amqp", "KsVerif.Proofs.C01Kafka"],
        families=["redis.raw", "amqp.raw", "kafka.raw", "kafka.layout", "http2.raw", "http2.conv"],
        rule="amqp.raw: corpus of frames with lengths far beyond the data, negative lengths, bad frame types and "
             "end octets (each with every two-piece split and both stream ends), every prefix of well-formed halves, "
             "byte corruptions with boundary values, random bytes, random splits; redis.raw: fixed corpus of inputs that historically broke the reader (each with every two-piece split, "
             "EOF and reader-error tails), plus seeded: every prefix of well-formed halves, 1-3 byte corruptions with "
             "boundary values, random bytes, random multi-piece splits; non-trivial = at least 2 bytes; "
             "kafka.raw: kafka-go-encoded conversations with 0-3 mutations (see C06), relabelled versions, random bytes; "
             "http2.raw: frame scripts no peer would send but x/net/http2's Framer delivers: DATA before or without HEADERS, "
             "frames after END_STREAM, bodies of 2^20-1, 2^20, 2^20+1 and 2^21+1 bytes in one DATA frame or in 16 KiB frames, "
             "followed by 0, 1 or 10 more bytes, with and without headers, on either half, plus random scripts over three "
             "streams - the assembler model must predict items, lengths and leftovers, and nothing may panic",
        trusted_base=REDIS_TB + LIB,
        assumptions=["HTTP: the parser is net/http (library code); its malformed-input behaviour is not modelled"],
    ),
    "C02": dict(
        proof_modules=["KsVerif.Proofs.C02", "KsVerif.Proofs.C02Redis", "KsVerif.Proofs.C02Amqp", "KsVerif.Proofs.C02Kafka"],
        families=["cost.redis", "cost.amqp", "cost.kafka", "cost.http", "redis.raw", "amqp.raw", "kafka.layout"],
        rule="cost.<proto>: for each dissector, well-formed halves in which one length / count / size field (RESP *N and "
             "$N; AMQP frame, long-string, table, array, byte-array and body sizes; Kafka message size, client-id and "
             "string lengths, array count, and in a Produce v3 record batch the record count, record-set size, record header "
             "count, key length and header-key length (varints); HTTP Content-Length, chunk size, HTTP/2 DATA and HEADERS frame lengths) is "
             "replaced by each of 15 boundary values (0, 1, remaining-1, remaining, remaining+1, 65535, 65536, the caps "
             "and cap+1, 30000000, INT32_MAX, -1, UINT32_MAX), each ended by a clean end of stream, by one read error, "
             "and by a reader that fails forever; plus well-formed streams of 1..1000 (50000) messages; plus growth cases: "
             "repeating shapes, well-formed and not (RESP commands / replies / one array of k elements / k nested arrays; AMQP "
             "k body frames after a content header announcing the exact size, 0, 1, one frame or 2^64-1, k messages, k headers, "
             "k table entries, heartbeats; Kafka k requests, k topics, one correlation id k times; HTTP k pipelined messages, "
             "k headers, k cookies, k chunks, k query parameters, HTTP/2 k DATA frames / streams / open streams / header fields / pings / one k-byte "
             "value indexed and repeated k times by its index - the shape of the recorded finding h2-hpack-expansion, whose absolute bounds are excused while its growth is not), "
             "each measured at k=64 and k=512 (thorough also 256 and 4096): the allocation at the larger size may not exceed twice "
             "what the smaller run predicts for that many bytes; wide cases: HTTP messages with 256000 distinct header / cookie names (thorough: also "
             "query, form-field and response-header names), dissected as whole exchanges so that the item is analysed, against the linear time "
             "bound (a quadratic number of comparisons allocates nothing and only shows there); the real Dissect "
             "and the later stages run under measurement (TotalAlloc, wall time) and a per-case kill timer; "
             "bound: alloc <= 4096 n + 512 KiB, time <= 2 s + n/100 ms, no panic, returns; redis.raw / amqp.raw: the "
             "models the theorems speak about (packets and array elements <= bytes; AMQP events <= bytes / 4, body bytes "
             "reported <= bytes, fuel never decides; Kafka array elements <= bytes left in the message) against the real readers on raw and mutated streams / every layout row",
        trusted_base=REDIS_TB + ["Amqp/Model.lean + Amqp/Dissect.lean are a hand-written model of amqp/read.go and the Dissect loop "
                                 "of amqp/main.go; tied to the code by the correspondence check (frames, events, end kind)",
                                 "runtime.MemStats.TotalAlloc and wall-clock time as measured in the harness process"] + LIB,
        assumptions=["CPU time, allocator and GC are measured, not modelled; library parsers (net/http, x/net/http2) assumed linear"],
        impl_timeout=120,
    ),
    "C03": dict(
        proof_modules=["KsVerif.Proofs.C03", "KsVerif.Proofs.C03Server", "KsVerif.Proofs.C03Trailer", "KsVerif.Proofs.C03Report"],
        families=["http.conv", "http.entry", "http.h2c", "http.trailer"],
        rule="http.trailer: chunked HTTP/1.1 requests / responses whose last chunk is followed by trailer fields (announced by a "
             "Trailer header or not, one or several, repeating a header name, empty values, bodies of 0 / 3 / 9000 bytes, further "
             "exchanges behind them): three ways - the dissector against the wire model on the same bytes (the model reads the trailer "
             "part and adds its fields to the header fields), both against the same conversation with those fields sent in the header "
             "block, and every trailer field among the reported header fields; "
             "http.entry: what Analyze derives after the JSON round trips - path, query parameters (repeated keys, empty values, "
             "keys without '=', percent-escapes, '+'), method, status - for fixed targets and the http.conv conversations; "
             "http.conv: HTTP/1.0 and 1.1 conversations of 1-4 pipelined exchanges from an independent encoder (cross-checked "
             "byte for byte against the Lean spec encoder): six methods, origin- and absolute-form targets with repeated "
             "query keys and percent-encoding, 0-4 header fields incl. values with quotes / backslashes / 300 bytes, "
             "fixed-length, chunked (7-byte chunks) and close-delimited bodies of 0 bytes to above 8 KiB (across the "
             "4096 / 8192 buffers), binary bodies, seven status codes, HEAD exchanges; each item is observed in its "
             "reported (HAR) form; non-trivial = at least one exchange",
        trusted_base=["Http/H1.lean Wire: model of net/http ReadRequest / ReadResponse + ReadAll for the generated grammar "
                      "(library behaviour, validated by correspondence only); martian/har conversion observed, not modelled; "
                      "framing headers (Host, Content-Length, Transfer-Encoding) are rebuilt by the libraries and not compared"] + LIB,
        assumptions=["header names compare in canonical MIME spelling; order among header fields is not part of the report"],
    ),
    "C04": dict(
        proof_modules=["KsVerif.Proofs.C04"],
        families=["http2.conv", "http.h2c"],
        rule="http2.conv: abstract frame scripts encoded with x/net/http2's Framer and one HPACK encoder per half (client "
             "preface, SETTINGS): 1-4 streams whose HEADERS (split over 0-2 CONTINUATION frames), DATA and trailer frames "
             "interleave in a random order-preserving merge, HPACK dynamic-table reuse across requests, gRPC and plain "
             "streams incl. the marker on one direction only, bodies of 0-70000 bytes (around 1 MiB: 2^20-1, 2^20, 2^20+1, "
             "3*2^20 in the thorough tier), SETTINGS ack / PING / WINDOW_UPDATE / PRIORITY / RST_STREAM in between, streams "
             "left incomplete; the reported (HAR) form of each item is observed; non-trivial = both halves non-empty",
        trusted_base=["golang.org/x/net/http2 framing and HPACK (encoder in the harness, decoder in the dissector): library, "
                      "neither modelled nor verified", "Http/H2.lean: the assembler and pairing on decoded frames; "
                      "Content-Length rebuilt by the HAR conversion is not compared"] + LIB,
        assumptions=["h2c upgrade path not generated yet"],
    ),
    "C05": dict(
        proof_modules=["KsVerif.Proofs.C05"],
        families=["amqp.conv"],
        rule="amqp.conv: frame sequences from an independent AMQP 0-9-1 encoder (Go side, cross-checked byte for byte "
             "against the Lean spec encoder): every method of the regenerated table alone on each half with random "
             "boundary-valued arguments (empty / 255-byte short strings, all bit combinations, tables holding every "
             "field type incl. nested tables and arrays), request / -ok pairs, then seeded well-formed conversations: "
             "publish / deliver with every property-flag subset and bodies of 0..2000 bytes in 0..2 frames, several "
             "channels, heartbeats, unsupported methods interspersed - incl. the content-bearing ones the dissector does not "
             "report (basic.return, basic.get-ok) with header and body frames right after a reported content -, the connection "
             "handshake; non-trivial = at least one frame",
        trusted_base=["Amqp/Model.lean + Dissect.lean: hand-written model of read.go / main.go; argument decoders driven by "
                      "GenAmqpMethods.lean (re-translated from spec091.go, types.go, read.go, helpers.go by ksextract)",
                      "Amqp/Spec.lean: independent encoder and the reports the statement demands"] + LIB,
        assumptions=["io.ReadFull / binary.Read / io.CopyN on the bufio.Reader depend on the remaining bytes only"],
    ),
    "C06": dict(
        proof_modules=["KsVerif.Proofs.C06"],
        families=["kafka.conv", "kafka.raw", "kafka.layout"],
        facts=[],
        rule="kafka.conv: request / response streams written by github.com/segmentio/kafka-go/protocol (the independent "
             "encoder: a dependency of /repo, cross-checked byte for byte against the Lean spec encoder over schemas "
             "regenerated from its struct tags): Produce 0-8, Fetch 0-11, ListOffsets 1-5, Metadata 0-8, ApiVersions 0-2, "
             "CreateTopics 0-5, DeleteTopics 0-3, each version alone, then mixed conversations of 1-5 exchanges with "
             "responses out of order, unanswered requests, extreme correlation ids and APIs without a layout interleaved; "
             "values: integers at and around their bounds, strings of 0 / 1-12 / 60-70 / 120-140 (/ 200-600) bytes incl. "
             "non-ASCII and null where nullable, arrays of 0-3 elements incl. null, record batches of 1-3 records with "
             "null / empty / long keys, values and 0-2 headers; kafka.raw: the same streams with 0-3 mutations (byte flips, "
             "truncation, boundary-valued 16/32-bit fields, insertions, deletions, runs of varint continuation bytes), "
             "relabelled versions and random bytes - model = dissector, no panic; non-trivial = at least one response; "
             "kafka.layout: for every (api key 0-51, version 0-17) at which the running dissector selects a layout (learnt by "
             "probing it, not from kafka-go), a request and a response written field by field along that layout in the classic "
             "encodings (0-3 array elements, null / empty / non-UTF-8 strings, boundary integers, record batches), some pairs "
             "answered out of order - model = dissector on every layout row, deeply, including the APIs kafka-go cannot encode",
        trusted_base=["Kafka/Schema.lean + Model.lean: hand-written model of decode.go (decoder, reflective walk, records) and of "
                      "ReadRequest / ReadResponse / the matcher; layouts from GenKafkaLayouts.lean (the struct the running "
                      "dissector selects per api key x version -1..17, read back by reflection; int16 extremes checked)",
                      "Kafka/Spec.lean: encoder, record-batch reader and expected reports; reference schemas from "
                      "GenKafkaProtocol.lean (struct tags of kafka-go v0.4.38, the version /repo requires)",
                      "kafka-go's encoder as the notion of a well-formed Kafka stream"] + LIB,
        assumptions=["versions beyond kafka-go's ranges (e.g. Metadata 9+, ApiVersions 3+, Fetch 12+) have no independent encoder "
                     "in the sandbox and are covered by the framing theorems, kafka.raw and kafka.layout (model = dissector along the dissector's own layout) only",
                     "a null string is reported as the empty string (Go strings have no null)",
                     "the two halves are dissected one after the other (scheduling is C09/C10)",
                     "bufio.Reader Read/Discard depend on the remaining bytes only"],
    ),
    "C07": dict(
        proof_modules=["KsVerif.Proofs.C07", "KsVerif.Proofs.C07Conv"],
        families=["redis.conv", "redis.bigreply"],
        rule="redis.bigreply: a reply array of n elements for n = 2^20 - 1, 2^20, 2^20 + 1, 2^20 + 3 (thorough: also 2^21 + 5 and more), "
             "followed by a second command and its reply: two pairs, all n elements in the first reply, the second command answered "
             "by its own reply (the conversation is built from n by the harness; the judge computes what must be reported from n); "
             "redis.conv: conversations from an independent RESP encoder (Go side, cross-checked byte for byte against "
             "the Lean spec encoder): every command of the regenerated table with 0-3 arguments, then seeded random "
             "conversations of 1-6 exchanges with values holding CR, LF, CRLF, arbitrary bytes, empty/null bulk, every "
             "reply type incl. nested/empty arrays and redirections, random segmentations incl. across 8 KiB; "
             "non-trivial = well-formed by the spec's wfExchange",
        trusted_base=REDIS_TB + LIB,
        assumptions=["spec follows the implementation's presentation where the statement is silent: arguments beyond the "
                     "second are reported as \"[a, b, ...]\", simple strings upper-cased in `keyword`, error replies with a "
                     "class prefix; array replies must be reported with type Array (content not constrained)"],
    ),
    "C08": dict(
        proof_modules=["KsVerif.Proofs.C08"],
        families=["redis.split", "redis.convsplit", "amqp.split", "kafka.split", "http.split", "http.rawsplit"],
        rule="kafka.split: the streams of kafka.conv / kafka.raw, every two-piece split of short halves, random pieces down to "
             "single bytes, truncated halves; http.split: http.conv conversations in reads of 1 .. 4100 bytes; "
             "http.rawsplit: streams that are not well-formed conversations (bad request / status lines, bad header lines, garbage and "
             "truncations between well-formed messages) whole against every two-piece split, one byte per read and random pieces - the "
             "dissector itself on the unsplit bytes is the reference; "
             "redis.split: the same byte streams as redis.raw delivered under every two-piece split (short streams, "
             "exhaustive) and random multi-piece splits down to single bytes; the observation must equal the one the "
             "bytes alone determine; redis.convsplit adds random segmentations of well-formed conversations; "
             "non-trivial = at least two reads",
        trusted_base=REDIS_TB + LIB,
        assumptions=["AMQP, Kafka and HTTP read only through io.ReadFull/bufio (to be tied by reader-touch facts)"],
    ),
    "C09": dict(
        proof_modules=["KsVerif.Proofs.C09", "KsVerif.Proofs.C10", "KsVerif.Proofs.C09Keys"],
        families=["sched.match.redis", "sched.match.http", "sched.match.http10", "sched.match.amqp", "sched.match.kafka", "sched.excl", "http2.conv", "http2.order", "http.conv", "match.multi"],
        rule="http2.conv: pairing by stream id on interleaved HTTP/2 streams with control frames (incl. a graceful GOAWAY) between the "
             "frames of a stream - one item per completed stream, nothing left in the matcher (see C04); "
             "sched.excl: with one half parked AT a yield point inside the matcher's locked region, the other half must block "
             "(that the lock excludes is observed on the running code, not read off the lock statements); "
             "every schedule of the two halves of a connection at the yield points (each register is one step "
             "under the matcher mutex), i.e. every order-preserving merge of the two message sequences, exhaustively "
             "for 1-2 exchanges (quick) / 1-3 (thorough), random merges for 3-8 exchanges; non-trivial = the schedule "
             "switches goroutine at least twice",
        trusted_base=SCHED_TB + LIB,
        assumptions=["ident strings are an injective image of (connection, ordinal)"],
    ),
    "C10": dict(
        proof_modules=["KsVerif.Proofs.C10", "KsVerif.Proofs.C09Keys"],
        families=["sched.match.redis", "sched.match.http", "sched.match.http10", "sched.match.amqp", "sched.match.kafka", "sched.excl", "sched.indep", "http2.order"],
        rule="sched.indep: HEAD / GET conversations (which the dissector misreads - a recorded finding - so that no model predicts the "
             "items) under every interleaving of the two halves: pairs and residue must equal those of the run 'client half first'; "
             "sched.excl: with one half parked AT a yield point inside the matcher's locked region, the other half must block; "
             "the real Dissect of both halves runs in two controlled goroutines sharing matcher, counters and emitter; "
             "every interleaving at the yield points, exhaustively (stateless DFS) for 1-2 exchanges (quick) / 1-3 "
             "(thorough), seeded random schedules for 3-8 exchanges; trace, items, indices, residue and statistics "
             "compared with the Lean interpreter of the regenerated shapes; non-trivial = at least two goroutine switches",
        trusted_base=SCHED_TB + LIB,
        assumptions=["kafka's polling matcher is not covered by the atomic-register theorem; it is driven under the scheduler "
                     "(sched.match.kafka, maxTry 3): on schedules where a response runs out of tries before its request is "
                     "registered the pair is legitimately lost (a timeout) and only 'no wrong pair, none twice, the waiting ones "
                     "are unanswered requests' is demanded"],
    ),
    "C19": dict(
        proof_modules=["KsVerif.Proofs.C19"],
        families=["sched.emit", "sched.excl"],
        rule="sched.excl: with one goroutine parked between reading the index and incrementing the count, a second Emit on the "
             "same Emitting must block (also with three goroutines emitting twice each on an open or a closed stream, the one inside held back while the others run: never two inside at once); the real Emitting.Emit called from 2-3 controlled goroutines on one or two streams sharing AppStats; every "
             "interleaving at the yield points for small N (exhaustive DFS), seeded random schedules up to 4 tasks x 12 "
             "emits; non-trivial = at least two goroutine switches",
        trusted_base=SCHED_TB + LIB,
        assumptions=["TcpStream.GetIndex / IncrementItemCount are individually atomic (mock stream uses sync/atomic)"],
    ),
    "C20": dict(
        proof_modules=["KsVerif.Proofs.C20"],
        families=["progress", "sched.dump", "progress.redis", "progress.amqp", "progress.http", "progress.kafka", "progress.h2c"],
        rule="progress.<proto>: the conversations of the conv families dissected through readers that feed the progress counter as "
             "the tap does (whole, byte by byte, in pieces of 1-700 bytes): the capture sizes of all messages - in emitted items and "
             "still waiting in the matcher - plus what the two counters hold at the end must equal the bytes fed (Kafka: the sizes "
             "of the emitted messages, when nothing waits); sched.dump: the real DumpStats and Inc* run as controlled goroutines; every interleaving at the "
             "yield points for small configurations (exhaustive DFS), seeded random schedules for up to 4 dumps x 12 "
             "increments; progress: every feed/current/reset sequence up to length 6 (quick) / 8 (thorough) over "
             "{feed 3, feed 10, current, reset}, plus seeded random sequences up to 40 operations over "
             "boundary byte counts; non-trivial = at least two readings; distinct by payload",
        trusted_base=["GenReadProgress.lean is a statement-level translation of ReadProgress.Feed/Current/Reset "
                      "(Go int modelled as unbounded Int)"] + LIB,
        assumptions=["Go int arithmetic does not overflow for byte counts"],
    ),
}
