"""Per-property configuration of bin/check."""

LIB = [
    "Go runtime and standard library (sync, sync/atomic, bufio, io) as exercised by the correspondence check",
]

PROPS = {
    "C20": dict(
        proof_modules=["KsVerif.Proofs.C20"],
        families=["progress"],
        rule="progress: every feed/current/reset sequence up to length 6 (quick) / 8 (thorough) over "
             "{feed 3, feed 10, current, reset}, plus seeded random sequences up to 40 operations over "
             "boundary byte counts; non-trivial = at least two readings; distinct by payload",
        trusted_base=["GenReadProgress.lean is a statement-level translation of ReadProgress.Feed/Current/Reset "
                      "(Go int modelled as unbounded Int)"] + LIB,
        assumptions=["Go int arithmetic does not overflow for byte counts"],
    ),
}
