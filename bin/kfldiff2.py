#!/usr/bin/env python3
import sys,re,collections
j={l.split('\t')[0]:l.rstrip('\n').split('\t') for l in open(sys.argv[1])}
sel=sys.argv[3] if len(sys.argv)>3 else None
n=0
def fields(s):
    out={}
    for k in ['astok','prep','limit','truth','again','aststable','conc']:
        m=re.search(r'\(%s ([^()]*)\)'%k,s); out[k]=m.group(1) if m else None
    m=re.search(r'\(rec (.*)\) \(again',s); out['rec']=m.group(1) if m else None
    out['deep']=out['rec']
    return out
def dehex(s): return re.sub(r'#([0-9a-f]*)',lambda m:'"'+bytes.fromhex(m.group(1)).decode('latin1')+'"',s)
for l in open(sys.argv[2]):
    f=l.rstrip('\n').split('\t')
    key=f[1]+f[2]+f[3]
    if (sel is None and f[1]=='0') or key==sel:
        case=j[f[0]]; q=bytes.fromhex(case[2].split(' ')[0][2:]).decode()
        fi,fm=fields(case[3]),fields(f[7])
        diff=[k for k in fi if fi[k]!=fm[k]]
        n+=1
        if n>int(sys.argv[4] if len(sys.argv)>4 else 5): break
        print(f[0],repr(q),f[4])
        for k in diff: print('   ',k,'\n      impl =',dehex(fi[k] or '')[:700],'\n      model=',dehex(fm[k] or '')[:700])
        if not diff: print('    (no field diff) spec=',dehex(f[8])[:700]); print('      impl deep=',dehex(fi['deep'] or '')[:700])
