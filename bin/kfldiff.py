#!/usr/bin/env python3
"""debug helper: show differing fields between impl and model observations for kfl.eval cases"""
import sys,re,collections
j={l.split('\t')[0]:l.rstrip('\n').split('\t') for l in open(sys.argv[1])}
n=0; kinds=collections.Counter()
def fields(s):
    out={}
    for k in ['astok','prep','limit','truth','again','aststable']:
        m=re.search(r'\(%s ([^()]*)\)'%k,s); out[k]=m.group(1) if m else None
    m=re.search(r'\(rec (.*)\) \(again',s); out['rec']=m.group(1) if m else None
    return out
for l in open(sys.argv[2]):
    f=l.rstrip('\n').split('\t')
    if f[1]=='0' and f[6]=='eval':
        case=j[f[0]]; q=bytes.fromhex(case[2].split(' ')[0][2:]).decode()
        fi,fm=fields(case[3]),fields(f[7])
        diff=[k for k in fi if fi[k]!=fm[k]]
        kinds[tuple(diff)]+=1
        if n<int(sys.argv[3]) and (len(sys.argv)<5 or sys.argv[4] in diff):
            n+=1; print(f[0],repr(q)); 
            for k in diff: print('   ',k,'impl=',(fi[k] or '')[:200],'| model=',(fm[k] or '')[:200])
            if fi['truth'] is None: print('    implraw',case[3][:200])
print(kinds)
