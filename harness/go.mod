module ksverif/harness

go 1.17

require (
	github.com/clbanning/mxj/v2 v2.5.5
	github.com/kubeshark/base v0.0.0
	github.com/ohler55/ojg v1.14.5
	github.com/segmentio/kafka-go v0.4.38
	golang.org/x/net v0.2.0
)

require (
	github.com/alecthomas/participle/v2 v2.0.0-alpha7 // indirect
	github.com/dlclark/regexp2 v1.4.0 // indirect
	github.com/fatih/camelcase v1.0.0 // indirect
	github.com/google/martian v2.1.0+incompatible // indirect
	github.com/klauspost/compress v1.15.9 // indirect
	github.com/kubeshark/gopacket v1.1.20 // indirect
	github.com/mattn/go-colorable v0.1.13 // indirect
	github.com/mattn/go-isatty v0.0.16 // indirect
	github.com/mertyildiran/gqlparser/v2 v2.4.6 // indirect
	github.com/pierrec/lz4/v4 v4.1.15 // indirect
	github.com/rs/zerolog v1.28.0 // indirect
	golang.org/x/sys v0.2.0 // indirect
	golang.org/x/text v0.4.0 // indirect
)

replace github.com/kubeshark/base => /repo
