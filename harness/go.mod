module ksverif/harness

go 1.17

require github.com/kubeshark/base v0.0.0

require github.com/kubeshark/gopacket v1.1.20 // indirect

replace github.com/kubeshark/base => /repo
