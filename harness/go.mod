module ksverif/harness

go 1.17

require github.com/kubeshark/base v0.0.0

require (
	github.com/google/martian v2.1.0+incompatible // indirect
	github.com/kubeshark/gopacket v1.1.20 // indirect
	github.com/mattn/go-colorable v0.1.13 // indirect
	github.com/mattn/go-isatty v0.0.16 // indirect
	github.com/mertyildiran/gqlparser/v2 v2.4.6 // indirect
	github.com/rs/zerolog v1.28.0 // indirect
	golang.org/x/net v0.2.0 // indirect
	golang.org/x/sys v0.2.0 // indirect
	golang.org/x/text v0.4.0 // indirect
)

replace github.com/kubeshark/base => /repo
