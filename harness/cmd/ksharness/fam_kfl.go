//go:build verif

package main

import (
	"encoding/base64"
	"encoding/json"
	"fmt"
	"math/big"
	"regexp"
	"sort"
	"strconv"
	"strings"
	"sync"

	"github.com/kubeshark/base/pkg/languages/kfl"
	"github.com/ohler55/ojg/oj"
	"ksverif/harness/internal/sx"
)

// Family kfl.eval (C12, C13, C14, C18): a query (text + the syntax tree the generator meant)
// and a record; the real Parse / Precompute / Eval run on them.
//
// payload: (#query <ast> <record>)
//   ast    : (E) | (E (L eq [op logical]))  ... see Kfl/Ast.lean
//   record : (o (#key v)...) | (a v...) | (s #text) | (i n) | (f dec) | null | true | false
// observation:
//   (parse-error) | ((astok b) (prep ok|err) (limit n) (truth b) (rec <canonical value>)
//                    (again b <same-record b>) (aststable b))

func init() {
	families["kfl.eval"] = &Family{Gen: genKflEval, Run: runKflEval}
	families["kfl.frame"] = &Family{Gen: genKflEval, Run: runKflEval}
	families["kfl.reuse"] = &Family{Gen: genKflEval, Run: runKflEval}
	families["kfl.fuzz"] = &Family{Gen: genKflFuzz, Run: runKflFuzz}
	families["kfl.redact"] = &Family{Gen: genKflRedact, Run: runKflEval}
}

// ---- dumping the real syntax tree in the generator's notation

func dumpExpr(e *kfl.Expression) sx.Sx {
	if e == nil || e.Logical == nil {
		return sx.L(sx.A("E"))
	}
	return sx.L(sx.A("E"), dumpLogical(e.Logical))
}

func dumpLogical(l *kfl.Logical) sx.Sx {
	if l.Next == nil {
		return sx.L(sx.A("L"), dumpEquality(l.Equality))
	}
	return sx.L(sx.A("L"), dumpEquality(l.Equality), sx.A(l.Op), dumpLogical(l.Next))
}

func dumpEquality(q *kfl.Equality) sx.Sx {
	if q.Next == nil {
		return sx.L(sx.A("Q"), dumpComparison(q.Comparison))
	}
	return sx.L(sx.A("Q"), dumpComparison(q.Comparison), sx.A(q.Op), dumpEquality(q.Next))
}

func dumpComparison(c *kfl.Comparison) sx.Sx {
	if c.Next == nil {
		return sx.L(sx.A("C"), dumpUnary(c.Unary))
	}
	return sx.L(sx.A("C"), dumpUnary(c.Unary), sx.A(c.Op), dumpComparison(c.Next))
}

func dumpUnary(u *kfl.Unary) sx.Sx {
	if u.Unary != nil {
		return sx.L(sx.A("U"), sx.A(u.Op), dumpUnary(u.Unary))
	}
	return sx.L(sx.A("P"), dumpPrimary(u.Primary))
}

func dumpPrimary(p *kfl.Primary) sx.Sx {
	switch {
	case p.Bool != nil:
		return sx.Bool(*p.Bool)
	case p.Number != nil:
		return sx.L(sx.A("num"), sx.A(strconv.FormatFloat(*p.Number, 'f', -1, 64)))
	case p.String != nil:
		return sx.L(sx.A("str"), sx.S(strings.Trim(*p.String, "\"")))
	case p.Regex != nil:
		return sx.L(sx.A("re"), sx.S(strings.Trim(*p.Regex, "\"")))
	case p.CallExpression != nil:
		c := p.CallExpression
		id := ""
		if c.Identifier != nil {
			id = *c.Identifier
		}
		params := sx.A("noparams")
		if c.Parameters != nil {
			ps := []sx.Sx{sx.A("params")}
			for _, q := range c.Parameters {
				ps = append(ps, dumpExpr(q.Expression))
			}
			params = sx.L(ps...)
		}
		sel := sx.A("nosel")
		if s := c.SelectExpression; s != nil {
			ix, key, rd, e := sx.A("-"), sx.A("-"), sx.A("-"), sx.A("-")
			if s.Index != nil {
				ix = sx.N(*s.Index)
			}
			if s.Key != nil {
				key = sx.S(strings.Trim(*s.Key, "\""))
			}
			if s.RecursiveDescent != nil {
				rd = sx.S(*s.RecursiveDescent)
			}
			if s.Expression != nil {
				e = dumpExpr(s.Expression)
			}
			sel = sx.L(sx.A("sel"), ix, key, rd, e)
		}
		return sx.L(sx.A("call"), sx.S(id), params, sel)
	case p.SubExpression != nil:
		return sx.L(sx.A("sub"), dumpExpr(p.SubExpression))
	case p.Nil:
		return sx.A("nil")
	}
	return sx.A("false") // `false` is not captured by the grammar: all fields nil, evaluates to false
}

// ---- records

func jsonText(r sx.Sx) string {
	if !r.IsList {
		return r.Atom
	}
	switch r.List[0].Atom {
	case "i":
		return r.List[1].Atom
	case "f":
		return r.List[1].Atom
	case "s":
		b, _ := oj.Marshal(r.List[1].Str())
		return string(b)
	case "a":
		parts := make([]string, 0, len(r.List)-1)
		for _, x := range r.List[1:] {
			parts = append(parts, jsonText(x))
		}
		return "[" + strings.Join(parts, ",") + "]"
	case "o":
		parts := make([]string, 0, len(r.List)-1)
		for _, kv := range r.List[1:] {
			k, _ := oj.Marshal(kv.List[0].Str())
			parts = append(parts, string(k)+":"+jsonText(kv.List[1]))
		}
		return "{" + strings.Join(parts, ",") + "}"
	}
	return "null"
}

// canonValue prints a parsed JSON value canonically (sorted keys, exact decimal numbers).
func canonValue(v interface{}) sx.Sx {
	switch x := v.(type) {
	case nil:
		return sx.A("null")
	case bool:
		return sx.Bool(x)
	case int64:
		return sx.L(sx.A("n"), sx.A(strconv.FormatInt(x, 10)))
	case float64:
		return sx.L(sx.A("n"), sx.A(strconv.FormatFloat(x, 'f', -1, 64)))
	case string:
		return sx.L(sx.A("s"), sx.S(x))
	case []interface{}:
		out := []sx.Sx{sx.A("a")}
		for _, e := range x {
			out = append(out, canonValue(e))
		}
		return sx.L(out...)
	case map[string]interface{}:
		keys := make([]string, 0, len(x))
		for k := range x {
			keys = append(keys, k)
		}
		sort.Strings(keys)
		out := []sx.Sx{sx.A("o")}
		for _, k := range keys {
			out = append(out, sx.L(sx.S(k), canonValue(x[k])))
		}
		return sx.L(out...)
	}
	if n, ok := v.(fmt.Stringer); ok {
		if f, ok2 := new(big.Float).SetString(n.String()); ok2 {
			return sx.L(sx.A("n"), sx.A(f.Text('f', -1)))
		}
	}
	return sx.A("unknown")
}

// deepCanon is canonValue looking through JSON documents nested in strings (plain or base64).
func deepCanon(v interface{}) sx.Sx {
	switch x := v.(type) {
	case string:
		asDoc := func(t string) (interface{}, bool) {
			d, err := oj.ParseString(t)
			if err != nil {
				return nil, false
			}
			switch d.(type) {
			case map[string]interface{}, []interface{}:
				return d, true
			}
			return nil, false
		}
		if b, err := base64.StdEncoding.DecodeString(x); err == nil {
			if d, ok := asDoc(string(b)); ok {
				return sx.L(sx.A("b64doc"), deepCanon(d))
			}
			return sx.L(sx.A("s"), sx.S(x))
		}
		if d, ok := asDoc(x); ok {
			return sx.L(sx.A("doc"), deepCanon(d))
		}
		return sx.L(sx.A("s"), sx.S(x))
	case []interface{}:
		out := []sx.Sx{sx.A("a")}
		for _, e := range x {
			out = append(out, deepCanon(e))
		}
		return sx.L(out...)
	case map[string]interface{}:
		keys := make([]string, 0, len(x))
		for k := range x {
			keys = append(keys, k)
		}
		sort.Strings(keys)
		out := []sx.Sx{sx.A("o")}
		for _, k := range keys {
			out = append(out, sx.L(sx.S(k), deepCanon(x[k])))
		}
		return sx.L(out...)
	}
	return canonValue(v)
}

func runKflEval(p sx.Sx) sx.Sx {
	query := p.List[0].Str()
	wantAst := p.List[1].String()
	record := jsonText(p.List[2])

	expanded, err := kfl.ExpandMacros(query)
	if err != nil {
		return sx.L(sx.A("expand-error"))
	}
	expr, err := kfl.Parse(expanded)
	if err != nil {
		return sx.L(sx.A("parse-error"))
	}
	astok := dumpExpr(expr).String() == wantAst
	prop, err := kfl.Precompute(expr)
	prep := "ok"
	if err != nil {
		prep = "err"
	}
	before := fmt.Sprintf("%#v", dumpPrepared(expr))
	truth, newJson, err := kfl.Eval(expr, record)
	if err != nil {
		return sx.L(sx.L(sx.A("astok"), sx.Bool(astok)), sx.L(sx.A("prep"), sx.A(prep)), sx.A("eval-error"))
	}
	parsed, perr := oj.ParseString(newJson)
	rec := sx.A("unparseable")
	if perr == nil {
		rec = deepCanon(parsed)
	}
	// C18: the prepared query meets other records in between (an empty one, a list, the same record with
	// its keys in lower case) - what it says about THIS record afterwards must not depend on that history
	for _, other := range []string{"{}", "[]", strings.ToLower(record), "{\"H\":{}}"} {
		func() {
			defer func() { _ = recover() }()
			_, _, _ = kfl.Eval(expr, other)
		}()
	}
	// C18: the same prepared query again, on the same record
	truth2, newJson2, _ := kfl.Eval(expr, record)
	sameRec := false
	if parsed2, err2 := oj.ParseString(newJson2); err2 == nil && perr == nil {
		sameRec = deepCanon(parsed2).String() == rec.String()
	}
	// C18: concurrent evaluations of the shared prepared query - half of the goroutines on this record, half
	// on a variant of it whose values differ (a goroutine that picks up another one's record or operand then
	// answers for the wrong record); each compared with the sequential answer for its own record
	variant := strings.NewReplacer("hello", "jello", "5", "6", "1", "2", "Chevrolet", "Camaro", "\"x\"", "\"w\"").Replace(record)
	truthV, recV, haveV := false, "", false
	func() {
		defer func() { _ = recover() }()
		if tv, jv, ev := kfl.Eval(expr, variant); ev == nil {
			if pv, e := oj.ParseString(jv); e == nil {
				truthV, recV, haveV = tv, deepCanon(pv).String(), true
			}
		}
	}()
	rounds := 2
	for _, h := range []string{"json()", "xml()", "now()", "seconds(", "minutes(", "hours(", "days(", "datetime(", "redact("} {
		if strings.Contains(expanded, h) {
			rounds = 24
		}
	}
	conc := true
	var wg sync.WaitGroup
	var mu sync.Mutex
	for g := 0; g < 8; g++ {
		wg.Add(1)
		onVariant := haveV && g%2 == 1
		go func() {
			defer wg.Done()
			defer func() {
				if r := recover(); r != nil {
					mu.Lock()
					conc = false
					mu.Unlock()
				}
			}()
			for k := 0; k < rounds; k++ {
				in, wantT, wantR := record, truth, rec.String()
				if onVariant {
					in, wantT, wantR = variant, truthV, recV
				}
				t3, j3, err3 := kfl.Eval(expr, in)
				okc := err3 == nil && t3 == wantT
				if okc {
					if p3, e3 := oj.ParseString(j3); e3 != nil || deepCanon(p3).String() != wantR {
						okc = false
					}
				}
				if !okc {
					mu.Lock()
					conc = false
					mu.Unlock()
				}
			}
		}()
	}
	wg.Wait()
	after := fmt.Sprintf("%#v", dumpPrepared(expr))
	return sx.L(
		sx.L(sx.A("astok"), sx.Bool(astok)),
		sx.L(sx.A("prep"), sx.A(prep)),
		sx.L(sx.A("limit"), sx.U(prop.Limit)),
		sx.L(sx.A("truth"), sx.Bool(truth)),
		sx.L(sx.A("rec"), rec),
		sx.L(sx.A("again"), sx.Bool(truth2 == truth), sx.Bool(sameRec)),
		sx.L(sx.A("aststable"), sx.Bool(before == after)),
		sx.L(sx.A("conc"), sx.Bool(conc)),
	)
}

// dumpPrepared renders the prepared tree including the fields Precompute fills.
func dumpPrepared(e *kfl.Expression) string {
	b, _ := oj.Marshal(e, &oj.Options{Sort: true})
	return string(b)
}

// ---- generator

type kgen struct {
	r *Rand
	// numeric literals of the query under generation: the record is biased towards holding
	// them (as numbers and as numeric strings), so that equalities are often true
	pref []string
}

type node struct {
	text string
	ast  sx.Sx
}

var kflNumbers = []string{"0", "1", "2", "3", "5", "7", "12", "42", "100", "1234567", "1000000", "1.5", "3.14", "0.1", "2.5", "1234567.4", "999999", "10000000", "16777217", "20000001", "123456789", "0.1000000001", "4294967297"}
var kflStrings = []string{"", "hello", "x", "y", "12", "5", "1.5", "true", "null", "Chevrolet", "he", "lo", "api", "v1", "[REDACTED]",
	// values that contain what an anchored literal pattern names without being equal to it
	"hello world", "say hello", "xhellox", "v10", "/api/v1", "xx", "hey",
	// strings that look like dates and times in the notations of other languages: a record's strings are its own
	"1990-04-01", "2021-10-19T08:30:02.500Z", "2021-10-19T08:30:02+00:00", "2021-10-19T08:30:02Z", "2021-10-19 08:30:02", "08:30", "2021-13-45"}
var kflNumRe = regexp.MustCompile(`[0-9]+(\.[0-9]+)?`)

var kflRegexes = []string{"h.*", "hel+o", "^he", "lo$", "x?y", ".*", "^hello$", "a.c", "z+", "^v1$", "^api$", "^x$", "^he$", "hello", "^hello", "hello$", "^$"}
var kflPaths = []string{"a", "b", "c", "d", "d.e", "d.n", "f", "s", "n", "t", "big", "neg", "arr", "zz", "d.zz", "c.*", "arr.*.x", "a.b.c", "d..e", "u.v.w",
	"H.ContentType", "H.XId", "Hdr.Missing"}

func (g *kgen) pick(xs []string) string { return xs[g.r.Intn(len(xs))] }

func wrapU(p node) node { return node{p.text, sx.L(sx.A("P"), p.ast)} }
func wrapC(u node) node { return node{u.text, sx.L(sx.A("C"), u.ast)} }
func wrapQ(c node) node { return node{c.text, sx.L(sx.A("Q"), c.ast)} }
func wrapL(q node) node { return node{q.text, sx.L(sx.A("L"), q.ast)} }
func wrapE(l node) node { return node{l.text, sx.L(sx.A("E"), l.ast)} }

func callNode(ident string, params sx.Sx, sel sx.Sx, text string) node {
	return node{text, sx.L(sx.A("call"), sx.S(ident), params, sel)}
}

func (g *kgen) literal() node {
	switch g.r.Intn(6) {
	case 0, 1:
		n := g.pick(kflNumbers)
		return node{n, sx.L(sx.A("num"), sx.A(n))}
	case 2, 3:
		s := g.pick(kflStrings)
		return node{"\"" + s + "\"", sx.L(sx.A("str"), sx.S(s))}
	case 4:
		if g.r.Bool() {
			return node{"true", sx.A("true")}
		}
		return node{"false", sx.A("false")}
	default:
		return node{"nil", sx.A("nil")}
	}
}

// pathRef: a plain path, possibly with [i] / ["k"] and a continuation.
func (g *kgen) pathRef() node {
	switch g.r.Intn(10) {
	case 0: // index
		i := g.r.Intn(4)
		return callNode("c", sx.A("noparams"), sx.L(sx.A("sel"), sx.N(i), sx.A("-"), sx.A("-"), sx.A("-")), fmt.Sprintf("c[%d]", i))
	case 1: // key
		if g.r.Chance(30) { // keys with upper-case letters and a dash, as HTTP header names are spelled
			k := g.pick([]string{"Content-Type", "X-Id", "content-type", "Missing-Key"})
			return callNode("H", sx.A("noparams"), sx.L(sx.A("sel"), sx.A("-"), sx.S(k), sx.A("-"), sx.A("-")), fmt.Sprintf("H[\"%s\"]", k))
		}
		k := g.pick([]string{"e", "n", "zz"})
		return callNode("d", sx.A("noparams"), sx.L(sx.A("sel"), sx.A("-"), sx.S(k), sx.A("-"), sx.A("-")), fmt.Sprintf("d[\"%s\"]", k))
	case 2: // index then continuation: arr[i].x <rest is added by the caller as part of the select expression>
		return callNode(g.pick(kflPaths), sx.A("noparams"), sx.A("nosel"), "")
	default:
		p := g.pick(kflPaths)
		c := callNode(p, sx.A("noparams"), sx.A("nosel"), p)
		if strings.HasSuffix(p, "*") {
			// `c.* and x` would lex as the identifier `c.*and`: keep a trailing wildcard in parentheses
			e := wrapE(wrapL(wrapQ(wrapC(wrapU(c)))))
			return node{"(" + e.text + ")", sx.L(sx.A("sub"), e.ast)}
		}
		return c
	}
}

func (g *kgen) helperCall() node {
	p := g.pick([]string{"b", "s", "d.e", "a", "zz", "f", "c"})
	arg := g.pick(kflStrings)
	argNode := wrapE(wrapL(wrapQ(wrapC(wrapU(node{"\"" + arg + "\"", sx.L(sx.A("str"), sx.S(arg))})))))
	switch g.r.Intn(8) {
	case 0, 1, 2:
		h := g.pick([]string{"startsWith", "endsWith", "contains"})
		return callNode(p+"."+h, sx.L(sx.A("params"), argNode.ast), sx.A("nosel"), fmt.Sprintf("%s.%s(%s)", p, h, argNode.text))
	case 3:
		n := g.pick([]string{"0", "1", "5", "100"})
		nn := wrapE(wrapL(wrapQ(wrapC(wrapU(node{n, sx.L(sx.A("num"), sx.A(n))})))))
		return callNode("limit", sx.L(sx.A("params"), nn.ast), sx.A("nosel"), fmt.Sprintf("limit(%s)", n))
	case 4:
		h := g.pick([]string{"foo", "startsWithx", "bar"})
		return callNode(p+"."+h, sx.L(sx.A("params"), argNode.ast), sx.A("nosel"), fmt.Sprintf("%s.%s(%s)", p, h, argNode.text))
	case 5: // ill-typed helper arguments
		h := g.pick([]string{"json", "now", "startsWith", "limit", "seconds"})
		return callNode(p+"."+h, sx.L(sx.A("params"), argNode.ast), sx.A("nosel"), fmt.Sprintf("%s.%s(%s)", p, h, argNode.text))
	default:
		// json() selectors: j.json().k[1], j.json().m.x, jb.json().m.x, j.json()..x
		src := g.pick([]string{"j", "jb", "b", "zz"})
		switch g.r.Intn(4) {
		case 0:
			inner := callNode("m.x", sx.A("noparams"), sx.A("nosel"), "m.x")
			return g.selectTail(src+".json", inner, src+".json().")
		case 1:
			i := g.r.Intn(3)
			inner := callNode("k", sx.A("noparams"), sx.L(sx.A("sel"), sx.N(i), sx.A("-"), sx.A("-"), sx.A("-")), fmt.Sprintf("k[%d]", i))
			return g.selectTail(src+".json", inner, src+".json().")
		case 2:
			name := g.pick([]string{"x", "k", "q"})
			return callNode(src+".json", sx.A("noparams"), sx.L(sx.A("sel"), sx.A("-"), sx.A("-"), sx.S(name), sx.A("-")), fmt.Sprintf("%s.json()..%s", src, name))
		default:
			k := g.pick([]string{"k", "m", "q"})
			return callNode(src+".json", sx.A("noparams"), sx.L(sx.A("sel"), sx.A("-"), sx.S(k), sx.A("-"), sx.A("-")), fmt.Sprintf("%s.json()[\"%s\"]", src, k))
		}
	}
}

// selectTail builds `outer.<inner cmp literal>`: the select expression swallows the rest of
// the comparison, as the grammar does.
func (g *kgen) selectTail(outerIdent string, inner node, prefixText string) node {
	op := g.pick([]string{"==", "!=", ">", "<", ">=", "<="})
	lit := g.literal()
	var innerExpr node
	if op == "==" || op == "!=" {
		q := node{inner.text + " " + op + " " + lit.text, sx.L(sx.A("Q"), wrapC(wrapU(inner)).ast, sx.A(op), wrapQ(wrapC(wrapU(lit))).ast)}
		innerExpr = wrapE(wrapL(q))
	} else {
		c := node{inner.text + " " + op + " " + lit.text, sx.L(sx.A("C"), wrapU(inner).ast, sx.A(op), wrapC(wrapU(lit)).ast)}
		innerExpr = wrapE(wrapL(wrapQ(c)))
	}
	c := callNode(outerIdent, sx.A("noparams"), sx.L(sx.A("sel"), sx.A("-"), sx.A("-"), sx.A("-"), innerExpr.ast), prefixText+innerExpr.text)
	// the select expression swallows everything up to the closing parenthesis: keep it in one
	e := wrapE(wrapL(wrapQ(wrapC(wrapU(c)))))
	return node{"(" + e.text + ")", sx.L(sx.A("sub"), e.ast)}
}

func (g *kgen) primary(depth int) node {
	switch k := g.r.Intn(12); {
	case k < 3:
		return g.literal()
	case k < 7:
		p := g.pathRef()
		if p.text == "" { // continuation form: arr[i].x op lit  /  d["e"] ...
			i := g.r.Intn(3)
			inner := callNode("x", sx.A("noparams"), sx.A("nosel"), "x")
			n := g.selectTail("arr", inner, fmt.Sprintf("arr[%d].", i))
			// patch the index into the select of the call inside (sub (E (L (Q (C (P (call ...)))))))
			call := n.ast.List[1].List[1].List[1].List[1].List[1].List[1]
			call.List[3].List[1] = sx.N(i)
			return n
		}
		return p
	case k < 9:
		return g.helperCall()
	case k < 10:
		rx := g.pick(kflRegexes)
		return node{"r\"" + rx + "\"", sx.L(sx.A("re"), sx.S(rx))}
	default:
		if depth <= 0 {
			return g.literal()
		}
		e := g.expr(depth - 1)
		return node{"(" + e.text + ")", sx.L(sx.A("sub"), e.ast)}
	}
}

func endsWithSelect(n node) bool {
	// a primary whose select expression swallowed a comparison must end its operand chain
	return strings.Contains(n.ast.String(), "(sel ") && n.ast.List[0].Atom == "call" && n.ast.List[3].IsList && n.ast.List[3].List[4].IsList
}

func (g *kgen) unary(depth int) node {
	if g.r.Chance(15) {
		op := g.pick([]string{"!", "-"})
		u := g.unary(depth)
		return node{op + u.text, sx.L(sx.A("U"), sx.A(op), u.ast)}
	}
	return wrapU(g.primary(depth))
}

func (g *kgen) comparison(depth int) node {
	u := g.unary(depth)
	if g.r.Chance(25) {
		op := g.pick([]string{">", "<", ">=", "<="})
		n := g.comparison0(depth)
		return node{u.text + " " + op + " " + n.text, sx.L(sx.A("C"), u.ast, sx.A(op), n.ast)}
	}
	return wrapC(u)
}

func (g *kgen) comparison0(depth int) node { return wrapC(g.unary(depth)) }

func swallows(n node) bool {
	s := n.ast.String()
	return strings.Contains(s, "- (E (") // a select expression holding an expression
}

func (g *kgen) equality(depth int) node {
	c := g.comparison(depth)
	if g.r.Chance(55) {
		op := g.pick([]string{"==", "!="})
		n := wrapQ(g.comparison(depth))
		return node{c.text + " " + op + " " + n.text, sx.L(sx.A("Q"), c.ast, sx.A(op), n.ast)}
	}
	return wrapQ(c)
}

func (g *kgen) logical(depth int) node {
	q := g.equality(depth)
	if g.r.Chance(40) {
		op := g.pick([]string{"and", "or"})
		n := g.logical(depth)
		return node{q.text + " " + op + " " + n.text, sx.L(sx.A("L"), q.ast, sx.A(op), n.ast)}
	}
	return wrapL(q)
}

func (g *kgen) expr(depth int) node { return wrapE(g.logical(depth)) }

func sStr(s string) sx.Sx { return sx.L(sx.A("s"), sx.S(s)) }
func sInt(n int64) sx.Sx  { return sx.L(sx.A("i"), sx.I(n)) }
func sFlt(d string) sx.Sx { return sx.L(sx.A("f"), sx.A(d)) }
func sObj(kv ...sx.Sx) sx.Sx {
	out := []sx.Sx{sx.A("o")}
	for i := 0; i+1 < len(kv); i += 2 {
		out = append(out, sx.L(kv[i], kv[i+1]))
	}
	return sx.L(out...)
}
func sArr(xs ...sx.Sx) sx.Sx { return sx.L(append([]sx.Sx{sx.A("a")}, xs...)...) }

func (g *kgen) record() sx.Sx {
	r := g.r
	nested := `{"k":[1,2],"m":{"x":"y"},"q":5}`
	if r.Chance(50) {
		// selectors after json() that match several values which disagree (the helper yields the first)
		nested = `{"k":[1,2],"m":{"x":"y","q":7},"q":5,"n":{"x":"z","k":[3]}}`
	}
	fields := []sx.Sx{}
	add := func(k string, v sx.Sx) {
		if r.Chance(85) {
			fields = append(fields, sx.S(k), v)
		}
	}
	scalar := func() sx.Sx {
		if len(g.pref) > 0 && r.Chance(45) {
			p := g.pref[r.Intn(len(g.pref))]
			if r.Chance(20) {
				return sStr(p)
			}
			if strings.Contains(p, ".") {
				return sFlt(p)
			}
			if n, err := strconv.ParseInt(p, 10, 64); err == nil {
				return sInt(n)
			}
		}
		switch r.Intn(8) {
		case 0:
			return sInt([]int64{0, 1, 5, 12, 1234567, -3, 1000000, 16777217, 20000001, 123456789, 4294967297}[r.Intn(11)])
		case 1:
			return sFlt([]string{"1.5", "0.1", "3.14", "1234567.4", "5.0", "-2.5"}[r.Intn(6)])
		case 2:
			return sStr(g.pick(kflStrings))
		case 3:
			return sx.A("null")
		case 4:
			return sx.A([]string{"true", "false"}[r.Intn(2)])
		default:
			return sStr("hello")
		}
	}
	add("a", func() sx.Sx {
		if r.Chance(70) && (len(g.pref) == 0 || r.Bool()) {
			return sInt(5)
		}
		return scalar()
	}())
	add("b", func() sx.Sx {
		if r.Chance(70) {
			return sStr("hello")
		}
		return scalar()
	}())
	add("c", sArr(sInt(1), sInt(2), sInt(3)))
	add("d", sObj(sx.S("e"), sStr("x"), sx.S("n"), sInt(7)))
	add("f", sFlt("1.5"))
	add("s", sStr("12"))
	add("n", sx.A("null"))
	add("t", sx.A("true"))
	if len(g.pref) > 0 && r.Bool() {
		add("big", scalar())
	} else {
		add("big", sInt([]int64{1234567, 1234567, 16777217, 123456789}[r.Intn(4)]))
	}
	add("neg", sInt(-3))
	add("arr", sArr(sObj(sx.S("x"), sInt(1)), sObj(sx.S("x"), sInt(2)), sObj(sx.S("x"), scalar())))
	add("j", sStr(nested))
	// base64 as the base64 tool, PEM and MIME writers emit it: a trailing newline, lines of 16 / 20 characters, a line
	// break inside the first quantum (encoding/base64 skips CR and LF, and json() / xml() read such a body like any other)
	jb := base64.StdEncoding.EncodeToString([]byte(nested))
	switch r.Intn(8) {
	case 0:
		jb += "\n"
	case 1:
		jb = wrapLines(jb, 16, "\r\n")
	case 2:
		jb = wrapLines(jb, 20, "\n") + "\n"
	case 3:
		jb = jb[:2] + "\n" + jb[2:]
	}
	add("jb", sStr(jb))
	add("H", sObj(sx.S("Content-Type"), sStr("hello"), sx.S("X-Id"), sInt(5), sx.S("ContentType"), sStr("hello"), sx.S("XId"), sInt(5)))
	return sx.L(append([]sx.Sx{sx.A("o")}, pairs(fields)...)...)
}

func pairs(flat []sx.Sx) []sx.Sx {
	var out []sx.Sx
	for i := 0; i+1 < len(flat); i += 2 {
		out = append(out, sx.L(flat[i], flat[i+1]))
	}
	return out
}

func genKflEval(r *Rand, tier string, emit func(sx.Sx)) {
	g := &kgen{r: r}
	count := 4000
	if tier == "thorough" {
		count = 80000
	}
	// coherence block: one comparison between a path and a number, the record holding that number
	// (as integer, float or numeric string) or a neighbour of it, alone or inside an array
	{
		ident := func(p string) node { return callNode(p, sx.A("noparams"), sx.A("nosel"), p) }
		lits := []string{"5", "1234567", "16777217", "20000001", "123456789", "4294967297", "9007199254740991", "0.1", "0.1000000001", "1234567.4", "-3"}
		type shape struct {
			path string
			rec  func(v sx.Sx) sx.Sx
		}
		obj := func(kv ...sx.Sx) sx.Sx { return sx.L(append([]sx.Sx{sx.A("o")}, pairs(kv)...)...) }
		shapes := []shape{
			{"a", func(v sx.Sx) sx.Sx { return obj(sx.S("a"), v) }},
			{"d.n", func(v sx.Sx) sx.Sx { return obj(sx.S("d"), sObj(sx.S("n"), v)) }},
			{"c.*", func(v sx.Sx) sx.Sx { return obj(sx.S("c"), sArr(sInt(1), v, sInt(3))) }},
			{"arr.*.x", func(v sx.Sx) sx.Sx { return obj(sx.S("arr"), sArr(sObj(sx.S("x"), sInt(1)), sObj(sx.S("x"), v))) }},
		}
		for _, lit := range lits {
			for _, sh := range shapes {
				var vals []sx.Sx
				if strings.Contains(lit, ".") {
					vals = []sx.Sx{sFlt(lit), sStr(lit)}
				} else {
					n, _ := strconv.ParseInt(lit, 10, 64)
					vals = []sx.Sx{sInt(n), sStr(lit), sInt(n + 1), sInt(n - 1)}
				}
				for _, v := range vals {
					for _, op := range []string{"==", "!=", ">=", "<=", ">", "<"} {
						l, rr := ident(sh.path), node{lit, sx.L(sx.A("num"), sx.A(lit))}
						if strings.HasPrefix(lit, "-") {
							continue // a negative literal is a unary minus: left to the random part
						}
						if r.Bool() {
							l, rr = rr, l
						}
						var q node
						if op == "==" || op == "!=" {
							q = node{l.text + " " + op + " " + rr.text, sx.L(sx.A("Q"), wrapC(wrapU(l)).ast, sx.A(op), wrapQ(wrapC(wrapU(rr))).ast)}
						} else {
							q = wrapQ(node{l.text + " " + op + " " + rr.text, sx.L(sx.A("C"), wrapU(l).ast, sx.A(op), wrapC(wrapU(rr)).ast)})
						}
						e := wrapE(wrapL(q))
						emit(sx.L(sx.S(e.text), e.ast, sh.rec(v)))
					}
				}
			}
		}
	}
	// coherence block 2: two array results compared (every operator, both orders), with and
	// without a shared boundary value; an array against a scalar equal to one of its elements
	{
		ident := func(p string) node { return callNode(p, sx.A("noparams"), sx.A("nosel"), p) }
		obj := func(kv ...sx.Sx) sx.Sx { return sx.L(append([]sx.Sx{sx.A("o")}, pairs(kv)...)...) }
		ints := func(xs ...int64) sx.Sx {
			var out []sx.Sx
			for _, x := range xs {
				out = append(out, sInt(x))
			}
			return sArr(out...)
		}
		strs := func(xs ...string) sx.Sx {
			var out []sx.Sx
			for _, x := range xs {
				out = append(out, sStr(x))
			}
			return sArr(out...)
		}
		arrays := [][2]sx.Sx{{ints(2, 3), ints(1, 2)}, {ints(5, 5), ints(5, 5)}, {ints(1, 2, 3), ints(3, 4)}, {ints(4, 6), ints(1, 2)},
			{ints(2), ints(2)}, {ints(1, 2), ints(2, 3)}, {ints(7, 8), ints(7)},
			// document order is part of an array's value: unsorted arrays, the same elements in another order
			{ints(3, 1, 2), ints(3, 1, 2)}, {ints(2, 1), ints(1, 2)}, {ints(10, 9), ints(10, 9)}, {ints(3, 1, 2), ints(1, 2, 3)},
			// arrays of strings, numeric and not: ordering converts them for the comparison only
			{strs("10", "9", "8"), strs("1", "2")}, {strs("1.5", "2"), strs("3")}, {strs("x", "y"), strs("z")}, {strs("2", "b"), ints(1, 2)}}
		for _, ab := range arrays {
			for _, op := range []string{"==", "!=", ">=", "<=", ">", "<"} {
				for _, order := range [][2]string{{"c.*", "e.*"}, {"e.*", "c.*"}, {"c", "e"}, {"c.*", "e"}, {"c", "e.*"}} {
					l, rr := ident(order[0]), ident(order[1])
					var q node
					if op == "==" || op == "!=" {
						q = node{l.text + " " + op + " " + rr.text, sx.L(sx.A("Q"), wrapC(wrapU(l)).ast, sx.A(op), wrapQ(wrapC(wrapU(rr))).ast)}
					} else {
						q = wrapQ(node{l.text + " " + op + " " + rr.text, sx.L(sx.A("C"), wrapU(l).ast, sx.A(op), wrapC(wrapU(rr)).ast)})
					}
					e := wrapE(wrapL(q))
					emit(sx.L(sx.S(e.text), e.ast, obj(sx.S("c"), ab[0], sx.S("e"), ab[1])))
				}
			}
		}
	}
	// coherence block 3: a pattern that is an anchored literal (or a bare one) against values that are equal to
	// it, contain it, start or end with it - through a plain path and through a wildcard over an array
	{
		ident := func(p string) node { return callNode(p, sx.A("noparams"), sx.A("nosel"), p) }
		obj := func(kv ...sx.Sx) sx.Sx { return sx.L(append([]sx.Sx{sx.A("o")}, pairs(kv)...)...) }
		for _, rx := range []string{"^GET$", "^v1$", "GET", "^GET", "GET$", "^$", "^/api$"} {
			for _, val := range []string{"GET", "TARGET-X", "GETS", "xGET", "v1", "v10", "/api", "/api/v1/users", ""} {
				for _, op := range []string{"==", "!="} {
					for _, pth := range []string{"m", "seg.*"} {
						re := node{"r\"" + rx + "\"", sx.L(sx.A("re"), sx.S(rx))}
						for _, flip := range []bool{false, true} {
							l, rr := ident(pth), re
							if flip {
								l, rr = re, ident(pth)
							}
							q := node{l.text + " " + op + " " + rr.text, sx.L(sx.A("Q"), wrapC(wrapU(l)).ast, sx.A(op), wrapQ(wrapC(wrapU(rr))).ast)}
							e := wrapE(wrapL(q))
							emit(sx.L(sx.S(e.text), e.ast, obj(sx.S("m"), sStr(val), sx.S("seg"), sArr(sStr("api"), sStr(val), sStr("users")))))
						}
					}
				}
			}
		}
	}
	// literals at the edges of the integer types (2^31, 2^53, 2^63, 2^64) against small numbers of the record: ordering is
	// numeric whatever width an implementation keeps its integers in
	{
		ident := func(p string) node { return callNode(p, sx.A("noparams"), sx.A("nosel"), p) }
		obj := func(kv ...sx.Sx) sx.Sx { return sx.L(append([]sx.Sx{sx.A("o")}, pairs(kv)...)...) }
		for _, lit := range []string{"2147483647", "2147483648", "4294967296", "9007199254740992", "9223372036854775807", "9223372036854775808", "18446744073709551615", "18446744073709551616", "100000000000000000000"} {
			for _, op := range []string{">=", "<=", ">", "<"} {
				for _, flip := range []bool{false, true} {
					for _, neg := range []bool{false, true} {
						v, _ := strconv.ParseFloat(lit, 64)
						n := node{lit, sx.L(sx.A("num"), sx.A(strconv.FormatFloat(v, 'f', -1, 64)))} // as the parser holds it: a float64
						lu, ru := wrapU(ident("seq")), wrapU(n)
						if neg {
							ru = node{"-" + lit, sx.L(sx.A("U"), sx.A("-"), wrapU(n).ast)}
						}
						if flip {
							lu, ru = ru, lu
						}
						q := wrapQ(node{lu.text + " " + op + " " + ru.text, sx.L(sx.A("C"), lu.ast, sx.A(op), wrapC(ru).ast)})
						e := wrapE(wrapL(q))
						emit(sx.L(sx.S(e.text), e.ast, obj(sx.S("seq"), sInt(5), sx.S("neg"), sInt(-3))))
					}
				}
			}
		}
	}
	// the same literals under == and !=, which compare the text of the numbers: against a small number of the
	// record and against their own negation (a number never equals its negation unless it is zero)
	{
		ident := func(p string) node { return callNode(p, sx.A("noparams"), sx.A("nosel"), p) }
		obj := func(kv ...sx.Sx) sx.Sx { return sx.L(append([]sx.Sx{sx.A("o")}, pairs(kv)...)...) }
		for _, lit := range []string{"2147483648", "4294967296", "9007199254740992", "9223372036854775807", "9223372036854775808", "18446744073709551615", "18446744073709551616", "100000000000000000000"} {
			v, _ := strconv.ParseFloat(lit, 64)
			n := node{lit, sx.L(sx.A("num"), sx.A(strconv.FormatFloat(v, 'f', -1, 64)))}
			pos := wrapU(n)
			negl := node{"-" + lit, sx.L(sx.A("U"), sx.A("-"), wrapU(n).ast)}
			for _, op := range []string{"==", "!="} {
				for _, pr := range [][2]node{{wrapU(ident("seq")), pos}, {wrapU(ident("seq")), negl}, {pos, negl}, {negl, pos}, {wrapU(ident("neg")), negl}} {
					l, rr := pr[0], pr[1]
					q := node{l.text + " " + op + " " + rr.text, sx.L(sx.A("Q"), wrapC(l).ast, sx.A(op), wrapQ(wrapC(rr)).ast)}
					e := wrapE(wrapL(q))
					emit(sx.L(sx.S(e.text), e.ast, obj(sx.S("seq"), sInt(5), sx.S("neg"), sInt(-3))))
				}
			}
		}
	}
	// strings that strconv.ParseFloat reads as an infinity ("Infinity", "inf", "+Inf", "-INF" ...) or as NaN under the ordering
	// operators: the numeric coercion of a string is ParseFloat; an infinity orders beyond every number, nothing holds of a NaN
	{
		ident := func(p string) node { return callNode(p, sx.A("noparams"), sx.A("nosel"), p) }
		obj := func(kv ...sx.Sx) sx.Sx { return sx.L(append([]sx.Sx{sx.A("o")}, pairs(kv)...)...) }
		for _, inf := range []string{"Infinity", "inf", "Inf", "INF", "+Inf", "-Infinity", "-inf", "infinity", "Infinit", "in", "+", "-",
			// "nan" in any case is ParseFloat's NaN, of which no ordering holds; with a sign or a suffix it is no number (0)
			"NaN", "nan", "NAN", "+nan", "-NaN", "nanx", "na"} {
			for _, op := range []string{">=", "<=", ">", "<"} {
				for _, lit := range []string{"100", "0", "123456789"} {
					for _, pth := range []string{"q", "qs.*"} {
						for _, flip := range []bool{false, true} {
							n := wrapU(node{lit, sx.L(sx.A("num"), sx.A(lit))})
							lu, ru := wrapU(ident(pth)), n
							if flip {
								lu, ru = ru, lu
							}
							q := wrapQ(node{lu.text + " " + op + " " + ru.text, sx.L(sx.A("C"), lu.ast, sx.A(op), wrapC(ru).ast)})
							e := wrapE(wrapL(q))
							emit(sx.L(sx.S(e.text), e.ast, obj(sx.S("q"), sStr(inf), sx.S("qs"), sArr(sStr("10"), sStr(inf)))))
						}
					}
				}
			}
		}
	}
	// negative zero: the literal -0 and a -0.0 of the record are numerically zero under every operator
	{
		ident := func(p string) node { return callNode(p, sx.A("noparams"), sx.A("nosel"), p) }
		obj := func(kv ...sx.Sx) sx.Sx { return sx.L(append([]sx.Sx{sx.A("o")}, pairs(kv)...)...) }
		negZero := node{"-0", sx.L(sx.A("U"), sx.A("-"), sx.L(sx.A("P"), sx.L(sx.A("num"), sx.I(0))))}
		for _, op := range []string{"==", "!=", ">=", "<=", ">", "<"} {
			for _, pth := range []string{"z", "w", "arr.*"} {
				for _, flip := range []bool{false, true} {
					var l, rr node
					lu, ru := wrapU(ident(pth)), negZero
					if flip {
						lu, ru = negZero, wrapU(ident(pth))
					}
					l, rr = lu, ru
					var q node
					if op == "==" || op == "!=" {
						q = node{l.text + " " + op + " " + rr.text, sx.L(sx.A("Q"), wrapC(l).ast, sx.A(op), wrapQ(wrapC(rr)).ast)}
					} else {
						q = wrapQ(node{l.text + " " + op + " " + rr.text, sx.L(sx.A("C"), l.ast, sx.A(op), wrapC(rr).ast)})
					}
					e := wrapE(wrapL(q))
					emit(sx.L(sx.S(e.text), e.ast, obj(sx.S("z"), sInt(0), sx.S("w"), sFlt("-0.0"), sx.S("arr"), sArr(sInt(1), sInt(0)))))
				}
			}
		}
	}
	for i := 0; i < count; i++ {
		e := g.expr(2)
		g.pref = jsonNumbers(kflNumRe.FindAllString(e.text, -1))
		emit(sx.L(sx.S(e.text), e.ast, g.record()))
		g.pref = nil
	}
}

// Family kfl.fuzz (C13): any query text against any record text.
// payload: (#query #record) ; observation: (ok stage) — a panic is caught by the runner.
func runKflFuzz(p sx.Sx) sx.Sx {
	q, rec := p.List[0].Str(), p.List[1].Str()
	if err := kfl.Validate(q); err != nil {
		// Validate = expand + parse; still try the full pipeline below
		_ = err
	}
	expr, _, err := kfl.PrepareQuery(q)
	if err != nil || expr == nil {
		return sx.L(sx.A("ok"), sx.A("prepare-error"))
	}
	_, _, err = kfl.Eval(expr, rec)
	if err != nil {
		return sx.L(sx.A("ok"), sx.A("eval-error"))
	}
	_, _, err = kfl.Apply([]byte(rec), q)
	return sx.L(sx.A("ok"), sx.A("evaluated"))
}

func genKflFuzz(r *Rand, tier string, emit func(sx.Sx)) {
	goodRec := `{"a":5,"b":"hello","c":[1,2,3],"d":{"e":"x"},"j":"{\"k\":[1,2]}","jb":"eyJrIjpbMSwyXX0=","x":"<a id=\"1\"><b>1</b><b>2</b><c><d>3</d></c></a>","xb":"PGE+PGI+MTwvYj48L2E+","g":"!!garbage"}`
	records := []string{goodRec, `{}`, `[]`, `[1,2,{"a":[{"b":null}]}]`, `"str"`, `5`, `null`, ``, `{`, `{"a":`, `{"a":{"a":{"a":{"a":{"a":{"a":1}}}}}}`,
		`{"x":"<a><a><a><a></a></a></a></a>","j":"[[[[[[]]]]]]","jb":"W1tbW11dXV0="}`, `{"x":"<?xml version=\"1.0\"?><r a=\"b\"><s>t</s><s u=\"v\">w</s></r>"}`, "\x00\xff"}
	emitQ := func(q string) {
		emit(sx.L(sx.S(q), sx.S(records[r.Intn(len(records))])))
		emit(sx.L(sx.S(q), sx.S(goodRec)))
	}
	fixed := []string{"a.(\"x\")", "a.json(\"x\")", "a.now(5)", "x.xml().a.c == 1", "x.xml().a.b == 1", "j.json()[`a\"b`] == 1", "j.xml()[`a\"b`] == 1",
		"a. == 1", "now.x(1)", "a.redact()", "redact", "json()", "json().a", "xml()[0]", "limit", "seconds(a)", "a.seconds(b.c)", "limit(-1)", "limit(1e30)",
		"a == r\"(\"", "a == r\"[\"", "b == r\"[\" and a == 5", "r\"(\" == b", "b != r\"*a\" or a == 1", "(b == r\"[\") and true", "b == r\"[\" and b == r\"h.*\"",
		"b.startsWith(r\"[\") and a == 5", "!(b == r\"(\") or a == 5", "d.e == r\"(?P<x\" and a == 5", "datetime(\"x\")", "a.datetime(1,2,3)", "redact(\"x.xml().a.b\")", "redact(\"xb.xml().a.b\")", "redact(\"j.json().k\", \"jb.json().k\")",
		"redact(\"..\")", "redact(\"\")", "redact(\"$\")", "redact(\"[\")", "redact(1)", "redact(nil)", "redact(a)", "redact(\"g.json().x\")", "redact(\"c.json().x\")", "redact(\"x.xml()\")",
		"x.xml()", "x.xml().a", "x.xml()..b", "x.xml()[0]", "g.xml().a", "g.json().a", "c.json().a", "d.json().e", "a.b.c.d.e.f", "c[99999999999999999999]", "c[-1]", "a[*]", "a.*.*.*",
		"a.*(\"x\")", "a..(\"x\")", "b == \"hello\" or a.b.*(1, 2)", "http and request.headers.*(\"x\")", "a.*.b()", "a..b()", "c.*()", "d..()", "*.a()", "a.*.*(1)",
		"", " ", "(", ")", "()", "((((", "and", "or or", "!", "-", "!!!!!!!!a", "--------a", "a ==", "== a", "a == == a", "\"", "\"abc", "r\"", "'c'", "`raw`", "a.b(", "a.b(,)", "a.b(x:)", "a.b(x: 1, y: 2, 3)",
		"http and redis and http2", "a == 1e999", "a == 0x10", "a == 1_000", "a == .5.5", "\x00", "\xff\xfe", "日本語 == \"日本語\"", "a == \"\\\"\""}
	for _, f := range fixed {
		emitQ(f)
	}
	// lists whose elements are objects or arrays under == / != (cookies against cookies, a matrix against itself):
	// comparable as values, not with Go's == on interface values
	listRec := `{"ck":[{"name":"a","value":"b"}],"sk":[{"name":"a","value":"b"}],"two":[{"x":1},{"x":2}],"m":[[1],[2]],"mix":[1,{"x":1},[2]],"n":[null,null],"s":[1,2]}`
	for _, q := range []string{"ck == sk", "ck != sk", "ck == ck", "two == two", "two != ck", "m == m", "m != m", "mix == mix", "ck.* == sk.*", "two.* != two.*", "n == n", "s == s",
		"m == two", "ck == 1", "1 == ck", "two.*.x == s", "m.* == s", "ck >= sk", "m < m"} {
		emit(sx.L(sx.S(q), sx.S(listRec)))
	}
	// depth: the parser recurses once per parenthesis, unary operator and clause - queries just inside what it
	// accepts, and far beyond (a stack overflow is fatal to the process, not a panic)
	for _, k := range []int{1500, 300000} {
		deep := []string{
			strings.Repeat("(", k) + "a" + strings.Repeat(")", k),
			strings.Repeat("(", k),
			strings.Repeat("!", k) + "a",
			strings.Repeat("-", k) + "a",
			"a" + strings.Repeat(".b", k),
			"a" + strings.Repeat("[0]", k),
			strings.TrimSuffix(strings.Repeat(`request.payload.topics[7].name == "x" and `, k/6), " and "),
			strings.TrimSuffix(strings.Repeat(`a or `, k/2), " or "),
			"redact(" + strings.TrimSuffix(strings.Repeat(`"a", `, k/2), ", ") + ")",
			strings.Repeat("a.json().", k/4) + "b == 1",
			`b == "` + strings.Repeat("x", 8*k) + `"`,
		}
		for _, q := range deep {
			emit(sx.L(sx.S(q), sx.S(goodRec)))
		}
	}
	// fields that are neither JSON nor XML, with brackets of every kind in every order, under the
	// helpers that try to read them as documents
	garbage := []string{":) (", "x)(", "cb(", "cb)", "()", ")(", "](", "}{", "][", "/**/ cb({\"a\":1});", "cb({\"a\":1})", "((((", "))))", "{\"a\":", "[1,2", "\"", "'", "<", ">", "><",
		"1) first (of two", "{}{}", "[][]", "null", "true", "12", "-", "e", "\\", "\u0000", " ", "\t\n"}
	docQueries := []string{`g.json().a == 1`, `g.json()..a == 1`, `g.json()["a"] == 1`, `g.json()[0] == 1`, `g.xml().a == 1`, `g.xml()..a == 1`,
		`redact("g.json().a")`, `redact("g.xml().a")`, `g.json().a.startsWith("x")`, `g.json().a or g.xml().a`}
	for _, gs := range garbage {
		for _, enc := range []bool{false, true} {
			v, _ := strconvUnquote(gs)
			if enc {
				v = base64.StdEncoding.EncodeToString([]byte(v))
			}
			rec, _ := json.Marshal(map[string]interface{}{"g": v, "a": 1})
			for _, q := range docQueries {
				emit(sx.L(sx.S(q), sx.S(string(rec))))
			}
		}
	}
	// XML documents of every shape under every xml() query and redaction: with and without a
	// declaration, on one line or several, plain and base64, with attributes, CDATA, namespaces, empty
	xmlDocs := []string{
		`<?xml version="1.0"?><r a="b"><s>t</s><s u="v">w</s></r>`,
		"<?xml version=\"1.0\" encoding=\"UTF-8\"?>\n<r a=\"b\"><s>t</s><s u=\"v\">w</s></r>",
		"<?xml version=\"1.0\"?>\r\n<r>\r\n  <s>t</s>\r\n</r>\r\n",
		`<r a="b"><s>t</s><s u="v">w</s></r>`, `<r/>`, `<r></r>`, `<?xml version="1.0"?>`, `<?xml`, `<?`, `<r><![CDATA[x<y]]></r>`,
		`<soap:Envelope xmlns:soap="u"><soap:Body><card>4111</card></soap:Body></soap:Envelope>`,
		// declared encodings: implemented ones, registered ones without an implementation, unknown ones
		"<?xml version=\"1.0\" encoding=\"ISO-8859-1\"?><r><s>t</s></r>", "<?xml version=\"1.0\" encoding=\"GB2312\"?><r><s>t</s></r>",
		"<?xml version=\"1.0\" encoding=\"UTF-32\"?><r><s>t</s></r>", "<?xml version=\"1.0\" encoding=\"UTF-7\"?><r><s>t</s></r>",
		"<?xml version=\"1.0\" encoding=\"TIS-620\"?><r><s>t</s></r>", "<?xml version=\"1.0\" encoding=\"ISO-2022-KR\"?><r><s>t</s></r>",
		"<?xml version=\"1.0\" encoding=\"Big5-HKSCS\"?><r><s>t</s></r>", "<?xml version=\"1.0\" encoding=\"utf-16\"?><r><s>t</s></r>",
		"<?xml version=\"1.0\" encoding=\"no-such-charset\"?><r><s>t</s></r>", "<?xml version=\"1.0\" encoding=\"\"?><r><s>t</s></r>",
		"<?xml version=\"1.0\" encoding=\"windows-1252\"?><r a=\"b\"><s>caf\xe9</s></r>",
		`<?xml version="1.0"?><envelope><body><card>4111</card></body></envelope>`, ``, `<`, `<r>`, "<r>\n<s>1</s>\n</r>",
	}
	xmlQueries := []string{`redact("x.xml().r")`, `redact("x.xml().r.s")`, `redact("x.xml().nosuch")`, `redact("x.xml().r.nosuch")`, `redact("x.xml()")`,
		`redact("x.xml().envelope")`, `redact("x.xml().envelope.body.card")`, `redact("x.xml().r.s[0]")`, `redact("x.xml().r.-a")`, `redact("x.xml()..s")`,
		`redact("x.xml().r", "x.xml().r.s")`, `redact("x.xml().r.s[-1]")`, `redact("x.xml().r[-1].s")`, `redact("x.xml().r.s[99]")`, `redact("x.xml().r.s[1].-u")`,
		`redact("x.xml().r.s[x]")`, `redact("x.xml().r.s[")`, `redact("x.xml().r.s[1:2]")`, `x.xml().r.s[-1] == "w"`, `x.xml().r.s == "t"`, `x.xml().r == "t"`, `x.xml().envelope.body.card == "4111"`, `x.xml().r.s[1] == "w"`}
	for _, d := range xmlDocs {
		for _, enc := range []bool{false, true} {
			v := d
			if enc {
				v = base64.StdEncoding.EncodeToString([]byte(d))
			}
			rec, _ := json.Marshal(map[string]interface{}{"x": v, "a": 1})
			for _, q := range xmlQueries {
				emit(sx.L(sx.S(q), sx.S(string(rec))))
			}
		}
	}
	// macro names inside literals of growing length (expansion must terminate, in linear time)
	for _, n := range []int{10, 20, 26, 40, 120} {
		tail := strings.Repeat("client library build x", n/22+1)[:n]
		emitQ("b == \"http " + tail + "\"")
		emitQ("b.startsWith(\"redis://" + tail + "\")")
		emitQ("http and a == 5 and b.startsWith(\"" + tail)
	}
	// every helper with 0..3 arguments of every kind, as function and as method
	helpers := []string{"startsWith", "endsWith", "contains", "datetime", "limit", "json", "xml", "redact", "now", "seconds", "minutes", "hours", "days", "weeks", "months", "years", "nosuch"}
	kinds := []string{"\"s\"", "5", "1.5", "true", "nil", "a", "zz", "r\"x\"", "(a == 1)", "c.*", "-1", "\"\"", "r\"[\""}
	for _, h := range helpers {
		for n := 0; n <= 3; n++ {
			for rep := 0; rep < 3; rep++ {
				args := make([]string, n)
				for i := range args {
					args[i] = kinds[r.Intn(len(kinds))]
				}
				call := h + "(" + strings.Join(args, ", ") + ")"
				emitQ(call)
				emitQ("b." + call)
				emitQ("zz." + call + " == 1")
				emitQ("j.json()." + call)
				emitQ("x.xml()." + call)
			}
		}
	}
	// chained selectors
	chains := []string{".json()", ".xml()", ".a", ".b", "[0]", "[\"k\"]", "..k", ".*", ".json().k", ".xml().a.b"}
	count := 1500
	if tier == "thorough" {
		count = 30000
	}
	for i := 0; i < count; i++ {
		var sb strings.Builder
		sb.WriteString([]string{"j", "jb", "x", "xb", "g", "a", "c", "d", "zz"}[r.Intn(9)])
		for k := 0; k < 1+r.Intn(5); k++ {
			sb.WriteString(chains[r.Intn(len(chains))])
		}
		if r.Bool() {
			sb.WriteString(" == " + kinds[r.Intn(len(kinds))])
		}
		emitQ(sb.String())
	}
	// deep nesting
	for _, d := range []int{10, 100, 1000, 5000} {
		emitQ(strings.Repeat("(", d) + "a == 5" + strings.Repeat(")", d))
		emitQ(strings.Repeat("!", d) + "a")
		emitQ(strings.Repeat("a == 5 and ", d) + "true")
	}
	// random bytes / random token soup
	toks := []string{"a", "b", ".", "(", ")", "==", "!=", "and", "or", "!", "-", "\"", "r\"x\"", "5", "json()", "xml()", "redact(", ",", "[", "]", "*", "..", "nil", "true", " ", "limit(", "1.5", ":"}
	for i := 0; i < count; i++ {
		if r.Bool() {
			emitQ(string(r.Bytes(r.Intn(40))))
		} else {
			var sb strings.Builder
			for k := 0; k < 1+r.Intn(12); k++ {
				sb.WriteString(toks[r.Intn(len(toks))])
			}
			emitQ(sb.String())
		}
	}
}

// Family kfl.redact (C15): records with unique sentinel secrets at their leaves and sets of
// redaction paths. payload: (#query <ast> <record> (paths #p ...))
func genKflRedact(r *Rand, tier string, emit func(sx.Sx)) {
	count := 2500
	if tier == "thorough" {
		count = 50000
	}
	for i := 0; i < count; i++ {
		n := 0
		sent := func() sx.Sx {
			n++
			switch {
			case r.Chance(8):
				return sx.A("null") // a null leaf is a value to redact like any other
			case r.Chance(3):
				return sInt(int64(1000 + n))
			}
			return sStr(fmt.Sprintf("S%d", n))
		}
		// nested documents
		inner := fmt.Sprintf(`{"z":"S9%d","w":[1,2]}`, i%7)
		innerJ, _ := oj.Marshal(inner)
		nested := fmt.Sprintf(`{"k":["S7%d","S8%d"],"m":{"x":"S6%d","y":5},"inner":%s}`, i%5, i%3, i%4, innerJ)
		if i%6 == 0 {
			nested = fmt.Sprintf(`{"k":[null,"S8%d"],"m":{"x":null,"y":5},"inner":%s}`, i%3, innerJ)
		}
		fields := []sx.Sx{}
		add := func(k string, v sx.Sx) {
			if r.Chance(88) {
				fields = append(fields, sx.S(k), v)
			}
		}
		add("a", sent())
		add("b", sent())
		add("c", sArr(sent(), sent(), sent()))
		add("d", sObj(sx.S("e"), sent(), sx.S("n"), sInt(7), sx.S("x"), sent()))
		add("arr", sArr(sObj(sx.S("x"), sent(), sx.S("y"), sent()), sObj(sx.S("x"), sent()), sObj(sx.S("y"), sent())))
		add("deep", sObj(sx.S("p"), sObj(sx.S("x"), sent(), sx.S("q"), sObj(sx.S("x"), sent()))))
		add("j", sStr(nested))
		if i%7 == 2 {
			// the keys of the nested document written with escapes, as encoders that escape non-ASCII, '/' or '&' do
			// (Python ensure_ascii, PHP, Go's HTML-safe encoder): the same keys, another spelling of the text
			nested = strings.NewReplacer(`"m":`, `"\u006d":`, `"x":`, `"\u0078":`, `"k":`, `"\u006b":`, `"inner":`, `"inn\u0065r":`).Replace(nested)
		}
		jb := base64.StdEncoding.EncodeToString([]byte(nested))
		switch i % 5 { // base64 as MIME / PEM writers and the base64 tool emit it: in lines (the decoder skips CR and LF)
		case 1:
			jb = wrapLines(jb, 12, "\n")
		case 3:
			jb = wrapLines(jb, 7, "\r\n")
		}
		add("jb", sStr(jb))
		add("num", sInt(42))
		add("t", sx.A("true"))
		record := sx.L(append([]sx.Sx{sx.A("o")}, pairs(fields)...)...)
		pool := []string{"a", "b", "c", "c[0]", "c[2]", "c[5]", "c.*", "d", "d.e", "d.x", "d[\"e\"]", "d.zz", "zz", "zz.y", "arr[0].x", "arr[1].y",
			"arr.*.x", "arr.*.y", "..x", "..e", "..zz", "deep.p.x", "deep.p.q.x", "deep..x", "deep.p", "num", "t", "a.b",
			"j.json().m.x", "j.json().k[0]", "j.json().k.*", "j.json()..x", "j.json().m", "j.json().zz", "jb.json().m.x", "jb.json().k[1]", "jb.json()..x",
			"j.json().inner.json().z", "jb.json().inner.json().z", "a.json().x", "num.json().x", "zz.json().x", "c.*.json().x"}
		np := 1 + r.Intn(3)
		paths := make([]string, np)
		for k := range paths {
			paths[k] = pool[r.Intn(len(pool))]
		}
		// query text and tree: redact("p1", "p2")
		var args []string
		params := []sx.Sx{sx.A("params")}
		plist := []sx.Sx{sx.A("paths")}
		for _, pth := range paths {
			lit := strings.ReplaceAll(pth, "\"", "'") // keys quoted with ' inside the literal
			args = append(args, "\""+lit+"\"")
			a := wrapE(wrapL(wrapQ(wrapC(wrapU(node{"", sx.L(sx.A("str"), sx.S(lit))})))))
			params = append(params, a.ast)
			plist = append(plist, sx.S(lit))
		}
		q := "redact(" + strings.Join(args, ", ") + ")"
		call := callNode("redact", sx.L(params...), sx.A("nosel"), q)
		e := wrapE(wrapL(wrapQ(wrapC(wrapU(call)))))
		emit(sx.L(sx.S(q), e.ast, record, sx.L(plist...)))
	}
}

// wrapLines breaks a text into lines of n characters
func wrapLines(s string, n int, sep string) string {
	var b strings.Builder
	for len(s) > n {
		b.WriteString(s[:n])
		b.WriteString(sep)
		s = s[n:]
	}
	b.WriteString(s)
	return b.String()
}

// jsonNumbers keeps the digit strings that are JSON numbers as they stand (no leading zero)
func jsonNumbers(xs []string) []string {
	var out []string
	for _, x := range xs {
		if len(x) > 1 && x[0] == '0' && x[1] != '.' {
			continue
		}
		out = append(out, x)
	}
	return out
}
