//go:build verif

package main

import (
	"bufio"
	"bytes"
	"fmt"
	"sort"

	"github.com/kubeshark/base/pkg/api"

	"ksverif/harness/internal/mock"
	"ksverif/harness/internal/sx"
)

// Family match.multi (C09): two connections dissected in one process and sharing one matcher, whose 4-tuples
// are chosen so that keys built carelessly from their parts run together (a port that is the decimal prefix of
// another, an address that is the prefix of another, the same endpoints with the roles swapped).  Connection A
// carries the exchanges 1..nA, connection B the exchanges nA+1..nA+nB (the ordinal travels in the payload), the
// four halves are delivered in every order.  Every exchange must be reported once, k-th request with k-th
// response, under the connection it was sent on, and nothing may stay in the matcher.
// payload: (#proto nA nB (cipA cportA sipA sportA) (cipB cportB sipB sportB) (order of the halves a-client=0 a-server=1 b-client=2 b-server=3))
// observation: ((items (req resp conn) ... sorted) (left n))
func init() {
	families["match.multi"] = &Family{Gen: genMatchMulti, Run: runMatchMulti}
}

func genMatchMulti(r *Rand, tier string, emit func(sx.Sx)) {
	tuples := [][2][4]string{
		{{"10.0.0.1", "40000", "10.0.0.2", "6379"}, {"10.0.0.1", "40000", "10.0.0.2", "63791"}},
		{{"10.0.0.1", "4000", "10.0.0.2", "6379"}, {"10.0.0.1", "40001", "10.0.0.2", "6379"}},
		{{"10.0.0.1", "40000", "10.0.0.2", "80"}, {"10.0.0.1", "40000", "10.0.0.21", "80"}},
		{{"10.0.0.1", "40000", "10.0.0.2", "80"}, {"10.0.0.11", "40000", "10.0.0.2", "80"}},
		{{"10.0.0.1", "40000", "10.0.0.2", "9092"}, {"10.0.0.1", "40001", "10.0.0.2", "9092"}},
		{{"10.0.0.1", "40000", "10.0.0.2", "6379"}, {"10.0.0.2", "6379", "10.0.0.1", "40000"}},
		{{"10.0.0.1", "1", "10.0.0.2", "11"}, {"10.0.0.1", "11", "10.0.0.2", "1"}},
	}
	var orders [][]int
	var perm func(cur []int, rest []int)
	perm = func(cur []int, rest []int) {
		if len(rest) == 0 {
			orders = append(orders, append([]int{}, cur...))
			return
		}
		for i := range rest {
			nr := append(append([]int{}, rest[:i]...), rest[i+1:]...)
			perm(append(cur, rest[i]), nr)
		}
	}
	perm(nil, []int{0, 1, 2, 3})
	tsx := func(t [4]string) sx.Sx { return sx.L(sx.S(t[0]), sx.S(t[1]), sx.S(t[2]), sx.S(t[3])) }
	for _, proto := range []string{"redis", "http", "kafka"} {
		pc := schedProtos[proto]
		if pc == nil || !bytes.HasPrefix(pc.client(14), pc.client(12)) || !bytes.HasPrefix(pc.server(14), pc.server(12)) {
			continue
		}
		for _, tp := range tuples {
			for oi, o := range orders {
				pos := map[int]int{}
				for i, h := range o {
					pos[h] = i
				}
				if proto == "kafka" && (pos[1] < pos[0] || pos[3] < pos[2]) {
					// a Kafka response read before its request waits for it and then gives up: with the halves of a
					// connection delivered one after the other, the client half has to come first
					continue
				}
				if tier != "thorough" && oi%3 != 0 && !(o[0] == 0 && o[1] == 2) && !(o[0] == 1 && o[1] == 3) {
					continue
				}
				emit(sx.L(sx.S(proto), sx.N(12), sx.N(2), tsx(tp[0]), tsx(tp[1]), sx.L(sx.N(o[0]), sx.N(o[1]), sx.N(o[2]), sx.N(o[3]))))
			}
		}
	}
}

func runMatchMulti(p sx.Sx) sx.Sx {
	pc := schedProtos[p.List[0].Str()]
	nA, nB := int(p.List[1].Int()), int(p.List[2].Int())
	tup := func(x sx.Sx) [4]string {
		return [4]string{x.List[0].Str(), x.List[1].Str(), x.List[2].Str(), x.List[3].Str()}
	}
	ta, tb := tup(p.List[3]), tup(p.List[4])
	stats := &api.AppStats{}
	out := make(chan *api.OutputChannelItem, 4*(nA+nB)+16)
	m := pc.dissector.NewResponseRequestMatcher()
	m.SetMaxTry(3)
	ca := mock.NewConn(pc.dissector, m, stats, out, "pcapA", ta[0], ta[1], ta[2], ta[3])
	cb := mock.NewConn(pc.dissector, m, stats, out, "pcapB", tb[0], tb[1], tb[2], tb[3])
	halves := [][]byte{
		pc.client(nA), pc.server(nA),
		pc.client(nA + nB)[len(pc.client(nA)):], pc.server(nA + nB)[len(pc.server(nA)):],
	}
	readers := []*mock.Reader{ca.Client, ca.Server, cb.Client, cb.Server}
	crashed := false
	for _, h := range p.List[5].List {
		i := int(h.Int())
		func() {
			defer func() {
				if rec := recover(); rec != nil {
					crashed = true
				}
			}()
			_ = pc.dissector.Dissect(bufio.NewReader(bytes.NewReader(halves[i])), readers[i])
		}()
	}
	close(out)
	var items []string
	for it := range out {
		req := payloadMap(it.Pair.Request.Payload)
		resp := payloadMap(it.Pair.Response.Payload)
		conn := "?"
		if ci := it.ConnectionInfo; ci != nil {
			switch [4]string{ci.ClientIP, ci.ClientPort, ci.ServerIP, ci.ServerPort} {
			case ta:
				conn = "A"
			case tb:
				conn = "B"
			}
			if ta == tb {
				conn = "AB"
			}
		}
		items = append(items, fmt.Sprintf("%04d %04d %s", pc.reqOrd(req), pc.respOrd(resp), conn))
	}
	sort.Strings(items)
	is := []sx.Sx{sx.A("items")}
	for _, s := range items {
		var q, r int
		var c string
		fmt.Sscanf(s, "%d %d %s", &q, &r, &c)
		is = append(is, sx.L(sx.N(q), sx.N(r), sx.A(c)))
	}
	left := 0
	m.GetMap().Range(func(k, v interface{}) bool { left++; return true })
	res := []sx.Sx{sx.L(is...), sx.L(sx.A("left"), sx.N(left))}
	if crashed {
		res = append(res, sx.A("panic"))
	}
	return sx.L(res...)
}
