//go:build verif

package main

import (
	"bufio"
	"bytes"
	"encoding/binary"
	"encoding/json"
	"fmt"
	"sort"
	"strings"
	"time"

	"github.com/kubeshark/base/pkg/api"
	amqpExt "github.com/kubeshark/base/pkg/extensions/amqp"
	dnsExt "github.com/kubeshark/base/pkg/extensions/dns"
	httpExt "github.com/kubeshark/base/pkg/extensions/http"
	kafkaExt "github.com/kubeshark/base/pkg/extensions/kafka"
	redisExt "github.com/kubeshark/base/pkg/extensions/redis"
	"github.com/kubeshark/base/pkg/languages/kfl"
	"ksverif/harness/internal/mock"
	"ksverif/harness/internal/stages"
	"ksverif/harness/internal/sx"
)

// Families stages.<proto> (C11, C16): conversations are dissected by the real code and every
// emitted item goes through the later stages the way worker and hub run them (JSON round
// trips in between); the click-to-filter queries of the summary and every registered macro
// are evaluated by the real KFL on the entry they belong to.
//
// payload: the conversation of the protocol's conv family (redis.conv, amqp.conv, http.conv),
//
//	or for dns: (dns <request-json-text> <response-json-text>)
//
// observation: ((item (stage ok|panic:<hex>|err:<hex>) (wf ok|<hex>) (proto #name #abbr)
//
//	(queries (method #q truth) (summary #q truth) (status #q truth))
//	(macros (name truth) ...) (entry #json)) ...)
func init() {
	families["stages.redis"] = &Family{Gen: genRedisConv, Run: func(p sx.Sx) sx.Sx { return runStages("redis", p) }}
	families["stages.amqp"] = &Family{Gen: genAmqpConv, Run: func(p sx.Sx) sx.Sx { return runStages("amqp", p) }}
	families["stages.http"] = &Family{Gen: genHttpStages, Run: func(p sx.Sx) sx.Sx { return runStages("http", p) }}
	families["stages.kafka"] = &Family{Gen: genKafkaStages, Run: func(p sx.Sx) sx.Sx { return runStages("kafka", p) }}
	families["stages.redismut"] = &Family{Gen: genStagesMut(genRedisConv, 3), Run: func(p sx.Sx) sx.Sx { return runStagesMut("redis", p) }}
	families["stages.amqpmut"] = &Family{Gen: genStagesMut(genAmqpConv, 2), Run: func(p sx.Sx) sx.Sx { return runStagesMut("amqp", p) }}
	families["stages.httpmut"] = &Family{Gen: genStagesMut(genHttpConv, 2), Run: func(p sx.Sx) sx.Sx { return runStagesMut("http", p) }}
	families["stages.kafkamut"] = &Family{Gen: genStagesMut(genKafkaStages, 1), Run: func(p sx.Sx) sx.Sx { return runStagesMut("kafka", p) }}
	families["stages.h2c"] = &Family{Gen: genH2c, Run: func(p sx.Sx) sx.Sx { return runStages("h2c", p) }}
	families["queries.h2c"] = families["stages.h2c"]
	families["stages.dns"] = &Family{Gen: genDnsEntries, Run: func(p sx.Sx) sx.Sx { return runStages("dns", p) }}
	for _, p := range []string{"redis", "amqp", "http", "dns", "kafka"} {
		families["queries."+p] = families["stages."+p]
	}
	families["queries.http"] = &Family{Gen: genHttpConv, Run: func(p sx.Sx) sx.Sx { return runStages("http", p) }}
}

func macroNames() []string {
	var names []string
	for _, l := range readLines("macros.txt") {
		names = append(names, strings.SplitN(l, "\t", 2)[0])
	}
	sort.Strings(names)
	return names
}

func evalQuery(entryJSON []byte, q string) string {
	if q == "" {
		return "none"
	}
	res := "error"
	func() {
		defer func() {
			if r := recover(); r != nil {
				res = "panic"
			}
		}()
		truth, _, err := kfl.Apply(entryJSON, q)
		if err != nil {
			res = "error"
			return
		}
		if truth {
			res = "true"
		} else {
			res = "false"
		}
	}()
	return res
}

func itemObs(d api.Dissector, it *api.OutputChannelItem) sx.Sx {
	res := stages.Run(d, it)
	stage := "ok"
	if res.Panic != "" {
		stage = "panic:" + fmt.Sprintf("%x", res.Panic)
	} else if res.Err != "" {
		stage = "err:" + fmt.Sprintf("%x", res.Err)
	}
	out := []sx.Sx{sx.A("item"), sx.L(sx.A("stage"), sx.A(stage))}
	if stage != "ok" {
		return sx.L(out...)
	}
	wf := "ok"
	if msg := stages.WellFormed(res.Rep); msg != "" {
		wf = fmt.Sprintf("%x", msg)
	}
	out = append(out, sx.L(sx.A("wf"), sx.A(wf)))
	out = append(out, sx.L(sx.A("proto"), sx.S(res.Entry.Protocol.Name), sx.S(res.Entry.Protocol.Abbreviation)))
	out = append(out, sx.L(sx.A("owner"), sx.S(res.Entry.Protocol.Macro)))
	out = append(out, sx.L(sx.A("queries"),
		sx.L(sx.A("method"), sx.S(res.Base.MethodQuery), sx.A(evalQuery(res.EntryJSON, res.Base.MethodQuery))),
		sx.L(sx.A("summary"), sx.S(res.Base.SummaryQuery), sx.A(evalQuery(res.EntryJSON, res.Base.SummaryQuery))),
		sx.L(sx.A("status"), sx.S(res.Base.StatusQuery), sx.A(evalQuery(res.EntryJSON, res.Base.StatusQuery)))))
	ms := []sx.Sx{sx.A("macros")}
	for _, m := range macroNames() {
		ms = append(ms, sx.L(sx.A(m), sx.A(evalQuery(res.EntryJSON, m))))
	}
	out = append(out, sx.L(ms...))
	out = append(out, sx.L(sx.A("entry"), sx.B(res.EntryJSON)))
	return sx.L(out...)
}

func stagesDissector(proto string) api.Dissector {
	switch proto {
	case "redis":
		return redisExt.NewDissector()
	case "amqp":
		return amqpExt.NewDissector()
	case "http", "h2c":
		return httpExt.NewDissector()
	case "kafka":
		return kafkaExt.NewDissector()
	}
	return dnsExt.NewDissector()
}

// stagesEncode: the two halves of the conversation of the protocol's conv family
func stagesEncode(proto string, p sx.Sx) (cb, sb []byte) {
	switch proto {
	case "redis":
		cb, sb = encConv(p.List[0].List[1:])
	case "amqp":
		cb, sb = encFrames(p.List[0]), encFrames(p.List[1])
	case "http":
		cb, sb = encHttpConv(p)
	case "h2c":
		cb, sb = h2cBytes(p)
	case "kafka":
		for _, m := range p.List[0].List {
			cb = append(cb, m.List[len(m.List)-1].Bytes()...)
		}
		for _, m := range p.List[1].List {
			sb = append(sb, m.List[len(m.List)-1].Bytes()...)
		}
	}
	return
}

func runStages(proto string, p sx.Sx) sx.Sx {
	d := stagesDissector(proto)
	if proto == "dns" {
		var req, resp map[string]interface{}
		if err := json.Unmarshal(p.List[1].Bytes(), &req); err != nil {
			return sx.L(sx.A("harness-error"), sx.S(err.Error()))
		}
		if err := json.Unmarshal(p.List[2].Bytes(), &resp); err != nil {
			return sx.L(sx.A("harness-error"), sx.S(err.Error()))
		}
		ext := &api.Extension{}
		d.Register(ext)
		it := &api.OutputChannelItem{
			Protocol: *ext.Protocol, Timestamp: 1, ConnectionInfo: &api.ConnectionInfo{ClientIP: "10.0.0.1", ClientPort: "5353", ServerIP: "10.0.0.2", ServerPort: "53", IsOutgoing: true},
			Pair: &api.RequestResponsePair{
				Request:  api.GenericMessage{IsRequest: true, CaptureTime: mock.T0, CaptureSize: 40, Payload: req},
				Response: api.GenericMessage{IsRequest: false, CaptureTime: mock.T0.Add(time.Millisecond), CaptureSize: 60, Payload: resp},
			},
		}
		return sx.L(itemObs(d, it))
	}
	cb, sb := stagesEncode(proto, p)
	return stagesOnBytes(proto, d, cb, sb)
}

func stagesOnBytes(proto string, d api.Dissector, cb, sb []byte) sx.Sx {
	stats := &api.AppStats{}
	out := make(chan *api.OutputChannelItem, 1<<14)
	port := map[string]string{"redis": "6379", "amqp": "5672", "http": "80", "h2c": "80", "kafka": "9092"}[proto]
	m := d.NewResponseRequestMatcher()
	m.SetMaxTry(1)
	conn := mock.NewConn(d, m, stats, out, "pcap0", "10.0.0.1", "40000", "10.0.0.2", port)
	halfRun := func(b []byte, r *mock.Reader) {
		defer func() { _ = recover() }()
		_ = d.Dissect(bufio.NewReader(bytes.NewReader(b)), r)
	}
	halfRun(cb, conn.Client)
	halfRun(sb, conn.Server)
	close(out)
	var obs []sx.Sx
	for it := range out {
		obs = append(obs, itemObs(d, it))
	}
	return sx.L(obs...)
}

// stages.<proto>mut (C11, "corrupted streams that still emit"): the conversation of the conv family
// with 1-3 byte-level mutations (a byte set to a boundary value, a 16/32-bit field set to 0 / -1 /
// 65535 / 65536, a truncation); every item the dissector still emits goes through the stages.
// payload: (conv (side kind offset value) ...)
func runStagesMut(proto string, p sx.Sx) sx.Sx {
	d := stagesDissector(proto)
	cb, sb := stagesEncode(proto, p.List[0])
	for _, m := range p.List[1:] {
		b := &cb
		if m.List[0].Atom == "s" {
			b = &sb
		}
		if len(*b) == 0 {
			continue
		}
		off := int(m.List[2].Int()) % len(*b)
		v := m.List[3].Int()
		switch m.List[1].Atom {
		case "byte":
			(*b)[off] = byte(v)
		case "u16":
			if off+2 <= len(*b) {
				binary.BigEndian.PutUint16((*b)[off:], uint16(v))
			}
		case "u32":
			if off+4 <= len(*b) {
				binary.BigEndian.PutUint32((*b)[off:], uint32(v))
			}
		case "trunc":
			*b = (*b)[:off]
		}
	}
	return stagesOnBytes(proto, d, cb, sb)
}

func genStagesMut(base func(*Rand, string, func(sx.Sx)), every int) func(*Rand, string, func(sx.Sx)) {
	return func(r *Rand, tier string, emit func(sx.Sx)) {
		n := 0
		base(r, tier, func(conv sx.Sx) {
			n++
			if n%every != 0 {
				return
			}
			out := []sx.Sx{conv}
			for k := 1 + r.Intn(3); k > 0; k-- {
				side := []string{"c", "s"}[r.Intn(2)]
				off := r.Intn(1 << 16)
				switch r.Intn(6) {
				case 0, 1:
					out = append(out, sx.L(sx.A(side), sx.A("byte"), sx.N(off), sx.N([]int{0, 1, 255, 128, 127, 13, 10, 34}[r.Intn(8)])))
				case 2:
					out = append(out, sx.L(sx.A(side), sx.A("u16"), sx.N(off), sx.N([]int{0, 65535, 32768, 1, 300}[r.Intn(5)])))
				case 3, 4:
					out = append(out, sx.L(sx.A(side), sx.A("u32"), sx.N(off), sx.I([]int64{0, 4294967295, 65535, 65536, 1, 2147483647}[r.Intn(6)])))
				default:
					out = append(out, sx.L(sx.A(side), sx.A("trunc"), sx.N(off), sx.N(0)))
				}
			}
			emit(sx.L(out...))
		})
	}
}

// ---- HTTP/1.x conversations (also used by http.conv)
//
// payload: ((ex (req #method #target minor ((#name #value)...) framing #body)
//               (resp status #reason minor ((#name #value)...) framing #body)) ...)
//   framing: cl | chunked | close | none

func encHttpMessage(start string, headers sx.Sx, framing string, body []byte) []byte {
	var b bytes.Buffer
	b.WriteString(start + "\r\n")
	for _, h := range headers.List {
		b.WriteString(h.List[0].Str() + ": " + h.List[1].Str() + "\r\n")
	}
	switch framing {
	case "cl":
		fmt.Fprintf(&b, "Content-Length: %d\r\n\r\n", len(body))
		b.Write(body)
	case "chunked":
		b.WriteString("Transfer-Encoding: chunked\r\n\r\n")
		rest := body
		for len(rest) > 0 {
			n := len(rest)
			if n > 7 {
				n = 7
			}
			fmt.Fprintf(&b, "%x\r\n", n)
			b.Write(rest[:n])
			b.WriteString("\r\n")
			rest = rest[n:]
		}
		b.WriteString("0\r\n\r\n")
	case "close":
		b.WriteString("\r\n")
		b.Write(body)
	default:
		b.WriteString("\r\n")
	}
	return b.Bytes()
}

func encHttpConv(p sx.Sx) (cb, sb []byte) {
	for _, ex := range p.List {
		req, resp := ex.List[1], ex.List[2]
		cb = append(cb, encHttpMessage(fmt.Sprintf("%s %s HTTP/1.%d", req.List[1].Str(), req.List[2].Str(), req.List[3].Int()), req.List[4], req.List[5].Atom, req.List[6].Bytes())...)
		if len(ex.List) > 3 { // interim responses (100 Continue, 102, 103 Early Hints) in front of the final one
			for _, st := range ex.List[3].List[1:] {
				sb = append(sb, []byte(fmt.Sprintf("HTTP/1.1 %d Interim\r\n\r\n", st.Int()))...)
			}
		}
		sb = append(sb, encHttpMessage(fmt.Sprintf("HTTP/1.%d %d %s", resp.List[3].Int(), resp.List[1].Int(), resp.List[2].Str()), resp.List[4], resp.List[5].Atom, resp.List[6].Bytes())...)
	}
	return
}

func genHttpConv(r *Rand, tier string, emit func(sx.Sx)) {
	methods := []string{"GET", "POST", "PUT", "DELETE", "PATCH", "OPTIONS"}
	targets := []string{"/", "/a/b/c", "/search?q=x&q=y&lang=en", "/p%20q?a=1", "/very/long/" + strings.Repeat("seg/", 40), "/x?empty=&k=v", "http://host.example/abs/path?z=1", "/api/v1/items/42",
		// parameter names that mean something to a later stage, once and repeated (GraphQL over GET); a long path whose
		// percent-decoded text is multi-byte throughout (a wiki title), so that any byte offset may fall inside a character
		"/graphql?query=%7Bme%7Bid%7D%7D&query=%7Bme%7Bname%7D%7D", "/search?query=shoes&query=boots&operationName=x&variables=%7B%7D", "/graphql?query=%7Bme%7Bid%7D%7D",
		"/wiki/" + strings.Repeat("%E6%97%A5%E6%9C%AC%E8%AA%9E", 40), "/w/" + strings.Repeat("%C3%A9", 130) + "/" + strings.Repeat("x", 200)}
	hnames := []string{"Accept", "X-Custom", "User-Agent", "Cookie", "X-Repeat", "Authorization", "Content-Type", "X-Quote"}
	hvals := []string{"*/*", "v1", "curl/7.0", "a=1; b=2", "one", "Bearer abc.def", "application/json", "say \"hi\" \\ there", "text/plain; charset=utf-8", strings.Repeat("v", 300)}
	statuses := []int{200, 201, 204, 301, 400, 404, 500, 200, 200, 404, 599, 600, 745, 999, 226, 451}
	reasons := map[int]string{200: "OK", 201: "Created", 204: "No Content", 301: "Moved Permanently", 400: "Bad Request", 404: "Not Found", 500: "Internal Server Error",
		599: "Network Timeout", 600: "Unparseable", 745: "Custom", 999: "Request denied", 226: "IM Used", 451: "Unavailable For Legal Reasons"}
	count := 500
	if tier == "thorough" {
		count = 10000
	}
	hdrs := func() sx.Sx {
		var hs []sx.Sx
		for i := 0; i < r.Intn(5); i++ {
			hs = append(hs, sx.L(sx.S(hnames[r.Intn(len(hnames))]), sx.S(hvals[r.Intn(len(hvals))])))
		}
		return sx.L(hs...)
	}
	body := func() []byte {
		if r.Chance(6) { // bodies that look like (the start of) an HTTP message themselves
			return []byte([]string{"H", "HT", "HTTP", "HTTP/", "HTTP/1.", "HTTP/1.1 404 Not Found\r\nContent-Length: 0\r\n\r\n", "HTTPS", "GET / HTTP/1.1\r\n\r\n", "\r\n", "0\r\n\r\n"}[r.Intn(10)])
		}
		switch r.Intn(6) {
		case 0:
			return []byte{}
		case 1:
			return []byte(`{"a":1,"b":"x"}`)
		case 2:
			return bytes.Repeat([]byte("0123456789"), 410+r.Intn(10)) // across the 4096 buffer
		case 3:
			return bytes.Repeat([]byte("abcdefgh"), 1020+r.Intn(10)) // across 8192
		case 4:
			return r.Bytes(1 + r.Intn(40))
		default:
			return []byte("hello world")
		}
	}
	// the smallest conversations there are: a header-less HTTP/1.0 request of 18 .. 28 bytes (the
	// HTTP/2 detection peeks 24 bytes of the client half, 9 of the server half) and a short response
	for tl := 1; tl <= 11; tl++ {
		target := "/" + strings.Repeat("p", tl-1)
		for _, short := range []bool{true, false} {
			req := sx.L(sx.A("req"), sx.S("GET"), sx.S(target), sx.N(0), sx.L(), sx.A("none"), sx.B(nil))
			resp := sx.L(sx.A("resp"), sx.N(200), sx.S("OK"), sx.N(0), sx.L(), sx.A("close"), sx.B([]byte("hello")))
			if short {
				resp = sx.L(sx.A("resp"), sx.N(200), sx.S(""), sx.N(0), sx.L(), sx.A("close"), sx.B(nil))
			}
			emit(sx.L(sx.L(sx.A("ex"), req, resp)))
		}
	}
	// GraphQL over HTTP: a JSON body whose "query" member parses as a GraphQL document makes the entry a
	// GraphQL entry (protocol gql, macro `gql`); one that does not parse, or another content type, does not
	for _, g := range []struct{ ct, body string }{
		{"application/json", `{"query":"{ hero { name friends { name } } }"}`},
		{"application/json", `{"query":"query Q($id: ID!) { user(id: $id) { name } }","variables":{"id":"7"}}`},
		{"application/json", `{"query":"mutation { like(id: 3) { count } }"}`},
		{"application/json", `{"query":"this is (((not graphql"}`},
		{"application/json", `{"query":42}`},
		{"application/json", `{"nothing":"here"}`},
		{"application/json", `not json at all`},
		{"text/plain", `{"query":"{ hero { name } }"}`},
		{"application/json; charset=utf-8", `{"query":"{ hero { name } }"}`},
	} {
		hs := sx.L(sx.L(sx.S("Host"), sx.S("host.example")), sx.L(sx.S("Content-Type"), sx.S(g.ct)))
		req := sx.L(sx.A("req"), sx.S("POST"), sx.S("/graphql"), sx.N(1), hs, sx.A("cl"), sx.B([]byte(g.body)))
		resp := sx.L(sx.A("resp"), sx.N(200), sx.S("OK"), sx.N(1), sx.L(sx.L(sx.S("Content-Type"), sx.S("application/json"))), sx.A("cl"), sx.B([]byte(`{"data":{}}`)))
		emit(sx.L(sx.L(sx.A("ex"), req, resp)))
	}
	for i := 0; i < count; i++ {
		n := 1 + r.Intn(4)
		var exs []sx.Sx
		for j := 0; j < n; j++ {
			m := methods[r.Intn(len(methods))]
			minor := 1
			if r.Chance(15) {
				minor = 0
			}
			reqFraming, reqBody := "none", []byte{}
			if m == "POST" || m == "PUT" || m == "PATCH" {
				reqBody = body()
				reqFraming = []string{"cl", "chunked"}[r.Intn(2)]
				if minor == 0 {
					reqFraming = "cl"
				}
			}
			hs := hdrs()
			hs.List = append([]sx.Sx{sx.L(sx.S("Host"), sx.S("host.example"))}, hs.List...)
			req := sx.L(sx.A("req"), sx.S(m), sx.S(targets[r.Intn(len(targets))]), sx.N(minor), hs, sx.A(reqFraming), sx.B(reqBody))
			st := statuses[r.Intn(len(statuses))]
			respBody := body()
			respFraming := []string{"cl", "chunked", "cl"}[r.Intn(3)]
			if st == 204 {
				respBody, respFraming = []byte{}, "none"
			}
			if minor == 0 && respFraming == "chunked" {
				respFraming = "cl"
			}
			if j == n-1 && r.Chance(10) {
				respFraming = "close" // close-delimited body ends the connection
			}
			resp := sx.L(sx.A("resp"), sx.N(st), sx.S(reasons[st]), sx.N(minor), hdrs(), sx.A(respFraming), sx.B(respBody))
			if r.Chance(4) && st != 204 {
				// HEAD: the response carries the Content-Length of the GET response and no body
				rh := hdrs()
				rh.List = append(rh.List, sx.L(sx.S("Content-Length"), sx.S("5")))
				req = sx.L(sx.A("req"), sx.S("HEAD"), sx.S(targets[r.Intn(len(targets))]), sx.N(minor), hs, sx.A("none"), sx.B(nil))
				resp = sx.L(sx.A("resp"), sx.N(st), sx.S(reasons[st]), sx.N(minor), rh, sx.A("none"), sx.B(nil))
			}
			if minor == 1 && r.Chance(8) {
				// interim responses in front of the final one: the exchange is the request and its final response
				pre := [][]int{{100}, {103}, {102, 102}, {100, 103}, {103, 103, 100}}[r.Intn(5)]
				ps := []sx.Sx{sx.A("pre")}
				for _, p := range pre {
					ps = append(ps, sx.N(p))
				}
				exs = append(exs, sx.L(sx.A("ex"), req, resp, sx.L(ps...)))
				continue
			}
			exs = append(exs, sx.L(sx.A("ex"), req, resp))
		}
		emit(sx.L(exs...))
	}
	// an upgrade answered with 101 is an exchange like any other (WebSocket, TLS): reported once, nothing left waiting;
	// Expect: 100-continue answered with 100 and then the final status
	for _, up := range []string{"websocket", "TLS/1.0", "WebSocket"} {
		hs := sx.L(sx.L(sx.S("Host"), sx.S("host.example")), sx.L(sx.S("Connection"), sx.S("Upgrade")), sx.L(sx.S("Upgrade"), sx.S(up)))
		req := sx.L(sx.A("req"), sx.S("GET"), sx.S("/chat"), sx.N(1), hs, sx.A("none"), sx.B(nil))
		resp := sx.L(sx.A("resp"), sx.N(101), sx.S("Switching Protocols"), sx.N(1), sx.L(sx.L(sx.S("Connection"), sx.S("Upgrade")), sx.L(sx.S("Upgrade"), sx.S(up))), sx.A("none"), sx.B(nil))
		first := sx.L(sx.A("ex"), sx.L(sx.A("req"), sx.S("GET"), sx.S("/index.html"), sx.N(1), sx.L(sx.L(sx.S("Host"), sx.S("host.example"))), sx.A("none"), sx.B(nil)),
			sx.L(sx.A("resp"), sx.N(200), sx.S("OK"), sx.N(1), sx.L(), sx.A("cl"), sx.B([]byte("ok"))))
		emit(sx.L(sx.L(sx.A("ex"), req, resp)))
		emit(sx.L(first, sx.L(sx.A("ex"), req, resp)))
	}
	// an upgrade the server declines with an ordinary final response: the connection stays on HTTP/1.1 and goes on
	for _, st := range []int{403, 426, 200, 404, 501} {
		hs := sx.L(sx.L(sx.S("Host"), sx.S("host.example")), sx.L(sx.S("Connection"), sx.S("Upgrade")), sx.L(sx.S("Upgrade"), sx.S("websocket")))
		if st == 404 || st == 501 {
			// curl --http2 against a server that speaks HTTP/1.1 only: the h2c upgrade is ignored and the connection goes on
			hs = sx.L(sx.L(sx.S("Host"), sx.S("host.example")), sx.L(sx.S("Connection"), sx.S("Upgrade, HTTP2-Settings")), sx.L(sx.S("Upgrade"), sx.S("h2c")),
				sx.L(sx.S("HTTP2-Settings"), sx.S("AAMAAABkAAQCAAAAAAIAAAAA")))
		}
		req := sx.L(sx.A("req"), sx.S("GET"), sx.S("/chat"), sx.N(1), hs, sx.A("none"), sx.B(nil))
		resp := sx.L(sx.A("resp"), sx.N(st), sx.S("Declined"), sx.N(1), sx.L(), sx.A("cl"), sx.B([]byte("no")))
		mk := func(path string, status int) sx.Sx {
			return sx.L(sx.A("ex"), sx.L(sx.A("req"), sx.S("GET"), sx.S(path), sx.N(1), sx.L(sx.L(sx.S("Host"), sx.S("host.example"))), sx.A("none"), sx.B(nil)),
				sx.L(sx.A("resp"), sx.N(status), sx.S("OK"), sx.N(1), sx.L(), sx.A("cl"), sx.B([]byte("ok"))))
		}
		emit(sx.L(mk("/index.html", 200), sx.L(sx.A("ex"), req, resp), mk("/api/cart?id=7", 200), mk("/api/order", 201)))
	}
	// an h2c offer that is ignored, then one last request shorter than the 24 bytes of the HTTP/2 preface the client
	// half looks for after the offer (an HTTP/1.0 request without header fields): it is a request like any other
	{
		hs := sx.L(sx.L(sx.S("Host"), sx.S("host.example")), sx.L(sx.S("Connection"), sx.S("Upgrade, HTTP2-Settings")), sx.L(sx.S("Upgrade"), sx.S("h2c")),
			sx.L(sx.S("HTTP2-Settings"), sx.S("AAMAAABkAAQCAAAAAAIAAAAA")))
		offer := sx.L(sx.A("ex"), sx.L(sx.A("req"), sx.S("GET"), sx.S("/a"), sx.N(1), hs, sx.A("none"), sx.B(nil)),
			sx.L(sx.A("resp"), sx.N(200), sx.S("OK"), sx.N(1), sx.L(), sx.A("cl"), sx.B([]byte("ok"))))
		for _, m := range []string{"POST", "GET", "PUT"} {
			short := sx.L(sx.A("ex"), sx.L(sx.A("req"), sx.S(m), sx.S("/b"), sx.N(0), sx.L(), sx.A("none"), sx.B(nil)),
				sx.L(sx.A("resp"), sx.N(200), sx.S("OK"), sx.N(0), sx.L(), sx.A("close"), sx.B([]byte("bye"))))
			emit(sx.L(offer, short))
		}
	}
	// a conditional GET answered 304 with the Content-Length of the representation it does not send (and a 204 with
	// Content-Length: 0): bodyless whatever the header says, the next exchange starts right behind the header block
	for _, st := range []int{304, 204} {
		cl := "5120"
		if st == 204 {
			cl = "0"
		}
		req := sx.L(sx.A("req"), sx.S("GET"), sx.S("/cached.css"), sx.N(1), sx.L(sx.L(sx.S("Host"), sx.S("host.example")), sx.L(sx.S("If-None-Match"), sx.S("\"abc\""))), sx.A("none"), sx.B(nil))
		resp := sx.L(sx.A("resp"), sx.N(st), sx.S("Not Modified"), sx.N(1), sx.L(sx.L(sx.S("Etag"), sx.S("\"abc\"")), sx.L(sx.S("Content-Length"), sx.S(cl))), sx.A("none"), sx.B(nil))
		next := sx.L(sx.A("ex"), sx.L(sx.A("req"), sx.S("GET"), sx.S("/after"), sx.N(1), sx.L(sx.L(sx.S("Host"), sx.S("host.example"))), sx.A("none"), sx.B(nil)),
			sx.L(sx.A("resp"), sx.N(200), sx.S("OK"), sx.N(1), sx.L(), sx.A("cl"), sx.B([]byte("hello"))))
		emit(sx.L(sx.L(sx.A("ex"), req, resp), next))
	}
	{
		hs := sx.L(sx.L(sx.S("Host"), sx.S("host.example")), sx.L(sx.S("Expect"), sx.S("100-continue")))
		req := sx.L(sx.A("req"), sx.S("POST"), sx.S("/up"), sx.N(1), hs, sx.A("cl"), sx.B([]byte("payload")))
		resp := sx.L(sx.A("resp"), sx.N(201), sx.S("Created"), sx.N(1), sx.L(), sx.A("cl"), sx.B([]byte("ok")))
		next := sx.L(sx.A("ex"), sx.L(sx.A("req"), sx.S("GET"), sx.S("/after"), sx.N(1), sx.L(sx.L(sx.S("Host"), sx.S("host.example"))), sx.A("none"), sx.B(nil)),
			sx.L(sx.A("resp"), sx.N(404), sx.S("Not Found"), sx.N(1), sx.L(), sx.A("cl"), sx.B([]byte("no"))))
		emit(sx.L(sx.L(sx.A("ex"), req, resp, sx.L(sx.A("pre"), sx.N(100))), next))
	}
}

// stages.http: the conversations of http.conv plus request targets whose path is empty or not a
// path at all (absolute-form without a path, authority-form CONNECT, OPTIONS *), which net/http
// accepts and the dissector emits like any other request
func genHttpStages(r *Rand, tier string, emit func(sx.Sx)) {
	host := sx.L(sx.L(sx.S("Host"), sx.S("host.example")))
	for _, t := range [][2]string{{"GET", "http://host.example"}, {"GET", "http://host.example?q=1"}, {"CONNECT", "host.example:443"},
		{"OPTIONS", "*"}, {"GET", "//double//slash"}, {"GET", "/%zz"}, {"GET", "http://host.example/"}} {
		for _, minor := range []int{1, 0} {
			req := sx.L(sx.A("req"), sx.S(t[0]), sx.S(t[1]), sx.N(minor), host, sx.A("none"), sx.B(nil))
			resp := sx.L(sx.A("resp"), sx.N(200), sx.S("OK"), sx.N(minor), sx.L(), sx.A("cl"), sx.B([]byte("ok")))
			emit(sx.L(sx.L(sx.A("ex"), req, resp)))
		}
	}
	// well-formed HTTP whose BODIES are not what their headers announce: a gzip response that is not
	// gzip, a urlencoded form with a bad escape / repeated and empty fields, a multipart body that is
	// cut short or has no boundary - the HAR conversion of the item must cope
	h := func(kv ...string) sx.Sx {
		hs := []sx.Sx{sx.L(sx.S("Host"), sx.S("host.example"))}
		for i := 0; i+1 < len(kv); i += 2 {
			hs = append(hs, sx.L(sx.S(kv[i]), sx.S(kv[i+1])))
		}
		return sx.L(hs...)
	}
	rh := func(kv ...string) sx.Sx {
		var hs []sx.Sx
		for i := 0; i+1 < len(kv); i += 2 {
			hs = append(hs, sx.L(sx.S(kv[i]), sx.S(kv[i+1])))
		}
		return sx.L(hs...)
	}
	okResp := sx.L(sx.A("resp"), sx.N(200), sx.S("OK"), sx.N(1), sx.L(), sx.A("cl"), sx.B([]byte("ok")))
	getReq := sx.L(sx.A("req"), sx.S("GET"), sx.S("/x"), sx.N(1), h(), sx.A("none"), sx.B(nil))
	for _, enc := range []string{"gzip", "deflate", "br", "gzip, deflate", "identity", "x-unknown"} {
		for _, body := range [][]byte{[]byte("this is not compressed"), {}, {0x1f, 0x8b}, {0x1f, 0x8b, 8, 0, 0, 0, 0, 0, 0, 3, 0xff, 0xff}} {
			resp := sx.L(sx.A("resp"), sx.N(200), sx.S("OK"), sx.N(1), rh("Content-Encoding", enc, "Content-Type", "text/plain"), sx.A("cl"), sx.B(body))
			emit(sx.L(sx.L(sx.A("ex"), getReq, resp)))
		}
	}
	for _, form := range []string{"a=%zz", "a=1&a=&b", "tag=&tag=go&user=bob", "=", "&&&", "a=%", "a=b=c", "k=%41%20x+y", strings.Repeat("k=v&", 300)} {
		req := sx.L(sx.A("req"), sx.S("POST"), sx.S("/form"), sx.N(1), h("Content-Type", "application/x-www-form-urlencoded"), sx.A("cl"), sx.B([]byte(form)))
		emit(sx.L(sx.L(sx.A("ex"), req, okResp)))
	}
	for _, mp := range []struct{ ct, body string }{
		{"multipart/form-data; boundary=XX", "--XX\r\nContent-Disposition: form-data; name=\"a\"\r\n\r\n1\r\n--XX--\r\n"},
		{"multipart/form-data; boundary=XX", "--XX\r\nContent-Disposition: form-data; name=\"a\"\r\n\r\n1\r\n"},
		{"multipart/form-data; boundary=XX", "garbage without any boundary"},
		{"multipart/form-data", "--XX\r\n\r\n1\r\n--XX--\r\n"},
		{"multipart/form-data; boundary=", "x"},
		{"multipart/form-data; boundary=XX", ""},
		{"multipart/form-data; boundary=XX", "--XX\r\nBroken Header\r\n\r\n1\r\n--XX--\r\n"},
	} {
		body, _ := strconvUnquote(mp.body)
		req := sx.L(sx.A("req"), sx.S("POST"), sx.S("/upload"), sx.N(1), h("Content-Type", mp.ct), sx.A("cl"), sx.B([]byte(body)))
		emit(sx.L(sx.L(sx.A("ex"), req, okResp)))
	}
	genHttpConv(r, tier, emit)
}

// ---- DNS entries (DNS has no Dissect here: items come from the tap)

func genDnsEntries(r *Rand, tier string, emit func(sx.Sx)) {
	types := []string{"A", "AAAA", "CNAME", "NS", "PTR", "TXT", "SOA", "SRV", "MX", "OPT", "URI"}
	answer := func() map[string]interface{} {
		t := types[r.Intn(len(types))]
		a := map[string]interface{}{"name": "host.example.", "type": t, "class": "IN", "ttl": float64(r.Intn(3600)),
			"ip": "", "ns": "", "cname": "", "ptr": "", "txts": "", "soa": "", "srv": "", "mx": "", "opt": "", "uri": ""}
		switch t {
		case "A", "AAAA":
			a["ip"] = "10.1.2.3"
		case "CNAME":
			a["cname"] = "alias.example."
		case "NS":
			a["ns"] = "ns1.example."
		case "TXT":
			a["txts"] = "v=spf1 \"quoted\" -all"
		case "MX":
			a["mx"] = "10 mail.example."
		}
		return a
	}
	count := 300
	if tier == "thorough" {
		count = 6000
	}
	for i := 0; i < count; i++ {
		nq := r.Intn(3)
		if r.Chance(80) {
			nq = 1
		}
		qs := []interface{}{}
		for j := 0; j < nq; j++ {
			qs = append(qs, map[string]interface{}{"name": []string{"example.com.", "a \"b\".test.", "x.y.z.", "xn--bcher-kva.example.", "mail.xn--p1ai.", "xn--bcher-kva.example", "_sip._tcp.Example.COM.", "bücher.example.", "XN--BCHER-KVA.example.", "xn--.example.", "a..b."}[r.Intn(11)], "type": types[r.Intn(len(types))], "class": "IN"})
		}
		req := map[string]interface{}{"opCode": []string{"Query", "Status", "Notify", "Update"}[r.Intn(4)], "questions": qs}
		lists := func() []interface{} {
			out := []interface{}{}
			for j := 0; j < r.Intn(3); j++ {
				out = append(out, answer())
			}
			return out
		}
		resp := map[string]interface{}{"code": []string{"No Error", "Non-Existent Domain", "Server Failure"}[r.Intn(3)], "answers": lists(), "authorities": lists(), "additionals": lists()}
		rb, _ := json.Marshal(req)
		sb, _ := json.Marshal(resp)
		emit(sx.L(sx.A("dns"), sx.B(rb), sx.B(sb)))
	}
}
