//go:build verif

package main

import (
	"bytes"
	"fmt"
	"sort"

	"ksverif/harness/internal/sched"
	"ksverif/harness/internal/sx"
)

// Family sched.indep (C10): schedule independence where there is no model to predict the outcome -
// conversations the dissector is known to misread (HEAD exchanges: the response to a HEAD is read
// as a response to a GET, a recorded finding).  Whatever the dissector makes of the two byte
// streams, it must make the same of them under every interleaving of the two halves: the set of
// emitted (request, response) pairs and what is left in the matcher under the given schedule must
// equal those of the run "client half first, then server half".
// payload: (#kind n (order...)); observation: ((seq pairs residue) (this pairs residue))
func init() {
	families["sched.indep"] = &Family{Gen: genSchedIndep, Run: runSchedIndep}
}

func indepConv(kind string) *protoConv {
	base := *schedProtos["http"]
	base.client = func(n int) []byte {
		var b bytes.Buffer
		for i := 1; i <= n; i++ {
			m := "GET"
			if i%2 == 1 {
				m = "HEAD"
			}
			fmt.Fprintf(&b, "%s /r%d HTTP/1.1\r\nHost: h\r\n\r\n", m, i)
		}
		return b.Bytes()
	}
	base.server = func(n int) []byte {
		var b bytes.Buffer
		for i := 1; i <= n; i++ {
			body := fmt.Sprintf("%d", i)
			if i%2 == 1 { // the response to the HEAD: the Content-Length of the GET response, no body
				fmt.Fprintf(&b, "HTTP/1.1 200 OK\r\nContent-Length: %d\r\n\r\n", 2)
			} else {
				fmt.Fprintf(&b, "HTTP/1.1 200 OK\r\nContent-Length: %d\r\n\r\n%s", len(body), body)
			}
		}
		return b.Bytes()
	}
	return &base
}

func indepObserve(pc *protoConv, sr schedRun) sx.Sx {
	full := observeSched(pc, sr, false)
	var pairs []string
	var rest []sx.Sx
	for _, part := range full.List {
		if len(part.List) > 0 && part.List[0].Atom == "items" {
			for _, it := range part.List[1:] {
				pairs = append(pairs, sx.L(it.List[1], it.List[2]).String())
			}
			continue
		}
		if len(part.List) > 0 && part.List[0].Atom == "count" {
			continue
		}
		rest = append(rest, part)
	}
	sort.Strings(pairs)
	ps := []sx.Sx{sx.A("pairs")}
	for _, p := range pairs {
		ps = append(ps, sx.A(p))
	}
	return sx.L(append([]sx.Sx{sx.L(ps...)}, rest...)...)
}

func genSchedIndep(r *Rand, tier string, emit func(sx.Sx)) {
	pc := indepConv("httphead")
	maxN, limit := 2, 400
	if tier == "thorough" {
		maxN, limit = 3, 6000
	}
	for n := 2; n <= maxN+1; n++ {
		sched.Explore(limit, func(choose sched.Chooser) sched.Result {
			return execSchedMatch(pc, n, choose).res
		}, func(choices []int, res sched.Result) bool {
			order := make([]sx.Sx, len(res.Steps))
			for i, s := range res.Steps {
				order[i] = sx.N(s.Task)
			}
			emit(sx.L(sx.S("httphead"), sx.N(n), sx.L(order...)))
			return true
		})
	}
}

func runSchedIndep(p sx.Sx) sx.Sx {
	pc := indepConv(string(p.List[0].Bytes()))
	n := int(p.List[1].Int())
	var order []int
	for _, t := range p.List[2].List {
		order = append(order, int(t.Int()))
	}
	seq := make([]int, 0, 64)
	for i := 0; i < 64; i++ {
		seq = append(seq, 0) // the client half until it is done; then the only enabled task is the server half
	}
	a := indepObserve(pc, execSchedMatch(pc, n, sched.Replay(seq)))
	b := indepObserve(pc, execSchedMatch(pc, n, sched.Replay(order)))
	return sx.L(sx.L(sx.A("seq"), a), sx.L(sx.A("this"), b))
}
