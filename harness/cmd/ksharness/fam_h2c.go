//go:build verif

package main

import (
	"ksverif/harness/internal/sx"
)

// Family http.h2c (C03, C04, C11): an HTTP/1.1 connection upgraded to HTTP/2 in clear text.
// client: GET with `Connection: Upgrade, HTTP2-Settings` / `Upgrade: h2c`, then - after the 101 - the
// HTTP/2 preface and further streams; server: `101 Switching Protocols`, then HTTP/2 frames: the
// response to the upgraded request on stream 1 and the responses to the later streams.
// payload: ((c frame...) (s frame...)) - the HTTP/2 part as in http2.conv; the HTTP/1 prologue is fixed.
// observation: as http.rawsplit's halves: items (method, target, status, body) in order + leftovers.
func init() {
	families["http.h2c"] = &Family{Gen: genH2c, Run: runH2c}
}

const h2cRequest = "GET /upgraded HTTP/1.1\r\nHost: host.example\r\nConnection: Upgrade, HTTP2-Settings\r\nUpgrade: h2c\r\nHTTP2-Settings: AAMAAABkAAQAAP__\r\n\r\n"
const h2cResponse = "HTTP/1.1 101 Switching Protocols\r\nConnection: Upgrade\r\nUpgrade: h2c\r\n\r\n"

func h2cBytes(p sx.Sx) (cb, sb []byte) {
	cb = append([]byte(h2cRequest), encH2Half(true, p.List[0])...)
	sb = append([]byte(h2cResponse), encH2Half(false, p.List[1])...)
	return
}

func runH2c(p sx.Sx) sx.Sx {
	cb, sb := h2cBytes(p)
	whole := httpObserveBytes(cb, sb, nil, nil)
	ones := func(n int) []int {
		l := make([]int, n)
		for i := range l {
			l[i] = 1
		}
		return l
	}
	split := httpObserveBytes(cb, sb, ones(len(cb)), ones(len(sb)))
	strip := func(o sx.Sx) sx.Sx {
		var out []sx.Sx
		for _, x := range o.List {
			if len(x.List) > 0 && (x.List[0].Atom == "cbytes" || x.List[0].Atom == "sbytes") {
				continue
			}
			out = append(out, x)
		}
		return sx.L(out...)
	}
	return sx.L(sx.L(sx.A("whole"), strip(whole)), sx.L(sx.A("split"), strip(split)))
}

func genH2c(r *Rand, tier string, emit func(sx.Sx)) {
	hdr := func(kv ...string) sx.Sx {
		var hs []sx.Sx
		for i := 0; i+1 < len(kv); i += 2 {
			hs = append(hs, sx.L(sx.S(kv[i]), sx.S(kv[i+1])))
		}
		return sx.L(hs...)
	}
	n := 6
	if tier == "thorough" {
		n = 60
	}
	for i := 0; i < n; i++ {
		// stream 1: only the response (the request was the upgraded HTTP/1.1 one); streams 3, 5: both halves
		extra := r.Intn(3)
		cf := []sx.Sx{sx.A("c")}
		sf := []sx.Sx{sx.A("s")}
		body1 := r.Bytes(r.Intn(40))
		sf = append(sf, sx.L(sx.A("h"), sx.N(1), sx.Bool(len(body1) == 0), hdr(":status", "200", "content-type", "text/plain"), sx.N(0)))
		if len(body1) > 0 {
			sf = append(sf, sx.L(sx.A("d"), sx.N(1), sx.Bool(true), sx.B(body1)))
		}
		for k := 0; k < extra; k++ {
			sid := 3 + 2*k
			cf = append(cf, sx.L(sx.A("h"), sx.N(sid), sx.Bool(true), hdr(":method", "GET", ":path", "/s"+string(rune('0'+sid)), ":scheme", "http", ":authority", "host.example"), sx.N(0)))
			b := r.Bytes(1 + r.Intn(20))
			sf = append(sf, sx.L(sx.A("h"), sx.N(sid), sx.Bool(false), hdr(":status", "200"), sx.N(0)), sx.L(sx.A("d"), sx.N(sid), sx.Bool(true), sx.B(b)))
		}
		emit(sx.L(sx.L(cf...), sx.L(sf...)))
	}
}
