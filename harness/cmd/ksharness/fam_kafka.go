//go:build verif

package main

import (
	"bufio"
	"bytes"
	"encoding/binary"
	"errors"
	"fmt"
	"hash/adler32"
	"hash/crc32"
	"hash/fnv"
	"io"
	"reflect"
	"strings"
	"time"

	"github.com/kubeshark/base/pkg/api"
	kafkaExt "github.com/kubeshark/base/pkg/extensions/kafka"
	kgoproto "github.com/segmentio/kafka-go/protocol"
	kgoapiversions "github.com/segmentio/kafka-go/protocol/apiversions"
	kgocreatetopics "github.com/segmentio/kafka-go/protocol/createtopics"
	kgodeletetopics "github.com/segmentio/kafka-go/protocol/deletetopics"
	kgofetch "github.com/segmentio/kafka-go/protocol/fetch"
	kgolistoffsets "github.com/segmentio/kafka-go/protocol/listoffsets"
	kgometadata "github.com/segmentio/kafka-go/protocol/metadata"
	kgoproduce "github.com/segmentio/kafka-go/protocol/produce"

	"ksverif/harness/internal/mock"
	"ksverif/harness/internal/sx"
)

// Kafka families.
//
//	kafka.conv  well-formed conversations written by github.com/segmentio/kafka-go/protocol (the
//	            independent encoder; a dependency of /repo), random values for every API the
//	            dissector decodes at every version kafka-go knows, requests in flight, APIs
//	            without a layout interleaved.  The case carries the values and the wire bytes.
//	kafka.raw   arbitrary / mutated bytes on both halves.
func init() {
	families["kafka.conv"] = &Family{Gen: genKafkaConv, Run: runKafkaConv}
	families["kafka.raw"] = &Family{Gen: genKafkaRaw, Run: runKafkaRaw}
	families["kafka.split"] = &Family{Gen: genKafkaSplit, Run: runKafkaSplit}
}

// ---- observation of the real dissector

func kafkaErrKind(err error) string {
	switch {
	case err == nil:
		return "nil"
	case errors.Is(err, io.EOF):
		return "eof"
	case errors.Is(err, io.ErrUnexpectedEOF):
		return "ueof"
	}
	m := err.Error()
	switch {
	case strings.Contains(m, "cannot be bigger"):
		return "toobig"
	case strings.Contains(m, "cannot be smaller"):
		return "small"
	case strings.Contains(m, "Couldn't match"):
		return "nomatch"
	}
	return "other:" + fmt.Sprintf("%x", m)
}

func kafkaDissectHalf(b []byte, r *mock.Reader) (kind string) {
	return kafkaDissectChunks([][]byte{b}, r)
}

// kafkaDissectChunks: the half arrives as the given reads
func kafkaDissectChunks(chunks [][]byte, r *mock.Reader) (kind string) {
	defer func() {
		if rec := recover(); rec != nil {
			kind = "panic:" + fmt.Sprintf("%x", fmt.Sprint(rec))
		}
	}()
	cp := make([][]byte, len(chunks))
	for i := range chunks {
		cp[i] = append([]byte{}, chunks[i]...)
	}
	return kafkaErrKind(kafkaExt.NewDissector().Dissect(bufio.NewReader(&chunkReader{chunks: cp, tail: "eof"}), r))
}

// kafkaValSx prints a decoded payload by reflection: what the item carries, with the JSON
// names it will be marshalled under.
func kafkaValSx(v reflect.Value) sx.Sx {
	switch v.Kind() {
	case reflect.Ptr, reflect.Interface:
		if v.IsNil() {
			return sx.A("nopayload")
		}
		return kafkaValSx(v.Elem())
	case reflect.Bool:
		if v.Bool() {
			return sx.A("true")
		}
		return sx.A("false")
	case reflect.Int8, reflect.Int16, reflect.Int32, reflect.Int64, reflect.Int:
		return sx.A(fmt.Sprint(v.Int()))
	case reflect.String:
		return sx.B([]byte(v.String()))
	case reflect.Slice:
		if v.Type().Elem().Kind() == reflect.Uint8 {
			if v.IsNil() {
				return sx.A("nullbytes")
			}
			return sx.L(sx.A("y"), sx.B(v.Bytes()))
		}
		if v.IsNil() {
			return sx.A("null")
		}
		out := []sx.Sx{sx.A("A")}
		for i := 0; i < v.Len(); i++ {
			out = append(out, kafkaValSx(v.Index(i)))
		}
		return sx.L(out...)
	case reflect.Struct:
		out := []sx.Sx{sx.A("S")}
		t := v.Type()
		for i := 0; i < t.NumField(); i++ {
			f := t.Field(i)
			if f.PkgPath != "" {
				continue
			}
			name := f.Tag.Get("json")
			if j := strings.IndexByte(name, ','); j >= 0 {
				name = name[:j]
			}
			if name == "" {
				name = f.Name
			}
			out = append(out, sx.L(sx.A(name), kafkaValSx(v.Field(i))))
		}
		return sx.L(out...)
	}
	return sx.A("?" + v.Kind().String())
}

func kafkaObserve(cb, sb []byte) sx.Sx {
	return kafkaObserveChunks([][]byte{cb}, [][]byte{sb})
}

func kafkaObserveChunks(cchunks, schunks [][]byte) sx.Sx {
	d := kafkaExt.NewDissector()
	m := d.NewResponseRequestMatcher()
	m.SetMaxTry(1)
	out := make(chan *api.OutputChannelItem, 1<<16)
	conn := mock.NewConn(d, m, &api.AppStats{}, out, "pcap0", "10.0.0.1", "40000", "10.0.0.2", "9092")
	ck := kafkaDissectChunks(cchunks, conn.Client)
	sk := kafkaDissectChunks(schunks, conn.Server)
	close(out)
	items := []sx.Sx{sx.A("items")}
	for it := range out {
		q, qok := it.Pair.Request.Payload.(kafkaExt.KafkaPayload)
		p, pok := it.Pair.Response.Payload.(kafkaExt.KafkaPayload)
		if !qok || !pok {
			items = append(items, sx.A("bad-payload"))
			continue
		}
		qw, _ := q.Data.(*kafkaExt.KafkaWrapper)
		pw, _ := p.Data.(*kafkaExt.KafkaWrapper)
		req, rok := qw.Details.(kafkaExt.Request)
		resp, sok := pw.Details.(kafkaExt.Response)
		if !rok || !sok {
			items = append(items, sx.A("bad-details"))
			continue
		}
		if it.Pair.Request.CaptureSize != int(req.Size)+4 || it.Pair.Response.CaptureSize != int(resp.Size)+4 || qw.Method != req.ApiKeyName { // capture size = message + its 4-byte size prefix
			items = append(items, sx.A("inconsistent-item"))
			continue
		}
		items = append(items, sx.L(
			sx.L(sx.A("req"), sx.A(fmt.Sprint(req.Size)), sx.A(fmt.Sprint(int(req.ApiKey))), sx.A(req.ApiKeyName), sx.A(fmt.Sprint(req.ApiVersion)),
				sx.A(fmt.Sprint(req.CorrelationID)), sx.B([]byte(req.ClientID)), kafkaValSx(reflect.ValueOf(req.Payload))),
			sx.L(sx.A("resp"), sx.A(fmt.Sprint(resp.Size)), sx.A(fmt.Sprint(resp.CorrelationID)), kafkaValSx(reflect.ValueOf(resp.Payload)))))
	}
	left := 0
	m.GetMap().Range(func(k, v interface{}) bool { left++; return true })
	return sx.L(sx.L(sx.A("c"), sx.A(ck)), sx.L(sx.A("s"), sx.A(sk)), sx.L(items...), sx.L(sx.A("left"), sx.A(fmt.Sprint(left))))
}

func runKafkaConv(p sx.Sx) sx.Sx {
	var cb, sb []byte
	for _, m := range p.List[0].List {
		cb = append(cb, m.List[len(m.List)-1].Bytes()...)
	}
	for _, m := range p.List[1].List {
		sb = append(sb, m.List[len(m.List)-1].Bytes()...)
	}
	return kafkaObserve(cb, sb)
}

func runKafkaRaw(p sx.Sx) sx.Sx {
	return kafkaObserve(p.List[0].Bytes(), p.List[1].Bytes())
}

// ---- generation with kafka-go

type kgoTag struct {
	min, max int
	nullable bool
}

func kgoActive(f reflect.StructField, ver int) (kgoTag, bool) {
	tag, ok := f.Tag.Lookup("kafka")
	if !ok {
		return kgoTag{}, false
	}
	for _, alt := range strings.Split(tag, "|") {
		t := kgoTag{min: -1, max: -1}
		for _, o := range strings.Split(alt, ",") {
			switch {
			case strings.HasPrefix(o, "min=v"):
				fmt.Sscanf(o[5:], "%d", &t.min)
			case strings.HasPrefix(o, "max=v"):
				fmt.Sscanf(o[5:], "%d", &t.max)
			case o == "nullable":
				t.nullable = true
			}
		}
		if t.min <= ver && ver <= t.max {
			return t, true
		}
	}
	return kgoTag{}, false
}

type kgoApi struct {
	key           int
	newReq        func() kgoproto.Message
	newResp       func() kgoproto.Message
	min, max      int
	recordsV2From int
}

var kgoApis = []kgoApi{
	{0, func() kgoproto.Message { return &kgoproduce.Request{} }, func() kgoproto.Message { return &kgoproduce.Response{} }, 0, 8, 3},
	{1, func() kgoproto.Message { return &kgofetch.Request{} }, func() kgoproto.Message { return &kgofetch.Response{} }, 0, 11, 4},
	{2, func() kgoproto.Message { return &kgolistoffsets.Request{} }, func() kgoproto.Message { return &kgolistoffsets.Response{} }, 1, 5, -1},
	{3, func() kgoproto.Message { return &kgometadata.Request{} }, func() kgoproto.Message { return &kgometadata.Response{} }, 0, 8, -1},
	{18, func() kgoproto.Message { return &kgoapiversions.Request{} }, func() kgoproto.Message { return &kgoapiversions.Response{} }, 0, 2, -1},
	{19, func() kgoproto.Message { return &kgocreatetopics.Request{} }, func() kgoproto.Message { return &kgocreatetopics.Response{} }, 0, 5, -1},
	{20, func() kgoproto.Message { return &kgodeletetopics.Request{} }, func() kgoproto.Message { return &kgodeletetopics.Response{} }, 0, 3, -1},
}

var kgoRecordSetType = reflect.TypeOf(kgoproto.RecordSet{})

type kgoGen struct {
	r   *Rand
	ver int
	v2  bool
	big bool // thorough tier: longer strings / more elements
	// clean: stay inside what the dissector's layouts can express (one partition per Produce
	// topic, record batches rather than message sets, no flexible version)
	clean bool
	// forced: the next strings / element counts to hand out (for conversations built on purpose)
	forced      []string
	forcedCount int
}

// names a query literal has to carry unharmed: backslashes at the end, macro names standing alone
var kgoAwkwardNames = []string{"archive\\\\", "dir\\\\sub", "kafka-events", "http-logs", "redis", "amqp dns", "x.http", "a\\\\", "gql kafka",
	"tail\\\\\\\\", "it's", "`tmp`"}

func (g *kgoGen) str(nonEmpty bool) string {
	r := g.r
	if len(g.forced) > 0 {
		s := g.forced[0]
		g.forced = g.forced[1:]
		return s
	}
	if g.clean && r.Chance(12) {
		return kgoAwkwardNames[r.Intn(len(kgoAwkwardNames))]
	}
	var n int
	switch r.Intn(10) {
	case 0:
		n = 0
		if r.Chance(15) {
			// strings at and beyond the sizes of the readers in play (bufio's 4096 default and its multiples): client ids,
			// topic names, record keys / values / header values of a few KB are ordinary (JSON payloads)
			n = []int{4095, 4096, 4097, 5010, 8191, 8193, 12000}[r.Intn(7)]
		}
	case 1:
		n = 60 + r.Intn(10)
	case 2:
		n = 120 + r.Intn(20)
	case 3:
		if g.big {
			n = 200 + r.Intn(400)
		} else {
			n = 1 + r.Intn(6)
		}
	default:
		n = 1 + r.Intn(12)
	}
	if nonEmpty && n == 0 {
		n = 1
	}
	b := make([]byte, n)
	for i := range b {
		switch r.Intn(12) {
		case 0:
			b[i] = byte(r.Intn(256))
		case 1:
			b[i] = byte(0x80 + r.Intn(0x40))
		default:
			b[i] = byte('a' + r.Intn(26))
		}
	}
	return string(b)
}

func (g *kgoGen) count() int {
	if g.forcedCount > 0 {
		n := g.forcedCount
		g.forcedCount = 0
		return n
	}
	switch g.r.Intn(8) {
	case 0:
		return 0
	case 1, 2, 3:
		return 1
	case 4, 5:
		return 2
	default:
		return 3
	}
}

func (g *kgoGen) intOf(bits int) int64 {
	r := g.r
	switch r.Intn(6) {
	case 0:
		return 0
	case 1:
		return -1
	case 2:
		return int64(r.Intn(100))
	case 3:
		return int64(1)<<(bits-1) - 1
	case 4:
		return -(int64(1) << (bits - 1))
	}
	v := int64(r.U64())
	if bits < 64 {
		v = v >> (64 - bits)
	}
	return v
}

func (g *kgoGen) bytesOrNil(allowNil bool) []byte {
	if allowNil && g.r.Intn(5) == 0 {
		return nil
	}
	return []byte(g.str(false))
}

var kgoBaseTime = time.UnixMilli(1700000000000)

type kafkaRec struct {
	t          time.Time
	key, value []byte
	headers    []kgoproto.Header
}

func (g *kgoGen) records() []kafkaRec {
	n := 1 + g.r.Intn(3)
	var out []kafkaRec
	for i := 0; i < n; i++ {
		rec := kafkaRec{t: kgoBaseTime.Add(time.Duration(i*7+g.r.Intn(5)) * time.Millisecond)}
		if g.r.Intn(200) == 0 {
			rec.t = kgoBaseTime.Add(time.Duration(g.r.Intn(1<<20)) * time.Millisecond)
		}
		rec.key = g.bytesOrNil(true)
		rec.value = g.bytesOrNil(true)
		for h := g.r.Intn(3); h > 0; h-- {
			rec.headers = append(rec.headers, kgoproto.Header{Key: g.str(false), Value: g.bytesOrNil(true)})
		}
		out = append(out, rec)
	}
	return out
}

// recordSet builds a fresh record set (kafka-go's Bytes are consumed by writing them)
func (g *kgoGen) recordSet(recs []kafkaRec) kgoproto.RecordSet {
	ver := int8(1)
	if g.v2 {
		ver = 2
	}
	var out []kgoproto.Record
	for _, r := range recs {
		rec := kgoproto.Record{Time: r.t, Headers: r.headers}
		if r.key != nil {
			rec.Key = kgoproto.NewBytes(r.key)
		}
		if r.value != nil {
			rec.Value = kgoproto.NewBytes(r.value)
		}
		out = append(out, rec)
	}
	return kgoproto.RecordSet{Version: ver, Records: kgoproto.NewRecordReader(out...)}
}

// fill sets the fields of a kafka-go message that exist at g.ver to random values and returns
// the value as the case carries it (positional, read against the reference schema in Lean).
func (g *kgoGen) fill(v reflect.Value, nullable bool, elemOfArray bool) sx.Sx {
	t := v.Type()
	if t == kgoRecordSetType {
		recs := g.records()
		v.Set(reflect.ValueOf(g.recordSet(recs)))
		var buf bytes.Buffer
		rs := g.recordSet(recs)
		if _, err := rs.WriteTo(&buf); err != nil {
			panic(err)
		}
		raw := buf.Bytes()[4:]
		if g.v2 {
			return sx.L(sx.A("rs"), sx.B(raw))
		}
		return sx.L(sx.A("y"), sx.B(raw))
	}
	switch t.Kind() {
	case reflect.Bool:
		b := g.r.Bool()
		v.SetBool(b)
		if b {
			return sx.A("true")
		}
		return sx.A("false")
	case reflect.Int8, reflect.Int16, reflect.Int32, reflect.Int64:
		i := g.intOf(t.Bits())
		v.SetInt(i)
		return sx.A(fmt.Sprint(i))
	case reflect.String:
		s := g.str(elemOfArray)
		v.SetString(s)
		if nullable && s == "" {
			return sx.A("null")
		}
		return sx.B([]byte(s))
	case reflect.Slice:
		if t.Elem().Kind() == reflect.Uint8 {
			b := g.bytesOrNil(nullable)
			v.SetBytes(b)
			if b == nil && nullable {
				return sx.A("nullbytes")
			}
			return sx.L(sx.A("y"), sx.B(b))
		}
		if nullable && g.r.Intn(4) == 0 {
			v.Set(reflect.Zero(t))
			return sx.A("null")
		}
		n := g.count()
		if g.clean && t.Elem() == reflect.TypeOf(kgoproduce.RequestPartition{}) {
			n = 1
		}
		s := reflect.MakeSlice(t, n, n)
		out := []sx.Sx{sx.A("A")}
		for i := 0; i < n; i++ {
			out = append(out, g.fill(s.Index(i), false, true))
		}
		v.Set(s)
		return sx.L(out...)
	case reflect.Struct:
		var out []sx.Sx
		for i := 0; i < t.NumField(); i++ {
			f := t.Field(i)
			tag, ok := kgoActive(f, g.ver)
			if !ok || f.Name == "_" || f.PkgPath != "" {
				continue
			}
			out = append(out, g.fill(v.Field(i), tag.nullable, false))
		}
		return sx.L(out...)
	}
	panic("kafka-go kind " + t.Kind().String())
}

// rawMessage: a message of an API the dissector has no layout for
func kafkaRawRequest(apiKey, ver, corr int, cid *string, body []byte) []byte {
	b := &bytes.Buffer{}
	_ = binary.Write(b, binary.BigEndian, int16(apiKey))
	_ = binary.Write(b, binary.BigEndian, int16(ver))
	_ = binary.Write(b, binary.BigEndian, int32(corr))
	if cid == nil {
		_ = binary.Write(b, binary.BigEndian, int16(-1))
	} else {
		_ = binary.Write(b, binary.BigEndian, int16(len(*cid)))
		b.WriteString(*cid)
	}
	b.Write(body)
	out := make([]byte, 4, 4+b.Len())
	binary.BigEndian.PutUint32(out, uint32(b.Len()))
	return append(out, b.Bytes()...)
}

func kafkaRawResponse(corr int, body []byte) []byte {
	out := make([]byte, 8, 8+len(body))
	binary.BigEndian.PutUint32(out, uint32(4+len(body)))
	binary.BigEndian.PutUint32(out[4:], uint32(int32(corr)))
	return append(out, body...)
}

var kafkaOtherApis = []int{8, 9, 10, 11, 12, 13, 14, 15, 16, 17, 21, 22, 32, 36, 49, 50, 60, 1000, -1}

type kafkaExchange struct {
	q, r   sx.Sx
	qw, rw []byte
}

func (g *kgoGen) exchange(a kgoApi, ver, corr int) kafkaExchange {
	g.ver = ver
	g.v2 = a.recordsV2From >= 0 && ver >= a.recordsV2From
	req := a.newReq()
	qv := g.fill(reflect.ValueOf(req).Elem(), false, false)
	cid := g.str(false)
	var qb bytes.Buffer
	if err := kgoproto.WriteRequest(&qb, int16(ver), int32(corr), cid, req); err != nil {
		panic(fmt.Sprintf("kafka-go WriteRequest api=%d v=%d: %v", a.key, ver, err))
	}
	resp := a.newResp()
	rv := g.fill(reflect.ValueOf(resp).Elem(), false, false)
	var rb bytes.Buffer
	if err := kgoproto.WriteResponse(&rb, int16(ver), int32(corr), resp); err != nil {
		panic(fmt.Sprintf("kafka-go WriteResponse api=%d v=%d: %v", a.key, ver, err))
	}
	flexHdr := a.key == 19 && ver >= 5
	cidSx := sx.B([]byte(cid))
	if cid == "" && flexHdr {
		cidSx = sx.A("null") // writeNullString
	}
	return kafkaExchange{
		q:  sx.L(sx.A("q"), sx.A(fmt.Sprint(a.key)), sx.A(fmt.Sprint(ver)), sx.A(fmt.Sprint(corr)), cidSx, qv, sx.B(qb.Bytes())),
		r:  sx.L(sx.A("r"), sx.A(fmt.Sprint(a.key)), sx.A(fmt.Sprint(ver)), sx.A(fmt.Sprint(corr)), rv, sx.B(rb.Bytes())),
		qw: qb.Bytes(), rw: rb.Bytes(),
	}
}

func (g *kgoGen) otherExchange(corr int) kafkaExchange {
	r := g.r
	apiKey := kafkaOtherApis[r.Intn(len(kafkaOtherApis))]
	ver := r.Intn(6)
	var cid *string
	cidSx := sx.A("null")
	if !r.Chance(20) {
		s := g.str(false)
		cid = &s
		cidSx = sx.B([]byte(s))
	}
	qbody, rbody := r.Bytes(r.Intn(40)), r.Bytes(r.Intn(40))
	qw, rw := kafkaRawRequest(apiKey, ver, corr, cid, qbody), kafkaRawResponse(corr, rbody)
	return kafkaExchange{
		q:  sx.L(sx.A("qraw"), sx.A(fmt.Sprint(apiKey)), sx.A(fmt.Sprint(ver)), sx.A(fmt.Sprint(corr)), cidSx, sx.B(qbody), sx.B(qw)),
		r:  sx.L(sx.A("rraw"), sx.A(fmt.Sprint(corr)), sx.B(rbody), sx.B(rw)),
		qw: qw, rw: rw,
	}
}

func kafkaConv(g *kgoGen, exs []kafkaExchange) sx.Sx {
	r := g.r
	// responses arrive in another order than the requests were sent; some requests stay unanswered
	idx := make([]int, len(exs))
	for i := range idx {
		idx[i] = i
	}
	if r.Chance(50) {
		for i := len(idx) - 1; i > 0; i-- {
			j := r.Intn(i + 1)
			idx[i], idx[j] = idx[j], idx[i]
		}
	}
	if len(idx) > 1 && r.Chance(15) {
		idx = idx[:len(idx)-1]
	}
	var cs, ss []sx.Sx
	for _, e := range exs {
		cs = append(cs, e.q)
	}
	for _, i := range idx {
		ss = append(ss, exs[i].r)
	}
	return sx.L(sx.L(cs...), sx.L(ss...))
}

func genKafkaConv(r *Rand, tier string, emit func(sx.Sx)) {
	g := &kgoGen{r: r, big: tier == "thorough"}
	rounds := 2
	if tier == "thorough" {
		rounds = 12
	}
	corr := 1
	next := func() int { corr++; return corr }
	// every API at every version, alone
	for round := 0; round < rounds; round++ {
		for _, a := range kgoApis {
			for v := a.min; v <= a.max; v++ {
				emit(kafkaConv(g, []kafkaExchange{g.exchange(a, v, next())}))
			}
		}
	}
	// names that collide under the usual 32-bit hashes (CRC-32 IEEE and Castagnoli, FNV-1a, Adler-32): two different
	// strings of one length - a table keyed by such a hash must still tell them apart. First in two exchanges of one
	// connection, then as two topics of one request.
	for _, pair := range hashCollisionPairs() {
		for _, a := range kgoApis {
			if a.key != 3 {
				continue
			}
			g.clean = true
			g.forced, g.forcedCount = []string{"cl", pair[0]}, 1
			e1 := g.exchange(a, a.min+1, next())
			g.forced, g.forcedCount = []string{"cl", pair[1]}, 1
			e2 := g.exchange(a, a.min+1, next())
			g.forced, g.forcedCount = []string{"cl", pair[0], pair[1]}, 2
			e3 := g.exchange(a, a.min+1, next())
			g.forced, g.forcedCount = nil, 0
			emit(kafkaConv(g, []kafkaExchange{e1, e2}))
			emit(kafkaConv(g, []kafkaExchange{e3}))
		}
	}
	// mixed conversations: several requests in flight, APIs without a layout interleaved
	n := 150
	if tier == "thorough" {
		n = 1500
	}
	for i := 0; i < n; i++ {
		var exs []kafkaExchange
		g.clean = r.Chance(80)
		for k := 1 + r.Intn(5); k > 0; k-- {
			if r.Chance(25) {
				exs = append(exs, g.otherExchange(next()))
				continue
			}
			a := kgoApis[r.Intn(len(kgoApis))]
			ver := a.min + r.Intn(a.max-a.min+1)
			if g.clean {
				switch {
				case a.recordsV2From >= 0 && ver < a.recordsV2From:
					ver = a.recordsV2From + r.Intn(a.max-a.recordsV2From+1)
				case a.key == 19 && ver >= 5:
					ver = r.Intn(5)
				}
			}
			c := next()
			if r.Chance(10) {
				c = []int{0, -1, 2147483647, -2147483648}[r.Intn(4)]
				dup := false
				for _, e := range exs {
					if e.q.List[3].Atom == fmt.Sprint(c) {
						dup = true
					}
				}
				if dup {
					c = next()
				}
			}
			exs = append(exs, g.exchange(a, ver, c))
		}
		emit(kafkaConv(g, exs))
	}
	g.clean = false
}

// ---- malformed streams

func genKafkaRaw(r *Rand, tier string, emit func(sx.Sx)) {
	g := &kgoGen{r: r}
	n := 400
	if tier == "thorough" {
		n = 4000
	}
	corr := 100
	for i := 0; i < n; i++ {
		var cb, sb []byte
		for k := 1 + r.Intn(3); k > 0; k-- {
			corr++
			var e kafkaExchange
			if r.Chance(15) {
				e = g.otherExchange(corr)
			} else {
				a := kgoApis[r.Intn(len(kgoApis))]
				ver := a.min + r.Intn(a.max-a.min+1)
				if r.Chance(10) {
					ver = r.Intn(20) - 2
					if ver < a.min || ver > a.max {
						// a version kafka-go does not know: encode at a known one, relabel below
						e = g.exchange(a, a.min+r.Intn(a.max-a.min+1), corr)
						if len(e.qw) >= 8 {
							binary.BigEndian.PutUint16(e.qw[6:], uint16(int16(ver)))
						}
						cb, sb = append(cb, e.qw...), append(sb, e.rw...)
						continue
					}
				}
				e = g.exchange(a, ver, corr)
			}
			cb, sb = append(cb, e.qw...), append(sb, e.rw...)
		}
		mutate := func(b []byte) []byte {
			b = append([]byte{}, b...)
			for m := r.Intn(4); m > 0 && len(b) > 0; m-- {
				switch r.Intn(7) {
				case 0: // flip a byte
					b[r.Intn(len(b))] = byte(r.Intn(256))
				case 1: // truncate
					b = b[:r.Intn(len(b)+1)]
				case 2: // a big length / count somewhere
					if len(b) >= 4 {
						o := r.Intn(len(b) - 3)
						binary.BigEndian.PutUint32(b[o:], []uint32{0x7fffffff, 0xffffffff, 65535, 65536, 1000000, 1000001, 0x80000000}[r.Intn(7)])
					}
				case 3: // a small negative / large int16
					if len(b) >= 2 {
						o := r.Intn(len(b) - 1)
						binary.BigEndian.PutUint16(b[o:], []uint16{0xffff, 0x7fff, 0x8000, 300}[r.Intn(4)])
					}
				case 4: // insert bytes
					o := r.Intn(len(b) + 1)
					b = append(b[:o], append(r.Bytes(1+r.Intn(6)), b[o:]...)...)
				case 5: // delete bytes
					o := r.Intn(len(b))
					e := o + 1 + r.Intn(4)
					if e > len(b) {
						e = len(b)
					}
					b = append(b[:o], b[e:]...)
				case 6: // varint continuation bytes
					o := r.Intn(len(b))
					for j := o; j < len(b) && j < o+1+r.Intn(12); j++ {
						b[j] |= 0x80
					}
				}
			}
			return b
		}
		switch r.Intn(4) {
		case 0:
			cb = mutate(cb)
		case 1:
			sb = mutate(sb)
		case 2:
			cb, sb = mutate(cb), mutate(sb)
		default:
			cb, sb = r.Bytes(r.Intn(64)), r.Bytes(r.Intn(64))
		}
		emit(sx.L(sx.B(cb), sx.B(sb)))
	}
}

// stages.kafka / queries.kafka: conversations of the APIs and versions the dissector's layouts
// can express (one partition per Produce topic, record batches, no flexible version), every API
// at every such version, 0-3 topics / partitions / records, for the later stages and the
// click-to-filter queries
func genKafkaStages(r *Rand, tier string, emit func(sx.Sx)) {
	g := &kgoGen{r: r, clean: true}
	rounds := 6
	if tier == "thorough" {
		rounds = 60
	}
	corr := 1
	for round := 0; round < rounds; round++ {
		for _, a := range kgoApis {
			for v := a.min; v <= a.max; v++ {
				if (a.recordsV2From >= 0 && v < a.recordsV2From) || (a.key == 19 && v >= 5) {
					continue
				}
				corr++
				emit(kafkaConv(g, []kafkaExchange{g.exchange(a, v, corr)}))
			}
		}
	}
	// several names in one request, so that the summary query holds several literals: an earlier name ending in
	// backslashes, a later one holding a macro name that stands alone
	for _, a := range kgoApis {
		for _, pair := range [][2]string{{"archive\\\\", "kafka-events"}, {"a\\", "http-logs"}, {"tail\\\\\\\\", "redis"}, {"kafka-events", "archive\\\\"}, {"say \\\"", "amqp x"}} {
			v := a.min + r.Intn(a.max-a.min+1)
			if (a.recordsV2From >= 0 && v < a.recordsV2From) || (a.key == 19 && v >= 5) {
				continue
			}
			corr++
			g.forced, g.forcedCount = []string{pair[0], pair[1], pair[0], pair[1]}, 2
			e := g.exchange(a, v, corr)
			g.forced, g.forcedCount = nil, 0
			emit(kafkaConv(g, []kafkaExchange{e}))
		}
	}
	// a request naming tens of thousands of topics (it fits in the 1 MB message cap): the entry must still be
	// analysed, summarised and represented, and its own queries stay valid and true
	for _, a := range kgoApis {
		if a.key != 3 {
			continue
		}
		many := make([]string, 60020)
		for i := range many {
			many[i] = "t"
		}
		for attempt := 0; attempt < 20; attempt++ {
			corr++
			g.forced, g.forcedCount = many, 60000
			e := g.exchange(a, a.min+1, corr)
			g.forced, g.forcedCount = nil, 0
			// the draw may make the topic list null and spend the count elsewhere: take the exchange whose
			// request carries the names and whose halves both fit the message cap
			if len(e.qw) > 150000 && len(e.qw) < 900000 && len(e.rw) < 900000 {
				emit(kafkaConv(g, []kafkaExchange{e}))
				break
			}
		}
	}
	// every (api, version) the dissector has a layout for, written along that layout
	genKafkaLayoutStages(r, rounds/2, emit)
}

// Family kafka.split (C08): the streams of kafka.conv (clean and not) and of kafka.raw delivered
// in pieces: every two-piece split of short halves, random multi-piece splits down to single
// bytes. payload: ((#chunk ...) (#chunk ...)); the observation must be the one the bytes alone
// determine.
func runKafkaSplit(p sx.Sx) sx.Sx {
	var cc, sc [][]byte
	for _, c := range p.List[0].List {
		cc = append(cc, c.Bytes())
	}
	for _, c := range p.List[1].List {
		sc = append(sc, c.Bytes())
	}
	return kafkaObserveChunks(cc, sc)
}

func genKafkaSplit(r *Rand, tier string, emit func(sx.Sx)) {
	g := &kgoGen{r: r}
	chunksSx := func(cs [][]byte) sx.Sx {
		var out []sx.Sx
		for _, c := range cs {
			out = append(out, sx.B(c))
		}
		return sx.L(out...)
	}
	randSplit := func(b []byte) [][]byte {
		var out [][]byte
		for len(b) > 0 {
			n := 1 + r.Intn(9)
			if r.Chance(30) {
				n = 1
			} else if r.Chance(20) {
				n = 1 + r.Intn(200)
			}
			if n > len(b) {
				n = len(b)
			}
			out = append(out, b[:n])
			b = b[n:]
		}
		return out
	}
	n := 60
	if tier == "thorough" {
		n = 600
	}
	corr := 500
	for i := 0; i < n; i++ {
		var cb, sb []byte
		g.clean = r.Chance(70)
		for k := 1 + r.Intn(3); k > 0; k-- {
			corr++
			var e kafkaExchange
			if r.Chance(20) {
				e = g.otherExchange(corr)
			} else {
				a := kgoApis[r.Intn(len(kgoApis))]
				e = g.exchange(a, a.min+r.Intn(a.max-a.min+1), corr)
			}
			cb, sb = append(cb, e.qw...), append(sb, e.rw...)
		}
		if r.Chance(15) && len(cb) > 3 { // a truncated half
			cb = cb[:r.Intn(len(cb))]
		}
		// every two-piece split of a short half, the other half whole
		if len(cb) <= 80 {
			for k := 1; k < len(cb); k++ {
				emit(sx.L(chunksSx([][]byte{cb[:k], cb[k:]}), chunksSx([][]byte{sb})))
			}
		}
		for rep := 0; rep < 4; rep++ {
			emit(sx.L(chunksSx(randSplit(cb)), chunksSx(randSplit(sb))))
		}
		emit(sx.L(chunksSx([][]byte{cb}), chunksSx([][]byte{sb})))
	}
	g.clean = false
}

// hashCollisionPairs: pairs of different 16-byte names with the same 32-bit hash, one or two pairs per hash function,
// found by birthday search over a fixed pseudo-random sequence (deterministic).
func hashCollisionPairs() [][2]string {
	hashes := []func([]byte) uint32{
		crc32.ChecksumIEEE,
		func(b []byte) uint32 { return crc32.Checksum(b, crc32.MakeTable(crc32.Castagnoli)) },
		func(b []byte) uint32 { h := fnv.New32a(); h.Write(b); return h.Sum32() },
		func(b []byte) uint32 { h := fnv.New32(); h.Write(b); return h.Sum32() },
		adler32.Checksum,
	}
	var out [][2]string
	for _, hf := range hashes {
		seen := map[uint32]string{}
		x := uint64(0x9E3779B97F4A7C15)
		found := 0
		for i := 0; i < 600000 && found < 2; i++ {
			b := []byte("events.")
			x ^= x << 13
			x ^= x >> 7
			x ^= x << 17
			v := x
			for j := 0; j < 9; j++ {
				b = append(b, byte('a'+v%26))
				v /= 26
			}
			h := hf(b)
			if prev, ok := seen[h]; ok && prev != string(b) {
				out = append(out, [2]string{prev, string(b)})
				found++
				continue
			}
			seen[h] = string(b)
		}
	}
	return out
}
