//go:build verif

package main

import (
	"github.com/kubeshark/base/pkg/api"
	"ksverif/harness/internal/mock"
	"ksverif/harness/internal/sched"
	"ksverif/harness/internal/sx"
)

// Family sched.emit (C19): tasks call the real Emitting.Emit directly.
// payload: (((stream k) ...) (order...)) — task i emits k items on stream `stream`;
// tasks of one stream share one Emitting (as the two halves of a stream do), all share AppStats.
// observation: ((trace ...) (items (stream index)...) (matched m) (counts c0 c1 ...))
//
// Family sched.dump (C20): task 0 calls DumpStats d times, tasks 1.. increment one cell once.
// payload: (d (cell ...) (order ...))
// observation: ((trace ...) (dumps (v0..v7) ...) (cells v0..v7))
func init() {
	families["sched.emit"] = &Family{Gen: genSchedEmit, Run: runSchedEmit}
	families["sched.dump"] = &Family{Gen: genSchedDump, Run: runSchedDump}
}

type emitSpec struct{ stream, k int }

// schedEmitClosed: the streams report GetIsClosed() = true (FIN / timeout arrived while the halves
// still drain buffered messages): identities and counts must be exactly what they are on an open stream
var schedEmitClosed bool

func execSchedEmit(specs []emitSpec, choose sched.Chooser) (sx.Sx, sched.Result) {
	stats := &api.AppStats{}
	total := 0
	nstreams := 0
	for _, s := range specs {
		total += s.k
		if s.stream+1 > nstreams {
			nstreams = s.stream + 1
		}
	}
	out := make(chan *api.OutputChannelItem, total+8)
	streams := make([]*mock.Stream, nstreams)
	emitters := make([]*api.Emitting, nstreams)
	for i := range streams {
		streams[i] = &mock.Stream{PcapId: string(rune('a' + i)), Closed: schedEmitClosed}
		emitters[i] = &api.Emitting{AppStats: stats, Stream: streams[i], OutputChannel: out}
	}
	fns := make([]func(), len(specs))
	for i, s := range specs {
		s := s
		fns[i] = func() {
			for j := 0; j < s.k; j++ {
				emitters[s.stream].Emit(&api.OutputChannelItem{})
			}
		}
	}
	res := sched.Run(fns, preemptible, choose)
	close(out)
	tr := []sx.Sx{sx.A("trace")}
	for _, s := range res.Steps {
		tr = append(tr, sx.L(sx.N(s.Task), sx.A(s.After)))
	}
	items := []sx.Sx{sx.A("items")}
	for it := range out {
		items = append(items, sx.L(sx.N(int(it.Stream[0]-'a')), sx.I(it.Index)))
	}
	counts := []sx.Sx{sx.A("counts")}
	for _, st := range streams {
		counts = append(counts, sx.I(st.Count()))
	}
	return sx.L(sx.L(tr...), sx.L(items...), sx.L(sx.A("matched"), sx.U(stats.MatchedPairs)), sx.L(counts...)), res
}

func emitPayload(specs []emitSpec, order []int) sx.Sx {
	ts := make([]sx.Sx, len(specs))
	for i, s := range specs {
		ts[i] = sx.L(sx.N(s.stream), sx.N(s.k))
	}
	o := make([]sx.Sx, len(order))
	for i, t := range order {
		o[i] = sx.N(t)
	}
	return sx.L(sx.L(ts...), sx.L(o...))
}

func genSchedEmit(r *Rand, tier string, emit func(sx.Sx)) {
	configs := [][]emitSpec{
		{{0, 1}, {0, 1}}, {{0, 2}, {0, 1}}, {{0, 2}, {0, 2}},
		{{0, 1}, {1, 1}}, {{0, 1}, {0, 1}, {1, 1}},
	}
	limit := 1500
	if tier == "thorough" {
		configs = append(configs, []emitSpec{{0, 3}, {0, 3}}, []emitSpec{{0, 2}, {0, 2}, {1, 2}}, []emitSpec{{0, 1}, {0, 1}, {0, 1}})
		limit = 40000
	}
	for _, cfg := range configs {
		cfg := cfg
		sched.Explore(limit, func(choose sched.Chooser) sched.Result {
			_, res := execSchedEmit(cfg, choose)
			return res
		}, func(choices []int, res sched.Result) bool {
			order := make([]int, len(res.Steps))
			for i, s := range res.Steps {
				order[i] = s.Task
			}
			emit(emitPayload(cfg, order))
			if len(order)%3 == 0 {
				p := emitPayload(cfg, order)
				p.List = append(p.List, sx.A("closed"))
				emit(p)
			}
			return true
		})
	}
	count := 200
	if tier == "thorough" {
		count = 3000
	}
	for i := 0; i < count; i++ {
		nt := 2 + r.Intn(3)
		specs := make([]emitSpec, nt)
		total := 0
		for j := range specs {
			specs[j] = emitSpec{stream: r.Intn(2), k: 1 + r.Intn(12)}
			total += specs[j].k
		}
		order := make([]int, 4*total)
		for j := range order {
			order[j] = r.Intn(nt)
		}
		emit(emitPayload(specs, order))
	}
}

func runSchedEmit(p sx.Sx) sx.Sx {
	var specs []emitSpec
	for _, t := range p.List[0].List {
		specs = append(specs, emitSpec{int(t.List[0].Int()), int(t.List[1].Int())})
	}
	var order []int
	for _, t := range p.List[1].List {
		order = append(order, int(t.Int()))
	}
	schedEmitClosed = len(p.List) > 2 && p.List[2].Atom == "closed"
	defer func() { schedEmitClosed = false }()
	obs, _ := execSchedEmit(specs, sched.Replay(order))
	return obs
}

var incFns = []func(*api.AppStats){
	func(a *api.AppStats) { a.UpdateProcessedBytes(1) },
	func(a *api.AppStats) { a.IncPacketsCount() },
	func(a *api.AppStats) { a.IncTcpPacketsCount() },
	func(a *api.AppStats) { a.IncDnsPacketsCount() },
	func(a *api.AppStats) { a.IncReassembledTcpPayloadsCount() },
	func(a *api.AppStats) { a.IncTlsConnectionsCount() },
	func(a *api.AppStats) { a.IncMatchedPairs() },
	func(a *api.AppStats) { a.IncDroppedTcpStreams() },
}

func cellsOf(a *api.AppStats) []sx.Sx {
	return []sx.Sx{sx.U(a.ProcessedBytes), sx.U(a.PacketsCount), sx.U(a.TcpPacketsCount), sx.U(a.DnsPacketsCount),
		sx.U(a.ReassembledTcpPayloadsCount), sx.U(a.TlsConnectionsCount), sx.U(a.MatchedPairs), sx.U(a.DroppedTcpStreams)}
}

func execSchedDump(d int, incs []int, choose sched.Chooser) (sx.Sx, sched.Result) {
	stats := &api.AppStats{}
	var dumps []sx.Sx
	fns := []func(){func() {
		for i := 0; i < d; i++ {
			dumps = append(dumps, sx.L(cellsOf(stats.DumpStats())...))
		}
	}}
	for _, c := range incs {
		c := c
		fns = append(fns, func() { incFns[c](stats) })
	}
	res := sched.Run(fns, preemptible, choose)
	tr := []sx.Sx{sx.A("trace")}
	for _, s := range res.Steps {
		tr = append(tr, sx.L(sx.N(s.Task), sx.A(s.After)))
	}
	return sx.L(sx.L(tr...), sx.L(append([]sx.Sx{sx.A("dumps")}, dumps...)...), sx.L(append([]sx.Sx{sx.A("cells")}, cellsOf(stats)...)...)), res
}

func dumpPayload(d int, incs []int, order []int) sx.Sx {
	is := make([]sx.Sx, len(incs))
	for i, c := range incs {
		is[i] = sx.N(c)
	}
	o := make([]sx.Sx, len(order))
	for i, t := range order {
		o[i] = sx.N(t)
	}
	return sx.L(sx.N(d), sx.L(is...), sx.L(o...))
}

func genSchedDump(r *Rand, tier string, emit func(sx.Sx)) {
	type cfg struct {
		d    int
		incs []int
	}
	configs := []cfg{{1, []int{0}}, {1, []int{2, 2}}, {1, []int{7, 7}}, {2, []int{1}}, {1, []int{0, 3, 7}}}
	limit := 2000
	if tier == "thorough" {
		configs = append(configs, cfg{2, []int{2, 2}}, cfg{1, []int{0, 1, 2, 3}}, cfg{2, []int{4, 6, 7}})
		limit = 40000
	}
	for _, c := range configs {
		c := c
		sched.Explore(limit, func(choose sched.Chooser) sched.Result {
			_, res := execSchedDump(c.d, c.incs, choose)
			return res
		}, func(choices []int, res sched.Result) bool {
			order := make([]int, len(res.Steps))
			for i, s := range res.Steps {
				order[i] = s.Task
			}
			emit(dumpPayload(c.d, c.incs, order))
			return true
		})
	}
	count := 300
	if tier == "thorough" {
		count = 4000
	}
	for i := 0; i < count; i++ {
		d := 1 + r.Intn(4)
		incs := make([]int, 1+r.Intn(12))
		for j := range incs {
			incs[j] = r.Intn(8)
		}
		order := make([]int, 9*d+len(incs)+4)
		for j := range order {
			order[j] = r.Intn(len(incs) + 1)
			if r.Chance(40) {
				order[j] = 0
			}
		}
		emit(dumpPayload(d, incs, order))
	}
}

func runSchedDump(p sx.Sx) sx.Sx {
	d := int(p.List[0].Int())
	var incs, order []int
	for _, t := range p.List[1].List {
		incs = append(incs, int(t.Int()))
	}
	for _, t := range p.List[2].List {
		order = append(order, int(t.Int()))
	}
	obs, _ := execSchedDump(d, incs, sched.Replay(order))
	return obs
}
