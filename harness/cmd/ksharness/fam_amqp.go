//go:build verif

package main

import (
	"bufio"
	"bytes"
	"encoding/binary"
	"fmt"
	"io"
	"math"
	"reflect"
	"sort"
	"strings"
	"time"

	"github.com/kubeshark/base/pkg/api"
	amqpExt "github.com/kubeshark/base/pkg/extensions/amqp"
	"ksverif/harness/internal/mock"
	"ksverif/harness/internal/sx"
)

// Families amqp.conv (C05: frame sequences from an independent AMQP 0-9-1 encoder) and
// amqp.raw (C01/C08: arbitrary bytes in arbitrary reads on one half).
//
// amqp.conv payload: ((c frame ...) (s frame ...))
//
//	frame: (m ch class method (arg ...)) | (h ch class bodysize flags (prop ...)) | (b ch #payload) | (hb ch)
//	arg  : (o n) (s n) (l n) (ll n) (ss #b) (ls #b) (t table) (ts n) (bits b ...)
//	table: ((#key fval) ...) ; fval: (t b) (b n) (s n) (I n) (l n) (f bits) (d bits) (D scale val)
//	       (S #b) (A fval ...) (T n) (F table) (V) (x #b)
//
// observation: ((cbytes #..) (sbytes #..) (c end) (s end) (items (<req> <resp> orient) ...) (left <event> ...))
func init() {
	families["amqp.conv"] = &Family{Gen: genAmqpConv, Run: runAmqpConv}
	families["amqp.raw"] = &Family{Gen: genAmqpRaw, Run: runAmqpRaw}
	families["amqp.split"] = &Family{Gen: genAmqpRaw, Run: runAmqpRaw}
}

// ---- encoder (independent of the dissector's reader)

func encFVal(b *bytes.Buffer, v sx.Sx) {
	switch v.List[0].Atom {
	case "t":
		b.WriteByte('t')
		if v.List[1].Atom == "true" {
			b.WriteByte(1)
		} else {
			b.WriteByte(0)
		}
	case "b":
		b.WriteByte('b')
		b.WriteByte(byte(v.List[1].Int()))
	case "s":
		b.WriteByte('s')
		binary.Write(b, binary.BigEndian, int16(v.List[1].Int()))
	case "I":
		b.WriteByte('I')
		binary.Write(b, binary.BigEndian, int32(v.List[1].Int()))
	case "l":
		b.WriteByte('l')
		binary.Write(b, binary.BigEndian, v.List[1].Int())
	case "f":
		b.WriteByte('f')
		binary.Write(b, binary.BigEndian, uint32(v.List[1].Int()))
	case "d":
		b.WriteByte('d')
		u, _ := parseU64(v.List[1].Atom)
		binary.Write(b, binary.BigEndian, u)
	case "D":
		b.WriteByte('D')
		b.WriteByte(byte(v.List[1].Int()))
		binary.Write(b, binary.BigEndian, int32(v.List[2].Int()))
	case "S":
		b.WriteByte('S')
		s := v.List[1].Bytes()
		binary.Write(b, binary.BigEndian, uint32(len(s)))
		b.Write(s)
	case "A":
		b.WriteByte('A')
		var inner bytes.Buffer
		for _, x := range v.List[1:] {
			encFVal(&inner, x)
		}
		binary.Write(b, binary.BigEndian, uint32(inner.Len()))
		b.Write(inner.Bytes())
	case "T":
		b.WriteByte('T')
		binary.Write(b, binary.BigEndian, v.List[1].Int())
	case "F":
		b.WriteByte('F')
		encTable(b, v.List[1])
	case "V":
		b.WriteByte('V')
	case "x":
		b.WriteByte('x')
		s := v.List[1].Bytes()
		binary.Write(b, binary.BigEndian, int32(len(s)))
		b.Write(s)
	default:
		panic("bad fval " + v.String())
	}
}

func parseU64(a string) (uint64, error) {
	var u uint64
	_, err := fmt.Sscanf(a, "%d", &u)
	return u, err
}

func encTable(b *bytes.Buffer, t sx.Sx) {
	var inner bytes.Buffer
	for _, kv := range t.List {
		k := kv.List[0].Bytes()
		inner.WriteByte(byte(len(k)))
		inner.Write(k)
		encFVal(&inner, kv.List[1])
	}
	binary.Write(b, binary.BigEndian, uint32(inner.Len()))
	b.Write(inner.Bytes())
}

func encArg(b *bytes.Buffer, a sx.Sx) {
	switch a.List[0].Atom {
	case "o":
		b.WriteByte(byte(a.List[1].Int()))
	case "s":
		binary.Write(b, binary.BigEndian, uint16(a.List[1].Int()))
	case "l":
		binary.Write(b, binary.BigEndian, uint32(a.List[1].Int()))
	case "ll":
		u, _ := parseU64(a.List[1].Atom)
		binary.Write(b, binary.BigEndian, u)
	case "ss":
		s := a.List[1].Bytes()
		b.WriteByte(byte(len(s)))
		b.Write(s)
	case "ls":
		s := a.List[1].Bytes()
		binary.Write(b, binary.BigEndian, uint32(len(s)))
		b.Write(s)
	case "t":
		encTable(b, a.List[1])
	case "ts":
		binary.Write(b, binary.BigEndian, a.List[1].Int())
	case "bits":
		var v byte
		for i, x := range a.List[1:] {
			if x.Atom == "true" {
				v |= 1 << uint(i)
			}
		}
		b.WriteByte(v)
	default:
		panic("bad arg " + a.String())
	}
}

func encFrame(f sx.Sx) []byte {
	var payload bytes.Buffer
	var typ byte
	ch := uint16(f.List[1].Int())
	switch f.List[0].Atom {
	case "m":
		typ = 1
		binary.Write(&payload, binary.BigEndian, uint16(f.List[2].Int()))
		binary.Write(&payload, binary.BigEndian, uint16(f.List[3].Int()))
		for _, a := range f.List[4].List {
			encArg(&payload, a)
		}
	case "h":
		typ = 2
		binary.Write(&payload, binary.BigEndian, uint16(f.List[2].Int()))
		binary.Write(&payload, binary.BigEndian, uint16(0))
		u, _ := parseU64(f.List[3].Atom)
		binary.Write(&payload, binary.BigEndian, u)
		binary.Write(&payload, binary.BigEndian, uint16(f.List[4].Int()))
		for _, a := range f.List[5].List {
			encArg(&payload, a)
		}
	case "b":
		typ = 3
		payload.Write(f.List[2].Bytes())
	case "hb":
		typ = 8
	}
	var out bytes.Buffer
	out.WriteByte(typ)
	binary.Write(&out, binary.BigEndian, ch)
	binary.Write(&out, binary.BigEndian, uint32(payload.Len()))
	out.Write(payload.Bytes())
	out.WriteByte(0xCE)
	return out.Bytes()
}

func encFrames(fs sx.Sx) []byte {
	var b []byte
	for _, f := range fs.List[1:] {
		b = append(b, encFrame(f)...)
	}
	return b
}

// ---- observing events

func amqpErrKind(err error) string {
	if err == nil {
		return "nil"
	}
	switch err {
	case io.EOF:
		return "eof"
	case io.ErrUnexpectedEOF:
		return "unexpected-eof"
	case errBoom:
		return "readerr"
	}
	return "other:" + fmt.Sprintf("%x", err.Error())
}

func fvalSx(v interface{}) sx.Sx {
	switch x := v.(type) {
	case nil:
		return sx.L(sx.A("V"))
	case bool:
		return sx.L(sx.A("t"), sx.Bool(x))
	case byte:
		return sx.L(sx.A("b"), sx.N(int(x)))
	case int16:
		return sx.L(sx.A("s"), sx.I(int64(x)))
	case int32:
		return sx.L(sx.A("I"), sx.I(int64(x)))
	case int64:
		return sx.L(sx.A("l"), sx.I(x))
	case float32:
		return sx.L(sx.A("f"), sx.U(uint64(math.Float32bits(x))))
	case float64:
		return sx.L(sx.A("d"), sx.U(math.Float64bits(x)))
	case amqpExt.Decimal:
		return sx.L(sx.A("D"), sx.N(int(x.Scale)), sx.I(int64(x.Value)))
	case string:
		return sx.L(sx.A("S"), sx.S(x))
	case []interface{}:
		out := []sx.Sx{sx.A("A")}
		for _, e := range x {
			out = append(out, fvalSx(e))
		}
		return sx.L(out...)
	case time.Time:
		return sx.L(sx.A("T"), sx.I(x.Unix()))
	case amqpExt.Table:
		return sx.L(append([]sx.Sx{sx.A("F")}, tableSx(x)...)...)
	case []byte:
		return sx.L(sx.A("x"), sx.B(x))
	}
	return sx.A(fmt.Sprintf("unknown:%T", v))
}

func tableSx(t amqpExt.Table) []sx.Sx {
	keys := make([]string, 0, len(t))
	for k := range t {
		keys = append(keys, k)
	}
	sort.Slice(keys, func(i, j int) bool { return fmt.Sprintf("%x", keys[i]) < fmt.Sprintf("%x", keys[j]) })
	var out []sx.Sx
	for _, k := range keys {
		out = append(out, sx.L(sx.S(k), fvalSx(t[k])))
	}
	return out
}

func avalSx(v reflect.Value) sx.Sx {
	switch x := v.Interface().(type) {
	case string:
		return sx.S(x)
	case bool:
		return sx.Bool(x)
	case amqpExt.Table:
		return sx.L(append([]sx.Sx{sx.A("F")}, tableSx(x)...)...)
	case time.Time:
		return sx.L(sx.A("T"), sx.I(x.Unix()))
	case []byte:
		return sx.B(x)
	}
	switch v.Kind() {
	case reflect.Uint8, reflect.Uint16, reflect.Uint32, reflect.Uint64:
		return sx.U(v.Uint())
	case reflect.Int64, reflect.Int32, reflect.Int16:
		return sx.I(v.Int())
	}
	return sx.A(fmt.Sprintf("unknown:%s", v.Type()))
}

func amqpEventSx(gm *api.GenericMessage) sx.Sx {
	pl, ok := gm.Payload.(amqpExt.AMQPPayload)
	if !ok {
		return sx.A("bad-payload")
	}
	w, ok := pl.Data.(*amqpExt.AMQPWrapper)
	if !ok {
		return sx.A("bad-wrapper")
	}
	side := "resp"
	if gm.IsRequest {
		side = "req"
	}
	v := reflect.ValueOf(w.Details)
	for v.Kind() == reflect.Ptr {
		v = v.Elem()
	}
	t := v.Type()
	var fields []sx.Sx
	var extra []sx.Sx
	type nf struct {
		name string
		v    sx.Sx
	}
	var nfs []nf
	for i := 0; i < t.NumField(); i++ {
		f := t.Field(i)
		if f.PkgPath != "" { // unexported
			continue
		}
		if f.Name == "Properties" {
			p := v.Field(i)
			var ps []sx.Sx
			for j := 0; j < p.NumField(); j++ {
				pf := p.Type().Field(j)
				if pf.PkgPath != "" {
					continue
				}
				ps = append(ps, sx.L(sx.A(pf.Name), avalSx(p.Field(j))))
			}
			extra = append(extra, sx.L(sx.A("props"), sx.L(ps...)))
			continue
		}
		if f.Name == "Body" {
			extra = append(extra, sx.L(sx.A("body"), sx.B(v.Field(i).Bytes())))
			continue
		}
		nfs = append(nfs, nf{f.Name, avalSx(v.Field(i))})
	}
	sort.Slice(nfs, func(i, j int) bool { return nfs[i].name < nfs[j].name })
	for _, x := range nfs {
		fields = append(fields, sx.L(sx.A(x.name), x.v))
	}
	// props before body, as the model prints them
	sort.SliceStable(extra, func(i, j int) bool { return extra[i].List[0].Atom == "props" && extra[j].List[0].Atom != "props" })
	out := []sx.Sx{sx.A(side), sx.S(w.Method), sx.A(t.Name()), sx.L(fields...)}
	out = append(out, extra...)
	return sx.L(out...)
}

func newAmqpConn() *mock.Conn {
	d := amqpExt.NewDissector()
	stats := &api.AppStats{}
	out := make(chan *api.OutputChannelItem, 1<<16)
	return mock.NewConn(d, d.NewResponseRequestMatcher(), stats, out, "pcap0", "10.0.0.1", "40000", "10.0.0.2", "5672")
}

func amqpDissectHalf(chunks [][]byte, tail string, r *mock.Reader) (kind string) {
	defer func() {
		if rec := recover(); rec != nil {
			kind = "panic:" + fmt.Sprintf("%x", fmt.Sprint(rec))
		}
	}()
	cp := make([][]byte, len(chunks))
	copy(cp, chunks)
	err := amqpExt.NewDissector().Dissect(bufio.NewReader(&chunkReader{chunks: cp, tail: tail}), r)
	return amqpErrKind(err)
}

func amqpObserve(conn *mock.Conn, ck, sk string, cb, sb []byte, withBytes bool) sx.Sx {
	close(conn.Out)
	items := []sx.Sx{sx.A("items")}
	for it := range conn.Out {
		orient := "mixed"
		ci := it.ConnectionInfo
		if ci != nil && ci.ClientIP == "10.0.0.1" && ci.ClientPort == "40000" && ci.ServerIP == "10.0.0.2" && ci.ServerPort == "5672" {
			orient = "cs"
		} else if ci != nil && ci.ClientIP == "10.0.0.2" {
			orient = "sc"
		}
		items = append(items, sx.L(amqpEventSx(&it.Pair.Request), amqpEventSx(&it.Pair.Response), sx.A(orient)))
	}
	var left []string
	conn.Matcher.GetMap().Range(func(k, v interface{}) bool {
		left = append(left, amqpEventSx(v.(*api.GenericMessage)).String())
		return true
	})
	sort.Strings(left)
	lf := []sx.Sx{sx.A("left")}
	for _, l := range left {
		x, _ := sx.Parse(l)
		lf = append(lf, x)
	}
	parts := []sx.Sx{}
	if withBytes {
		parts = append(parts, sx.L(sx.A("cbytes"), sx.B(cb)), sx.L(sx.A("sbytes"), sx.B(sb)))
	}
	parts = append(parts, sx.L(sx.A("c"), sx.A(ck)), sx.L(sx.A("s"), sx.A(sk)), sx.L(items...), sx.L(lf...))
	return sx.L(parts...)
}

func runAmqpConv(p sx.Sx) sx.Sx {
	cb, sb := encFrames(p.List[0]), encFrames(p.List[1])
	conn := newAmqpConn()
	ck := amqpDissectHalf([][]byte{cb}, "eof", conn.Client)
	sk := amqpDissectHalf([][]byte{sb}, "eof", conn.Server)
	return amqpObserve(conn, ck, sk, cb, sb, true)
}

func runAmqpRaw(p sx.Sx) sx.Sx {
	side := p.List[0].Atom
	var chunks [][]byte
	for _, c := range p.List[1].List {
		chunks = append(chunks, c.Bytes())
	}
	conn := newAmqpConn()
	r := conn.Client
	if side == "s" {
		r = conn.Server
	}
	kind := amqpDissectHalf(chunks, p.List[2].Atom, r)
	if side == "s" {
		return amqpObserve(conn, "-", kind, nil, nil, false)
	}
	return amqpObserve(conn, kind, "-", nil, nil, false)
}

// ---- generators

type amqpMethod struct {
	class, method int
	typ           string
	fields        []string // name:kind or bits=a|b
}

func loadAmqpMethods() []amqpMethod {
	var out []amqpMethod
	for _, l := range readLines("amqp_methods.txt") {
		f := strings.Fields(l)
		var m amqpMethod
		fmt.Sscanf(f[0], "%d", &m.class)
		fmt.Sscanf(f[1], "%d", &m.method)
		m.typ = f[2]
		m.fields = f[3:]
		out = append(out, m)
	}
	return out
}

// amqpTime: mostly present-day seconds; sometimes the edges of what a JSON timestamp can carry
// (years 0 and 9999), just beyond them, and the ends of int64
func amqpTime(r *Rand) int64 {
	if r.Chance(80) {
		return int64(r.Intn(2000000000))
	}
	return []int64{0, -1, 253402300799, 253402300800, -62167219200, -62167219201, 9223372036854775807, -9223372036854775808,
		0x7fffffff00000000, -62135596800, 1 << 40}[r.Intn(11)]
}

func amqpShortStr(r *Rand) []byte {
	switch r.Intn(6) {
	case 0:
		return []byte{}
	case 1:
		return bytes.Repeat([]byte("q"), 255)
	case 2:
		return []byte("amq.direct")
	case 3:
		return []byte("queue-ünï")
	default:
		return []byte(fmt.Sprintf("name%d", r.Intn(100)))
	}
}

func amqpFVal(r *Rand, depth int) sx.Sx {
	switch k := r.Intn(15); {
	case k == 0:
		return sx.L(sx.A("t"), sx.Bool(r.Bool()))
	case k == 1:
		return sx.L(sx.A("b"), sx.N(r.Intn(256)))
	case k == 2:
		return sx.L(sx.A("s"), sx.I(int64(int16(r.U64()))))
	case k == 3:
		return sx.L(sx.A("I"), sx.I(int64(int32(r.U64()))))
	case k == 4:
		return sx.L(sx.A("l"), sx.I(int64(r.U64())))
	case k == 5:
		if r.Chance(15) { // NaN, +Inf, -Inf, the largest finite value, a denormal, -0
			return sx.L(sx.A("f"), sx.U([]uint64{0x7fc00000, 0x7f800000, 0xff800000, 0x7f7fffff, 1, 0x80000000, 0x7f800001}[r.Intn(7)]))
		}
		return sx.L(sx.A("f"), sx.U(uint64(math.Float32bits(float32(r.Intn(1000))/8))))
	case k == 6:
		if r.Chance(15) {
			return sx.L(sx.A("d"), sx.U([]uint64{0x7ff8000000000000, 0x7ff0000000000000, 0xfff0000000000000, 0x7fefffffffffffff, 1, 0x8000000000000000, 0x7ff0000000000001}[r.Intn(7)]))
		}
		return sx.L(sx.A("d"), sx.U(math.Float64bits(float64(r.Intn(100000))/16)))
	case k == 7:
		return sx.L(sx.A("D"), sx.N(r.Intn(5)), sx.I(int64(int32(r.U64()))))
	case k == 8:
		return sx.L(sx.A("S"), sx.B(amqpShortStr(r)))
	case k == 9 && depth > 0:
		out := []sx.Sx{sx.A("A")}
		for i := 0; i < r.Intn(4); i++ {
			out = append(out, amqpFVal(r, depth-1))
		}
		return sx.L(out...)
	case k == 10:
		return sx.L(sx.A("T"), sx.I(amqpTime(r)))
	case k == 11 && depth > 0:
		return sx.L(sx.A("F"), amqpTable(r, depth-1))
	case k == 12:
		return sx.L(sx.A("V"))
	case k == 13:
		return sx.L(sx.A("x"), sx.B(r.Bytes(r.Intn(12))))
	}
	return sx.L(sx.A("I"), sx.I(int64(r.Intn(100))))
}

func amqpTable(r *Rand, depth int) sx.Sx {
	var kvs []sx.Sx
	n := r.Intn(4)
	for i := 0; i < n; i++ {
		kvs = append(kvs, sx.L(sx.S(fmt.Sprintf("k%d", i)), amqpFVal(r, depth)))
	}
	return sx.L(kvs...)
}

func amqpArgs(r *Rand, m amqpMethod) sx.Sx {
	var args []sx.Sx
	for _, f := range m.fields {
		if strings.HasPrefix(f, "bits=") {
			names := strings.Split(strings.TrimPrefix(f, "bits="), "|")
			b := []sx.Sx{sx.A("bits")}
			for range names {
				b = append(b, sx.Bool(r.Bool()))
			}
			args = append(args, sx.L(b...))
			continue
		}
		kind := f[strings.Index(f, ":")+1:]
		switch kind {
		case "octet":
			args = append(args, sx.L(sx.A("o"), sx.N(r.Intn(256))))
		case "short":
			args = append(args, sx.L(sx.A("s"), sx.N([]int{0, 1, 200, 65535}[r.Intn(4)])))
		case "long":
			args = append(args, sx.L(sx.A("l"), sx.I([]int64{0, 1, 131072, 4294967295}[r.Intn(4)])))
		case "longlong":
			args = append(args, sx.L(sx.A("ll"), sx.U([]uint64{0, 1, 1 << 40, 1<<63 - 1}[r.Intn(4)])))
		case "shortstr":
			args = append(args, sx.L(sx.A("ss"), sx.B(amqpShortStr(r))))
		case "longstr":
			args = append(args, sx.L(sx.A("ls"), sx.B(append(amqpShortStr(r), r.Bytes(r.Intn(40))...))))
		case "table":
			args = append(args, sx.L(sx.A("t"), amqpTable(r, 2)))
		case "timestamp":
			args = append(args, sx.L(sx.A("ts"), sx.I(amqpTime(r))))
		}
	}
	return sx.L(args...)
}

var amqpPropKinds = []struct {
	flag int
	kind string
}{{0x8000, "ss"}, {0x4000, "ss"}, {0x2000, "t"}, {0x1000, "o"}, {0x0800, "o"}, {0x0400, "ss"}, {0x0200, "ss"}, {0x0100, "ss"},
	{0x0080, "ss"}, {0x0040, "ts"}, {0x0020, "ss"}, {0x0010, "ss"}, {0x0008, "ss"}, {0x0004, "ss"}}

func amqpHeader(r *Rand, ch, bodySize int) sx.Sx {
	flags := 0
	var props []sx.Sx
	for _, p := range amqpPropKinds {
		if r.Chance(35) {
			flags |= p.flag
			switch p.kind {
			case "ss":
				props = append(props, sx.L(sx.A("ss"), sx.B(amqpShortStr(r))))
			case "t":
				props = append(props, sx.L(sx.A("t"), amqpTable(r, 1)))
			case "o":
				props = append(props, sx.L(sx.A("o"), sx.N(r.Intn(10))))
			case "ts":
				props = append(props, sx.L(sx.A("ts"), sx.I(amqpTime(r))))
			}
		}
	}
	return sx.L(sx.A("h"), sx.N(ch), sx.N(60), sx.N(bodySize), sx.N(flags), sx.L(props...))
}

func findMethod(ms []amqpMethod, c, m int) amqpMethod {
	for _, x := range ms {
		if x.class == c && x.method == m {
			return x
		}
	}
	panic("no method")
}

func genAmqpConv(r *Rand, tier string, emit func(sx.Sx)) {
	ms := loadAmqpMethods()
	if len(ms) == 0 {
		return
	}
	mf := func(ch int, m amqpMethod) sx.Sx {
		return sx.L(sx.A("m"), sx.N(ch), sx.N(m.class), sx.N(m.method), amqpArgs(r, m))
	}
	half := func(name string, fs []sx.Sx) sx.Sx { return sx.L(append([]sx.Sx{sx.A(name)}, fs...)...) }
	// every method once on the client half and once on the server half, alone
	for _, m := range ms {
		emit(sx.L(half("c", []sx.Sx{mf(1, m)}), half("s", nil)))
		emit(sx.L(half("c", nil), half("s", []sx.Sx{mf(1, m)})))
	}
	// field tables and arrays nested deeply (AMQP 0-9-1 sets no limit): the arguments are reported, the frames after go on
	{
		declare := func(ch int, table sx.Sx) sx.Sx {
			return sx.L(sx.A("m"), sx.N(ch), sx.N(50), sx.N(10), sx.L(sx.L(sx.A("s"), sx.N(0)), sx.L(sx.A("ss"), sx.S("q")),
				sx.L(sx.A("bits"), sx.A("false"), sx.A("true"), sx.A("false"), sx.A("false"), sx.A("false")), sx.L(sx.A("t"), table)))
		}
		declareOk := func(ch int) sx.Sx {
			return sx.L(sx.A("m"), sx.N(ch), sx.N(50), sx.N(11), sx.L(sx.L(sx.A("ss"), sx.S("q")), sx.L(sx.A("l"), sx.N(0)), sx.L(sx.A("l"), sx.N(0))))
		}
		for _, depth := range []int{2, 31, 32, 33, 40, 100} {
			tbl := sx.L(sx.L(sx.S("leaf"), sx.L(sx.A("I"), sx.I(1))))
			arr := sx.L(sx.A("A"), sx.L(sx.A("I"), sx.I(1)))
			for i := 0; i < depth; i++ {
				tbl = sx.L(sx.L(sx.S("n"), sx.L(sx.A("F"), tbl)))
				arr = sx.L(sx.A("A"), arr)
			}
			emit(sx.L(half("c", []sx.Sx{declare(1, tbl), declare(2, sx.L())}), half("s", []sx.Sx{declareOk(1), declareOk(2)})))
			emit(sx.L(half("c", []sx.Sx{declare(1, sx.L(sx.L(sx.S("a"), arr))), declare(2, sx.L())}), half("s", []sx.Sx{declareOk(1), declareOk(2)})))
		}
	}
	// request / -ok pairs of the reported methods
	pairs := [][4]int{{10, 40, 10, 41}, {20, 10, 20, 11}, {40, 10, 40, 11}, {50, 10, 50, 11}, {50, 20, 50, 21}, {60, 20, 60, 21}, {60, 30, 60, 31}, {10, 50, 10, 51}}
	for _, p := range pairs {
		for rep := 0; rep < 3; rep++ {
			ch := 1 + r.Intn(3)
			emit(sx.L(half("c", []sx.Sx{mf(ch, findMethod(ms, p[0], p[1]))}), half("s", []sx.Sx{mf(ch, findMethod(ms, p[2], p[3]))})))
		}
	}
	content := func(ch int, body []byte, frames int) []sx.Sx {
		out := []sx.Sx{amqpHeader(r, ch, len(body))}
		if frames <= 0 {
			return out
		}
		per := (len(body) + frames - 1) / frames
		for i := 0; i < frames; i++ {
			lo, hi := i*per, (i+1)*per
			if lo > len(body) {
				lo = len(body)
			}
			if hi > len(body) {
				hi = len(body)
			}
			out = append(out, sx.L(sx.A("b"), sx.N(ch), sx.B(body[lo:hi])))
		}
		return out
	}
	count := 400
	if tier == "thorough" {
		count = 8000
	}
	unsupported := []amqpMethod{}
	reported := map[string]bool{"ConnectionStart": true, "ConnectionStartOk": true, "connectionTune": true, "connectionTuneOk": true, "connectionOpen": true, "connectionOpenOk": true,
		"ConnectionClose": true, "ConnectionCloseOk": true, "channelOpen": true, "channelOpenOk": true, "ExchangeDeclare": true, "ExchangeDeclareOk": true, "QueueDeclare": true,
		"QueueDeclareOk": true, "QueueBind": true, "QueueBindOk": true, "BasicConsume": true, "BasicConsumeOk": true, "basicCancel": true, "basicCancelOk": true, "BasicPublish": true, "BasicDeliver": true}
	for _, m := range ms {
		if !reported[m.typ] {
			unsupported = append(unsupported, m)
		}
	}
	for i := 0; i < count; i++ {
		var cf, sf []sx.Sx
		// a well-formed conversation: synchronous methods are answered before the same method
		// family is used again on that channel
		if r.Chance(15) { // connection handshake (server speaks first)
			sf = append(sf, mf(0, findMethod(ms, 10, 10)), mf(0, findMethod(ms, 10, 30)))
			cf = append(cf, mf(0, findMethod(ms, 10, 11)), mf(0, findMethod(ms, 10, 31)))
		} else if r.Chance(10) { // tune / tune-ok announcing frame-max 0 ("no specific limit") or a tiny one
			fm := []int{0, 0, 1, 4096}[r.Intn(4)]
			tune := func(method int) sx.Sx {
				return sx.L(sx.A("m"), sx.N(0), sx.N(10), sx.N(method), sx.L(sx.L(sx.A("s"), sx.N(2047)), sx.L(sx.A("l"), sx.N(fm)), sx.L(sx.A("s"), sx.N(60))))
			}
			sf = append(sf, tune(30))
			cf = append(cf, tune(31))
		}
		used := map[[2]int]bool{}
		n := 1 + r.Intn(5)
		for j := 0; j < n; j++ {
			ch := 1 + r.Intn(3)
			switch r.Intn(10) {
			case 9: // two contents on two channels, their frames interleaved (AMQP multiplexes channels)
				ch2 := ch%3 + 1
				b1, b2 := r.Bytes(1+r.Intn(12)), r.Bytes(1+r.Intn(12))
				c1, c2 := content(ch, b1, 1), content(ch2, b2, 1)
				cf = append(cf, mf(ch, findMethod(ms, 60, 40)), mf(ch2, findMethod(ms, 60, 40)), c1[0], c2[0], c1[1], c2[1])
			case 8: // content of a method the dissector does not report (basic.return, basic.get-ok), often
				// right after a reported content on the same channel
				if r.Chance(60) {
					sf = append(sf, mf(ch, findMethod(ms, 60, 60)))
					sf = append(sf, content(ch, r.Bytes(1+r.Intn(20)), 1)...)
				}
				m := findMethod(ms, 60, []int{50, 71}[r.Intn(2)])
				sf = append(sf, mf(ch, m))
				sf = append(sf, content(ch, r.Bytes(1+r.Intn(30)), 1)...)
			case 0, 1: // publish with content
				size := []int{0, 1, 10, 511, 512, 513, 2000, 4088, 4089, 6000, 140000}[r.Intn(11)]
				frames := 1
				if size == 0 {
					frames = 0
				} else if r.Chance(30) {
					frames = 2
				}
				cf = append(cf, mf(ch, findMethod(ms, 60, 40)))
				cf = append(cf, content(ch, r.Bytes(size), frames)...)
			case 2: // deliver with content
				size := []int{0, 3, 600, 4089, 9000}[r.Intn(5)]
				frames := 1
				if size == 0 {
					frames = 0
				}
				sf = append(sf, mf(ch, findMethod(ms, 60, 60)))
				sf = append(sf, content(ch, r.Bytes(size), frames)...)
			case 3, 4:
				p := pairs[r.Intn(len(pairs))]
				if p[0] == 10 {
					ch = 0
				}
				if used[[2]int{ch, p[0]*1000 + p[1]}] {
					continue
				}
				used[[2]int{ch, p[0]*1000 + p[1]}] = true
				cf = append(cf, mf(ch, findMethod(ms, p[0], p[1])))
				sf = append(sf, mf(ch, findMethod(ms, p[2], p[3])))
			case 5:
				cf = append(cf, sx.L(sx.A("hb"), sx.N(0)))
				sf = append(sf, sx.L(sx.A("hb"), sx.N(0)))
			default: // a method the dissector does not report
				m := unsupported[r.Intn(len(unsupported))]
				if r.Bool() {
					cf = append(cf, mf(ch, m))
				} else {
					sf = append(sf, mf(ch, m))
				}
			}
		}
		emit(sx.L(half("c", cf), half("s", sf)))
	}
}

func genAmqpRaw(r *Rand, tier string, emit func(sx.Sx)) {
	ms := loadAmqpMethods()
	if len(ms) == 0 {
		return
	}
	raw := func(side string, chunks [][]byte, tail string) {
		cs := make([]sx.Sx, len(chunks))
		for i, c := range chunks {
			cs[i] = sx.B(c)
		}
		emit(sx.L(sx.A(side), sx.L(cs...), sx.A(tail)))
	}
	frame := func(f sx.Sx) []byte { return encFrame(f) }
	// fixed corpus: declared lengths far beyond the data, negative lengths, bad types
	bad := [][]byte{
		{1, 0, 1, 0, 0, 0, 20, 0, 10, 0, 10, 0, 9, 0x7f, 0xff, 0xff, 0xff},                                      // connection.start, table length 2 GiB
		{1, 0, 1, 0, 0, 0, 16, 0, 50, 0, 10, 0, 0, 0, 0, 0, 0, 0, 7, 1, 'k', 'x', 0xff, 0xff, 0xff, 0xff, 0xCE}, // 'x' with length -1
		{1, 0, 1, 0, 0, 0, 16, 0, 50, 0, 10, 0, 0, 0, 0, 0, 0, 0, 7, 1, 'k', 'x', 0x80, 0, 0, 0, 0xCE},
		{3, 0, 1, 0, 0xff, 0xff, 0xff}, {3, 0, 1, 0, 0xf4, 0x24, 0x00}, {3, 0, 1, 0, 0xf4, 0x24, 0x01}, {8, 0, 0, 0, 0, 0, 1, 0, 0xCE}, {9, 0, 0, 0, 0, 0, 0, 0xCE},
		{2, 0, 1, 0, 0, 0, 14, 0, 60, 0, 0, 0, 0, 0, 0, 0, 0, 4, 0, 0, 0, 0xCE}, {1, 0, 1, 0, 0, 0, 4, 0, 99, 0, 10, 0xCE}, {1, 0, 1, 0, 0, 0, 4, 0, 10, 0, 99, 0xCE},
		{}, {1}, {1, 0, 0, 0, 0, 0, 0}, {0xCE},
	}
	for _, b := range bad {
		for _, side := range []string{"c", "s"} {
			raw(side, [][]byte{b}, "eof")
			raw(side, [][]byte{b}, "err")
			for i := 1; i < len(b); i++ {
				raw(side, [][]byte{b[:i], b[i:]}, "eof")
			}
		}
	}
	// content sequences whose header announces every 64-bit boundary of the body size (the field is a uint64;
	// Dissect keeps it in an int), followed by 1-3 body frames of 0 / 5 / 1000 bytes
	{
		publish := frame(mustSx("(m 1 60 40 ((s 0) (ss #65) (ss #6b) (bits false false)))"))
		deliver := frame(mustSx("(m 1 60 60 ((ss #63) (ll 7) (bits false) (ss #65) (ss #6b)))"))
		header := func(size uint64) []byte {
			b := []byte{2, 0, 1, 0, 0, 0, 14, 0, 60, 0, 0}
			b = binary.BigEndian.AppendUint64(b, size)
			return append(b, 0, 0, 0xCE)
		}
		body := func(n int) []byte {
			b := append([]byte{3, 0, 1}, byte(n>>24), byte(n>>16), byte(n>>8), byte(n))
			b = append(b, bytes.Repeat([]byte("b"), n)...)
			return append(b, 0xCE)
		}
		sizes := []uint64{0, 1, 5, 1 << 31, 1<<31 - 1, 1 << 32, 1<<32 + 5, 1<<63 - 1, 1 << 63, 1<<63 + 5, 1<<64 - 1001, 1<<64 - 5, 1<<64 - 1}
		for _, m := range [][]byte{publish, deliver} {
			for _, sz := range sizes {
				for _, bodies := range [][]int{{5}, {0}, {1000}, {5, 5}, {1000, 1000, 5}} {
					b := append(append([]byte{}, m...), header(sz)...)
					for _, n := range bodies {
						b = append(b, body(n)...)
					}
					raw("c", [][]byte{b}, "eof")
					raw("s", [][]byte{b}, "err")
				}
			}
		}
	}
	count := 400
	if tier == "thorough" {
		count = 8000
	}
	for i := 0; i < count; i++ {
		var b []byte
		n := 1 + r.Intn(3)
		for j := 0; j < n; j++ {
			m := ms[r.Intn(len(ms))]
			b = append(b, frame(sx.L(sx.A("m"), sx.N(1), sx.N(m.class), sx.N(m.method), amqpArgs(r, m)))...)
			if r.Chance(30) {
				body := r.Bytes(r.Intn(30))
				b = append(b, frame(amqpHeader(r, 1, len(body)))...)
				b = append(b, frame(sx.L(sx.A("b"), sx.N(1), sx.B(body)))...)
			}
		}
		side := []string{"c", "s"}[r.Intn(2)]
		switch r.Intn(5) {
		case 0:
			for k := 0; k <= len(b) && k <= 120; k++ {
				raw(side, [][]byte{b[:k]}, []string{"eof", "err"}[r.Intn(2)])
			}
			continue
		case 1:
			for k := 0; k < 1+r.Intn(3) && len(b) > 0; k++ {
				vals := []byte{0, 1, 2, 3, 8, 0xCE, 0xff, 0x7f, 0x80, 'x', 'F', 'A', 'S'}
				b[r.Intn(len(b))] = vals[r.Intn(len(vals))]
			}
		case 2:
			b = r.Bytes(r.Intn(48))
		case 3:
			if len(b) <= 100 {
				for k := 1; k < len(b); k++ {
					raw(side, [][]byte{b[:k], b[k:]}, "eof")
				}
				continue
			}
		}
		var chunks [][]byte
		rest := b
		for len(rest) > 0 {
			l := 1 + r.Intn(9)
			if l > len(rest) {
				l = len(rest)
			}
			chunks = append(chunks, rest[:l])
			rest = rest[l:]
		}
		raw(side, chunks, []string{"eof", "err"}[r.Intn(2)])
	}
}
