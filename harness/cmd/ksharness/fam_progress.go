//go:build verif

package main

import (
	"github.com/kubeshark/base/pkg/api"
	"ksverif/harness/internal/sx"
)

// Family "progress" (C20): operation sequences on the real api.ReadProgress.
// payload: ((feed n) current reset ...) ; observation: list of readings.
func init() {
	families["progress"] = &Family{Gen: genProgress, Run: runProgress}
}

var progressAmounts = []int64{0, 1, 2, 3, 5, 7, 10, 255, 256, 1460, 4096, 8192, 65535, 65536, 1 << 20, 1<<31 - 1, 1 << 32}

func genProgress(r *Rand, tier string, emit func(sx.Sx)) {
	// corpus first: the minimal sequences that distinguish plausible wrong implementations
	fixed := [][]string{
		{"f10", "c", "f5", "c", "f3", "c"},
		{"c"}, {"f7", "c", "c"}, {"f7", "r", "c"}, {"f7", "c", "r", "f2", "c"},
		{"f1", "f2", "c", "f4", "c", "c", "f8", "c"},
	}
	for _, f := range fixed {
		var ops []sx.Sx
		for _, o := range f {
			switch o[0] {
			case 'f':
				n := int64(0)
				for _, ch := range o[1:] {
					n = n*10 + int64(ch-'0')
				}
				ops = append(ops, sx.L(sx.A("feed"), sx.I(n)))
			case 'c':
				ops = append(ops, sx.A("current"))
			case 'r':
				ops = append(ops, sx.A("reset"))
			}
		}
		emit(sx.L(ops...))
	}
	// exhaustive: every sequence up to length L over {feed a, feed b, current, reset}
	maxLen := 6
	if tier == "thorough" {
		maxLen = 8
	}
	alpha := []sx.Sx{sx.L(sx.A("feed"), sx.I(3)), sx.L(sx.A("feed"), sx.I(10)), sx.A("current"), sx.A("reset")}
	var rec func(cur []sx.Sx, n int)
	rec = func(cur []sx.Sx, n int) {
		if len(cur) == n {
			emit(sx.L(append([]sx.Sx{}, cur...)...))
			return
		}
		for _, a := range alpha {
			rec(append(cur, a), n)
		}
	}
	for n := 1; n <= maxLen; n++ {
		rec(nil, n)
	}
	// random longer sequences over boundary amounts
	count := 2000
	if tier == "thorough" {
		count = 40000
	}
	for i := 0; i < count; i++ {
		n := 1 + r.Intn(40)
		ops := make([]sx.Sx, 0, n)
		for j := 0; j < n; j++ {
			switch k := r.Intn(10); {
			case k < 5:
				ops = append(ops, sx.L(sx.A("feed"), sx.I(progressAmounts[r.Intn(len(progressAmounts))])))
			case k < 9:
				ops = append(ops, sx.A("current"))
			default:
				ops = append(ops, sx.A("reset"))
			}
		}
		emit(sx.L(ops...))
	}
}

func runProgress(p sx.Sx) sx.Sx {
	var rp api.ReadProgress
	out := []sx.Sx{}
	for _, op := range p.List {
		if op.IsList {
			rp.Feed(int(op.List[1].Int()))
			continue
		}
		switch op.Atom {
		case "current":
			out = append(out, sx.N(rp.Current()))
		case "reset":
			rp.Reset()
		}
	}
	return sx.L(out...)
}
