//go:build verif

package main

import (
	"bufio"
	"bytes"
	"encoding/base64"
	"encoding/binary"
	"encoding/json"
	"fmt"
	kafkaExt "github.com/kubeshark/base/pkg/extensions/kafka"
	"os"
	"sort"
	"strconv"
	"strings"

	"github.com/kubeshark/base/pkg/api"
	amqpExt "github.com/kubeshark/base/pkg/extensions/amqp"
	httpExt "github.com/kubeshark/base/pkg/extensions/http"
	redisExt "github.com/kubeshark/base/pkg/extensions/redis"
	"ksverif/harness/internal/mock"
	"ksverif/harness/internal/sched"
	"ksverif/harness/internal/sx"
)

// Families sched.match.<proto> (C10): the two halves of one connection are dissected by the
// real Dissect in two controlled goroutines sharing matcher, counters and emitter; the
// schedule (task chosen at each yield point) comes from the case.
//
// payload: (n (t0 t1 ...))   n exchanges, schedule = task ids (0 = client half, 1 = server half)
// observation: ((trace (task point)...) (items (index reqOrd respOrd)...) (residue (ord side)...)
//               (matched m) (count c))

type protoConv struct {
	dissector api.Dissector
	client    func(n int) []byte
	server    func(n int) []byte
	reqOrd    func(payload map[string]interface{}) int
	respOrd   func(payload map[string]interface{}) int
	identOrd  func(ident string) int
}

var noPreempt = map[string]bool{}

var schedProtos map[string]*protoConv

// schedPreempt: which yield points park a task; nil = every point outside a locked region
var schedPreempt func(point string) bool

func init() {
	dir := os.Getenv("VERIF_FACTS")
	if dir == "" {
		dir = "/verif/work/facts"
	}
	if b, err := os.ReadFile(dir + "/nopreempt.txt"); err == nil {
		for _, l := range strings.Split(string(b), "\n") {
			if l != "" {
				noPreempt[l] = true
			}
		}
	}
	protos := map[string]*protoConv{
		"redis": {
			dissector: redisExt.NewDissector(),
			client: func(n int) []byte {
				var b bytes.Buffer
				for i := 1; i <= n; i++ {
					k := fmt.Sprintf("k%d", i)
					fmt.Fprintf(&b, "*3\r\n$3\r\nSET\r\n$%d\r\n%s\r\n$1\r\nv\r\n", len(k), k)
				}
				return b.Bytes()
			},
			server: func(n int) []byte {
				var b bytes.Buffer
				for i := 1; i <= n; i++ {
					fmt.Fprintf(&b, ":%d\r\n", i)
				}
				return b.Bytes()
			},
			reqOrd: func(p map[string]interface{}) int {
				d, _ := p["details"].(map[string]interface{})
				s, _ := d["key"].(string)
				n, _ := strconv.Atoi(strings.TrimPrefix(s, "k"))
				return n
			},
			respOrd: func(p map[string]interface{}) int {
				d, _ := p["details"].(map[string]interface{})
				s, _ := d["value"].(string)
				n, _ := strconv.Atoi(s)
				return n
			},
			identOrd: func(id string) int {
				f := strings.Split(id, "_")
				n, _ := strconv.Atoi(f[4])
				return n
			},
		},
		"http": {
			dissector: httpExt.NewDissector(),
			client: func(n int) []byte {
				var b bytes.Buffer
				for i := 1; i <= n; i++ {
					fmt.Fprintf(&b, "GET /r%d HTTP/1.1\r\nHost: h\r\n\r\n", i)
				}
				return b.Bytes()
			},
			server: func(n int) []byte {
				var b bytes.Buffer
				for i := 1; i <= n; i++ {
					body := fmt.Sprintf("%d", i)
					fmt.Fprintf(&b, "HTTP/1.1 200 OK\r\nContent-Length: %d\r\n\r\n%s", len(body), body)
				}
				return b.Bytes()
			},
			reqOrd: func(p map[string]interface{}) int {
				d, _ := p["details"].(map[string]interface{})
				s, _ := d["url"].(string)
				i := strings.LastIndex(s, "/r")
				if i < 0 {
					return -1
				}
				n, _ := strconv.Atoi(s[i+2:])
				return n
			},
			respOrd: func(p map[string]interface{}) int {
				d, _ := p["details"].(map[string]interface{})
				c, _ := d["content"].(map[string]interface{})
				s, _ := c["text"].(string)
				if enc, _ := c["encoding"].(string); enc == "base64" {
					if b, err := base64.StdEncoding.DecodeString(s); err == nil {
						s = string(b)
					}
				}
				n, err := strconv.Atoi(s)
				if err != nil {
					return -1
				}
				return n
			},
			identOrd: func(id string) int {
				f := strings.Split(id, "_")
				n, _ := strconv.Atoi(f[4])
				return n
			},
		},
	}
	// AMQP: exchange i is queue.declare "q<i>" / queue.declare-ok "q<i>" on channel i (one
	// outstanding request per channel and class: the matcher's key)
	amqpFrame := func(ch int, payload []byte) []byte {
		var b bytes.Buffer
		b.WriteByte(1)
		_ = binary.Write(&b, binary.BigEndian, uint16(ch))
		_ = binary.Write(&b, binary.BigEndian, uint32(len(payload)))
		b.Write(payload)
		b.WriteByte(0xCE)
		return b.Bytes()
	}
	amqpQueueOrd := func(p map[string]interface{}) int {
		var find func(v interface{}) string
		find = func(v interface{}) string {
			switch x := v.(type) {
			case map[string]interface{}:
				if q, ok := x["queue"].(string); ok {
					return q
				}
				for _, y := range x {
					if r := find(y); r != "" {
						return r
					}
				}
			}
			return ""
		}
		q := find(p)
		if !strings.HasPrefix(q, "q") {
			return -1
		}
		n, err := strconv.Atoi(q[1:])
		if err != nil {
			return -1
		}
		return n
	}
	protos["amqp"] = &protoConv{
		dissector: amqpExt.NewDissector(),
		client: func(n int) []byte {
			var b []byte
			for i := 1; i <= n; i++ {
				q := fmt.Sprintf("q%d", i)
				var p bytes.Buffer
				_ = binary.Write(&p, binary.BigEndian, uint16(50))
				_ = binary.Write(&p, binary.BigEndian, uint16(10))
				_ = binary.Write(&p, binary.BigEndian, uint16(0))
				p.WriteByte(byte(len(q)))
				p.WriteString(q)
				p.WriteByte(0)
				_ = binary.Write(&p, binary.BigEndian, uint32(0))
				b = append(b, amqpFrame(i, p.Bytes())...)
			}
			return b
		},
		server: func(n int) []byte {
			var b []byte
			for i := 1; i <= n; i++ {
				q := fmt.Sprintf("q%d", i)
				var p bytes.Buffer
				_ = binary.Write(&p, binary.BigEndian, uint16(50))
				_ = binary.Write(&p, binary.BigEndian, uint16(11))
				p.WriteByte(byte(len(q)))
				p.WriteString(q)
				_ = binary.Write(&p, binary.BigEndian, uint32(i))
				_ = binary.Write(&p, binary.BigEndian, uint32(0))
				b = append(b, amqpFrame(i, p.Bytes())...)
			}
			return b
		},
		reqOrd:  amqpQueueOrd,
		respOrd: amqpQueueOrd,
		identOrd: func(id string) int {
			f := strings.Split(id, "_")
			if len(f) < 5 {
				return -1
			}
			n, _ := strconv.Atoi(f[4])
			return n
		},
	}
	// Kafka: exchange i is ApiVersions v0 with correlation id i; the response side polls for the
	// request (maxTry 3 under the scheduler, one poll per step)
	kafkaCorr := func(p map[string]interface{}) int {
		var find func(v interface{}) (float64, bool)
		find = func(v interface{}) (float64, bool) {
			if m, ok := v.(map[string]interface{}); ok {
				if c, ok := m["correlationID"].(float64); ok {
					return c, true
				}
				for _, y := range m {
					if c, ok := find(y); ok {
						return c, true
					}
				}
			}
			return 0, false
		}
		c, ok := find(p)
		if !ok {
			return -1
		}
		return int(c)
	}
	protos["kafka"] = &protoConv{
		dissector: kafkaExt.NewDissector(),
		client: func(n int) []byte {
			var b bytes.Buffer
			for i := 1; i <= n; i++ {
				_ = binary.Write(&b, binary.BigEndian, uint32(10))
				_ = binary.Write(&b, binary.BigEndian, uint16(18))
				_ = binary.Write(&b, binary.BigEndian, uint16(0))
				_ = binary.Write(&b, binary.BigEndian, uint32(i))
				_ = binary.Write(&b, binary.BigEndian, uint16(0xffff))
			}
			return b.Bytes()
		},
		server: func(n int) []byte {
			var b bytes.Buffer
			for i := 1; i <= n; i++ {
				_ = binary.Write(&b, binary.BigEndian, uint32(10))
				_ = binary.Write(&b, binary.BigEndian, uint32(i))
				_ = binary.Write(&b, binary.BigEndian, uint16(0))
				_ = binary.Write(&b, binary.BigEndian, uint32(0))
			}
			return b.Bytes()
		},
		reqOrd:  kafkaCorr,
		respOrd: kafkaCorr,
		identOrd: func(id string) int {
			f := strings.Split(id, "_")
			n, _ := strconv.Atoi(f[len(f)-1])
			return n
		},
	}
	// HTTP/1.0 with keep-alive: the same pairing through the protoMinor == 0 paths
	h10 := *protos["http"]
	h10.client = func(n int) []byte {
		var b bytes.Buffer
		for i := 1; i <= n; i++ {
			fmt.Fprintf(&b, "GET /r%d HTTP/1.0\r\nHost: h\r\nConnection: keep-alive\r\n\r\n", i)
		}
		return b.Bytes()
	}
	h10.server = func(n int) []byte {
		var b bytes.Buffer
		for i := 1; i <= n; i++ {
			body := fmt.Sprintf("%d", i)
			fmt.Fprintf(&b, "HTTP/1.0 200 OK\r\nConnection: keep-alive\r\nContent-Length: %d\r\n\r\n%s", len(body), body)
		}
		return b.Bytes()
	}
	protos["http10"] = &h10
	schedProtos = protos
	for name, pc := range protos {
		pc := pc
		families["sched.match."+name] = &Family{
			Gen: func(r *Rand, tier string, emit func(sx.Sx)) { genSchedMatch(pc, r, tier, emit) },
			Run: func(p sx.Sx) sx.Sx { return runSchedMatch(pc, p) },
		}
	}
}

func preemptible(point string) bool {
	if schedPreempt != nil {
		return schedPreempt(point)
	}
	return !noPreempt[point]
}

type schedRun struct {
	conn *mock.Conn
	res  sched.Result
}

func execSchedMatch(pc *protoConv, n int, choose sched.Chooser) schedRun {
	stats := &api.AppStats{}
	out := make(chan *api.OutputChannelItem, 4*n+16)
	m := pc.dissector.NewResponseRequestMatcher()
	m.SetMaxTry(3)
	conn := mock.NewConn(pc.dissector, m, stats, out, "pcap0", "10.0.0.1", "40000", "10.0.0.2", "6379")
	cb, sb := pc.client(n), pc.server(n)
	fns := []func(){
		func() { _ = pc.dissector.Dissect(bufio.NewReader(bytes.NewReader(cb)), conn.Client) },
		func() { _ = pc.dissector.Dissect(bufio.NewReader(bytes.NewReader(sb)), conn.Server) },
	}
	res := sched.Run(fns, preemptible, choose)
	return schedRun{conn: conn, res: res}
}

func payloadMap(v interface{}) map[string]interface{} {
	b, err := json.Marshal(v)
	if err != nil {
		return nil
	}
	var m map[string]interface{}
	_ = json.Unmarshal(b, &m)
	return m
}

func observeSched(pc *protoConv, sr schedRun, withTrace bool) sx.Sx {
	var parts []sx.Sx
	if withTrace {
		tr := []sx.Sx{sx.A("trace")}
		for _, s := range sr.res.Steps {
			tr = append(tr, sx.L(sx.N(s.Task), sx.A(s.After)))
		}
		parts = append(parts, sx.L(tr...))
	}
	items := []sx.Sx{sx.A("items")}
	close(sr.conn.Out)
	for it := range sr.conn.Out {
		req := payloadMap(it.Pair.Request.Payload)
		resp := payloadMap(it.Pair.Response.Payload)
		items = append(items, sx.L(sx.I(it.Index), sx.N(pc.reqOrd(req)), sx.N(pc.respOrd(resp))))
	}
	parts = append(parts, sx.L(items...))
	type re struct {
		ord  int
		side string
	}
	var rs []re
	sr.conn.Matcher.GetMap().Range(func(k, v interface{}) bool {
		side := "resp"
		if _, ok := v.(*kafkaExt.Request); ok {
			side = "req"
		} else if gm, ok := v.(*api.GenericMessage); ok && gm.IsRequest {
			side = "req"
		}
		rs = append(rs, re{pc.identOrd(k.(string)), side})
		return true
	})
	sort.Slice(rs, func(i, j int) bool { return rs[i].ord < rs[j].ord })
	residue := []sx.Sx{sx.A("residue")}
	for _, r := range rs {
		residue = append(residue, sx.L(sx.N(r.ord), sx.A(r.side)))
	}
	parts = append(parts, sx.L(residue...))
	parts = append(parts, sx.L(sx.A("matched"), sx.U(sr.conn.Stats.MatchedPairs)))
	parts = append(parts, sx.L(sx.A("count"), sx.I(sr.conn.Stream.Count())))
	if len(sr.res.Panics) > 0 {
		parts = append(parts, sx.L(sx.A("panics"), sx.S(strings.Join(sr.res.Panics, ";"))))
	}
	if sr.res.Deadlock {
		parts = append(parts, sx.A("deadlock"))
	}
	return sx.L(parts...)
}

func schedPayload(n int, order []int) sx.Sx {
	o := make([]sx.Sx, len(order))
	for i, t := range order {
		o[i] = sx.N(t)
	}
	return sx.L(sx.N(n), sx.L(o...))
}

func genSchedMatch(pc *protoConv, r *Rand, tier string, emit func(sx.Sx)) {
	maxN, limit := 2, 3000
	if tier == "thorough" {
		maxN, limit = 3, 60000
	}
	for n := 1; n <= maxN; n++ {
		budget := limit
		if n < maxN {
			budget = 0 // exhaustive for the smaller sizes
		}
		sched.Explore(budget, func(choose sched.Chooser) sched.Result {
			sr := execSchedMatch(pc, n, choose)
			return sr.res
		}, func(choices []int, res sched.Result) bool {
			order := make([]int, len(res.Steps))
			for i, s := range res.Steps {
				order[i] = s.Task
			}
			emit(schedPayload(n, order))
			return true
		})
	}
	// random schedules for longer conversations
	count := 200
	if tier == "thorough" {
		count = 3000
	}
	for i := 0; i < count; i++ {
		n := 3 + r.Intn(6)
		order := make([]int, 0, 12*n)
		for j := 0; j < 12*n; j++ {
			order = append(order, r.Intn(2))
		}
		emit(schedPayload(n, order))
	}
}

func runSchedMatch(pc *protoConv, p sx.Sx) sx.Sx {
	n := int(p.List[0].Int())
	var order []int
	for _, t := range p.List[1].List {
		order = append(order, int(t.Int()))
	}
	sr := execSchedMatch(pc, n, sched.Replay(order))
	return observeSched(pc, sr, true)
}
