//go:build verif

package main

import (
	"bytes"
	"strconv"
	"strings"

	redisExt "github.com/kubeshark/base/pkg/extensions/redis"

	"ksverif/harness/internal/sx"
)

// Family redis.bigreply (C07): a reply array of n elements for n around 2^20 and 2^21 (SMEMBERS / LRANGE / KEYS on
// a big collection; RESP sets no limit on a reply's length, the 1 Mi multi-bulk limit of the server applies to
// requests), followed by a second command and its reply.  The conversation is too large to be written into a case
// line and read by the model: the harness builds it from n, and the judge computes from n what must be reported -
// two pairs, the first reply with all n elements (n - 2 of them in the value), the second command answered by its
// own reply.
// payload: (n); observation: (big (pairs k) (xs c) (second type #keyword) (c kind) (s kind))
func init() {
	families["redis.bigreply"] = &Family{Gen: genRedisBigReply, Run: runRedisBigReply}
}

func genRedisBigReply(r *Rand, tier string, emit func(sx.Sx)) {
	ns := []int{1<<20 - 1, 1 << 20, 1<<20 + 1, 1<<20 + 3}
	if tier == "thorough" {
		ns = append(ns, 1<<21+5, 1<<16+1, 1<<24/5)
	}
	for _, n := range ns {
		emit(sx.L(sx.N(n)))
	}
}

func runRedisBigReply(p sx.Sx) sx.Sx {
	n := int(p.List[0].Int())
	cb := []byte("*2\r\n$8\r\nSMEMBERS\r\n$5\r\nverbs\r\n*1\r\n$4\r\nPING\r\n")
	var sb bytes.Buffer
	sb.Grow(7*n + 32)
	sb.WriteString("*" + strconv.Itoa(n) + "\r\n")
	// the members of the set are verbs: a reply array is reported only when its first element is a command name
	// (the recorded finding redis-reply-array-nonempty)
	sb.WriteString("$3\r\nGET\r\n$3\r\nSET\r\n")
	for i := 2; i < n; i++ {
		sb.WriteString("$1\r\nx\r\n")
	}
	sb.WriteString("+PONG\r\n")
	conn := newRedisConn()
	d := redisExt.NewDissector()
	ck := dissectHalf(d, [][]byte{cb}, "eof", conn.Client)
	sk := dissectHalf(d, [][]byte{sb.Bytes()}, "eof", conn.Server)
	close(conn.Out)
	pairs, xs := 0, -1
	second := sx.L(sx.A("second"), sx.A("none"), sx.S(""))
	for it := range conn.Out {
		pairs++
		resp := redisPktSx(&it.Pair.Response)
		if pairs == 1 && len(resp.List) == 5 {
			xs = strings.Count(resp.List[3].Str(), "x")
		}
		if pairs == 2 && len(resp.List) == 5 {
			second = sx.L(sx.A("second"), resp.List[0], resp.List[4])
		}
	}
	return sx.L(sx.A("big"), sx.L(sx.A("pairs"), sx.N(pairs)), sx.L(sx.A("xs"), sx.N(xs)), second, sx.L(sx.A("c"), sx.A(ck)), sx.L(sx.A("s"), sx.A(sk)))
}
