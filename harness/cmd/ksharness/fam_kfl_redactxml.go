//go:build verif

package main

import (
	"encoding/base64"
	"fmt"
	"strings"

	"github.com/clbanning/mxj/v2"
	"github.com/kubeshark/base/pkg/languages/kfl"
	"github.com/ohler55/ojg/oj"

	"ksverif/harness/internal/sx"
)

// Family kfl.redactxml (C15): redaction through an xml() hop.  The record holds an XML document (plain under "x",
// base64 under "xb"); `redact("x.xml().<path>")` must return the record in which that document - read as the
// XML reader reads it - holds the marker at the path and exactly what it held everywhere else; the declaration
// stays, the text of the target is gone, and a path that is not in the document changes nothing.  XML is outside
// the Lean model: the reference is the document as mxj.NewMapXml reads it before and after (the implementation's
// own reader), the judge computes the expected tree from the one before.
// payload: (#doc (step ...) #secret) with step = #key | index
// observation: ((plain (before T) (after T') (decl b) (leak b) (seen true|false|error)) (b64 ...)), T' = tree | error | unparseable | notstring;
// seen: `<field>.xml().<path> == "[REDACTED]"` evaluated on the returned record
func init() {
	families["kfl.redactxml"] = &Family{Gen: genKflRedactXml, Run: runKflRedactXml}
}

func genKflRedactXml(r *Rand, tier string, emit func(sx.Sx)) {
	const secret = "S3CR3T-4111"
	texts := []string{"plain", "Tom &amp; Jerry", "a &lt; b &gt; c", "&quot;q&quot; &apos;s&apos;", "it's \"x\"", "<![CDATA[a & b <c>]]>",
		"&#65;&#x42;", "café ☕", "[REDACTED]", "007", "1e3", "true", "x &amp;amp; y", "a&amp;b&amp;c"}
	attrTexts := []string{"plain", "p&amp;q", "a &lt; b", "&quot;q&quot;", "it's", "café", "007"}
	prefixes := []string{"", `<?xml version="1.0"?>`, "<?xml version=\"1.0\" encoding=\"UTF-8\"?>\n", "<?xml version=\"1.0\"?>\r\n", `<?xml version="1.0" standalone="yes"?> `}
	k := func(s string) sx.Sx { return sx.S(s) }
	type tpl struct {
		doc  string
		path []sx.Sx
	}
	tpls := []tpl{
		{`<o><card>SECRET</card><note>T</note></o>`, []sx.Sx{k("o"), k("card")}},
		{`<o><note>T</note><pay><card>SECRET</card><cvv>123</cvv></pay></o>`, []sx.Sx{k("o"), k("pay"), k("card")}},
		{`<o><item><card>1</card></item><item><card>SECRET</card><shop>T</shop></item></o>`, []sx.Sx{k("o"), k("item"), sx.N(1), k("card")}},
		{`<o><note at="A">z</note><card>SECRET</card></o>`, []sx.Sx{k("o"), k("card")}},
		{`<o><note at="SECRET">T</note><k>v</k></o>`, []sx.Sx{k("o"), k("note"), k("-at")}},
		{`<soap:Envelope xmlns:soap="u"><soap:Body><card>SECRET</card><memo>T</memo></soap:Body></soap:Envelope>`, []sx.Sx{k("Envelope"), k("Body"), k("card")}},
		{`<o><card>SECRET</card><note>T</note></o>`, []sx.Sx{k("o"), k("nosuch")}},
		{`<o><card>SECRET</card><note>T</note></o>`, []sx.Sx{k("o"), k("pay"), k("card")}},
		{`<o><pay kind="A"><card>SECRET</card></pay><note>T</note></o>`, []sx.Sx{k("o"), k("pay")}},
	}
	for ti, t := range tpls {
		for xi, txt := range texts {
			at := attrTexts[(xi+ti)%len(attrTexts)]
			for _, pre := range prefixes {
				doc := pre + strings.NewReplacer("SECRET", secret, "T", txt, "\"A\"", "\""+at+"\"").Replace(t.doc)
				emit(sx.L(sx.S(doc), sx.L(t.path...), sx.S(secret)))
			}
		}
	}
}

func xmlPathText(steps []sx.Sx) string {
	var b strings.Builder
	for i, s := range steps {
		if s.IsList || !strings.HasPrefix(s.Atom, "#") {
			b.WriteString("[" + s.Atom + "]")
			continue
		}
		if i > 0 {
			b.WriteString(".")
		}
		b.WriteString(s.Str())
	}
	return b.String()
}

func runKflRedactXml(p sx.Sx) sx.Sx {
	doc, steps, secret := p.List[0].Str(), p.List[1].List, p.List[2].Str()
	path := xmlPathText(steps)
	tree := func(d string) sx.Sx {
		m, err := mxj.NewMapXml([]byte(d))
		if err != nil {
			return sx.A("unparseable")
		}
		return canonValue(map[string]interface{}(m))
	}
	declOf := func(d string) string {
		if strings.HasPrefix(d, "<?") {
			if e := strings.Index(d, "?>"); e >= 0 {
				return d[:e+2]
			}
		}
		return ""
	}
	one := func(label, field, held string, unwrap func(string) (string, bool)) (out sx.Sx) {
		defer func() {
			if r := recover(); r != nil {
				out = sx.L(sx.A(label), sx.A("panic"))
			}
		}()
		recb, _ := oj.Marshal(map[string]interface{}{field: held, "n": int64(1)})
		q := `redact("` + field + `.xml().` + path + `")`
		_, res, err := kfl.Apply(recb, q)
		after := sx.A("error")
		decl, leak := true, false
		seen := "error"
		if err == nil {
			// the read path must see what the redaction wrote: the same path compared with the marker
			if t, _, rerr := kfl.Apply([]byte(res), field+`.xml().`+path+` == "`+kfl.REDACTED+`"`); rerr == nil {
				seen = fmt.Sprint(t)
			}
			parsed, perr := oj.ParseString(res)
			after = sx.A("unparseable")
			if m, ok := parsed.(map[string]interface{}); perr == nil && ok {
				after = sx.A("notstring")
				if s, ok := m[field].(string); ok {
					if d, ok := unwrap(s); ok {
						after = tree(d)
						decl = declOf(d) == declOf(doc) && strings.Count(d, "<?") == strings.Count(doc, "<?")
						leak = strings.Contains(d, secret)
					}
				}
			}
		}
		return sx.L(sx.A(label), sx.L(sx.A("before"), tree(doc)), sx.L(sx.A("after"), after), sx.L(sx.A("decl"), sx.Bool(decl)), sx.L(sx.A("leak"), sx.Bool(leak)), sx.L(sx.A("seen"), sx.A(seen)))
	}
	plain := one("plain", "x", doc, func(s string) (string, bool) { return s, true })
	b64 := one("b64", "xb", base64.StdEncoding.EncodeToString([]byte(doc)), func(s string) (string, bool) {
		b, err := base64.StdEncoding.DecodeString(s)
		return string(b), err == nil
	})
	return sx.L(plain, b64)
}
