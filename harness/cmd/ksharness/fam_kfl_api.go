//go:build verif

package main

import (
	"fmt"
	"time"

	"github.com/kubeshark/base/pkg/languages/kfl"
	"github.com/ohler55/ojg/oj"

	"ksverif/harness/internal/sx"
)

// Family kfl.api (C12): the entry points callers use - Apply and PrepareQuery + Eval - against the
// steps they are made of (ExpandMacros, Parse, Precompute, Eval), on the queries and records of
// kfl.eval, each twice (whatever an entry point keeps between calls must not show); and queries
// with time helpers prepared twice with the record stamped in between: `now()` is the instant of
// THIS preparation.
// payload: (q #query #record) | (time #query want)
// observation: (q (ref t limit) (apply t t) (prep t limit t limit)) | (time t-apply t-prepared)
func init() {
	families["kfl.api"] = &Family{Gen: genKflApi, Run: runKflApi}
}

func genKflApi(r *Rand, tier string, emit func(sx.Sx)) {
	for _, tc := range []struct {
		q    string
		want bool
	}{{"timestamp < now()", true}, {"timestamp > now()", false}, {"now() > timestamp", true}, {"timestamp <= now()", true},
		{"timestamp >= now()", false}, {"timestamp > seconds(-3600)", true}, {"timestamp < seconds(3600)", true},
		{"!(timestamp < now())", false}, {"timestamp < now() and timestamp > minutes(-1)", true}} {
		emit(sx.L(sx.A("time"), sx.S(tc.q), sx.Bool(tc.want)))
	}
	// datetime("...") with a well-formed instant: the record's timestamp lies a second before / after it
	layout := "1/2/2006, 3:04:05.000 PM"
	for _, ms := range []int64{1635190131000, 0, 946684799999, 1709164800000, 4102444800000, 86399999} {
		lit := time.Unix(0, ms*int64(time.Millisecond)).UTC().Format(layout)
		for _, d := range []int64{-1000, 0, 1000} {
			rec := fmt.Sprintf(`{"timestamp":%d}`, ms+d)
			emit(sx.L(sx.A("dt"), sx.S(fmt.Sprintf(`timestamp >= datetime("%s")`, lit)), sx.S(rec), sx.Bool(d >= 0)))
			emit(sx.L(sx.A("dt"), sx.S(fmt.Sprintf(`timestamp < datetime("%s")`, lit)), sx.S(rec), sx.Bool(d < 0)))
			emit(sx.L(sx.A("dt"), sx.S(fmt.Sprintf(`timestamp == datetime("%s")`, lit)), sx.S(rec), sx.Bool(d == 0)))
		}
	}
	n := 0
	genKflEval(r, tier, func(c sx.Sx) {
		n++
		if n%6 == 0 {
			emit(sx.L(sx.A("q"), c.List[0], sx.S(jsonText(c.List[2]))))
		}
	})
}

func runKflApi(p sx.Sx) sx.Sx {
	b := func(v bool, err error) sx.Sx {
		if err != nil {
			return sx.A("error")
		}
		return sx.Bool(v)
	}
	if p.List[0].Atom == "time" {
		q := p.List[1].Str()
		// first preparation of this text, some time ago
		_, _, _ = kfl.PrepareQuery(q)
		_, _, _ = kfl.Apply([]byte(`{"timestamp":0}`), q)
		time.Sleep(15 * time.Millisecond)
		rec := fmt.Sprintf(`{"timestamp":%d}`, time.Now().UnixNano()/int64(time.Millisecond))
		time.Sleep(15 * time.Millisecond)
		ta, _, ea := kfl.Apply([]byte(rec), q)
		expr, _, ep := kfl.PrepareQuery(q)
		var tp bool
		if ep == nil {
			tp, _, ep = kfl.Eval(expr, rec)
		}
		return sx.L(sx.A("time"), b(ta, ea), b(tp, ep))
	}
	if p.List[0].Atom == "dt" {
		q, rec := p.List[1].Str(), p.List[2].Str()
		ta, _, ea := kfl.Apply([]byte(rec), q)
		expr, _, ep := kfl.PrepareQuery(q)
		var tp bool
		if ep == nil {
			tp, _, ep = kfl.Eval(expr, rec)
		}
		return sx.L(sx.A("time"), b(ta, ea), b(tp, ep))
	}
	q, rec := p.List[1].Str(), p.List[2].Str()
	ref := func() (sx.Sx, sx.Sx) {
		expanded, err := kfl.ExpandMacros(q)
		if err != nil {
			return sx.A("error"), sx.A("-")
		}
		expr, err := kfl.Parse(expanded)
		if err != nil {
			return sx.A("error"), sx.A("-")
		}
		prop, err := kfl.Precompute(expr)
		if err != nil {
			return sx.A("error"), sx.A("-")
		}
		t, _, err := kfl.Eval(expr, rec)
		return b(t, err), sx.N(int(prop.Limit))
	}
	rt, rl := ref()
	apply := func() sx.Sx {
		t, _, err := kfl.Apply([]byte(rec), q)
		return b(t, err)
	}
	prep := func() (sx.Sx, sx.Sx) {
		expr, prop, err := kfl.PrepareQuery(q)
		if err != nil {
			return sx.A("error"), sx.A("-")
		}
		t, _, err := kfl.Eval(expr, rec)
		return b(t, err), sx.N(int(prop.Limit))
	}
	a1, a2 := apply(), apply()
	p1t, p1l := prep()
	p2t, p2l := prep()
	return sx.L(sx.A("q"), sx.L(sx.A("ref"), rt, rl), sx.L(sx.A("apply"), a1, a2), sx.L(sx.A("prep"), p1t, p1l, p2t, p2l))
}

// Family kfl.redactf (C15): a redaction behind a filter.  `F and redact(P)` on a record on which F is
// true must return exactly the record `redact(P)` alone returns - whatever the shape of F (bracket
// keys and indices followed by a field make the grammar nest the rest of the query under them).
// payload: (#filter #redact-call #record); observation: (truthF #canon(redact alone) #canon(filter and redact) truth)
func init() {
	families["kfl.redactf"] = &Family{Gen: genKflRedactF, Run: runKflRedactF}
}

func genKflRedactF(r *Rand, tier string, emit func(sx.Sx)) {
	// conjunctions only (an `or` would short-circuit past the redaction) and no json() / xml() hop in
	// the filter (the language evaluates everything after such a hop inside the nested document)
	filters := []string{`num == 42`, `t == true`, `d.n == 7`, `d["n"] == 7`, `c[0] != 12345`, `arr[0].x != "nope"`, `deep["p"].x != "nope"`,
		`d["e"] != "nope"`, `num > 1 and d.n < 9`, `!(num == 1)`, `(num == 42)`, `arr[1].x != "nope" and num == 42`, `c[2] != 7 and num != 1`,
		`d["n"].zz != 1`, `arr[0]["x"] != "nope"`, `deep.p["q"].x != "nope"`, `c[1] != c[0] and c[1] != 5`}
	n := 0
	genKflRedact(r, tier, func(c sx.Sx) {
		n++
		if n%2 == 0 {
			emit(sx.L(sx.S(filters[r.Intn(len(filters))]), c.List[0], sx.S(jsonText(c.List[2]))))
		}
	})
}

func runKflRedactF(p sx.Sx) sx.Sx {
	f, call, rec := p.List[0].Str(), p.List[1].Str(), p.List[2].Str()
	canon := func(s string, err error) sx.Sx {
		if err != nil {
			return sx.A("error")
		}
		parsed, perr := oj.ParseString(s)
		if perr != nil {
			return sx.A("unparseable")
		}
		return deepCanon(parsed)
	}
	tf, _, ef := kfl.Apply([]byte(rec), f)
	_, r1, e1 := kfl.Apply([]byte(rec), call)
	t2, r2, e2 := kfl.Apply([]byte(rec), f+" and "+call)
	truthF := sx.Bool(tf)
	if ef != nil {
		truthF = sx.A("error")
	}
	return sx.L(truthF, canon(r1, e1), canon(r2, e2), sx.Bool(t2))
}
