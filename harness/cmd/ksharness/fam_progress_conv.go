//go:build verif

package main

import (
	"bufio"
	"bytes"
	"io"
	"reflect"

	"github.com/kubeshark/base/pkg/api"

	"ksverif/harness/internal/mock"
	"ksverif/harness/internal/sx"
)

// Families progress.<proto> (C20): the conversations of the conv families dissected through readers
// that feed the connection's progress counter the way the tap does (every Read of the underlying
// stream feeds its byte count), whole and in pieces.  Conservation: the capture sizes of all the
// messages - those in emitted items and those still waiting in the matcher - plus what the two
// counters still hold at the end must add up to the bytes fed; nothing lost (a reading thrown away)
// and nothing counted twice.
// observation: ((fed c s) (items n sum) (waiting n sum) (rest c s))
func init() {
	for _, p := range []struct {
		name string
		gen  func(*Rand, string, func(sx.Sx))
	}{{"redis", genRedisConv}, {"amqp", genAmqpConv}, {"http", genHttpStages}, {"kafka", genKafkaStages}, {"h2c", genH2c}} {
		p := p
		families["progress."+p.name] = &Family{
			Gen: func(r *Rand, tier string, emit func(sx.Sx)) {
				n := 0
				p.gen(r, tier, func(c sx.Sx) {
					n++
					if n%3 == 0 {
						emit(sx.L(c, sx.N(r.Intn(3)), sx.N(1+r.Intn(700))))
					}
				})
				if p.name == "http" {
					// bodies beyond any cap an implementation might put on what it keeps (1 MiB is the HTTP/2 assembler's):
					// what is not kept was still consumed, and the sizes still add up
					big := bytes.Repeat([]byte("0123456789abcdef"), 96000) // 1.5 MB
					host := sx.L(sx.L(sx.S("Host"), sx.S("host.example")))
					for _, fr := range []string{"cl", "chunked"} {
						up := sx.L(sx.A("ex"), sx.L(sx.A("req"), sx.S("POST"), sx.S("/upload"), sx.N(1), host, sx.A(fr), sx.B(big)),
							sx.L(sx.A("resp"), sx.N(201), sx.S("Created"), sx.N(1), sx.L(), sx.A("cl"), sx.B([]byte("ok"))))
						down := sx.L(sx.A("ex"), sx.L(sx.A("req"), sx.S("GET"), sx.S("/download"), sx.N(1), host, sx.A("none"), sx.B(nil)),
							sx.L(sx.A("resp"), sx.N(200), sx.S("OK"), sx.N(1), sx.L(), sx.A(fr), sx.B(big)))
						after := sx.L(sx.A("ex"), sx.L(sx.A("req"), sx.S("GET"), sx.S("/after"), sx.N(1), host, sx.A("none"), sx.B(nil)),
							sx.L(sx.A("resp"), sx.N(200), sx.S("OK"), sx.N(1), sx.L(), sx.A("cl"), sx.B([]byte("ok"))))
						emit(sx.L(sx.L(up, after), sx.N(0), sx.N(1)))
						emit(sx.L(sx.L(down, after), sx.N(2), sx.N(700)))
					}
				}
			},
			Run: func(c sx.Sx) sx.Sx { return runProgressConv(p.name, c) },
		}
	}
}

type feedReader struct {
	b     []byte
	mode  int // 0: whatever the caller asks for; 1: one byte per read; 2: pieces of `piece` bytes
	piece int
	p     *api.ReadProgress
	fed   int
}

func (f *feedReader) Read(buf []byte) (int, error) {
	if len(f.b) == 0 {
		return 0, io.EOF
	}
	n := len(buf)
	switch f.mode {
	case 1:
		n = 1
	case 2:
		if f.piece < n {
			n = f.piece
		}
	}
	if n > len(f.b) {
		n = len(f.b)
	}
	copy(buf, f.b[:n])
	f.b = f.b[n:]
	f.p.Feed(n)
	f.fed += n
	return n, nil
}

func captureSizeOf(v interface{}) (int, bool) {
	rv := reflect.ValueOf(v)
	for rv.Kind() == reflect.Ptr || rv.Kind() == reflect.Interface {
		if rv.IsNil() {
			return 0, false
		}
		rv = rv.Elem()
	}
	if rv.Kind() != reflect.Struct {
		return 0, false
	}
	f := rv.FieldByName("CaptureSize")
	if !f.IsValid() || !f.CanInt() {
		return 0, false
	}
	return int(f.Int()), true
}

func runProgressConv(proto string, p sx.Sx) sx.Sx {
	conv := p.List[0]
	mode, piece := int(p.List[1].Int()), int(p.List[2].Int())
	d := stagesDissector(proto)
	cb, sb := stagesEncode(proto, conv)
	stats := &api.AppStats{}
	out := make(chan *api.OutputChannelItem, 1<<14)
	port := map[string]string{"redis": "6379", "amqp": "5672", "http": "80", "kafka": "9092", "h2c": "80"}[proto]
	m := d.NewResponseRequestMatcher()
	m.SetMaxTry(1)
	conn := mock.NewConn(d, m, stats, out, "pcap0", "10.0.0.1", "40000", "10.0.0.2", port)
	crashed := false
	half := func(b []byte, r *mock.Reader) *feedReader {
		fr := &feedReader{b: b, mode: mode, piece: piece, p: r.Progress}
		defer func() {
			if rec := recover(); rec != nil {
				crashed = true
			}
		}()
		_ = d.Dissect(bufio.NewReader(fr), r)
		return fr
	}
	cf := half(append([]byte{}, cb...), conn.Client)
	sf := half(append([]byte{}, sb...), conn.Server)
	close(out)
	nItems, sumItems := 0, 0
	for it := range out {
		nItems++
		sumItems += it.Pair.Request.CaptureSize + it.Pair.Response.CaptureSize
	}
	nWait, sumWait, unknown := 0, 0, 0
	m.GetMap().Range(func(k, v interface{}) bool {
		nWait++
		if n, ok := captureSizeOf(v); ok {
			sumWait += n
		} else {
			unknown++
		}
		return true
	})
	fedC, fedS := 0, 0
	if cf != nil {
		fedC = cf.fed
	}
	if sf != nil {
		fedS = sf.fed
	}
	res := []sx.Sx{
		sx.L(sx.A("fed"), sx.N(fedC), sx.N(fedS)),
		sx.L(sx.A("items"), sx.N(nItems), sx.N(sumItems)),
		sx.L(sx.A("waiting"), sx.N(nWait), sx.N(sumWait)),
		sx.L(sx.A("rest"), sx.N(conn.Client.Progress.Current()), sx.N(conn.Server.Progress.Current())),
	}
	if unknown > 0 {
		res = append(res, sx.L(sx.A("unknown-waiting"), sx.N(unknown)))
	}
	if crashed {
		res = append(res, sx.A("panic"))
	}
	_ = bytes.MinRead
	return sx.L(res...)
}
