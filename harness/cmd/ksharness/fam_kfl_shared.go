//go:build verif

package main

import (
	"strings"
	"sync"

	"github.com/kubeshark/base/pkg/languages/kfl"
	"github.com/ohler55/ojg/oj"

	"ksverif/harness/internal/sx"
)

// Family kfl.shared (C18): one prepared query shared by 12 goroutines, each evaluating it 60 times on its own
// record out of a set of records that differ in exactly the way that matters to the query (an XML body with and
// without an entity, a JSON body with and without a key, a header spelled in two cases ...); every result - truth
// and returned record - is compared with that of a freshly prepared copy of the query evaluated on that record
// alone.  The implementation is its own reference; the interleaving is whatever the Go scheduler does (stress).
// payload: (#query #record ...); observation: (shared (evals n) (differ d) (error e))
func init() {
	families["kfl.shared"] = &Family{Gen: genKflShared, Run: runKflShared}
}

func genKflShared(r *Rand, tier string, emit func(sx.Sx)) {
	xmlAmp := `{"x":"<order><item><card>4111</card><shop>Marks &amp; Spencer</shop></item><item><card>1</card></item></order>","n":1}`
	xmlPlain := `{"x":"<order><item><card>5500</card><shop>Joe's \"Diner\"</shop></item><item><card>2</card></item></order>","n":2}`
	xmlLt := `{"x":"<order><item><card>4111</card><shop>A &lt; B &amp; C</shop></item><item><card>3</card></item></order>","n":3}`
	xmlDecl := `{"x":"<?xml version=\"1.0\"?>\n<order><item><card>6011</card><shop>plain</shop></item><item><card>4</card></item></order>","n":4}`
	jsA := `{"j":"{\"user\":{\"token\":\"S1\",\"id\":7}}","H":{"Content-Type":"a","content-type":"b"},"n":5}`
	jsB := `{"j":"{\"user\":{\"id\":8}}","H":{"content-type":"b"},"n":6}`
	jsC := `{"j":"not json","H":{"Content-Type":"a"},"n":7}`
	// white space around the text (a pretty-printed body) next to a body that asks for it to be kept: what one record
	// says about its own white space is not a setting of the reader
	xmlPadded := `{"x":"<order>\n  <item>\n    <card> 4111 </card>\n    <shop> plain </shop>\n  </item>\n  <item><card>5</card></item>\n</order>","n":8}`
	xmlPreserve := `{"x":"<order xml:space=\"preserve\"><item><card>6011</card><shop>  kept  </shop></item><item><card>9</card></item>` + strings.Repeat("<pad> </pad>", 200) + `</order>","n":9}`
	sets := [][]string{{xmlAmp, xmlPlain, xmlLt, xmlDecl}, {jsA, jsB, jsC}, {xmlAmp, jsA, xmlPlain, jsB}, {xmlPadded, xmlPreserve, xmlPadded, xmlPreserve}}
	queries := []string{`redact("x.xml().order.item[0].card")`, `redact("x.xml().order.item[1].card") and n > 0`, `redact("x.xml().order.item[0].shop")`,
		`x.xml().order.item[0].card == "4111"`, `x.xml().order.item[0].shop == "plain"`, `x.xml().order.item[0].shop == "plain" and redact("x.xml().order.item[1].card")`,
		`redact("j.json().user.token")`, `j.json().user.id == 7`, `H["Content-Type"] == "a"`, `H["content-type"] == "b" and n >= 5`,
		`redact("j.json().user.token", "x.xml().order.item[0].card")`, `n == 1 or n == 5`, `x.startsWith("<order") and redact("n")`}
	for _, q := range queries {
		for _, set := range sets {
			c := []sx.Sx{sx.S(q)}
			for _, rec := range set {
				c = append(c, sx.S(rec))
			}
			emit(sx.L(c...))
		}
	}
}

func runKflShared(p sx.Sx) sx.Sx {
	q := p.List[0].Str()
	var recs []string
	for _, x := range p.List[1:] {
		recs = append(recs, x.Str())
	}
	canon := func(s string) string {
		parsed, err := oj.ParseString(s)
		if err != nil {
			return "unparseable:" + s
		}
		return deepCanon(parsed).String()
	}
	type res struct {
		truth bool
		rec   string
		err   bool
	}
	eval := func(expr *kfl.Expression, rec string) (out res) {
		defer func() {
			if r := recover(); r != nil {
				out = res{err: true, rec: "panic"}
			}
		}()
		t, j, err := kfl.Eval(expr, rec)
		if err != nil {
			return res{err: true}
		}
		return res{truth: t, rec: canon(j)}
	}
	prepare := func() *kfl.Expression {
		expr, _, err := kfl.PrepareQuery(q)
		if err != nil {
			return nil
		}
		return expr
	}
	shared := prepare()
	if shared == nil {
		return sx.L(sx.A("shared"), sx.A("prepare-error"))
	}
	want := make([]res, len(recs))
	for i, rec := range recs {
		want[i] = eval(prepare(), rec) // a fresh copy, this record alone
	}
	var wg sync.WaitGroup
	var mu sync.Mutex
	evals, differ, errs := 0, 0, 0
	start := make(chan struct{})
	for g := 0; g < 12; g++ {
		wg.Add(1)
		i := g % len(recs)
		go func() {
			defer wg.Done()
			<-start
			d, e := 0, 0
			for k := 0; k < 60; k++ {
				got := eval(shared, recs[i])
				if got != want[i] {
					d++
				}
				if got.err {
					e++
				}
			}
			mu.Lock()
			evals += 60
			differ += d
			errs += e
			mu.Unlock()
		}()
	}
	close(start)
	wg.Wait()
	return sx.L(sx.A("shared"), sx.L(sx.A("evals"), sx.N(evals)), sx.L(sx.A("differ"), sx.N(differ)), sx.L(sx.A("errors"), sx.N(errs)))
}
