//go:build verif

package main

import (
	"bufio"
	"bytes"
	"encoding/base64"
	"encoding/json"
	"fmt"
	"sort"
	"strings"

	"github.com/kubeshark/base/pkg/api"
	httpExt "github.com/kubeshark/base/pkg/extensions/http"
	"golang.org/x/net/http2"
	"golang.org/x/net/http2/hpack"
	"ksverif/harness/internal/mock"
	"ksverif/harness/internal/sx"
)

// Family http2.conv (C04): HTTP/2 half-connection pairs from abstract frame scripts, encoded
// with golang.org/x/net/http2's Framer and one HPACK encoder per half (dynamic-table state is
// on the wire across requests).
//
// payload: ((c frame ...) (s frame ...))
//
//	frame: (h sid end ((#name #value) ...) pieces)   HEADERS split into `pieces`+1 frames (CONTINUATION)
//	       (d sid end #payload) | (dz sid end length fill)     DATA (dz: `length` bytes of `fill`)
//	       (o kind sid)                                         settings | ping | window | priority | rst | goaway | table0 | table64 | settings-misc | tableup8k | tableup64k | goaway0
//
// observation: ((items ((req #method (hdr ...) datalen #first64) (resp status (hdr ...) datalen #first64) variant) ...) (left q r))
func init() {
	families["http2.conv"] = &Family{Gen: genHttp2Conv, Run: runHttp2Conv}
	families["http2.raw"] = &Family{Gen: genHttp2Raw, Run: runHttp2Conv}
	families["http2.order"] = &Family{Gen: genHttp2Conv, Run: runHttp2Order}
}

func encH2Half(isClient bool, frames sx.Sx) []byte {
	var out bytes.Buffer
	if isClient {
		out.WriteString(http2.ClientPreface)
	}
	fr := http2.NewFramer(&out, nil)
	fr.WriteSettings()
	var hb bytes.Buffer
	enc := hpack.NewEncoder(&hb)
	for _, f := range frames.List[1:] {
		switch f.List[0].Atom {
		case "h":
			sid := uint32(f.List[1].Int())
			end := f.List[2].Atom == "true"
			hb.Reset()
			for _, kv := range f.List[3].List {
				enc.WriteField(hpack.HeaderField{Name: kv.List[0].Str(), Value: kv.List[1].Str()})
			}
			block := append([]byte{}, hb.Bytes()...)
			pieces := int(f.List[4].Int())
			if pieces <= 0 || len(block) < pieces+1 {
				fr.WriteHeaders(http2.HeadersFrameParam{StreamID: sid, BlockFragment: block, EndStream: end, EndHeaders: true})
			} else {
				step := len(block) / (pieces + 1)
				fr.WriteHeaders(http2.HeadersFrameParam{StreamID: sid, BlockFragment: block[:step], EndStream: end, EndHeaders: false})
				rest := block[step:]
				for i := 0; i < pieces; i++ {
					if i == pieces-1 {
						fr.WriteContinuation(sid, true, rest)
					} else {
						fr.WriteContinuation(sid, false, rest[:step])
						rest = rest[step:]
					}
				}
			}
		case "d":
			data := f.List[3].Bytes()
			writeData(fr, uint32(f.List[1].Int()), f.List[2].Atom == "true", data)
		case "dz":
			data := bytes.Repeat([]byte{byte(f.List[4].Int())}, int(f.List[3].Int()))
			writeData(fr, uint32(f.List[1].Int()), f.List[2].Atom == "true", data)
		case "dz1": // one DATA frame, whatever its size (up to 2^24-1 is legal with a raised SETTINGS_MAX_FRAME_SIZE)
			data := bytes.Repeat([]byte{byte(f.List[4].Int())}, int(f.List[3].Int()))
			fr.WriteData(uint32(f.List[1].Int()), f.List[2].Atom == "true", data)
		case "o":
			sid := uint32(f.List[2].Int())
			switch f.List[1].Atom {
			case "settings":
				fr.WriteSettingsAck()
			case "ping":
				fr.WritePing(false, [8]byte{1, 2, 3, 4, 5, 6, 7, 8})
			case "window":
				fr.WriteWindowUpdate(sid, 1000)
			case "priority":
				fr.WritePriority(sid, http2.PriorityParam{StreamDep: 0, Weight: 10})
			case "rst":
				fr.WriteRSTStream(sid, http2.ErrCodeCancel)
			case "goaway": // graceful: the streams up to the last id are still completed
				fr.WriteGoAway(1<<31-1, http2.ErrCodeNo, []byte("bye"))
			case "goaway0": // a graceful shutdown by this side: no NEW streams of the peer; the streams it opened itself go on
				fr.WriteGoAway(0, http2.ErrCodeNo, nil)
			case "table0": // the sender's DEcoder table (limits the peer's encoder, not this half's)
				fr.WriteSettings(http2.Setting{ID: http2.SettingHeaderTableSize, Val: 0})
			case "table64":
				fr.WriteSettings(http2.Setting{ID: http2.SettingHeaderTableSize, Val: 64})
			case "settings-misc":
				fr.WriteSettings(http2.Setting{ID: http2.SettingMaxConcurrentStreams, Val: 7}, http2.Setting{ID: http2.SettingInitialWindowSize, Val: 1 << 20})
			case "tableup8k", "tableup64k":
				// the peer (the other half, which this dissection does not see) announced a larger header table: this
				// half's encoder takes it into use and says so with a dynamic table size update in its next block
				size := uint32(8192)
				if f.List[1].Atom == "tableup64k" {
					size = 65536
				}
				enc.SetMaxDynamicTableSizeLimit(size)
				enc.SetMaxDynamicTableSize(size)
			}
		}
	}
	return out.Bytes()
}

// DATA frames of at most 16384 bytes (the default SETTINGS_MAX_FRAME_SIZE)
func writeData(fr *http2.Framer, sid uint32, end bool, data []byte) {
	for len(data) > 16384 {
		fr.WriteData(sid, false, data[:16384])
		data = data[16384:]
	}
	fr.WriteData(sid, end, data)
}

func h2Headers(v interface{}) sx.Sx {
	type nv struct{ n, v string }
	var hs []nv
	if list, ok := v.([]interface{}); ok {
		for _, h := range list {
			m, _ := h.(map[string]interface{})
			n, _ := m["name"].(string)
			val, _ := m["value"].(string)
			if (n == "Host" && val == "") || n == "Content-Length" {
				// rebuilt by the HAR conversion from the assembled message, not part of the stream's fields
				continue
			}
			hs = append(hs, nv{n, val})
		}
	}
	sort.Slice(hs, func(i, j int) bool {
		a, b := fmt.Sprintf("%x", hs[i].n), fmt.Sprintf("%x", hs[j].n)
		if a != b {
			return a < b
		}
		return fmt.Sprintf("%x", hs[i].v) <= fmt.Sprintf("%x", hs[j].v)
	})
	out := []sx.Sx{sx.A("hdr")}
	for _, h := range hs {
		out = append(out, sx.L(sx.S(h.n), sx.S(h.v)))
	}
	return sx.L(out...)
}

func h2Data(body []byte) (int, []byte) {
	d, err := base64.StdEncoding.DecodeString(string(body))
	if err != nil {
		return -1, body
	}
	first := d
	if len(first) > 64 {
		first = first[:64]
	}
	return len(d), first
}

func runHttp2Conv(p sx.Sx) sx.Sx { return runHttp2Ordered(p, true, false) }

// http2.order: the conversation of http2.conv dissected client half first and server half first:
// the items (as a set) and what is left in the matcher must be the same.
func runHttp2Order(p sx.Sx) sx.Sx {
	return sx.L(sx.L(sx.A("cs"), runHttp2Ordered(p, true, true)), sx.L(sx.A("sc"), runHttp2Ordered(p, false, true)))
}

func runHttp2Ordered(p sx.Sx, clientFirst bool, sorted bool) sx.Sx {
	cb, sb := encH2Half(true, p.List[0]), encH2Half(false, p.List[1])
	d := httpExt.NewDissector()
	stats := &api.AppStats{}
	out := make(chan *api.OutputChannelItem, 1<<12)
	conn := mock.NewConn(d, d.NewResponseRequestMatcher(), stats, out, "pcap0", "10.0.0.1", "40000", "10.0.0.2", "80")
	half := func(b []byte, r *mock.Reader) (res string) {
		defer func() {
			if rec := recover(); rec != nil {
				res = "panic:" + fmt.Sprintf("%x", fmt.Sprint(rec))
			}
		}()
		_ = d.Dissect(bufio.NewReader(bytes.NewReader(b)), r)
		return "ok"
	}
	var ck, sk string
	if clientFirst {
		ck = half(cb, conn.Client)
		sk = half(sb, conn.Server)
	} else {
		sk = half(sb, conn.Server)
		ck = half(cb, conn.Client)
	}
	close(out)
	items := []sx.Sx{sx.A("items")}
	for it := range out {
		qb, _ := json.Marshal(it.Pair.Request.Payload)
		rb, _ := json.Marshal(it.Pair.Response.Payload)
		var q, r map[string]interface{}
		_ = json.Unmarshal(qb, &q)
		_ = json.Unmarshal(rb, &r)
		qd, _ := q["details"].(map[string]interface{})
		rd, _ := r["details"].(map[string]interface{})
		method, _ := qd["method"].(string)
		status, _ := rd["status"].(float64)
		ql, qf := h2Data(harBody(qd["postData"]))
		rl, rf := h2Data(harBody(rd["content"]))
		items = append(items, sx.L(
			sx.L(sx.A("req"), sx.S(method), h2Headers(qd["headers"]), sx.N(ql), sx.B(qf)),
			sx.L(sx.A("resp"), sx.N(int(status)), h2Headers(rd["headers"]), sx.N(rl), sx.B(rf)),
			sx.A(it.Protocol.Abbreviation)))
	}
	if sorted {
		rest := items[1:]
		sort.Slice(rest, func(i, j int) bool { return rest[i].String() < rest[j].String() })
	}
	nreq, nresp := 0, 0
	conn.Matcher.GetMap().Range(func(k, v interface{}) bool {
		if v.(*api.GenericMessage).IsRequest {
			nreq++
		} else {
			nresp++
		}
		return true
	})
	parts := []sx.Sx{sx.L(items...), sx.L(sx.A("left"), sx.N(nreq), sx.N(nresp))}
	if ck != "ok" || sk != "ok" {
		parts = append(parts, sx.L(sx.A("panic"), sx.A(ck), sx.A(sk)))
	}
	return sx.L(parts...)
}

func genHttp2Conv(r *Rand, tier string, emit func(sx.Sx)) {
	count := 300
	if tier == "thorough" {
		count = 5000
	}
	paths := []string{"/", "/api/items", "/pkg.Service/Method", "/very/long/" + strings.Repeat("x", 200)}
	kv := func(n, v string) sx.Sx { return sx.L(sx.S(n), sx.S(v)) }
	for i := 0; i < count; i++ {
		nstreams := 1 + r.Intn(4)
		var cstreams, sstreams [][]sx.Sx
		for s := 0; s < nstreams; s++ {
			sid := 2*s + 1
			grpcReq := r.Chance(30)
			grpcResp := grpcReq && r.Chance(85)
			if !grpcReq && r.Chance(10) { // a gRPC marker on the response only (transcoding gateways)
				grpcResp = true
			}
			// request
			rh := []sx.Sx{kv(":method", []string{"GET", "POST"}[r.Intn(2)]), kv(":scheme", "http"), kv(":path", paths[r.Intn(len(paths))]), kv(":authority", "svc.example"),
				kv("x-request-id", fmt.Sprintf("id-%d-%d", i, s)), kv("user-agent", "ua/1.0")}
			if r.Chance(25) { // field names that repeat, other fields in between (cookie crumbs, list-valued headers)
				rh = append(rh, kv("cookie", "sid=abc"), kv("accept", "text/html"), kv("cookie", "theme=dark"), kv("x-multi", "one"),
					kv("accept-language", "en"), kv("x-multi", "two"), kv("cookie", fmt.Sprintf("n=%d", s)), kv("x-last", "z"))
			}
			if grpcReq {
				rh = append(rh, kv("content-type", "application/grpc+proto"), kv("te", "trailers"))
			} else if r.Bool() {
				rh = append(rh, kv("content-type", "application/json"))
			}
			var cf []sx.Sx
			reqData := r.Intn(3)
			pieces := 0
			if r.Chance(25) {
				pieces = 1 + r.Intn(2)
			}
			cf = append(cf, sx.L(sx.A("h"), sx.N(sid), sx.Bool(reqData == 0), sx.L(rh...), sx.N(pieces)))
			for k := 0; k < reqData; k++ {
				cf = append(cf, sx.L(sx.A("d"), sx.N(sid), sx.Bool(k == reqData-1), sx.B(r.Bytes(r.Intn(100)))))
			}
			// response
			sh := []sx.Sx{kv(":status", []string{"200", "404", "500"}[r.Intn(3)]), kv("server", "srv"), kv("x-request-id", fmt.Sprintf("id-%d-%d", i, s))}
			if r.Chance(25) {
				sh = append(sh, kv("set-cookie", "a=1; Path=/"), kv("cache-control", "no-store"), kv("set-cookie", "b=2; Path=/"), kv("vary", "accept"),
					kv("x-multi", "one"), kv("vary", "cookie"), kv("x-multi", "two"), kv("x-last", "z"))
			}
			if grpcResp {
				sh = append(sh, kv("content-type", "application/grpc"))
			}
			var sf []sx.Sx
			respData := r.Intn(3)
			trailers := grpcResp || r.Chance(15)
			sf = append(sf, sx.L(sx.A("h"), sx.N(sid), sx.Bool(respData == 0 && !trailers), sx.L(sh...), sx.N(0)))
			for k := 0; k < respData; k++ {
				last := k == respData-1 && !trailers
				if tier == "thorough" && r.Chance(2) {
					sizes := []int{1048575, 1048576, 1048577, 3 * 1048576}
					sf = append(sf, sx.L(sx.A("dz"), sx.N(sid), sx.Bool(last), sx.N(sizes[r.Intn(len(sizes))]), sx.N(65+r.Intn(20))))
				} else if r.Chance(3) {
					sf = append(sf, sx.L(sx.A("dz"), sx.N(sid), sx.Bool(last), sx.N(40000+r.Intn(30000)), sx.N(65+r.Intn(20))))
				} else {
					sf = append(sf, sx.L(sx.A("d"), sx.N(sid), sx.Bool(last), sx.B(r.Bytes(r.Intn(200)))))
				}
			}
			if trailers {
				th := []sx.Sx{kv("x-trailer", "t")}
				if r.Chance(25) {
					th = append(th, kv("x-check", "a"), kv("x-other", "o"), kv("x-check", "b"), kv("x-end", "e"))
				}
				if grpcResp || r.Chance(20) {
					th = append(th, kv("grpc-status", "0"), kv("grpc-message", ""))
				}
				sf = append(sf, sx.L(sx.A("h"), sx.N(sid), sx.A("true"), sx.L(th...), sx.N(0)))
			}
			if r.Chance(8) { // a stream that never completes on the server half
				sf = sf[:len(sf)-1]
			}
			cstreams = append(cstreams, cf)
			sstreams = append(sstreams, sf)
		}
		merge := func(streams [][]sx.Sx) []sx.Sx {
			var out []sx.Sx
			idx := make([]int, len(streams))
			for {
				var live []int
				for s := range streams {
					if idx[s] < len(streams[s]) {
						live = append(live, s)
					}
				}
				if len(live) == 0 {
					break
				}
				s := live[r.Intn(len(live))]
				out = append(out, streams[s][idx[s]])
				idx[s]++
				if idx[s] == len(streams[s]) && r.Chance(12) {
					// RST_STREAM on a stream this half has just completed: a client cancelling a request whose
					// response is on its way, a server's RST_STREAM(NO_ERROR) after a complete early response
					out = append(out, sx.L(sx.A("o"), sx.A("rst"), sx.N(2*s+1)))
				}
				if r.Chance(15) {
					kinds := []string{"settings", "ping", "window", "priority", "rst", "goaway", "table0", "table64", "settings-misc", "tableup8k", "tableup64k", "goaway0"}
					k := kinds[r.Intn(len(kinds))]
					sid := 0
					if k == "window" && r.Bool() || k == "priority" {
						sid = 2*r.Intn(len(streams)) + 1
					}
					if k == "rst" {
						sid = 2*len(streams) + 101 // a stream nobody uses
					}
					out = append(out, sx.L(sx.A("o"), sx.A(k), sx.N(sid)))
				}
			}
			return out
		}
		emit(sx.L(sx.L(append([]sx.Sx{sx.A("c")}, merge(cstreams)...)...), sx.L(append([]sx.Sx{sx.A("s")}, merge(sstreams)...)...)))
	}
	// bodies that cross the 1 MiB cap inside a DATA frame (frame sizes that do not tile 2^20: the writer cuts at 16384,
	// so a first piece of 2^20-k bytes ends k bytes short of the cap and the next frame straddles it), on the request,
	// on the response and on two interleaved streams; both tiers
	for _, c := range [][2]int{{1048570, 100}, {1048575, 10}, {1040000, 16000}, {1048576 - 16384 + 5, 16384}} {
		dz := func(sid int, end bool, n int) sx.Sx { return sx.L(sx.A("dz"), sx.N(sid), sx.Bool(end), sx.N(n), sx.N(65+r.Intn(20))) }
		reqH := func(sid int, end bool) sx.Sx {
			return sx.L(sx.A("h"), sx.N(sid), sx.Bool(end), sx.L(kv(":method", "POST"), kv(":scheme", "http"), kv(":path", "/upload"), kv(":authority", "svc.example")), sx.N(0))
		}
		respH := func(sid int, end bool) sx.Sx {
			return sx.L(sx.A("h"), sx.N(sid), sx.Bool(end), sx.L(kv(":status", "200"), kv("server", "srv")), sx.N(0))
		}
		emit(sx.L(sx.L(sx.A("c"), reqH(1, false), dz(1, false, c[0]), dz(1, true, c[1])), sx.L(sx.A("s"), respH(1, true))))
		emit(sx.L(sx.L(sx.A("c"), reqH(1, true)), sx.L(sx.A("s"), respH(1, false), dz(1, false, c[0]), dz(1, false, c[1]), dz(1, true, 7))))
		emit(sx.L(sx.L(sx.A("c"), reqH(1, false), reqH(3, false), dz(1, false, c[0]), dz(3, false, 300), dz(1, true, c[1]), dz(3, true, 20)),
			sx.L(sx.A("s"), respH(3, true), respH(1, true))))
	}
	// many streams open at once (long polls, watches, streaming calls): every request's HEADERS first, then a GOAWAY(0)
	// of the client in the middle, then every closing DATA frame; the server likewise
	for _, n := range []int{101, 260} {
		cf := []sx.Sx{sx.A("c")}
		sf := []sx.Sx{sx.A("s")}
		for i := 0; i < n; i++ {
			sid := 2*i + 1
			cf = append(cf, sx.L(sx.A("h"), sx.N(sid), sx.A("false"), sx.L(kv(":method", "POST"), kv(":scheme", "http"), kv(":path", fmt.Sprintf("/watch/%d", i)), kv(":authority", "svc.example")), sx.N(0)))
			sf = append(sf, sx.L(sx.A("h"), sx.N(sid), sx.A("false"), sx.L(kv(":status", "200"), kv("x-n", fmt.Sprintf("%d", i))), sx.N(0)))
		}
		cf = append(cf, sx.L(sx.A("o"), sx.A("goaway0"), sx.N(0)))
		for i := 0; i < n; i++ {
			sid := 2*i + 1
			cf = append(cf, sx.L(sx.A("d"), sx.N(sid), sx.A("true"), sx.B([]byte(fmt.Sprintf("q%d", i)))))
			sf = append(sf, sx.L(sx.A("d"), sx.N(sid), sx.A("true"), sx.B([]byte(fmt.Sprintf("event-%d", i)))))
		}
		emit(sx.L(sx.L(cf...), sx.L(sf...)))
	}
	// content-length values the framer passes through unread (x/net/http2 validates names and value characters only;
	// net/http's digits-only check is for HTTP/1): negative, signed, not a number, beyond int64 - on messages with a body
	for _, v := range []string{"-1", "+5", "abc", "99999999999999999999", "0", "7", "-9223372036854775808"} {
		cf := []sx.Sx{sx.A("c"),
			sx.L(sx.A("h"), sx.N(1), sx.A("false"), sx.L(kv(":method", "POST"), kv(":scheme", "http"), kv(":path", "/cl"), kv(":authority", "svc.example"), kv("content-length", v)), sx.N(0)),
			sx.L(sx.A("d"), sx.N(1), sx.A("true"), sx.B([]byte("payload")))}
		sf := []sx.Sx{sx.A("s"),
			sx.L(sx.A("h"), sx.N(1), sx.A("false"), sx.L(kv(":status", "200"), kv("content-length", v)), sx.N(0)),
			sx.L(sx.A("d"), sx.N(1), sx.A("true"), sx.B([]byte("ok")))}
		emit(sx.L(sx.L(cf...), sx.L(sf...)))
	}
	// one header field of 1.5 MB (a token, a serialized context) between two ordinary streams: the block spans a hundred
	// CONTINUATION frames; SETTINGS_MAX_HEADER_LIST_SIZE is unlimited unless a peer says otherwise
	{
		big := strings.Repeat("t0k3n-", 250000)
		req := func(sid int, path string, extra ...sx.Sx) sx.Sx {
			hs := append([]sx.Sx{kv(":method", "GET"), kv(":scheme", "http"), kv(":path", path), kv(":authority", "svc.example")}, extra...)
			return sx.L(sx.A("h"), sx.N(sid), sx.A("true"), sx.L(hs...), sx.N(120))
		}
		resp := func(sid int, st string) sx.Sx {
			return sx.L(sx.A("h"), sx.N(sid), sx.A("true"), sx.L(kv(":status", st)), sx.N(0))
		}
		emit(sx.L(sx.L(sx.A("c"), req(1, "/one"), req(3, "/three", kv("x-upload-token", big)), req(5, "/five")),
			sx.L(sx.A("s"), resp(1, "201"), resp(3, "203"), resp(5, "205"))))
	}
	// the header table raised in two steps between two header blocks of the server: the next block opens with two
	// dynamic table size updates (the recorded finding h2-hpack-two-size-updates; in one step it is accepted)
	for _, ups := range [][]string{{"tableup8k", "tableup64k"}, {"tableup64k"}, {"tableup64k", "tableup8k"}} {
		cf := []sx.Sx{sx.A("c"),
			sx.L(sx.A("h"), sx.N(1), sx.A("true"), sx.L(kv(":method", "GET"), kv(":scheme", "http"), kv(":path", "/a"), kv(":authority", "svc.example")), sx.N(0)),
			sx.L(sx.A("h"), sx.N(3), sx.A("true"), sx.L(kv(":method", "GET"), kv(":scheme", "http"), kv(":path", "/b"), kv(":authority", "svc.example")), sx.N(0))}
		sf := []sx.Sx{sx.A("s"), sx.L(sx.A("h"), sx.N(1), sx.A("false"), sx.L(kv(":status", "200"), kv("x-first", "one")), sx.N(0))}
		for _, u := range ups {
			sf = append(sf, sx.L(sx.A("o"), sx.A(u), sx.N(0)))
		}
		sf = append(sf, sx.L(sx.A("d"), sx.N(1), sx.A("true"), sx.B([]byte("body-a"))),
			sx.L(sx.A("h"), sx.N(3), sx.A("false"), sx.L(kv(":status", "200"), kv("x-first", "one"), kv("x-second", "two")), sx.N(0)),
			sx.L(sx.A("d"), sx.N(3), sx.A("true"), sx.B([]byte("body-b"))))
		emit(sx.L(sx.L(cf...), sx.L(sf...)))
	}
}

// Family http2.raw (C01): frame scripts no peer would send, all of which x/net/http2's Framer
// delivers: DATA before (or without) HEADERS, frames after END_STREAM, END_STREAM twice, bodies
// at and around the 1 MiB cap in one or several DATA frames with and without headers, on either
// half. The model must predict the dissector; nothing may panic.
func genHttp2Raw(r *Rand, tier string, emit func(sx.Sx)) {
	kv := func(n, v string) sx.Sx { return sx.L(sx.S(n), sx.S(v)) }
	reqH := func(sid int, end bool) sx.Sx {
		return sx.L(sx.A("h"), sx.N(sid), sx.Bool(end), sx.L(kv(":method", "POST"), kv(":scheme", "http"), kv(":path", "/p"), kv(":authority", "a")), sx.N(0))
	}
	respH := func(sid int, end bool) sx.Sx {
		return sx.L(sx.A("h"), sx.N(sid), sx.Bool(end), sx.L(kv(":status", "200"), kv("server", "s")), sx.N(0))
	}
	single := false
	dz := func(sid int, end bool, n int) sx.Sx {
		kind := "dz"
		if single {
			kind = "dz1"
		}
		return sx.L(sx.A(kind), sx.N(sid), sx.Bool(end), sx.N(n), sx.N(65+r.Intn(20)))
	}
	half := func(side string, fs ...sx.Sx) sx.Sx { return sx.L(append([]sx.Sx{sx.A(side)}, fs...)...) }
	// fixed: bodies at the cap, with and without headers, in one and in two pieces, on each half
	for _, first := range []int{1048575, 1048576, 1048577, 2097153} {
		for _, second := range []int{0, 1, 10} {
			for _, variant := range []int{0, 1, 2, 3} {
				headers := variant&1 == 0
				single = variant&2 != 0
				var cf, sf []sx.Sx
				if headers {
					cf, sf = append(cf, reqH(1, false)), append(sf, respH(1, false))
				}
				cf = append(cf, dz(1, second == 0, first))
				sf = append(sf, dz(1, second == 0, first))
				if second > 0 {
					cf, sf = append(cf, dz(1, true, second)), append(sf, dz(1, true, second))
				}
				emit(sx.L(half("c", cf...), half("s", sf...)))
				emit(sx.L(half("c", cf...), half("s", respH(1, true))))
				emit(sx.L(half("c", reqH(1, true)), half("s", sf...)))
			}
		}
	}
	n := 150
	if tier == "thorough" {
		n = 1500
	}
	for i := 0; i < n; i++ {
		mk := func(isClient bool) []sx.Sx {
			var fs []sx.Sx
			for k := 1 + r.Intn(7); k > 0; k-- {
				sid := 1 + 2*r.Intn(3)
				end := r.Chance(35)
				switch r.Intn(6) {
				case 0, 1:
					if isClient {
						fs = append(fs, reqH(sid, end))
					} else {
						fs = append(fs, respH(sid, end))
					}
				case 2, 3:
					fs = append(fs, sx.L(sx.A("d"), sx.N(sid), sx.Bool(end), sx.B(r.Bytes(r.Intn(50)))))
				case 4:
					fs = append(fs, sx.L(sx.A("h"), sx.N(sid), sx.Bool(end), sx.L(kv("x-trailer", "t"), kv("grpc-status", "0")), sx.N(0)))
				case 5:
					fs = append(fs, sx.L(sx.A("o"), sx.A([]string{"settings", "ping", "window", "priority", "rst", "goaway", "table0", "table64", "settings-misc", "tableup8k", "tableup64k", "goaway0"}[r.Intn(12)]), sx.N(sid)))
				}
			}
			return fs
		}
		emit(sx.L(half("c", mk(true)...), half("s", mk(false)...)))
	}
}
