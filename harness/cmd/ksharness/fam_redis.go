//go:build verif

package main

import (
	"bufio"
	"bytes"
	"errors"
	"fmt"
	"io"
	"os"
	"sort"
	"strconv"
	"strings"

	"github.com/kubeshark/base/pkg/api"
	redisExt "github.com/kubeshark/base/pkg/extensions/redis"
	"ksverif/harness/internal/mock"
	"ksverif/harness/internal/sx"
)

// Families redis.conv (C07: well-formed conversations from an independent RESP encoder) and
// redis.raw (C01/C08: arbitrary bytes in arbitrary chunks on one half).

func init() {
	families["redis.conv"] = &Family{Gen: genRedisConv, Run: runRedisConv}
	families["redis.raw"] = &Family{Gen: genRedisRaw, Run: runRedisRaw}
	families["redis.convsplit"] = &Family{Gen: genRedisConv, Run: runRedisConv}
	families["redis.split"] = &Family{Gen: genRedisRaw, Run: runRedisRaw}
}

// chunkReader delivers the given chunks one Read at a time, then EOF or an error.
type chunkReader struct {
	chunks [][]byte
	tail   string // "eof" | "err"
}

var errBoom = errors.New("boom")

func (c *chunkReader) Read(p []byte) (int, error) {
	for len(c.chunks) > 0 && len(c.chunks[0]) == 0 {
		c.chunks = c.chunks[1:]
	}
	if len(c.chunks) == 0 {
		if c.tail == "err" {
			return 0, errBoom
		}
		return 0, io.EOF
	}
	n := copy(p, c.chunks[0])
	c.chunks[0] = c.chunks[0][n:]
	return n, nil
}

func splitBytes(b []byte, lens []int) [][]byte {
	var out [][]byte
	for _, l := range lens {
		if l <= 0 {
			continue
		}
		if l > len(b) {
			l = len(b)
		}
		out = append(out, b[:l])
		b = b[l:]
	}
	if len(b) > 0 {
		out = append(out, b)
	}
	return out
}

func redisErrKind(err error) string {
	if err == nil {
		return "nil"
	}
	m := err.Error()
	switch {
	case m == "EOF":
		return "eof"
	case m == "boom":
		return "readerr"
	case strings.HasPrefix(m, "Unknown reply"):
		return "unknown-reply"
	case m == "Unexpected character!":
		return "unexpected-char"
	case strings.HasPrefix(m, "It seems like server has closed"):
		return "empty-line"
	case strings.HasPrefix(m, "Unrecognized element"):
		return "unrecognized-element"
	case strings.HasPrefix(m, "Unrecognized keyword"):
		return "unrecognized-keyword"
	case strings.HasPrefix(m, "Unrecognized command"):
		return "unrecognized-command"
	case strings.HasPrefix(m, "Unrecognized Redis data type"):
		return "unrecognized-type"
	case strings.HasPrefix(m, "strconv.Atoi") || strings.Contains(m, "redirection"):
		return "bad-redirect"
	}
	return "other:" + fmt.Sprintf("%x", m)
}

var redisTypeSym = map[string]string{
	"Simple String": "simple", "Bulk String": "bulk", "Array": "array", "Integer": "integer", "Error": "error", "N/A": "na",
}

func redisPktSx(gm *api.GenericMessage) sx.Sx {
	pl, ok := gm.Payload.(redisExt.RedisPayload)
	if !ok {
		return sx.A("bad-payload")
	}
	w, ok := pl.Data.(*redisExt.RedisWrapper)
	if !ok {
		return sx.A("bad-wrapper")
	}
	p, ok := w.Details.(*redisExt.RedisPacket)
	if !ok {
		return sx.A("bad-details")
	}
	t, ok := redisTypeSym[string(p.Type)]
	if !ok {
		t = "unknown"
	}
	return sx.L(sx.A(t), sx.S(string(p.Command)), sx.S(p.Key), sx.S(p.Value), sx.S(string(p.Keyword)))
}

// dissectHalf runs the real Dissect on one half; a panic becomes the end kind "panic:<msg>".
func dissectHalf(d api.Dissector, chunks [][]byte, tail string, r *mock.Reader) (kind string) {
	defer func() {
		if rec := recover(); rec != nil {
			kind = "panic:" + fmt.Sprintf("%x", fmt.Sprint(rec))
		}
	}()
	cp := make([][]byte, len(chunks))
	copy(cp, chunks)
	err := d.Dissect(bufio.NewReader(&chunkReader{chunks: cp, tail: tail}), r)
	return redisErrKind(err)
}

func newRedisConn() *mock.Conn {
	d := redisExt.NewDissector()
	stats := &api.AppStats{}
	out := make(chan *api.OutputChannelItem, 1<<16)
	return mock.NewConn(d, d.NewResponseRequestMatcher(), stats, out, "pcap0", "10.0.0.1", "40000", "10.0.0.2", "6379")
}

func identOrd5(id string) int {
	f := strings.Split(id, "_")
	if len(f) < 5 {
		return -1
	}
	n, _ := strconv.Atoi(f[4])
	return n
}

func leftovers(conn *mock.Conn, pkt func(*api.GenericMessage) sx.Sx) []sx.Sx {
	type le struct {
		ord  int
		side string
		p    sx.Sx
	}
	var ls []le
	conn.Matcher.GetMap().Range(func(k, v interface{}) bool {
		gm := v.(*api.GenericMessage)
		side := "resp"
		if gm.IsRequest {
			side = "req"
		}
		ls = append(ls, le{identOrd5(k.(string)), side, pkt(gm)})
		return true
	})
	sort.Slice(ls, func(i, j int) bool { return ls[i].ord < ls[j].ord })
	out := []sx.Sx{sx.A("left")}
	for _, l := range ls {
		out = append(out, sx.L(sx.N(l.ord), sx.A(l.side), l.p))
	}
	return out
}

// ---- RESP encoder (harness side; the Lean spec encoder must produce the same bytes)

func encBulk(b []byte) []byte {
	return append(append([]byte(fmt.Sprintf("$%d\r\n", len(b))), b...), '\r', '\n')
}

func encReplySx(r sx.Sx) []byte {
	switch r.List[0].Atom {
	case "simple":
		return append(append([]byte{'+'}, r.List[1].Bytes()...), '\r', '\n')
	case "error":
		return append(append([]byte{'-'}, r.List[1].Bytes()...), '\r', '\n')
	case "int":
		return []byte(fmt.Sprintf(":%d\r\n", r.List[1].Int()))
	case "bulk":
		return encBulk(r.List[1].Bytes())
	case "nullbulk":
		return []byte("$-1\r\n")
	case "nullarray":
		return []byte("*-1\r\n")
	case "array":
		b := []byte(fmt.Sprintf("*%d\r\n", len(r.List)-1))
		for _, x := range r.List[1:] {
			b = append(b, encReplySx(x)...)
		}
		return b
	}
	panic("bad reply " + r.String())
}

func encConv(conv []sx.Sx) (cb, sb []byte) {
	for _, e := range conv {
		cmd := e.List[0]
		args := cmd.List[2].List
		cb = append(cb, []byte(fmt.Sprintf("*%d\r\n", len(args)+1))...)
		cb = append(cb, encBulk(cmd.List[1].Bytes())...)
		for _, a := range args {
			cb = append(cb, encBulk(a.Bytes())...)
		}
		sb = append(sb, encReplySx(e.List[1])...)
	}
	return
}

func intList(x sx.Sx) []int {
	var out []int
	for _, y := range x.List {
		out = append(out, int(y.Int()))
	}
	return out
}

func runRedisConv(p sx.Sx) sx.Sx {
	conv := p.List[0].List[1:]
	cb, sb := encConv(conv)
	conn := newRedisConn()
	d := redisExt.NewDissector()
	ck := dissectHalf(d, splitBytes(cb, intList(p.List[1])), "eof", conn.Client)
	sk := dissectHalf(d, splitBytes(sb, intList(p.List[2])), "eof", conn.Server)
	close(conn.Out)
	items := []sx.Sx{sx.A("items")}
	for it := range conn.Out {
		items = append(items, sx.L(redisPktSx(&it.Pair.Request), redisPktSx(&it.Pair.Response)))
	}
	return sx.L(sx.L(sx.A("cbytes"), sx.B(cb)), sx.L(sx.A("sbytes"), sx.B(sb)),
		sx.L(sx.A("c"), sx.A(ck)), sx.L(sx.A("s"), sx.A(sk)), sx.L(items...), sx.L(leftovers(conn, redisPktSx)...))
}

func runRedisRaw(p sx.Sx) sx.Sx {
	side := p.List[0].Atom
	var chunks [][]byte
	for _, c := range p.List[1].List {
		chunks = append(chunks, c.Bytes())
	}
	conn := newRedisConn()
	d := redisExt.NewDissector()
	r := conn.Client
	if side == "s" {
		r = conn.Server
	}
	kind := dissectHalf(d, chunks, p.List[2].Atom, r)
	pk := []sx.Sx{sx.A("packets")}
	for _, l := range leftovers(conn, redisPktSx)[1:] {
		pk = append(pk, l.List[2])
	}
	return sx.L(sx.L(sx.A("end"), sx.A(kind)), sx.L(pk...))
}

// ---- generators

func readLines(name string) []string {
	dir := os.Getenv("VERIF_FACTS")
	if dir == "" {
		dir = "/verif/work/facts"
	}
	b, err := os.ReadFile(dir + "/" + name)
	if err != nil {
		return nil
	}
	var out []string
	for _, l := range strings.Split(string(b), "\n") {
		if l != "" {
			out = append(out, l)
		}
	}
	return out
}

func redisValue(r *Rand, big bool) []byte {
	switch r.Intn(14) {
	case 0:
		return []byte{}
	case 1:
		return []byte("a\rb")
	case 2:
		return []byte("a\nb")
	case 3:
		return []byte("a\r\nb")
	case 4:
		return []byte("\r\n")
	case 5:
		return r.Bytes(1 + r.Intn(24))
	case 6:
		return []byte("x, ")
	case 7:
		if big {
			return bytes.Repeat([]byte("0123456789abcdef"), 512+r.Intn(64)) // across the 8 KiB buffer
		}
		return []byte("medium-value")
	case 8:
		return []byte("\r")
	case 9:
		return []byte("12345")
	case 10:
		// values that meet the query lexer's escapes once Summarize puts them between quotes (C16)
		return []byte(r.Pick([]string{`a"b`, `a\'b`, `a\101b`, `a\x41b`, `a\qb`, `trail\`, `a\tb`, `\u00e9`, `\x4`, `a\\b`, `it's`, `\18`, `\U0001F600`, `\"`}))
	default:
		return []byte(fmt.Sprintf("v%d", r.Intn(1000)))
	}
}

func redisReply(r *Rand, keywords []string, depth int, big bool) sx.Sx {
	switch k := r.Intn(20); {
	case k < 4:
		kw := keywords[r.Intn(len(keywords))]
		if r.Chance(30) {
			kw = strings.ToLower(kw)
		}
		return sx.L(sx.A("simple"), sx.S(kw))
	case k < 5:
		return sx.L(sx.A("simple"), sx.S([]string{"QUEUED", "hello world", "Background saving started", ""}[r.Intn(4)]))
	case k < 8:
		msgs := []string{"ERR unknown command", "WRONGTYPE Operation against a key", "MOVED 3999 127.0.0.1:6381", "ASK 12 10.0.0.5:7000",
			"CLUSTERDOWN The cluster is down", "BUSY Redis is busy", "NOSCRIPT No matching script", "E",
			"ERR cl\xc3\xa9 inconnue", "ERR \xff\x80 bytes", "ERR \xe6\x97\xa5\xe6\x9c\xac"}
		return sx.L(sx.A("error"), sx.S(msgs[r.Intn(len(msgs))]))
	case k < 11:
		ints := []int64{0, 1, -1, 42, 1 << 31, -(1 << 31), 1<<63 - 1, -(1 << 62), 1000000}
		return sx.L(sx.A("int"), sx.I(ints[r.Intn(len(ints))]))
	case k < 15:
		return sx.L(sx.A("bulk"), sx.B(redisValue(r, big)))
	case k < 16:
		return sx.L(sx.A("nullbulk"))
	case k < 17:
		return sx.L(sx.A("nullarray"))
	case k < 18:
		return sx.L(sx.A("array"))
	default:
		if depth <= 0 {
			return sx.L(sx.A("array"), sx.L(sx.A("bulk"), sx.S("x")))
		}
		n := 1 + r.Intn(3)
		xs := []sx.Sx{sx.A("array")}
		for i := 0; i < n; i++ {
			xs = append(xs, redisReply(r, keywords, depth-1, false))
		}
		return sx.L(xs...)
	}
}

func randSplit(r *Rand, total int) sx.Sx {
	var lens []sx.Sx
	switch r.Intn(4) {
	case 0: // whole
	case 1: // two pieces
		if total > 1 {
			lens = append(lens, sx.N(1+r.Intn(total-1)))
		}
	case 2: // many small pieces
		left := total
		for left > 0 && len(lens) < 400 {
			l := 1 + r.Intn(7)
			lens = append(lens, sx.N(l))
			left -= l
		}
	case 3: // segment-sized
		left := total
		for left > 0 && len(lens) < 400 {
			l := 1 + r.Intn(1460)
			lens = append(lens, sx.N(l))
			left -= l
		}
	}
	return sx.L(lens...)
}

func genRedisConv(r *Rand, tier string, emit func(sx.Sx)) {
	commands := readLines("redis_commands.txt")
	keywords := readLines("redis_keywords.txt")
	if len(commands) == 0 || len(keywords) == 0 {
		return
	}
	mk := func(cmd string, args [][]byte, reply sx.Sx) sx.Sx {
		as := make([]sx.Sx, len(args))
		for i, a := range args {
			as[i] = sx.B(a)
		}
		return sx.L(sx.L(sx.A("cmd"), sx.S(cmd), sx.L(as...)), reply)
	}
	one := func(exs ...sx.Sx) {
		cb, sb := encConv(exs)
		emit(sx.L(sx.L(append([]sx.Sx{sx.A("conv")}, exs...)...), randSplit(r, len(cb)), randSplit(r, len(sb))))
	}
	ok := sx.L(sx.A("simple"), sx.S("OK"))
	// every command of the table with 0..3 arguments
	for _, c := range commands {
		for n := 0; n <= 3; n++ {
			args := make([][]byte, n)
			for i := range args {
				args[i] = redisValue(r, false)
			}
			one(mk(c, args, ok))
		}
	}
	// pipelined pairs of simple replies (the k-th reply belongs to the k-th command)
	one(mk("SET", [][]byte{[]byte("k1"), []byte("v1")}, ok), mk("GET", [][]byte{[]byte("k1")}, sx.L(sx.A("bulk"), sx.S("v1"))))
	one(mk("PING", nil, sx.L(sx.A("simple"), sx.S("PONG"))), mk("PING", nil, sx.L(sx.A("simple"), sx.S("PONG"))), mk("GET", [][]byte{[]byte("a")}, sx.L(sx.A("nullbulk"))))
	// streams longer than the reader's 8 KiB buffer, delivered whole (one read fills the buffer completely): the end of
	// the first fill walks over every byte of the "*2 $3 GET" lines that follow a value of 8 KiB minus a little - and
	// the same for the first fills of 512 .. 4096 bytes a growing buffer would make
	for _, buf := range []int{512, 1024, 2048, 4096, 8192} {
		for d := -26; d <= 2; d++ {
			vlen := buf - 34 + d
			if vlen < 1 {
				continue
			}
			val := bytes.Repeat([]byte("v"), vlen)
			exs := []sx.Sx{mk("SET", [][]byte{[]byte("k"), val}, ok), mk("GET", [][]byte{[]byte("k")}, sx.L(sx.A("bulk"), sx.S("x"))),
				mk("PING", nil, sx.L(sx.A("simple"), sx.S("PONG"))), mk("INCR", [][]byte{[]byte("c")}, sx.L(sx.A("int"), sx.I(1234567)))}
			emit(sx.L(sx.L(append([]sx.Sx{sx.A("conv")}, exs...)...), sx.L(), sx.L()))
		}
	}
	// values that are special only to this reader: bulk strings, keys and array elements whose content is a keyword of
	// the reply table or a command name, in several spellings - a bulk string is reported byte for byte whatever it says
	for _, w := range append(append([]string{}, keywords...), "ok", "Ok", "oK", "pong", "Queued", "GET", "get", "nil", "") {
		one(mk("GET", [][]byte{[]byte("k")}, sx.L(sx.A("bulk"), sx.S(w))))
		one(mk("SET", [][]byte{[]byte(w), []byte(w)}, ok), mk("GET", [][]byte{[]byte(w)}, sx.L(sx.A("bulk"), sx.S(w))))
		one(mk("MGET", [][]byte{[]byte("a"), []byte("b")}, sx.L(sx.A("array"), sx.L(sx.A("bulk"), sx.S(w)), sx.L(sx.A("simple"), sx.S("OK")))))
	}
	// long-lived connections: 10-40 exchanges, the same reply shape many times over (a worker polling
	// with BLPOP timeouts gets a null array each time; counters and caches inside the reader must not
	// carry anything from one reply to the next)
	shapes := []sx.Sx{sx.L(sx.A("nullarray")), sx.L(sx.A("nullbulk")), sx.L(sx.A("array")), sx.L(sx.A("int"), sx.I(7)),
		sx.L(sx.A("error"), sx.S("ERR unknown command")), sx.L(sx.A("array"), sx.L(sx.A("bulk"), sx.S("GET")), sx.L(sx.A("nullarray")))}
	for _, shape := range shapes {
		for _, n := range []int{9, 12, 40} {
			exs := make([]sx.Sx, 0, n+1)
			for j := 0; j < n; j++ {
				exs = append(exs, mk("BLPOP", [][]byte{[]byte(fmt.Sprintf("queue:%d", j)), []byte("1")}, shape))
			}
			exs = append(exs, mk("INCR", [][]byte{[]byte("polls")}, sx.L(sx.A("int"), sx.I(42))))
			one(exs...)
		}
	}
	count := 1500
	if tier == "thorough" {
		count = 30000
	}
	for i := 0; i < count; i++ {
		n := 1 + r.Intn(6)
		if r.Chance(3) {
			n = 10 + r.Intn(30)
		}
		exs := make([]sx.Sx, n)
		big := r.Chance(5)
		for j := range exs {
			c := commands[r.Intn(len(commands))]
			if r.Chance(20) {
				c = strings.ToLower(c)
			}
			args := make([][]byte, r.Intn(6))
			for a := range args {
				args[a] = redisValue(r, big)
			}
			exs[j] = mk(c, args, redisReply(r, keywords, 2, big))
		}
		one(exs...)
	}
}

func genRedisRaw(r *Rand, tier string, emit func(sx.Sx)) {
	commands := readLines("redis_commands.txt")
	keywords := readLines("redis_keywords.txt")
	if len(commands) == 0 {
		return
	}
	raw := func(side string, chunks [][]byte, tail string) {
		cs := make([]sx.Sx, len(chunks))
		for i, c := range chunks {
			cs[i] = sx.B(c)
		}
		emit(sx.L(sx.A(side), sx.L(cs...), sx.A(tail)))
	}
	// fixed corpus: inputs that historically broke the reader
	fixed := []string{"-MOVED \r\n", "-MOVED 1\r\n", "-ASK\r\n", "-MOVED 1 host\r\n", "+OK\r\n+OK\r\n", "+", "+OK\r", "*30000000\r\n",
		"$5\r\nab", "$-5\r\n\r\n", ":12x\r\n", "*2\r\n:1\r\n", "*1\r\n*1\r\n*1\r\n:5\r\n", "$3\r\nabcd\r\n", "\r\n", "?", ":\r\n", ":-\r\n",
		"*1\r\n$4\r\nPING\r\n", "*-1\r\n", "$-1\r\n", "-\r\n", "-ERR\rx\r\n", "+OK\r\r\n", "*3\r\n$3\r\nSET\r\n:5\r\n:6\r\n"}
	for _, f := range fixed {
		for _, side := range []string{"c", "s"} {
			raw(side, [][]byte{[]byte(f)}, "eof")
			raw(side, [][]byte{[]byte(f)}, "err")
			// every two-piece split
			for i := 1; i < len(f); i++ {
				raw(side, [][]byte{[]byte(f[:i]), []byte(f[i:])}, "eof")
			}
		}
	}
	count := 600
	if tier == "thorough" {
		count = 12000
	}
	for i := 0; i < count; i++ {
		// a well-formed half, then: prefix / corruption / split
		n := 1 + r.Intn(4)
		var exs []sx.Sx
		for j := 0; j < n; j++ {
			c := commands[r.Intn(len(commands))]
			args := make([]sx.Sx, r.Intn(4))
			for a := range args {
				args[a] = sx.B(redisValue(r, false))
			}
			exs = append(exs, sx.L(sx.L(sx.A("cmd"), sx.S(c), sx.L(args...)), redisReply(r, keywords, 2, false)))
		}
		cb, sb := encConv(exs)
		b, side := cb, "c"
		if r.Bool() {
			b, side = sb, "s"
		}
		b = append([]byte{}, b...)
		switch r.Intn(5) {
		case 0: // every prefix (bounded) in one chunk
			for k := 0; k <= len(b) && k <= 160; k++ {
				raw(side, [][]byte{b[:k]}, []string{"eof", "err"}[r.Intn(2)])
			}
			continue
		case 1: // byte corruption with boundary values
			for k := 0; k < 1+r.Intn(3) && len(b) > 0; k++ {
				vals := []byte{0, '\r', '\n', '-', '0', '9', ':', '*', '$', '+', 0xff, ' '}
				b[r.Intn(len(b))] = vals[r.Intn(len(vals))]
			}
		case 2: // random bytes
			b = r.Bytes(r.Intn(64))
		case 3: // every two-piece split of a short stream
			if len(b) <= 120 {
				for k := 1; k < len(b); k++ {
					raw(side, [][]byte{b[:k], b[k:]}, "eof")
				}
				continue
			}
		}
		// random multi-piece split
		var chunks [][]byte
		rest := b
		for len(rest) > 0 {
			l := 1 + r.Intn(9)
			if r.Chance(20) {
				l = 1
			}
			if l > len(rest) {
				l = len(rest)
			}
			chunks = append(chunks, rest[:l])
			rest = rest[l:]
		}
		raw(side, chunks, []string{"eof", "err"}[r.Intn(2)])
	}
}
