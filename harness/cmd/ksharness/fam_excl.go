//go:build verif

package main

import (
	"os"
	"sort"
	"strconv"
	"strings"
	"sync"
	"sync/atomic"

	"github.com/kubeshark/base/pkg/api"
	"ksverif/harness/internal/mock"

	"ksverif/harness/internal/sched"
	"ksverif/harness/internal/sx"
)

// Family sched.excl (C09, C10, C19): the schedules of sched.match.* and sched.emit treat a locked
// region as one step - the yield points inside it (nopreempt.txt, derived from the lock / unlock
// statements around them) are passed through.  That the lock really excludes is checked here, on
// the running code: task A is parked AT such a point, then the other task of the same connection /
// the same Emitting is run - it must block before it reaches a point inside a locked region itself
// or finishes.  payload: (#kind #point); observation: (excl reached|unreached (after ...)) where
// after... are the places the other task stopped at while A stayed parked.
func init() {
	families["sched.excl"] = &Family{Gen: genSchedExcl, Run: runSchedExcl}
}

func genSchedExcl(r *Rand, tier string, emit func(sx.Sx)) {
	var pts []string
	for p := range noPreempt {
		pts = append(pts, p)
	}
	sort.Strings(pts)
	for _, p := range pts {
		kind := "emit"
		if i := strings.Index(p, ".match."); i > 0 {
			kind = p[:i]
		} else if !strings.HasPrefix(p, "emit.") {
			continue
		}
		emit(sx.L(sx.S(kind), sx.S(p)))
		if kind == "emit" {
			// free-running goroutines on several streams sharing one AppStats (no scheduler: real parallelism)
			emit(sx.L(sx.S("emitstress"), sx.S(p)))
			// three goroutines, two Emits each, on an open and on a closed stream: whoever is inside the
			// region is held there while the others run - never two inside at once
			emit(sx.L(sx.S("emit3"), sx.S(p)))
			emit(sx.L(sx.S("emit3closed"), sx.S(p)))
		}
	}
}

// runSchedHold: the "hold" policy - the first task to park at `point` is held there as long as any
// other task can run; when nobody else can, it is released and the next one to arrive is held.  At no
// time may two tasks be parked at the point (both inside the locked region).
func runSchedHold(kind, point string) sx.Sx {
	holder := -1
	choose := func(step int, enabled []int, points []string) int {
		at := func(t int) int {
			for i, e := range enabled {
				if e == t {
					return i
				}
			}
			return -1
		}
		if holder >= 0 && (at(holder) < 0 || points[at(holder)] != point) {
			holder = -1
		}
		if holder < 0 {
			for i, pt := range points {
				if pt == point {
					holder = enabled[i]
					break
				}
			}
		}
		if holder >= 0 {
			for i, e := range enabled {
				if e != holder {
					return i
				}
			}
			i := at(holder) // nobody else can run: release the holder
			holder = -1
			return i
		}
		return step % len(enabled)
	}
	schedPreempt = func(string) bool { return true }
	schedEmitClosed = kind == "emit3closed"
	defer func() { schedPreempt = nil; schedEmitClosed = false }()
	_, res := execSchedEmit([]emitSpec{{0, 2}, {0, 2}, {0, 2}}, choose)
	inside := map[int]bool{}
	maxInside := 0
	for _, e := range res.Log {
		switch e.Kind {
		case "resume", "done":
			delete(inside, e.Task)
		case "yield":
			if e.Point == point {
				inside[e.Task] = true
			} else {
				delete(inside, e.Task)
			}
		}
		if len(inside) > maxInside {
			maxInside = len(inside)
		}
	}
	out := []sx.Sx{sx.A("hold"), sx.L(sx.A("maxinside"), sx.N(maxInside)), sx.L(sx.A("steps"), sx.N(len(res.Steps)))}
	if os.Getenv("VERIF_DEBUG") != "" {
		for _, e := range res.Log {
			out = append(out, sx.L(sx.A(e.Kind), sx.N(e.Task), sx.A(e.Point)))
		}
	}
	if res.Deadlock {
		out = append(out, sx.A("deadlock"))
	}
	for range res.Panics {
		out = append(out, sx.A("panic"))
	}
	return sx.L(out...)
}

// runEmitStress: 8 streams x 2 goroutines x 4000 Emit calls sharing one AppStats, run by the Go scheduler
// on all CPUs: the items, the distinct identities and the matched-pairs statistic must all be N.  What a
// deterministic interleaving at yield points cannot show - an unsynchronised counter update - shows here.
func runEmitStress() sx.Sx {
	const nstreams, perSide = 8, 4000
	stats := &api.AppStats{}
	total := nstreams * 2 * perSide
	out := make(chan *api.OutputChannelItem, total+8)
	var wg sync.WaitGroup
	start := make(chan struct{})
	for i := 0; i < nstreams; i++ {
		st := &mock.Stream{PcapId: string(rune('a' + i))}
		em := &api.Emitting{AppStats: stats, Stream: st, OutputChannel: out}
		for side := 0; side < 2; side++ {
			wg.Add(1)
			go func() {
				defer wg.Done()
				<-start
				for j := 0; j < perSide; j++ {
					em.Emit(&api.OutputChannelItem{})
				}
			}()
		}
	}
	close(start)
	wg.Wait()
	close(out)
	seen := map[string]bool{}
	items := 0
	for it := range out {
		items++
		seen[it.Stream+"/"+strconv.FormatInt(it.Index, 10)] = true
	}
	// fresh streams: the first two Emit calls of an emitter, released together - whatever an emitter sets up
	// on first use must not let both through
	const fresh = 4000
	bad := 0
	for t := 0; t < fresh; t++ {
		st := &mock.Stream{PcapId: "f"}
		ch := make(chan *api.OutputChannelItem, 4)
		em := &api.Emitting{AppStats: stats, Stream: st, OutputChannel: ch}
		var ready, done sync.WaitGroup
		var gate int32
		for side := 0; side < 2; side++ {
			ready.Add(1)
			done.Add(1)
			go func() {
				defer done.Done()
				ready.Done()
				for atomic.LoadInt32(&gate) == 0 {
				}
				em.Emit(&api.OutputChannelItem{})
			}()
		}
		ready.Wait()
		atomic.StoreInt32(&gate, 1)
		done.Wait()
		close(ch)
		var idx []int64
		for it := range ch {
			idx = append(idx, it.Index)
		}
		if !(len(idx) == 2 && idx[0]+idx[1] == 1 && st.Count() == 2) {
			bad++
		}
	}
	return sx.L(sx.A("stress"), sx.L(sx.A("emits"), sx.N(total)), sx.L(sx.A("items"), sx.N(items)),
		sx.L(sx.A("distinct"), sx.N(len(seen))), sx.L(sx.A("matched"), sx.U(stats.MatchedPairs-fresh*2)),
		sx.L(sx.A("fresh"), sx.N(fresh), sx.N(bad)))
}

func runSchedExcl(p sx.Sx) sx.Sx {
	kind, point := string(p.List[0].Bytes()), string(p.List[1].Bytes())
	if kind == "emit3" || kind == "emit3closed" {
		return runSchedHold(kind, point)
	}
	if kind == "emitstress" {
		return runEmitStress()
	}
	a, b := 0, 1
	if strings.Contains(point, ".match.res.") {
		a, b = 1, 0
	}
	parkedAtP := false
	released := false
	choose := func(step int, enabled []int, points []string) int {
		ix := func(t int) int {
			for i, e := range enabled {
				if e == t {
					return i
				}
			}
			return -1
		}
		ia, ib := ix(a), ix(b)
		if ia >= 0 && points[ia] == point && !released {
			parkedAtP = true
			if ib >= 0 {
				return ib // A stays parked inside the region, the other task runs
			}
			released = true
			return ia
		}
		if ia >= 0 {
			return ia
		}
		return 0
	}
	schedPreempt = func(string) bool { return true }
	defer func() { schedPreempt = nil }()
	var res sched.Result
	var outcome sx.Sx
	if kind == "emit" {
		_, res = execSchedEmit([]emitSpec{{0, 1}, {0, 1}}, choose)
	} else {
		pc := schedProtos[kind]
		if pc == nil {
			return sx.L(sx.A("excl"), sx.A("unknown-kind"))
		}
		sr := execSchedMatch(pc, 1, choose)
		res = sr.res
		// how the exchange ended after the parked task was released: one item, nothing left waiting -
		// a task that blocks only after it has looked the counterpart up has been excluded too late
		residue := 0
		sr.conn.Matcher.GetMap().Range(func(k, v interface{}) bool { residue++; return true })
		outcome = sx.L(sx.A("outcome"), sx.N(len(sr.conn.Out)), sx.N(residue))
	}
	// the steps of b taken while a was parked at the point
	after := []sx.Sx{sx.A("after")}
	aAt := false
	for _, s := range res.Steps {
		if s.Task == a {
			if aAt {
				break // a resumed
			}
			if s.After == point {
				aAt = true
			}
			continue
		}
		if aAt && s.Task == b {
			after = append(after, sx.A(s.After))
		}
	}
	reached := "unreached"
	if parkedAtP {
		reached = "reached"
	}
	out := []sx.Sx{sx.A("excl"), sx.A(reached), sx.L(after...)}
	if outcome.List != nil {
		out = append(out, outcome)
	}
	if res.Deadlock {
		out = append(out, sx.A("deadlock"))
	}
	for range res.Panics {
		out = append(out, sx.A("panic"))
	}
	return sx.L(out...)
}
