//go:build verif

package main

import (
	"bufio"
	"bytes"
	"encoding/binary"
	"fmt"
	"runtime"
	"strings"
	"time"

	"github.com/kubeshark/base/pkg/api"
	amqpExt "github.com/kubeshark/base/pkg/extensions/amqp"
	httpExt "github.com/kubeshark/base/pkg/extensions/http"
	kafkaExt "github.com/kubeshark/base/pkg/extensions/kafka"
	redisExt "github.com/kubeshark/base/pkg/extensions/redis"
	"golang.org/x/net/http2"
	"golang.org/x/net/http2/hpack"
	"ksverif/harness/internal/mock"
	"ksverif/harness/internal/stages"
	"ksverif/harness/internal/sx"
)

// Families cost.<proto> (C02): a well-formed half in which one length / count / size field is
// replaced by a boundary value, ended by a clean end of stream, by one read error, or by a
// reader that fails forever. The real Dissect (and the later stages on whatever was emitted)
// run under measurement.
//
// payload: (side (#chunk ...) tail label)
// observation: (n <bytes> alloc <bytes allocated> ms <wall ms> end <kind> items <k>)
func init() {
	for _, p := range []string{"redis", "amqp", "kafka", "http"} {
		p := p
		families["cost."+p] = &Family{
			Gen: func(r *Rand, tier string, emit func(sx.Sx)) { genCost(p, r, tier, emit) },
			Run: func(x sx.Sx) sx.Sx { return runCost(p, x) },
		}
	}
}

// tailReader: chunks, then EOF / one error then EOF / errors forever.
type tailReader struct {
	chunks [][]byte
	tail   string
	erred  bool
}

func (c *tailReader) Read(p []byte) (int, error) {
	for len(c.chunks) > 0 && len(c.chunks[0]) == 0 {
		c.chunks = c.chunks[1:]
	}
	if len(c.chunks) == 0 {
		switch c.tail {
		case "errforever":
			return 0, errBoom
		case "err":
			if !c.erred {
				c.erred = true
				return 0, errBoom
			}
		}
		return 0, errEOF
	}
	n := copy(p, c.chunks[0])
	c.chunks[0] = c.chunks[0][n:]
	return n, nil
}

var errEOF = func() error { var r bytes.Reader; _, err := r.Read(make([]byte, 1)); return err }()

func dissectorOf(proto string) (api.Dissector, string) {
	switch proto {
	case "redis":
		return redisExt.NewDissector(), "6379"
	case "amqp":
		return amqpExt.NewDissector(), "5672"
	case "kafka":
		return kafkaExt.NewDissector(), "9092"
	}
	return httpExt.NewDissector(), "80"
}

func runCost(proto string, p sx.Sx) sx.Sx {
	side := p.List[0].Atom
	var chunks [][]byte
	n := 0
	for _, c := range p.List[1].List {
		b := c.Bytes()
		chunks = append(chunks, b)
		n += len(b)
	}
	tail := p.List[2].Atom
	d, port := dissectorOf(proto)
	stats := &api.AppStats{}
	out := make(chan *api.OutputChannelItem, 1<<12)
	m := d.NewResponseRequestMatcher()
	m.SetMaxTry(10)
	conn := mock.NewConn(d, m, stats, out, "pcap0", "10.0.0.1", "40000", "10.0.0.2", port)
	r := conn.Client
	if side == "s" {
		r = conn.Server
	}
	runtime.GC()
	var m0, m1 runtime.MemStats
	runtime.ReadMemStats(&m0)
	t0 := time.Now()
	end := "nil"
	func() {
		defer func() {
			if rec := recover(); rec != nil {
				end = "panic:" + fmt.Sprintf("%x", fmt.Sprint(rec))
			}
		}()
		err := d.Dissect(bufio.NewReader(&tailReader{chunks: chunks, tail: tail}), r)
		if err != nil {
			end = "error"
		}
	}()
	close(out)
	items := 0
	for it := range out {
		items++
		res := stages.Run(d, it)
		if res.Panic != "" && !strings.HasPrefix(end, "panic") {
			end = "stage-panic:" + fmt.Sprintf("%x", res.Panic)
		}
	}
	dt := time.Since(t0)
	runtime.ReadMemStats(&m1)
	return sx.L(sx.A("n"), sx.N(n), sx.A("alloc"), sx.U(m1.TotalAlloc-m0.TotalAlloc), sx.A("ms"), sx.I(dt.Milliseconds()),
		sx.A("end"), sx.A(end), sx.A("items"), sx.N(items))
}

var boundaryValues = func(rem int) []int64 {
	return []int64{0, 1, int64(rem - 1), int64(rem), int64(rem + 1), 65535, 65536, 1000000, 1000001, 16000000, 16000001, 30000000, 2147483647, -1, 4294967295}
}

func be32(v int64) []byte { b := make([]byte, 4); binary.BigEndian.PutUint32(b, uint32(v)); return b }
func be16(v int64) []byte { b := make([]byte, 2); binary.BigEndian.PutUint16(b, uint16(v)); return b }

// a template: bytes before the field, how to print the field, bytes after it
type costTemplate struct {
	label  string
	side   string
	before []byte
	field  func(v int64) []byte
	after  []byte
}

func costTemplates(proto string) []costTemplate {
	dec := func(v int64) []byte { return []byte(fmt.Sprintf("%d", v)) }
	hexf := func(v int64) []byte { return []byte(fmt.Sprintf("%x", uint64(v))) }
	switch proto {
	case "redis":
		return []costTemplate{
			{"array-count-client", "c", []byte("*"), dec, []byte("\r\n$3\r\nSET\r\n$1\r\nk\r\n$1\r\nv\r\n")},
			{"bulk-length-client", "c", []byte("*2\r\n$3\r\nGET\r\n$"), dec, []byte("\r\nkey\r\n")},
			{"array-count-server", "s", []byte("*"), dec, []byte("\r\n:1\r\n:2\r\n")},
			{"bulk-length-server", "s", []byte("$"), dec, []byte("\r\nvalue\r\n+OK\r\n")},
			{"nested-array-server", "s", []byte("*1\r\n*"), dec, []byte("\r\n:1\r\n")},
		}
	case "amqp":
		method := func(payload []byte) []byte {
			return append(append([]byte{1, 0, 1}, be32(int64(len(payload)))...), append(payload, 0xCE)...)
		}
		_ = method
		return []costTemplate{
			{"frame-size-body", "c", []byte{3, 0, 1}, be32, []byte("abcdef\xCE")},
			{"frame-size-method", "c", []byte{1, 0, 1}, be32, []byte{0, 10, 0, 51, 0xCE}},
			{"longstr-length", "s", []byte{1, 0, 0, 0, 0, 0, 30, 0, 10, 0, 10, 0, 9, 0, 0, 0, 0}, be32, []byte("PLAIN\x00\x00\x00\x05en_US\xCE")},
			{"table-length", "s", []byte{1, 0, 0, 0, 0, 0, 30, 0, 10, 0, 10, 0, 9}, be32, []byte("\x01kS\x00\x00\x00\x01v\x00\x00\x00\x05PLAIN\x00\x00\x00\x05en_US\xCE")},
			{"array-length", "c", []byte{1, 0, 1, 0, 0, 0, 40, 0, 50, 0, 10, 0, 0, 1, 'q', 0, 0, 0, 0, 12, 1, 'k', 'A'}, be32, []byte("I\x00\x00\x00\x01I\x00\x00\x00\x02\xCE")},
			{"bytearray-length", "c", []byte{1, 0, 1, 0, 0, 0, 40, 0, 50, 0, 10, 0, 0, 1, 'q', 0, 0, 0, 0, 12, 1, 'k', 'x'}, be32, []byte("abcdefgh\xCE")},
			{"header-body-size", "c", append(encFrame(mustSx("(m 1 60 40 ((s 0) (ss #65) (ss #6b) (bits false false)))")), []byte{2, 0, 1, 0, 0, 0, 14, 0, 60, 0, 0, 0, 0, 0, 0}...), be32, []byte{0, 0, 0xCE, 3, 0, 1, 0, 0, 0, 2, 'h', 'i', 0xCE}},
		}
	case "kafka":
		// Metadata v1 request: size | apiKey=3 | version=1 | correlation | clientID | topics[]
		body := func(clientLen int64, client []byte, count int64, topicLen int64, topic []byte) []byte {
			var b bytes.Buffer
			b.Write(be16(3))
			b.Write(be16(1))
			b.Write(be32(7))
			b.Write(be16(clientLen))
			b.Write(client)
			b.Write(be32(count))
			b.Write(be16(topicLen))
			b.Write(topic)
			return b.Bytes()
		}
		full := body(2, []byte("cl"), 1, 5, []byte("topic"))
		// Produce v3 request with one record batch of one record with one header; each count / length
		// of the batch is a template field
		zz := func(v int64) []byte {
			u := uint64(v<<1) ^ uint64(v>>63)
			var out []byte
			for u >= 0x80 {
				out = append(out, byte(u)|0x80)
				u >>= 7
			}
			return append(out, byte(u))
		}
		be64 := func(v int64) []byte { b := make([]byte, 8); binary.BigEndian.PutUint64(b, uint64(v)); return b }
		cat := func(parts ...[]byte) []byte {
			var out []byte
			for _, p := range parts {
				out = append(out, p...)
			}
			return out
		}
		recTail := cat(zz(1), []byte("h"), zz(1), []byte("x"))                                  // after the header count
		recMid := cat([]byte{0}, zz(0), zz(0), zz(1), []byte("k"), zz(1), []byte("v"))          // attributes .. value
		record := cat(zz(int64(len(recMid)+1+len(recTail))), recMid, zz(1), recTail)             // length, .., header count 1, header
		batchHead := cat(be64(0), be32(int64(49+len(record))), be32(-1), []byte{2}, be32(0), be16(0), be32(0), be64(1700000000000), be64(1700000000000), be64(-1), be16(-1), be32(-1))
		prodHead := cat(be16(0), be16(3), be32(9), be16(2), []byte("cl"), be16(-1), be16(1), be32(1000), be32(1), be16(1), []byte("t"), be32(1), be32(0))
		produce := func(before, after []byte) (b, a []byte) {
			// the message size is that of the well-formed message; only the templated field varies
			wf := cat(prodHead, be32(int64(len(batchHead)+4+len(record))), batchHead, be32(1), record)
			return cat(be32(int64(len(wf))), before), after
		}
		pb1, pa1 := produce(cat(prodHead, be32(int64(len(batchHead)+4+len(record))), batchHead), record)                               // record count
		pb2, pa2 := produce(cat(prodHead, be32(int64(len(batchHead)+4+len(record))), batchHead, be32(1), zz(int64(len(recMid)+1+len(recTail))), recMid), recTail) // header count
		pb3, pa3 := produce(cat(prodHead, be32(int64(len(batchHead)+4+len(record))), batchHead, be32(1), zz(int64(len(recMid)+1+len(recTail))), []byte{0}, zz(0), zz(0)), cat([]byte("k"), zz(1), []byte("v"), zz(1), recTail)) // key length
		pb4, pa4 := produce(cat(prodHead, be32(int64(len(batchHead)+4+len(record))), batchHead, be32(1), zz(int64(len(recMid)+1+len(recTail))), recMid, zz(1)), cat([]byte("h"), zz(1), []byte("x"))) // header key length
		pb5, pa5 := produce(prodHead, cat(batchHead, be32(1), record))                                                               // record set size
		return []costTemplate{
			{"record-count", "c", pb1, be32, pa1},
			{"record-header-count", "c", pb2, zz, pa2},
			{"record-key-length", "c", pb3, zz, pa3},
			{"record-header-key-length", "c", pb4, zz, pa4},
			{"record-set-size", "c", pb5, be32, pa5},
			{"message-size", "c", nil, be32, full},
			{"client-id-length", "c", append(be32(int64(len(full))), full[:8]...), be16, full[10:]},
			{"array-count", "c", append(be32(int64(len(full))), full[:12]...), be32, full[16:]},
			{"string-length", "c", append(be32(int64(len(full))), full[:16]...), be16, full[18:]},
			{"response-size", "s", nil, be32, []byte{0, 0, 0, 7, 0, 0, 0, 0}},
		}
	default: // http
		var h2 bytes.Buffer
		h2.WriteString(http2.ClientPreface)
		fr := http2.NewFramer(&h2, nil)
		fr.WriteSettings()
		var hb bytes.Buffer
		enc := hpack.NewEncoder(&hb)
		for _, f := range [][2]string{{":method", "POST"}, {":scheme", "http"}, {":path", "/x"}, {":authority", "h"}} {
			enc.WriteField(hpack.HeaderField{Name: f[0], Value: f[1]})
		}
		fr.WriteHeaders(http2.HeadersFrameParam{StreamID: 1, BlockFragment: hb.Bytes(), EndHeaders: true})
		pre := append([]byte{}, h2.Bytes()...)
		be24 := func(v int64) []byte { return []byte{byte(v >> 16), byte(v >> 8), byte(v)} }
		return []costTemplate{
			{"content-length-request", "c", []byte("POST /p HTTP/1.1\r\nHost: h\r\nContent-Length: "), dec, []byte("\r\n\r\nbody")},
			{"content-length-response", "s", []byte("HTTP/1.1 200 OK\r\nContent-Length: "), dec, []byte("\r\n\r\nbody")},
			{"chunk-size-request", "c", []byte("POST /p HTTP/1.1\r\nHost: h\r\nTransfer-Encoding: chunked\r\n\r\n"), hexf, []byte("\r\nbody\r\n0\r\n\r\n")},
			{"chunk-size-response", "s", []byte("HTTP/1.1 200 OK\r\nTransfer-Encoding: chunked\r\n\r\n"), hexf, []byte("\r\nbody\r\n0\r\n\r\n")},
			{"h2-data-frame-length", "c", pre, be24, []byte{0, 1, 0, 0, 0, 1, 'd', 'a', 't', 'a'}},
			{"h2-headers-frame-length", "c", []byte(http2.ClientPreface), be24, []byte{1, 5, 0, 0, 0, 1, 0x82, 0x86}},
		}
	}
}

func mustSx(s string) sx.Sx {
	x, err := sx.Parse(s)
	if err != nil {
		panic(err)
	}
	return x
}

func genCost(proto string, r *Rand, tier string, emit func(sx.Sx)) {
	for _, t := range costTemplates(proto) {
		rem := len(t.after)
		for _, v := range boundaryValues(rem) {
			b := append(append(append([]byte{}, t.before...), t.field(v)...), t.after...)
			for _, tail := range []string{"eof", "err", "errforever"} {
				emit(sx.L(sx.A(t.side), sx.L(sx.B(b)), sx.A(tail), sx.A(fmt.Sprintf("%s=%d", t.label, v))))
			}
		}
	}
	// well-formed streams of growing size: cost must grow linearly
	sizes := []int{1, 10, 100, 1000}
	if tier == "thorough" {
		sizes = append(sizes, 10000, 50000)
	}
	for _, k := range sizes {
		var b bytes.Buffer
		side := "c"
		switch proto {
		case "redis":
			for i := 0; i < k; i++ {
				b.WriteString("*3\r\n$3\r\nSET\r\n$3\r\nkey\r\n$5\r\nvalue\r\n")
			}
		case "amqp":
			for i := 0; i < k; i++ {
				b.Write(encFrame(mustSx("(m 1 50 10 ((s 0) (ss #71) (bits false true false false false) (t ())))")))
			}
		case "kafka":
			for i := 0; i < k; i++ {
				body := append(append(append(be16(3), be16(1)...), be32(int64(i))...), append(be16(2), []byte("cl")...)...)
				body = append(body, append(be32(1), append(be16(5), []byte("topic")...)...)...)
				b.Write(be32(int64(len(body))))
				b.Write(body)
			}
		default:
			for i := 0; i < k; i++ {
				b.WriteString("GET /r HTTP/1.1\r\nHost: h\r\nX-A: b\r\n\r\n")
			}
		}
		emit(sx.L(sx.A(side), sx.L(sx.B(b.Bytes())), sx.A("eof"), sx.A(fmt.Sprintf("wellformed=%d", k))))
	}
}
