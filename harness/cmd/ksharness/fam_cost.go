//go:build verif

package main

import (
	"bufio"
	"bytes"
	"encoding/binary"
	"fmt"
	"runtime"
	"strings"
	"time"

	"github.com/kubeshark/base/pkg/api"
	amqpExt "github.com/kubeshark/base/pkg/extensions/amqp"
	httpExt "github.com/kubeshark/base/pkg/extensions/http"
	kafkaExt "github.com/kubeshark/base/pkg/extensions/kafka"
	redisExt "github.com/kubeshark/base/pkg/extensions/redis"
	"golang.org/x/net/http2"
	"golang.org/x/net/http2/hpack"
	"ksverif/harness/internal/mock"
	"ksverif/harness/internal/stages"
	"ksverif/harness/internal/sx"
)

// Families cost.<proto> (C02): a well-formed half in which one length / count / size field is
// replaced by a boundary value, ended by a clean end of stream, by one read error, or by a
// reader that fails forever. The real Dissect (and the later stages on whatever was emitted)
// run under measurement.
//
// payload: (side (#chunk ...) tail label)
// observation: (n <bytes> alloc <bytes allocated> ms <wall ms> end <kind> items <k>)
func init() {
	for _, p := range []string{"redis", "amqp", "kafka", "http"} {
		p := p
		families["cost."+p] = &Family{
			Gen: func(r *Rand, tier string, emit func(sx.Sx)) { genCost(p, r, tier, emit) },
			Run: func(x sx.Sx) sx.Sx { return runCost(p, x) },
		}
	}
	// cost.wide (C11: "in time proportional to its size"): the wide and whole-exchange cases of cost.http alone -
	// items that are large because they hold many names, through Analyze / Summarize / Represent
	families["cost.wide"] = &Family{
		Gen: func(r *Rand, tier string, emit func(sx.Sx)) {
			genCost("http", r, tier, func(c sx.Sx) {
				if len(c.List) >= 7 && !strings.Contains(c.List[3].Atom, "hpack") {
					emit(c)
				}
			})
		},
		Run: func(x sx.Sx) sx.Sx { return runCost("http", x) },
	}
}

// tailReader: chunks, then EOF / one error then EOF / errors forever.
type tailReader struct {
	chunks [][]byte
	tail   string
	erred  bool
}

func (c *tailReader) Read(p []byte) (int, error) {
	for len(c.chunks) > 0 && len(c.chunks[0]) == 0 {
		c.chunks = c.chunks[1:]
	}
	if len(c.chunks) == 0 {
		switch c.tail {
		case "errforever":
			return 0, errBoom
		case "err":
			if !c.erred {
				c.erred = true
				return 0, errBoom
			}
		}
		return 0, errEOF
	}
	n := copy(p, c.chunks[0])
	c.chunks[0] = c.chunks[0][n:]
	return n, nil
}

var errEOF = func() error { var r bytes.Reader; _, err := r.Read(make([]byte, 1)); return err }()

func dissectorOf(proto string) (api.Dissector, string) {
	switch proto {
	case "redis":
		return redisExt.NewDissector(), "6379"
	case "amqp":
		return amqpExt.NewDissector(), "5672"
	case "kafka":
		return kafkaExt.NewDissector(), "9092"
	}
	return httpExt.NewDissector(), "80"
}

func runCost(proto string, p sx.Sx) sx.Sx {
	side := p.List[0].Atom
	tail := p.List[2].Atom
	chunksOf := func(x sx.Sx) [][]byte {
		var chunks [][]byte
		for _, c := range x.List {
			chunks = append(chunks, c.Bytes())
		}
		return chunks
	}
	var pre []sx.Sx
	var reply, reply0 [][]byte
	if len(p.List) >= 7 { // the other half of the conversation, so that items are emitted and analysed
		reply, reply0 = chunksOf(p.List[5]), chunksOf(p.List[6])
	}
	if len(p.List) >= 5 && len(p.List[4].List) > 0 {
		// growth case: the same shape at a smaller size first; the per-byte cost must not grow with the size
		n0, alloc0, ms0, end0, _ := measureCost(proto, side, chunksOf(p.List[4]), tail, reply0)
		pre = []sx.Sx{sx.A("n0"), sx.N(n0), sx.A("alloc0"), sx.U(alloc0), sx.A("ms0"), sx.I(ms0), sx.A("end0"), sx.A(end0)}
	}
	n, alloc, ms, end, items := measureCost(proto, side, chunksOf(p.List[1]), tail, reply)
	out := []sx.Sx{sx.A("n"), sx.N(n), sx.A("alloc"), sx.U(alloc), sx.A("ms"), sx.I(ms), sx.A("end"), sx.A(end), sx.A("items"), sx.N(items)}
	return sx.L(append(out, pre...)...)
}

func measureCost(proto, side string, chunks [][]byte, tail string, reply [][]byte) (int, uint64, int64, string, int) {
	n := 0
	for _, b := range chunks {
		n += len(b)
	}
	for _, b := range reply {
		n += len(b)
	}
	d, port := dissectorOf(proto)
	stats := &api.AppStats{}
	out := make(chan *api.OutputChannelItem, 1<<17)
	m := d.NewResponseRequestMatcher()
	m.SetMaxTry(10)
	conn := mock.NewConn(d, m, stats, out, "pcap0", "10.0.0.1", "40000", "10.0.0.2", port)
	r := conn.Client
	if side == "s" {
		r = conn.Server
	}
	runtime.GC()
	var m0, m1 runtime.MemStats
	runtime.ReadMemStats(&m0)
	t0 := time.Now()
	end := "nil"
	func() {
		defer func() {
			if rec := recover(); rec != nil {
				end = "panic:" + fmt.Sprintf("%x", fmt.Sprint(rec))
			}
		}()
		err := d.Dissect(bufio.NewReader(&tailReader{chunks: chunks, tail: tail}), r)
		if err != nil {
			end = "error"
		}
		if reply != nil {
			other := conn.Server
			if side == "s" {
				other = conn.Client
			}
			_ = d.Dissect(bufio.NewReader(&tailReader{chunks: reply, tail: "eof"}), other)
		}
	}()
	close(out)
	items := 0
	for it := range out {
		items++
		res := stages.Run(d, it)
		if res.Panic != "" && !strings.HasPrefix(end, "panic") {
			end = "stage-panic:" + fmt.Sprintf("%x", res.Panic)
		}
	}
	dt := time.Since(t0)
	runtime.ReadMemStats(&m1)
	return n, m1.TotalAlloc - m0.TotalAlloc, dt.Milliseconds(), end, items
}

var boundaryValues = func(rem int) []int64 {
	return []int64{0, 1, int64(rem - 1), int64(rem), int64(rem + 1), 65535, 65536, 1000000, 1000001, 16000000, 16000001, 30000000, 2147483647, -1, 4294967295}
}

func be32(v int64) []byte { b := make([]byte, 4); binary.BigEndian.PutUint32(b, uint32(v)); return b }
func be16(v int64) []byte { b := make([]byte, 2); binary.BigEndian.PutUint16(b, uint16(v)); return b }

// a template: bytes before the field, how to print the field, bytes after it
type costTemplate struct {
	label  string
	side   string
	before []byte
	field  func(v int64) []byte
	after  []byte
}

func costTemplates(proto string) []costTemplate {
	dec := func(v int64) []byte { return []byte(fmt.Sprintf("%d", v)) }
	hexf := func(v int64) []byte { return []byte(fmt.Sprintf("%x", uint64(v))) }
	switch proto {
	case "redis":
		return []costTemplate{
			{"array-count-client", "c", []byte("*"), dec, []byte("\r\n$3\r\nSET\r\n$1\r\nk\r\n$1\r\nv\r\n")},
			{"bulk-length-client", "c", []byte("*2\r\n$3\r\nGET\r\n$"), dec, []byte("\r\nkey\r\n")},
			{"array-count-server", "s", []byte("*"), dec, []byte("\r\n:1\r\n:2\r\n")},
			{"bulk-length-server", "s", []byte("$"), dec, []byte("\r\nvalue\r\n+OK\r\n")},
			{"nested-array-server", "s", []byte("*1\r\n*"), dec, []byte("\r\n:1\r\n")},
		}
	case "amqp":
		method := func(payload []byte) []byte {
			return append(append([]byte{1, 0, 1}, be32(int64(len(payload)))...), append(payload, 0xCE)...)
		}
		_ = method
		return []costTemplate{
			{"frame-size-body", "c", []byte{3, 0, 1}, be32, []byte("abcdef\xCE")},
			{"frame-size-method", "c", []byte{1, 0, 1}, be32, []byte{0, 10, 0, 51, 0xCE}},
			{"longstr-length", "s", []byte{1, 0, 0, 0, 0, 0, 30, 0, 10, 0, 10, 0, 9, 0, 0, 0, 0}, be32, []byte("PLAIN\x00\x00\x00\x05en_US\xCE")},
			{"table-length", "s", []byte{1, 0, 0, 0, 0, 0, 30, 0, 10, 0, 10, 0, 9}, be32, []byte("\x01kS\x00\x00\x00\x01v\x00\x00\x00\x05PLAIN\x00\x00\x00\x05en_US\xCE")},
			{"array-length", "c", []byte{1, 0, 1, 0, 0, 0, 40, 0, 50, 0, 10, 0, 0, 1, 'q', 0, 0, 0, 0, 12, 1, 'k', 'A'}, be32, []byte("I\x00\x00\x00\x01I\x00\x00\x00\x02\xCE")},
			{"bytearray-length", "c", []byte{1, 0, 1, 0, 0, 0, 40, 0, 50, 0, 10, 0, 0, 1, 'q', 0, 0, 0, 0, 12, 1, 'k', 'x'}, be32, []byte("abcdefgh\xCE")},
			{"header-body-size", "c", append(encFrame(mustSx("(m 1 60 40 ((s 0) (ss #65) (ss #6b) (bits false false)))")), []byte{2, 0, 1, 0, 0, 0, 14, 0, 60, 0, 0, 0, 0, 0, 0}...), be32, []byte{0, 0, 0xCE, 3, 0, 1, 0, 0, 0, 2, 'h', 'i', 0xCE}},
		}
	case "kafka":
		// Metadata v1 request: size | apiKey=3 | version=1 | correlation | clientID | topics[]
		body := func(clientLen int64, client []byte, count int64, topicLen int64, topic []byte) []byte {
			var b bytes.Buffer
			b.Write(be16(3))
			b.Write(be16(1))
			b.Write(be32(7))
			b.Write(be16(clientLen))
			b.Write(client)
			b.Write(be32(count))
			b.Write(be16(topicLen))
			b.Write(topic)
			return b.Bytes()
		}
		full := body(2, []byte("cl"), 1, 5, []byte("topic"))
		// Produce v3 request with one record batch of one record with one header; each count / length
		// of the batch is a template field
		zz := func(v int64) []byte {
			u := uint64(v<<1) ^ uint64(v>>63)
			var out []byte
			for u >= 0x80 {
				out = append(out, byte(u)|0x80)
				u >>= 7
			}
			return append(out, byte(u))
		}
		uvar := func(v int64) []byte {
			u := uint64(v)
			var out []byte
			for u >= 0x80 {
				out = append(out, byte(u)|0x80)
				u >>= 7
			}
			return append(out, byte(u))
		}
		be64 := func(v int64) []byte { b := make([]byte, 8); binary.BigEndian.PutUint64(b, uint64(v)); return b }
		cat := func(parts ...[]byte) []byte {
			var out []byte
			for _, p := range parts {
				out = append(out, p...)
			}
			return out
		}
		recTail := cat(zz(1), []byte("h"), zz(1), []byte("x"))                         // after the header count
		recMid := cat([]byte{0}, zz(0), zz(0), zz(1), []byte("k"), zz(1), []byte("v")) // attributes .. value
		record := cat(zz(int64(len(recMid)+1+len(recTail))), recMid, zz(1), recTail)   // length, .., header count 1, header
		batchHead := cat(be64(0), be32(int64(49+len(record))), be32(-1), []byte{2}, be32(0), be16(0), be32(0), be64(1700000000000), be64(1700000000000), be64(-1), be16(-1), be32(-1))
		prodHead := cat(be16(0), be16(3), be32(9), be16(2), []byte("cl"), be16(-1), be16(1), be32(1000), be32(1), be16(1), []byte("t"), be32(1), be32(0))
		produce := func(before, after []byte) (b, a []byte) {
			// the message size is that of the well-formed message; only the templated field varies
			wf := cat(prodHead, be32(int64(len(batchHead)+4+len(record))), batchHead, be32(1), record)
			return cat(be32(int64(len(wf))), before), after
		}
		pb1, pa1 := produce(cat(prodHead, be32(int64(len(batchHead)+4+len(record))), batchHead), record)                                                                                                                        // record count
		pb2, pa2 := produce(cat(prodHead, be32(int64(len(batchHead)+4+len(record))), batchHead, be32(1), zz(int64(len(recMid)+1+len(recTail))), recMid), recTail)                                                               // header count
		pb3, pa3 := produce(cat(prodHead, be32(int64(len(batchHead)+4+len(record))), batchHead, be32(1), zz(int64(len(recMid)+1+len(recTail))), []byte{0}, zz(0), zz(0)), cat([]byte("k"), zz(1), []byte("v"), zz(1), recTail)) // key length
		pb4, pa4 := produce(cat(prodHead, be32(int64(len(batchHead)+4+len(record))), batchHead, be32(1), zz(int64(len(recMid)+1+len(recTail))), recMid, zz(1)), cat([]byte("h"), zz(1), []byte("x")))                           // header key length
		pb5, pa5 := produce(prodHead, cat(batchHead, be32(1), record))                                                                                                                                                          // record set size
		return []costTemplate{
			{"record-count", "c", pb1, be32, pa1},
			{"record-header-count", "c", pb2, zz, pa2},
			{"record-key-length", "c", pb3, zz, pa3},
			{"record-header-key-length", "c", pb4, zz, pa4},
			{"record-set-size", "c", pb5, be32, pa5},
			{"message-size", "c", nil, be32, full},
			{"client-id-length", "c", append(be32(int64(len(full))), full[:8]...), be16, full[10:]},
			{"array-count", "c", append(be32(int64(len(full))), full[:12]...), be32, full[16:]},
			{"string-length", "c", append(be32(int64(len(full))), full[:16]...), be16, full[18:]},
			{"response-size", "s", nil, be32, []byte{0, 0, 0, 7, 0, 0, 0, 0}},
			// flexible versions end in a tag buffer: ApiVersions v3 with the count of tagged fields of the header and of the
			// body replaced (the whole message is rebuilt around the value, so that its size stays true)
			{"tagged-field-count-body", "c", nil, func(v int64) []byte {
				body := cat(be16(18), be16(3), be32(11), be16(2), []byte("cl"), []byte{0}, []byte{2, 'n'}, []byte{2, 'v'}, uvar(v))
				return cat(be32(int64(len(body))), body)
			}, nil},
			{"tagged-field-count-header", "c", nil, func(v int64) []byte {
				body := cat(be16(18), be16(3), be32(12), be16(2), []byte("cl"), uvar(v), []byte{2, 'n'}, []byte{2, 'v'}, []byte{0})
				return cat(be32(int64(len(body))), body)
			}, nil},
		}
	default: // http
		var h2 bytes.Buffer
		h2.WriteString(http2.ClientPreface)
		fr := http2.NewFramer(&h2, nil)
		fr.WriteSettings()
		var hb bytes.Buffer
		enc := hpack.NewEncoder(&hb)
		for _, f := range [][2]string{{":method", "POST"}, {":scheme", "http"}, {":path", "/x"}, {":authority", "h"}} {
			enc.WriteField(hpack.HeaderField{Name: f[0], Value: f[1]})
		}
		fr.WriteHeaders(http2.HeadersFrameParam{StreamID: 1, BlockFragment: hb.Bytes(), EndHeaders: true})
		pre := append([]byte{}, h2.Bytes()...)
		be24 := func(v int64) []byte { return []byte{byte(v >> 16), byte(v >> 8), byte(v)} }
		return []costTemplate{
			{"content-length-request", "c", []byte("POST /p HTTP/1.1\r\nHost: h\r\nContent-Length: "), dec, []byte("\r\n\r\nbody")},
			{"content-length-response", "s", []byte("HTTP/1.1 200 OK\r\nContent-Length: "), dec, []byte("\r\n\r\nbody")},
			{"chunk-size-request", "c", []byte("POST /p HTTP/1.1\r\nHost: h\r\nTransfer-Encoding: chunked\r\n\r\n"), hexf, []byte("\r\nbody\r\n0\r\n\r\n")},
			{"chunk-size-response", "s", []byte("HTTP/1.1 200 OK\r\nTransfer-Encoding: chunked\r\n\r\n"), hexf, []byte("\r\nbody\r\n0\r\n\r\n")},
			{"h2-data-frame-length", "c", pre, be24, []byte{0, 1, 0, 0, 0, 1, 'd', 'a', 't', 'a'}},
			{"h2-headers-frame-length", "c", []byte(http2.ClientPreface), be24, []byte{1, 5, 0, 0, 0, 1, 0x82, 0x86}},
		}
	}
}

func mustSx(s string) sx.Sx {
	x, err := sx.Parse(s)
	if err != nil {
		panic(err)
	}
	return x
}

func genCost(proto string, r *Rand, tier string, emit func(sx.Sx)) {
	for _, t := range costTemplates(proto) {
		rem := len(t.after)
		for _, v := range boundaryValues(rem) {
			b := append(append(append([]byte{}, t.before...), t.field(v)...), t.after...)
			for _, tail := range []string{"eof", "err", "errforever"} {
				emit(sx.L(sx.A(t.side), sx.L(sx.B(b)), sx.A(tail), sx.A(fmt.Sprintf("%s=%d", t.label, v))))
			}
		}
	}
	// growth: the same repeating shape at two sizes; the cost per byte must not grow with the size
	pairs := [][2]int{{64, 512}}
	if tier == "thorough" {
		pairs = append(pairs, [2]int{256, 4096})
	}
	for _, g := range growthShapes(proto) {
		ps := pairs
		if growthReply(proto, g.label) != nil {
			// a whole exchange: the item is analysed, summarised and represented, whose fixed cost would hide a
			// quadratic term at a few hundred repetitions
			ps = [][2]int{{1000, 8000}}
			if tier == "thorough" {
				ps = append(ps, [2]int{4000, 32000})
			}
			if g.label == "h2-hpack-repeat" {
				// both sizes beyond the library's 16 MB cut of the unchanged code: there the two runs cost the same
				ps = [][2]int{{5000, 15000}}
			}
		}
		for _, kk := range ps {
			c := []sx.Sx{sx.A(g.side), sx.L(sx.B(g.build(kk[1]))), sx.A("eof"), sx.A(fmt.Sprintf("growth-%s=%d", g.label, kk[1])), sx.L(sx.B(g.build(kk[0])))}
			if rp := growthReply(proto, g.label); rp != nil {
				c = append(c, sx.L(sx.B(rp)), sx.L(sx.B(rp)))
			}
			emit(sx.L(c...))
		}
	}
	// wide messages: a quarter of a million distinct names in one message, dissected as a whole exchange so that the
	// item is analysed - a quadratic number of comparisons allocates nothing and only shows in the time, and only at
	// this width does it exceed the linear bound by a margin that a busy machine cannot produce
	for _, g := range growthShapes(proto) {
		if !strings.HasPrefix(g.label, "distinct-") {
			continue
		}
		if tier != "thorough" && g.label != "distinct-headers" && g.label != "distinct-cookies" && g.label != "distinct-cookies-twice" {
			continue
		}
		rp := growthReply(proto, g.label)
		emit(sx.L(sx.A(g.side), sx.L(sx.B(g.build(256000))), sx.A("eof"), sx.A(fmt.Sprintf("wide-%s=256000", g.label)), sx.L(), sx.L(sx.B(rp)), sx.L()))
	}
	// well-formed streams of growing size: cost must grow linearly
	sizes := []int{1, 10, 100, 1000}
	if tier == "thorough" {
		sizes = append(sizes, 10000, 50000)
	}
	for _, k := range sizes {
		var b bytes.Buffer
		side := "c"
		switch proto {
		case "redis":
			for i := 0; i < k; i++ {
				b.WriteString("*3\r\n$3\r\nSET\r\n$3\r\nkey\r\n$5\r\nvalue\r\n")
			}
		case "amqp":
			for i := 0; i < k; i++ {
				b.Write(encFrame(mustSx("(m 1 50 10 ((s 0) (ss #71) (bits false true false false false) (t ())))")))
			}
		case "kafka":
			for i := 0; i < k; i++ {
				body := append(append(append(be16(3), be16(1)...), be32(int64(i))...), append(be16(2), []byte("cl")...)...)
				body = append(body, append(be32(1), append(be16(5), []byte("topic")...)...)...)
				b.Write(be32(int64(len(body))))
				b.Write(body)
			}
		default:
			for i := 0; i < k; i++ {
				b.WriteString("GET /r HTTP/1.1\r\nHost: h\r\nX-A: b\r\n\r\n")
			}
		}
		emit(sx.L(sx.A(side), sx.L(sx.B(b.Bytes())), sx.A("eof"), sx.A(fmt.Sprintf("wellformed=%d", k))))
	}
}

// growthShapes: repeating units, well-formed and not, whose number k scales the stream.
type growthShape struct {
	label string
	side  string
	build func(k int) []byte
}

// the other half for the shapes that need a whole exchange (so that an item is emitted and analysed)
func growthReply(proto, label string) []byte {
	if proto != "http" {
		return nil
	}
	if label == "h2-hpack-repeat" {
		var b bytes.Buffer
		fr := http2.NewFramer(&b, nil)
		fr.WriteSettings()
		var hb bytes.Buffer
		hpack.NewEncoder(&hb).WriteField(hpack.HeaderField{Name: ":status", Value: "200"})
		fr.WriteHeaders(http2.HeadersFrameParam{StreamID: 1, BlockFragment: hb.Bytes(), EndHeaders: true, EndStream: true})
		return b.Bytes()
	}
	if strings.HasPrefix(label, "distinct-") || label == "headers" || label == "same-cookie" || label == "chunks" || label == "query-params" {
		if label == "distinct-response-headers" {
			return []byte("GET /r HTTP/1.1\r\nHost: h\r\n\r\n")
		}
		return []byte("HTTP/1.1 200 OK\r\nContent-Length: 2\r\n\r\nok")
	}
	return nil
}

func growthShapes(proto string) []growthShape {
	rep := func(k int, unit []byte) []byte { return bytes.Repeat(unit, k) }
	cat := func(parts ...[]byte) []byte {
		var out []byte
		for _, p := range parts {
			out = append(out, p...)
		}
		return out
	}
	switch proto {
	case "redis":
		return []growthShape{
			{"commands", "c", func(k int) []byte { return rep(k, []byte("*3\r\n$3\r\nSET\r\n$3\r\nkey\r\n$5\r\nvalue\r\n")) }},
			{"replies", "s", func(k int) []byte { return rep(k, []byte("+OK\r\n:12\r\n$5\r\nvalue\r\n$-1\r\n*-1\r\n-ERR no\r\n")) }},
			{"one-array", "s", func(k int) []byte { return cat([]byte(fmt.Sprintf("*%d\r\n", k)), rep(k, []byte("$5\r\nvalue\r\n"))) }},
			{"nested-arrays", "s", func(k int) []byte { return cat(rep(k, []byte("*1\r\n")), []byte(":1\r\n")) }},
			{"arrays-of-arrays", "s", func(k int) []byte {
				return cat([]byte(fmt.Sprintf("*%d\r\n", k)), rep(k, []byte("*2\r\n:1\r\n$1\r\nx\r\n")))
			}},
			{"long-bulk", "c", func(k int) []byte {
				return []byte(fmt.Sprintf("*2\r\n$3\r\nGET\r\n$%d\r\n%s\r\n", 16*k, strings.Repeat("0123456789abcdef", k)))
			}},
		}
	case "amqp":
		publish := encFrame(mustSx("(m 1 60 40 ((s 0) (ss #65) (ss #6b) (bits false false)))"))
		deliver := encFrame(mustSx("(m 1 60 60 ((ss #63) (ll 7) (bits false) (ss #65) (ss #6b)))"))
		header := func(size uint64) []byte {
			b := []byte{2, 0, 1, 0, 0, 0, 14, 0, 60, 0, 0}
			b = binary.BigEndian.AppendUint64(b, size)
			return append(b, 0, 0, 0xCE)
		}
		body := func(n int) []byte {
			return cat([]byte{3, 0, 1}, be32(int64(n)), bytes.Repeat([]byte("b"), n), []byte{0xCE})
		}
		var out []growthShape
		for _, m := range []struct {
			name  string
			frame []byte
		}{{"publish", publish}, {"deliver", deliver}} {
			m := m
			for _, sz := range []struct {
				name string
				size func(k int) uint64
			}{{"exact", func(k int) uint64 { return uint64(1000 * k) }}, {"zero", func(int) uint64 { return 0 }}, {"one", func(int) uint64 { return 1 }},
				{"oneframe", func(int) uint64 { return 1000 }}, {"max", func(int) uint64 { return 1<<64 - 1 }}} {
				sz := sz
				out = append(out, growthShape{m.name + "-bodyframes-" + sz.name, "c", func(k int) []byte {
					return cat(m.frame, header(sz.size(k)), rep(k, body(1000)))
				}})
			}
			out = append(out, growthShape{m.name + "-messages", "c", func(k int) []byte { return rep(k, cat(m.frame, header(5), body(5))) }})
			out = append(out, growthShape{m.name + "-headers", "c", func(k int) []byte { return cat(m.frame, rep(k, header(5)), body(5)) }})
		}
		out = append(out,
			growthShape{"declares", "c", func(k int) []byte {
				return rep(k, encFrame(mustSx("(m 1 50 10 ((s 0) (ss #71) (bits false true false false false) (t ())))")))
			}},
			growthShape{"heartbeats", "c", func(k int) []byte { return rep(k, []byte{8, 0, 0, 0, 0, 0, 0, 0xCE}) }},
			growthShape{"table-entries", "c", func(k int) []byte {
				entries := rep(k, []byte("\x01kI\x00\x00\x00\x01"))
				payload := cat([]byte{0, 50, 0, 10, 0, 0, 1, 'q', 0}, be32(int64(len(entries))), entries)
				return cat([]byte{1, 0, 1}, be32(int64(len(payload))), payload, []byte{0xCE})
			}},
		)
		return out
	case "kafka":
		req := func(corr int, topics int) []byte {
			body := cat(be16(3), be16(1), be32(int64(corr)), be16(2), []byte("cl"), be32(int64(topics)))
			for i := 0; i < topics; i++ {
				body = cat(body, be16(5), []byte("topic"))
			}
			return cat(be32(int64(len(body))), body)
		}
		return []growthShape{
			{"requests", "c", func(k int) []byte {
				var b []byte
				for i := 0; i < k; i++ {
					b = append(b, req(i, 1)...)
				}
				return b
			}},
			{"same-correlation", "c", func(k int) []byte { return rep(k, req(7, 1)) }},
			{"topics", "c", func(k int) []byte { return req(1, k) }},
			{"short-messages", "c", func(k int) []byte { return rep(k, []byte{0, 0, 0, 2, 0, 3}) }},
		}
	default:
		h2 := func(build func(fr *http2.Framer, enc *hpack.Encoder, hb *bytes.Buffer)) []byte {
			var b bytes.Buffer
			b.WriteString(http2.ClientPreface)
			fr := http2.NewFramer(&b, nil)
			fr.WriteSettings()
			var hb bytes.Buffer
			build(fr, hpack.NewEncoder(&hb), &hb)
			return b.Bytes()
		}
		reqHeaders := func(enc *hpack.Encoder, hb *bytes.Buffer, method string, extra int) []byte {
			hb.Reset()
			for _, f := range [][2]string{{":method", method}, {":scheme", "http"}, {":path", "/x"}, {":authority", "h"}} {
				enc.WriteField(hpack.HeaderField{Name: f[0], Value: f[1]})
			}
			for i := 0; i < extra; i++ {
				enc.WriteField(hpack.HeaderField{Name: fmt.Sprintf("x-h%d", i), Value: "v"})
			}
			return append([]byte{}, hb.Bytes()...)
		}
		return []growthShape{
			{"requests", "c", func(k int) []byte { return rep(k, []byte("GET /r HTTP/1.1\r\nHost: h\r\nX-A: b\r\n\r\n")) }},
			{"responses", "s", func(k int) []byte { return rep(k, []byte("HTTP/1.1 200 OK\r\nContent-Length: 2\r\n\r\nok")) }},
			{"headers", "c", func(k int) []byte {
				return cat([]byte("GET /r HTTP/1.1\r\nHost: h\r\n"), rep(k, []byte("X-Header: value\r\n")), []byte("\r\n"))
			}},
			{"same-cookie", "c", func(k int) []byte {
				return cat([]byte("GET /r HTTP/1.1\r\nHost: h\r\n"), rep(k, []byte("Cookie: a=b; c=d\r\n")), []byte("\r\n"))
			}},
			{"chunks", "c", func(k int) []byte {
				return cat([]byte("POST /p HTTP/1.1\r\nHost: h\r\nTransfer-Encoding: chunked\r\n\r\n"), rep(k, []byte("4\r\nbody\r\n")), []byte("0\r\n\r\n"))
			}},
			{"query-params", "c", func(k int) []byte {
				return cat([]byte("GET /r?"), rep(k, []byte("a=b&")), []byte("z=1 HTTP/1.1\r\nHost: h\r\n\r\n"))
			}},
			{"distinct-headers", "c", func(k int) []byte {
				var b bytes.Buffer
				b.WriteString("GET /r HTTP/1.1\r\nHost: h\r\n")
				for i := 0; i < k; i++ {
					fmt.Fprintf(&b, "X-H%07d: v\r\n", i)
				}
				b.WriteString("\r\n")
				return b.Bytes()
			}},
			{"distinct-cookies", "c", func(k int) []byte {
				var b bytes.Buffer
				b.WriteString("GET /r HTTP/1.1\r\nHost: h\r\nCookie: a=b")
				for i := 0; i < k; i++ {
					fmt.Fprintf(&b, "; c%07d=v", i)
				}
				b.WriteString("\r\n\r\n")
				return b.Bytes()
			}},
			{"distinct-query-params", "c", func(k int) []byte {
				var b bytes.Buffer
				b.WriteString("GET /r?a=b")
				for i := 0; i < k; i++ {
					fmt.Fprintf(&b, "&q%07d=v", i)
				}
				b.WriteString(" HTTP/1.1\r\nHost: h\r\n\r\n")
				return b.Bytes()
			}},
			{"distinct-form-params", "c", func(k int) []byte {
				var body bytes.Buffer
				body.WriteString("a=b")
				for i := 0; i < k; i++ {
					fmt.Fprintf(&body, "&f%07d=v", i)
				}
				return cat([]byte(fmt.Sprintf("POST /p HTTP/1.1\r\nHost: h\r\nContent-Type: application/x-www-form-urlencoded\r\nContent-Length: %d\r\n\r\n", body.Len())), body.Bytes())
			}},
			{"distinct-response-headers", "s", func(k int) []byte {
				var b bytes.Buffer
				b.WriteString("HTTP/1.1 200 OK\r\nContent-Length: 2\r\n")
				for i := 0; i < k; i++ {
					fmt.Fprintf(&b, "X-H%07d: v\r\n", i)
				}
				b.WriteString("\r\nok")
				return b.Bytes()
			}},
			{"h2-data-frames", "c", func(k int) []byte {
				return h2(func(fr *http2.Framer, enc *hpack.Encoder, hb *bytes.Buffer) {
					fr.WriteHeaders(http2.HeadersFrameParam{StreamID: 1, BlockFragment: reqHeaders(enc, hb, "POST", 0), EndHeaders: true})
					for i := 0; i < k; i++ {
						fr.WriteData(1, i == k-1, []byte("0123456789abcdef0123456789abcdef0123456789abcdef0123456789abcdef"))
					}
				})
			}},
			{"h2-streams", "c", func(k int) []byte {
				return h2(func(fr *http2.Framer, enc *hpack.Encoder, hb *bytes.Buffer) {
					for i := 0; i < k; i++ {
						fr.WriteHeaders(http2.HeadersFrameParam{StreamID: uint32(2*i + 1), BlockFragment: reqHeaders(enc, hb, "GET", 0), EndHeaders: true, EndStream: true})
					}
				})
			}},
			{"h2-open-streams", "c", func(k int) []byte {
				return h2(func(fr *http2.Framer, enc *hpack.Encoder, hb *bytes.Buffer) {
					for i := 0; i < k; i++ {
						fr.WriteHeaders(http2.HeadersFrameParam{StreamID: uint32(2*i + 1), BlockFragment: reqHeaders(enc, hb, "POST", 0), EndHeaders: true})
						fr.WriteData(uint32(2*i+1), false, []byte("partial"))
					}
				})
			}},
			{"h2-header-fields", "c", func(k int) []byte {
				return h2(func(fr *http2.Framer, enc *hpack.Encoder, hb *bytes.Buffer) {
					block := reqHeaders(enc, hb, "GET", k)
					first := true
					for len(block) > 0 {
						n := len(block)
						if n > 16000 {
							n = 16000
						}
						if first {
							fr.WriteHeaders(http2.HeadersFrameParam{StreamID: 1, BlockFragment: block[:n], EndHeaders: n == len(block), EndStream: true})
							first = false
						} else {
							fr.WriteContinuation(1, n == len(block), block[:n])
						}
						block = block[n:]
					}
				})
			}},
			{"h2-headers-one-stream", "c", func(k int) []byte {
				return h2(func(fr *http2.Framer, enc *hpack.Encoder, hb *bytes.Buffer) {
					fr.WriteHeaders(http2.HeadersFrameParam{StreamID: 1, BlockFragment: reqHeaders(enc, hb, "POST", 0), EndHeaders: true})
					for i := 0; i < k; i++ {
						hb.Reset()
						enc.WriteField(hpack.HeaderField{Name: "x-more", Value: "v"})
						fr.WriteHeaders(http2.HeadersFrameParam{StreamID: 1, BlockFragment: append([]byte{}, hb.Bytes()...), EndHeaders: true})
					}
				})
			}},
			{"h2-hpack-repeat", "c", func(k int) []byte {
				// one request whose header block inserts a k-byte value into the dynamic table and then repeats it by its
				// one-byte index k times: about 2k bytes on the wire, k*k bytes of header list (x/net cuts the list of a block
				// at 16 MB by default - the recorded finding h2-hpack-expansion; without that cut the cost is quadratic)
				return h2(func(fr *http2.Framer, enc *hpack.Encoder, hb *bytes.Buffer) {
					enc.SetMaxDynamicTableSizeLimit(65536) // the peer announced a 64 KB table: the value is indexed
					enc.SetMaxDynamicTableSize(65536)
					block := append([]byte{}, reqHeaders(enc, hb, "GET", 0)...)
					hb.Reset()
					enc.WriteField(hpack.HeaderField{Name: "x-big", Value: strings.Repeat("a", k)})
					block = append(block, hb.Bytes()...)
					block = append(block, bytes.Repeat([]byte{0xBE}, k)...)
					first := true
					for len(block) > 0 {
						n := len(block)
						if n > 16000 {
							n = 16000
						}
						if first {
							fr.WriteHeaders(http2.HeadersFrameParam{StreamID: 1, BlockFragment: block[:n], EndHeaders: n == len(block), EndStream: true})
							first = false
						} else {
							fr.WriteContinuation(1, n == len(block), block[:n])
						}
						block = block[n:]
					}
				})
			}},
			{"distinct-cookies-twice", "c", func(k int) []byte {
				var b bytes.Buffer
				b.WriteString("GET /r HTTP/1.1\r\nHost: h\r\nCookie: a=b")
				for round := 0; round < 2; round++ {
					for i := 0; i < k/2; i++ {
						fmt.Fprintf(&b, "; c%07d=%d", i, round)
					}
				}
				b.WriteString("\r\n\r\n")
				return b.Bytes()
			}},
			{"h2-pings", "c", func(k int) []byte {
				return h2(func(fr *http2.Framer, enc *hpack.Encoder, hb *bytes.Buffer) {
					for i := 0; i < k; i++ {
						fr.WritePing(false, [8]byte{1, 2, 3})
					}
				})
			}},
		}
	}
}
