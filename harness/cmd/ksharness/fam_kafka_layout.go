//go:build verif

package main

import (
	"encoding/binary"
	"fmt"
	"reflect"

	kafkaExt "github.com/kubeshark/base/pkg/extensions/kafka"

	"ksverif/harness/internal/kprobe"
	"ksverif/harness/internal/sx"
)

// Family kafka.layout (C06, C01) and the layout part of stages.kafka / queries.kafka (C11, C16):
// for EVERY (api key, version) the dissector has a layout for - learnt from the running dissector
// by kprobe, not from kafka-go - a request and a response whose bodies are written in the classic
// encodings field by field along that layout (random values, 0-3 array elements, empty / null
// strings, arrays and byte strings, record batches with 0-2 records and headers).  The APIs and
// versions kafka-go has no encoder for (Metadata 9+, Fetch 12+, ApiVersions 3+, every API beyond
// its seven) are reached deeply this way; whether such a layout IS the protocol's is c06_table's
// business, here the dissector must follow its own layout exactly as the model does, and every
// later stage must hold on what it emits.

func init() {
	families["kafka.layout"] = &Family{Gen: genKafkaLayout, Run: runKafkaRaw}
}

var recordV0T = reflect.TypeOf(kafkaExt.RecordV0{})

type layoutGen struct {
	r     *Rand
	depth int
	clean bool // printable strings only (stages / queries)
}

func putVarint(b []byte, v int64) []byte {
	return binary.AppendVarint(b, v)
}

func (g *layoutGen) str() []byte {
	r := g.r
	k := r.Intn(8)
	if g.clean && (k == 2 || k == 3) {
		k = 4
	}
	switch k {
	case 0:
		return []byte{}
	case 1:
		return []byte("topic-" + fmt.Sprint(r.Intn(5)))
	case 2:
		return r.Bytes(1 + r.Intn(6)) // arbitrary bytes, often not UTF-8
	case 3:
		return []byte(`q"uo\te` + "\n")
	default:
		n := 1 + r.Intn(10)
		b := make([]byte, n)
		for i := range b {
			b[i] = "abcdefghijklmnopqrstuvwxyz0123456789-_."[r.Intn(39)]
		}
		return b
	}
}

func (g *layoutGen) record(b []byte) []byte {
	r := g.r
	var body []byte
	body = append(body, byte(r.Intn(4)))        // attributes
	body = putVarint(body, int64(r.Intn(2000))) // timestampDelta
	body = putVarint(body, int64(r.Intn(10)))   // offsetDelta
	kv := func() {
		if r.Chance(20) {
			body = putVarint(body, -1)
			return
		}
		s := g.str()
		body = putVarint(body, int64(len(s)))
		body = append(body, s...)
	}
	kv()
	kv()
	nh := r.Intn(3)
	body = putVarint(body, int64(nh))
	for i := 0; i < nh; i++ {
		k := g.str()
		body = putVarint(body, int64(len(k)))
		body = append(body, k...)
		if r.Chance(20) {
			body = putVarint(body, -1)
		} else {
			v := g.str()
			body = putVarint(body, int64(len(v)))
			body = append(body, v...)
		}
	}
	b = putVarint(b, int64(len(body)))
	return append(b, body...)
}

func (g *layoutGen) enc(b []byte, t reflect.Type) []byte {
	r := g.r
	switch t.Kind() {
	case reflect.Bool:
		return append(b, byte(r.Intn(2)))
	case reflect.Int8:
		return append(b, byte(r.Intn(256)))
	case reflect.Int16:
		return binary.BigEndian.AppendUint16(b, uint16(g.intv(16)))
	case reflect.Int32:
		return binary.BigEndian.AppendUint32(b, uint32(g.intv(32)))
	case reflect.Int64:
		return binary.BigEndian.AppendUint64(b, uint64(g.intv(64)))
	case reflect.String:
		if r.Chance(6) {
			return binary.BigEndian.AppendUint16(b, 0xffff) // null
		}
		s := g.str()
		b = binary.BigEndian.AppendUint16(b, uint16(len(s)))
		return append(b, s...)
	case reflect.Struct:
		if t == recordV0T {
			return g.record(b)
		}
		for i := 0; i < t.NumField(); i++ {
			f := t.Field(i)
			if f.PkgPath != "" && f.Name != "_" {
				continue
			}
			b = g.enc(b, f.Type)
		}
		return b
	case reflect.Slice:
		if t.Elem().Kind() == reflect.Uint8 {
			if r.Chance(10) {
				return binary.BigEndian.AppendUint32(b, 0xffffffff)
			}
			s := g.str()
			b = binary.BigEndian.AppendUint32(b, uint32(len(s)))
			return append(b, s...)
		}
		if r.Chance(6) {
			return binary.BigEndian.AppendUint32(b, 0xffffffff) // null array
		}
		n := r.Intn(4)
		if g.depth >= 2 {
			n = r.Intn(3)
		}
		if g.depth >= 4 {
			n = r.Intn(2)
		}
		b = binary.BigEndian.AppendUint32(b, uint32(n))
		g.depth++
		for i := 0; i < n; i++ {
			b = g.enc(b, t.Elem())
		}
		g.depth--
		return b
	}
	return b
}

func (g *layoutGen) intv(bits int) int64 {
	r := g.r
	switch r.Intn(6) {
	case 0:
		return 0
	case 1:
		return -1
	case 2:
		return int64(1)<<(bits-1) - 1
	case 3:
		return -(int64(1) << (bits - 1))
	default:
		return int64(r.Intn(1000))
	}
}

type layoutRow struct {
	api, ver  int
	req, resp reflect.Type
}

var layoutRowsCache []layoutRow

// layoutRows: one row per (api, version) at which the selected request or response layout differs
// from the one selected at the version below, plus the top sample (the layout "for all later versions")
func layoutRows() []layoutRow {
	if layoutRowsCache != nil {
		return layoutRowsCache
	}
	for apiKey := 0; apiKey <= 51; apiKey++ {
		var prevQ, prevS reflect.Type
		for ver := 0; ver <= 17; ver++ {
			q, s, err := kprobe.Probe(apiKey, ver)
			if err != nil || (q == nil && s == nil) {
				continue
			}
			if ver == 0 || q != prevQ || s != prevS || ver == 17 {
				layoutRowsCache = append(layoutRowsCache, layoutRow{apiKey, ver, q, s})
			}
			prevQ, prevS = q, s
		}
	}
	return layoutRowsCache
}

func (g *layoutGen) exchange(row layoutRow, corr int) (qw, rw []byte) {
	r := g.r
	var q []byte
	q = binary.BigEndian.AppendUint16(q, uint16(row.api))
	q = binary.BigEndian.AppendUint16(q, uint16(row.ver))
	q = binary.BigEndian.AppendUint32(q, uint32(corr))
	if r.Chance(10) {
		q = binary.BigEndian.AppendUint16(q, 0xffff)
	} else {
		cid := g.str()
		q = binary.BigEndian.AppendUint16(q, uint16(len(cid)))
		q = append(q, cid...)
	}
	if row.req != nil {
		q = g.enc(q, row.req)
	}
	qw = append(binary.BigEndian.AppendUint32(nil, uint32(len(q))), q...)
	var s []byte
	s = binary.BigEndian.AppendUint32(s, uint32(corr))
	if row.resp != nil {
		s = g.enc(s, row.resp)
	}
	rw = append(binary.BigEndian.AppendUint32(nil, uint32(len(s))), s...)
	return
}

func genKafkaLayout(r *Rand, tier string, emit func(sx.Sx)) {
	g := &layoutGen{r: r}
	rounds := 4
	if tier == "thorough" {
		rounds = 40
	}
	corr := 1000
	for round := 0; round < rounds; round++ {
		for _, row := range layoutRows() {
			corr++
			qw, rw := g.exchange(row, corr)
			if r.Chance(25) { // two exchanges on the connection, answered in the other order
				corr++
				row2 := layoutRows()[r.Intn(len(layoutRows()))]
				qw2, rw2 := g.exchange(row2, corr)
				emit(sx.L(sx.B(append(qw, qw2...)), sx.B(append(rw2, rw...))))
				continue
			}
			emit(sx.L(sx.B(qw), sx.B(rw)))
		}
	}
}

// genKafkaLayoutStages: the same exchanges in the payload shape of stages.kafka
func genKafkaLayoutStages(r *Rand, rounds int, emit func(sx.Sx)) {
	g := &layoutGen{r: r, clean: true}
	corr := 5000
	for round := 0; round < rounds; round++ {
		for _, row := range layoutRows() {
			corr++
			qw, rw := g.exchange(row, corr)
			emit(sx.L(
				sx.L(sx.L(sx.A("lq"), sx.I(int64(row.api)), sx.I(int64(row.ver)), sx.I(int64(corr)), sx.B(qw))),
				sx.L(sx.L(sx.A("lr"), sx.I(int64(row.api)), sx.I(int64(row.ver)), sx.I(int64(corr)), sx.B(rw)))))
		}
	}
}
