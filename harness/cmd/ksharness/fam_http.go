//go:build verif

package main

import (
	"bufio"
	"bytes"
	"encoding/base64"
	"encoding/json"
	"fmt"
	"sort"
	"strconv"
	"strings"

	"github.com/kubeshark/base/pkg/api"
	httpExt "github.com/kubeshark/base/pkg/extensions/http"
	"ksverif/harness/internal/mock"
	"ksverif/harness/internal/stages"
	"ksverif/harness/internal/sx"
)

// Family http.conv (C03): HTTP/1.x conversations from an independent encoder; what each
// emitted item reports (its HAR form) is observed.
// observation: ((cbytes #) (sbytes #) (items ((req #method #url minor (hdr (#n #v)...) #body)
//
//	(resp status minor (hdr ...) #body) orient) ...) (left nreq nresp))
func init() {
	families["http.conv"] = &Family{Gen: genHttpConvPragma, Run: runHttpConv}
	families["http.split"] = &Family{Gen: genHttpSplit, Run: runHttpSplit}
	families["http.entry"] = &Family{Gen: genHttpEntry, Run: runHttpEntry}
	families["http.rawsplit"] = &Family{Gen: genHttpRawSplit, Run: runHttpRawSplit}
}

func harHeaders(v interface{}) sx.Sx {
	type nv struct{ n, v string }
	var hs []nv
	if list, ok := v.([]interface{}); ok {
		for _, h := range list {
			m, _ := h.(map[string]interface{})
			n, _ := m["name"].(string)
			val, _ := m["value"].(string)
			l := strings.ToLower(n)
			if l == "host" || l == "content-length" || l == "transfer-encoding" {
				continue
			}
			hs = append(hs, nv{n, val})
		}
	}
	sort.Slice(hs, func(i, j int) bool {
		a, b := fmt.Sprintf("%x", hs[i].n), fmt.Sprintf("%x", hs[j].n)
		if a != b {
			return a < b
		}
		return fmt.Sprintf("%x", hs[i].v) <= fmt.Sprintf("%x", hs[j].v)
	})
	out := []sx.Sx{sx.A("hdr")}
	for _, h := range hs {
		out = append(out, sx.L(sx.S(h.n), sx.S(h.v)))
	}
	return sx.L(out...)
}

func harBody(v interface{}) []byte {
	m, ok := v.(map[string]interface{})
	if !ok {
		return nil
	}
	text, _ := m["text"].(string)
	if enc, _ := m["encoding"].(string); enc == "base64" {
		if b, err := base64.StdEncoding.DecodeString(text); err == nil {
			return b
		}
	}
	return []byte(text)
}

func minorOf(v interface{}) int {
	s, _ := v.(string)
	switch s {
	case "HTTP/1.0":
		return 0
	case "HTTP/1.1":
		return 1
	}
	return -1
}

func runHttpConv(p sx.Sx) sx.Sx { return runHttpConvSplit(p, nil, nil) }

// http.split (C08): payload (conv (len ...) (len ...)): the conversation of http.conv, each half
// delivered in reads of the given lengths (the rest in one more read)
func runHttpSplit(p sx.Sx) sx.Sx {
	lens := func(x sx.Sx) []int {
		out := []int{}
		for _, l := range x.List {
			out = append(out, int(l.Int()))
		}
		return out
	}
	return runHttpConvSplit(p.List[0], lens(p.List[1]), lens(p.List[2]))
}

func genHttpSplit(r *Rand, tier string, emit func(sx.Sx)) {
	n := 0
	genHttpConv(r, tier, func(conv sx.Sx) {
		n++
		if n%5 != 0 || strings.Contains(conv.String(), "(req #48454144 ") {
			// HEAD exchanges mis-frame what follows (recorded finding of C03): not part of this family
			return
		}
		mk := func() sx.Sx {
			var ls []sx.Sx
			for k := r.Intn(12); k > 0; k-- {
				switch r.Intn(4) {
				case 0:
					ls = append(ls, sx.N(1))
				case 1:
					ls = append(ls, sx.N(1+r.Intn(40)))
				case 2:
					ls = append(ls, sx.N(4090+r.Intn(12)))
				default:
					ls = append(ls, sx.N(1+r.Intn(600)))
				}
			}
			return sx.L(ls...)
		}
		emit(sx.L(conv, mk(), mk()))
	})
}

func runHttpConvSplit(p sx.Sx, clens, slens []int) sx.Sx {
	cb, sb := encHttpConv(p)
	return httpObserveBytes(cb, sb, clens, slens)
}

// Family http.rawsplit (C08): streams that are NOT well-formed conversations - bad request / status
// lines, bad header lines, garbage between well-formed messages, truncated messages - delivered whole
// and in pieces (every two-piece split of short halves, one byte per read, random pieces); what the
// dissector emits and how it ends must be the same.  payload: (#cbytes #sbytes (clens) (slens));
// observation: ((whole obs) (split obs))
func runHttpRawSplit(p sx.Sx) sx.Sx {
	lens := func(x sx.Sx) []int {
		out := []int{}
		for _, l := range x.List {
			out = append(out, int(l.Int()))
		}
		return out
	}
	cb, sb := p.List[0].Bytes(), p.List[1].Bytes()
	whole := httpObserveBytes(cb, sb, nil, nil)
	split := httpObserveBytes(cb, sb, lens(p.List[2]), lens(p.List[3]))
	strip := func(o sx.Sx) sx.Sx { // without the echo of the input bytes
		var out []sx.Sx
		for _, x := range o.List {
			if len(x.List) > 0 && (x.List[0].Atom == "cbytes" || x.List[0].Atom == "sbytes") {
				continue
			}
			out = append(out, x)
		}
		return sx.L(out...)
	}
	return sx.L(sx.L(sx.A("whole"), strip(whole)), sx.L(sx.A("split"), strip(split)))
}

func genHttpRawSplit(r *Rand, tier string, emit func(sx.Sx)) {
	goodReq := []string{"GET /after HTTP/1.1\r\nHost: example\r\n\r\n", "POST /p HTTP/1.1\r\nHost: e\r\nContent-Length: 5\r\n\r\nhello",
		"GET /x?y=1 HTTP/1.0\r\n\r\n", "PUT /c HTTP/1.1\r\nHost: e\r\nTransfer-Encoding: chunked\r\n\r\n3\r\nabc\r\n0\r\n\r\n"}
	badReq := []string{"THIS-IS-NOT-A-REQUEST-LINE\r\n", "GET\r\n", "GET / HTTP/9.9.9\r\n\r\n", "\r\n", "GET / HTTP/1.1\r\nBad Header Line\r\n\r\n",
		"GET / HTTP/1.1\r\nHost: e\r\nContent-Length: x\r\n\r\n", "\x00\x01\x02\r\n", "GET / HTTP/1.1\r\n: novalue\r\n\r\n", "PRI * HTTP/2.0\r\n\r\nSM\r\n", "G"}
	goodResp := []string{"HTTP/1.1 200 OK\r\nContent-Length: 2\r\n\r\nok", "HTTP/1.1 204 No Content\r\n\r\n", "HTTP/1.0 404 Not Found\r\nContent-Length: 0\r\n\r\n",
		"HTTP/1.1 200 OK\r\nTransfer-Encoding: chunked\r\n\r\n2\r\nhi\r\n0\r\n\r\n"}
	badResp := []string{"NOT-A-STATUS-LINE\r\n", "HTTP/1.1 abc OK\r\n\r\n", "HTTP/1.1\r\n", "\r\n", "HTTP/1.1 200 OK\r\nBad Header\r\n\r\n",
		"HTTP/1.1 200 OK\r\nContent-Length: -1\r\n\r\n", "\xff\xfe\r\n", "H"}
	unq := func(s string) []byte {
		u, err := strconvUnquote(s)
		if err != nil {
			return []byte(s)
		}
		return []byte(u)
	}
	build := func(good, bad []string) []byte {
		var b []byte
		for k := 1 + r.Intn(4); k > 0; k-- {
			if r.Chance(45) {
				b = append(b, unq(bad[r.Intn(len(bad))])...)
			} else {
				b = append(b, unq(good[r.Intn(len(good))])...)
			}
		}
		if r.Chance(10) && len(b) > 0 {
			b = b[:r.Intn(len(b))]
		}
		return b
	}
	ones := func(n int) sx.Sx {
		ls := make([]sx.Sx, n)
		for i := range ls {
			ls[i] = sx.N(1)
		}
		return sx.L(ls...)
	}
	rnd := func(n int) sx.Sx {
		var ls []sx.Sx
		for left := n; left > 0; {
			k := 1 + r.Intn(30)
			if r.Chance(30) {
				k = 1
			}
			ls = append(ls, sx.N(k))
			left -= k
		}
		return sx.L(ls...)
	}
	// each bad piece followed by a good exchange: every two-piece split, and byte by byte
	for _, bq := range badReq {
		cb := append(unq(bq), unq(goodReq[0])...)
		sb := unq(goodResp[0])
		for i := 1; i < len(cb); i++ {
			emit(sx.L(sx.B(cb), sx.B(sb), sx.L(sx.N(i)), sx.L()))
		}
		emit(sx.L(sx.B(cb), sx.B(sb), ones(len(cb)), ones(len(sb))))
	}
	for _, br := range badResp {
		cb := unq(goodReq[0])
		sb := append(unq(br), unq(goodResp[0])...)
		for i := 1; i < len(sb); i++ {
			emit(sx.L(sx.B(cb), sx.B(sb), sx.L(), sx.L(sx.N(i))))
		}
		emit(sx.L(sx.B(cb), sx.B(sb), ones(len(cb)), ones(len(sb))))
	}
	count := 300
	if tier == "thorough" {
		count = 6000
	}
	for i := 0; i < count; i++ {
		cb, sb := build(goodReq, badReq), build(goodResp, badResp)
		switch r.Intn(3) {
		case 0:
			emit(sx.L(sx.B(cb), sx.B(sb), ones(len(cb)), ones(len(sb))))
		case 1:
			emit(sx.L(sx.B(cb), sx.B(sb), rnd(len(cb)), rnd(len(sb))))
		default:
			emit(sx.L(sx.B(cb), sx.B(sb), sx.L(sx.N(1+r.Intn(len(cb)+1))), sx.L(sx.N(1+r.Intn(len(sb)+1)))))
		}
	}
}

func strconvUnquote(s string) (string, error) { return strconv.Unquote("\"" + s + "\"") }

func httpObserveBytes(cb, sb []byte, clens, slens []int) sx.Sx {
	d := httpExt.NewDissector()
	stats := &api.AppStats{}
	out := make(chan *api.OutputChannelItem, 1<<12)
	conn := mock.NewConn(d, d.NewResponseRequestMatcher(), stats, out, "pcap0", "10.0.0.1", "40000", "10.0.0.2", "80")
	half := func(b []byte, r *mock.Reader) (res string) {
		defer func() {
			if rec := recover(); rec != nil {
				res = "panic:" + fmt.Sprintf("%x", fmt.Sprint(rec))
			}
		}()
		lens := clens
		if !r.IsClient {
			lens = slens
		}
		if lens == nil {
			_ = d.Dissect(bufio.NewReader(bytes.NewReader(b)), r)
			return "ok"
		}
		chunks := splitBytes(b, lens)
		_ = d.Dissect(bufio.NewReader(&chunkReader{chunks: chunks, tail: "eof"}), r)
		return "ok"
	}
	ck := half(cb, conn.Client)
	sk := half(sb, conn.Server)
	close(out)
	items := []sx.Sx{sx.A("items")}
	for it := range out {
		qb, _ := json.Marshal(it.Pair.Request.Payload)
		rb, _ := json.Marshal(it.Pair.Response.Payload)
		var q, r map[string]interface{}
		_ = json.Unmarshal(qb, &q)
		_ = json.Unmarshal(rb, &r)
		qd, _ := q["details"].(map[string]interface{})
		rd, _ := r["details"].(map[string]interface{})
		method, _ := qd["method"].(string)
		url, _ := qd["url"].(string)
		status, _ := rd["status"].(float64)
		orient := "mixed"
		if ci := it.ConnectionInfo; ci != nil && ci.ClientIP == "10.0.0.1" && ci.ServerIP == "10.0.0.2" && ci.ClientPort == "40000" && ci.ServerPort == "80" {
			orient = "cs"
		} else if ci != nil && ci.ClientIP == "10.0.0.2" {
			orient = "sc"
		}
		items = append(items, sx.L(
			sx.L(sx.A("req"), sx.S(method), sx.S(url), sx.N(minorOf(qd["httpVersion"])), harHeaders(qd["headers"]), sx.B(harBody(qd["postData"]))),
			sx.L(sx.A("resp"), sx.N(int(status)), sx.N(minorOf(rd["httpVersion"])), harHeaders(rd["headers"]), sx.B(harBody(rd["content"]))),
			sx.A(orient)))
	}
	nreq, nresp := 0, 0
	conn.Matcher.GetMap().Range(func(k, v interface{}) bool {
		if v.(*api.GenericMessage).IsRequest {
			nreq++
		} else {
			nresp++
		}
		return true
	})
	parts := []sx.Sx{sx.L(sx.A("cbytes"), sx.B(cb)), sx.L(sx.A("sbytes"), sx.B(sb)), sx.L(items...), sx.L(sx.A("left"), sx.N(nreq), sx.N(nresp))}
	if ck != "ok" || sk != "ok" {
		parts = append(parts, sx.L(sx.A("panic"), sx.A(ck), sx.A(sk)))
	}
	return sx.L(parts...)
}

// Family http.entry (C03): what Analyze derives from an item - path, query parameters (a repeated
// key reports the list of its values in order), method, status - after the JSON round trips of
// worker and hub.  observation: ((e #method #path (q (#key #v | (l #v ...)) ...) status) ...), keys sorted
func runHttpEntry(p sx.Sx) sx.Sx {
	cb, sb := encHttpConv(p)
	d := httpExt.NewDissector()
	out := make(chan *api.OutputChannelItem, 1<<12)
	conn := mock.NewConn(d, d.NewResponseRequestMatcher(), &api.AppStats{}, out, "pcap0", "10.0.0.1", "40000", "10.0.0.2", "80")
	half := func(b []byte, r *mock.Reader) {
		defer func() { _ = recover() }()
		_ = d.Dissect(bufio.NewReader(bytes.NewReader(b)), r)
	}
	half(cb, conn.Client)
	half(sb, conn.Server)
	close(out)
	var obs []sx.Sx
	for it := range out {
		res := stages.Run(d, it)
		if res.Panic != "" || res.Entry == nil {
			obs = append(obs, sx.L(sx.A("stage-failed"), sx.S(res.Panic+res.Err)))
			continue
		}
		req := res.Entry.Request
		method, _ := req["method"].(string)
		path, _ := req["path"].(string)
		status, _ := res.Entry.Response["status"].(float64)
		q := []sx.Sx{sx.A("q")}
		if qs, ok := req["queryString"].(map[string]interface{}); ok {
			var keys []string
			for k := range qs {
				keys = append(keys, k)
			}
			sort.Slice(keys, func(i, j int) bool { return fmt.Sprintf("%x", keys[i]) < fmt.Sprintf("%x", keys[j]) })
			for _, k := range keys {
				switch v := qs[k].(type) {
				case string:
					q = append(q, sx.L(sx.S(k), sx.S(v)))
				case []interface{}:
					l := []sx.Sx{sx.A("l")}
					for _, x := range v {
						xs, _ := x.(string)
						l = append(l, sx.S(xs))
					}
					q = append(q, sx.L(sx.S(k), sx.L(l...)))
				default:
					q = append(q, sx.L(sx.S(k), sx.A("?")))
				}
			}
		}
		// the name/value lists of the item (before Analyze) and the maps of the entry (after it)
		itemList := func(payload interface{}, field string) sx.Sx {
			out := []sx.Sx{sx.A("l")}
			b, err := json.Marshal(payload)
			if err != nil {
				return sx.L(sx.A("l"), sx.A("marshal-error"))
			}
			var m map[string]interface{}
			if json.Unmarshal(b, &m) != nil {
				return sx.L(sx.A("l"), sx.A("unmarshal-error"))
			}
			det, _ := m["details"].(map[string]interface{})
			l, _ := det[field].([]interface{})
			for _, x := range l {
				h, _ := x.(map[string]interface{})
				n, _ := h["name"].(string)
				v, _ := h["value"].(string)
				out = append(out, sx.L(sx.S(n), sx.S(v)))
			}
			return sx.L(out...)
		}
		entryMap := func(side map[string]interface{}, field string) sx.Sx {
			out := []sx.Sx{sx.A("m")}
			mm, ok := side[field].(map[string]interface{})
			if !ok {
				return sx.L(sx.A("m"), sx.A("not-a-map"))
			}
			var keys []string
			for k := range mm {
				keys = append(keys, k)
			}
			sort.Slice(keys, func(i, j int) bool { return fmt.Sprintf("%x", keys[i]) < fmt.Sprintf("%x", keys[j]) })
			for _, k := range keys {
				if v, ok := mm[k].(string); ok {
					out = append(out, sx.L(sx.S(k), sx.S(v)))
				} else {
					out = append(out, sx.L(sx.S(k), sx.A("?")))
				}
			}
			return sx.L(out...)
		}
		obs = append(obs, sx.L(sx.A("e"), sx.S(method), sx.S(path), sx.L(q...), sx.N(int(status)),
			sx.L(sx.A("qh"), itemList(it.Pair.Request.Payload, "headers"), entryMap(req, "headers")),
			sx.L(sx.A("qc"), itemList(it.Pair.Request.Payload, "cookies"), entryMap(req, "cookies")),
			sx.L(sx.A("rh"), itemList(it.Pair.Response.Payload, "headers"), entryMap(res.Entry.Response, "headers")),
			sx.L(sx.A("rc"), itemList(it.Pair.Response.Payload, "cookies"), entryMap(res.Entry.Response, "cookies"))))
	}
	return sx.L(obs...)
}

func genHttpEntry(r *Rand, tier string, emit func(sx.Sx)) {
	// targets with repeated keys, empty values, keys without '=', percent-escapes and '+'
	targets := []string{"/s?tag=1&tag=2", "/s?tag=1,2", "/s?a=1&b=2&a=3&a=4", "/s?k", "/s?k=&k=v", "/p%20q/r?x=%41%20b&y=c+d", "/", "/plain",
		"http://host.example/abs?z=1&z=2", "/s?tag=1&tag=1",
		// '+' is a plain character in a path (a space only in a form-encoded query); escapes of '+', ' ' and '/'; a path of two slashes
		"/download/libstdc++-v3.tar.gz", "/a+b/c%2Bd%20e%2Ff?x=1+2&y=%2B", "/+", "//static/app.js?v=1", "/a//b", "/%2B+%2b"}
	host := sx.L(sx.L(sx.S("Host"), sx.S("host.example")))
	for _, t := range targets {
		req := sx.L(sx.A("req"), sx.S("GET"), sx.S(t), sx.N(1), host, sx.A("none"), sx.B(nil))
		resp := sx.L(sx.A("resp"), sx.N(200), sx.S("OK"), sx.N(1), sx.L(), sx.A("cl"), sx.B([]byte("ok")))
		emit(sx.L(sx.L(sx.A("ex"), req, resp)))
	}
	// cookies: repeated names, adjacent and not, on one Cookie line and over several; Set-Cookie lines
	// with attributes; repeated header names that are not adjacent
	cookieLines := [][]string{{"sid=abc; theme=dark; sid=xyz"}, {"a=1; a=2; b=3"}, {"sid=abc; theme=dark", "sid=xyz"}, {"one=1"},
		{"x=1; y=2; z=3; y=4; x=5"}, {"k=v", "k=w", "j=u", "k=x"}}
	setCookies := [][]string{{"sid=abc; Path=/; HttpOnly", "theme=dark", "sid=xyz; Path=/app"}, {"a=1", "a=2"}, {"only=1; Secure"}, {}}
	mkCookieEx := func(cl, sc []string, extra [][2]string) sx.Sx {
		hs := []sx.Sx{sx.L(sx.S("Host"), sx.S("host.example"))}
		for _, e := range extra {
			hs = append(hs, sx.L(sx.S(e[0]), sx.S(e[1])))
		}
		for _, c := range cl {
			hs = append(hs, sx.L(sx.S("Cookie"), sx.S(c)))
		}
		var rh []sx.Sx
		for _, c := range sc {
			rh = append(rh, sx.L(sx.S("Set-Cookie"), sx.S(c)))
		}
		req := sx.L(sx.A("req"), sx.S("GET"), sx.S("/c"), sx.N(1), sx.L(hs...), sx.A("none"), sx.B(nil))
		resp := sx.L(sx.A("resp"), sx.N(200), sx.S("OK"), sx.N(1), sx.L(rh...), sx.A("cl"), sx.B([]byte("ok")))
		return sx.L(sx.A("ex"), req, resp)
	}
	for i, cl := range cookieLines {
		emit(sx.L(mkCookieEx(cl, setCookies[i%len(setCookies)], nil)))
	}
	emit(sx.L(mkCookieEx(nil, nil, [][2]string{{"X-Tag", "a"}, {"Accept", "x/y"}, {"X-Tag", "b"}, {"X-Other", "c"}, {"X-Tag", "d"}})))
	rounds := 60
	if tier == "thorough" {
		rounds = 1500
	}
	names := []string{"sid", "theme", "a", "b", "lang", "_ga", "X-1"}
	for i := 0; i < rounds; i++ {
		mk := func(withAttrs bool) []string {
			var lines []string
			for l := r.Intn(3); l >= 0; l-- {
				var parts []string
				for k := 1 + r.Intn(4); k > 0; k-- {
					parts = append(parts, names[r.Intn(len(names))]+"="+fmt.Sprintf("v%d", r.Intn(50)))
					if withAttrs {
						break
					}
				}
				line := strings.Join(parts, "; ")
				if withAttrs && r.Chance(50) {
					line += "; Path=/p" + fmt.Sprint(r.Intn(3))
				}
				lines = append(lines, line)
			}
			return lines
		}
		var extra [][2]string
		for k := r.Intn(4); k > 0; k-- {
			extra = append(extra, [2]string{[]string{"X-Tag", "Accept", "X-Other", "Via"}[r.Intn(4)], fmt.Sprintf("h%d", r.Intn(20))})
		}
		var exs []sx.Sx
		for k := 1 + r.Intn(2); k > 0; k-- {
			exs = append(exs, mkCookieEx(mk(false), mk(true), extra))
		}
		emit(sx.L(exs...))
	}
	n := 0
	genHttpConv(r, tier, func(conv sx.Sx) {
		n++
		if n%4 == 0 {
			emit(conv)
		}
	})
}

// genHttpConvPragma: the conversations of genHttpConv, and (for http.conv alone) requests carrying the HTTP/1.0
// `Pragma: no-cache` - alone, next to a Cache-Control header, after another Pragma value.  net/http adds
// `Cache-Control: no-cache` to a request that has the first without the second (recorded finding
// http-pragma-cache-control: the entry shows a header that was never sent).
func genHttpConvPragma(r *Rand, tier string, emit func(sx.Sx)) {
	genHttpConv(r, tier, emit)
	h := func(n, v string) sx.Sx { return sx.L(sx.S(n), sx.S(v)) }
	for _, hs := range [][]sx.Sx{
		{h("Host", "host.example"), h("Pragma", "no-cache")},
		{h("Host", "host.example"), h("pragma", "no-cache"), h("Accept", "*/*")},
		{h("Host", "host.example"), h("Pragma", "no-cache"), h("Cache-Control", "max-age=0")},
		{h("Host", "host.example"), h("Cache-Control", "no-cache"), h("Pragma", "no-cache")},
		{h("Host", "host.example"), h("Pragma", "x-other"), h("Pragma", "no-cache")},
		{h("Host", "host.example"), h("Pragma", "No-Cache")},
	} {
		for _, rh := range [][]sx.Sx{{}, {h("Pragma", "no-cache")}, {h("Pragma", "no-cache"), h("Cache-Control", "no-store")}} {
			req := sx.L(sx.A("req"), sx.S("GET"), sx.S("/cached"), sx.N(1), sx.L(hs...), sx.A("none"), sx.B(nil))
			resp := sx.L(sx.A("resp"), sx.N(200), sx.S("OK"), sx.N(1), sx.L(rh...), sx.A("cl"), sx.B([]byte("ok")))
			emit(sx.L(sx.L(sx.A("ex"), req, resp)))
		}
	}
}
