//go:build verif

package main

import (
	"bufio"
	"bytes"
	"encoding/base64"
	"encoding/json"
	"fmt"
	"sort"
	"strings"

	"github.com/kubeshark/base/pkg/api"
	httpExt "github.com/kubeshark/base/pkg/extensions/http"
	"ksverif/harness/internal/mock"
	"ksverif/harness/internal/stages"
	"ksverif/harness/internal/sx"
)

// Family http.conv (C03): HTTP/1.x conversations from an independent encoder; what each
// emitted item reports (its HAR form) is observed.
// observation: ((cbytes #) (sbytes #) (items ((req #method #url minor (hdr (#n #v)...) #body)
//
//	(resp status minor (hdr ...) #body) orient) ...) (left nreq nresp))
func init() {
	families["http.conv"] = &Family{Gen: genHttpConv, Run: runHttpConv}
	families["http.split"] = &Family{Gen: genHttpSplit, Run: runHttpSplit}
	families["http.entry"] = &Family{Gen: genHttpEntry, Run: runHttpEntry}
}

func harHeaders(v interface{}) sx.Sx {
	type nv struct{ n, v string }
	var hs []nv
	if list, ok := v.([]interface{}); ok {
		for _, h := range list {
			m, _ := h.(map[string]interface{})
			n, _ := m["name"].(string)
			val, _ := m["value"].(string)
			l := strings.ToLower(n)
			if l == "host" || l == "content-length" || l == "transfer-encoding" {
				continue
			}
			hs = append(hs, nv{n, val})
		}
	}
	sort.Slice(hs, func(i, j int) bool {
		a, b := fmt.Sprintf("%x", hs[i].n), fmt.Sprintf("%x", hs[j].n)
		if a != b {
			return a < b
		}
		return fmt.Sprintf("%x", hs[i].v) <= fmt.Sprintf("%x", hs[j].v)
	})
	out := []sx.Sx{sx.A("hdr")}
	for _, h := range hs {
		out = append(out, sx.L(sx.S(h.n), sx.S(h.v)))
	}
	return sx.L(out...)
}

func harBody(v interface{}) []byte {
	m, ok := v.(map[string]interface{})
	if !ok {
		return nil
	}
	text, _ := m["text"].(string)
	if enc, _ := m["encoding"].(string); enc == "base64" {
		if b, err := base64.StdEncoding.DecodeString(text); err == nil {
			return b
		}
	}
	return []byte(text)
}

func minorOf(v interface{}) int {
	s, _ := v.(string)
	switch s {
	case "HTTP/1.0":
		return 0
	case "HTTP/1.1":
		return 1
	}
	return -1
}

func runHttpConv(p sx.Sx) sx.Sx { return runHttpConvSplit(p, nil, nil) }

// http.split (C08): payload (conv (len ...) (len ...)): the conversation of http.conv, each half
// delivered in reads of the given lengths (the rest in one more read)
func runHttpSplit(p sx.Sx) sx.Sx {
	lens := func(x sx.Sx) []int {
		out := []int{}
		for _, l := range x.List {
			out = append(out, int(l.Int()))
		}
		return out
	}
	return runHttpConvSplit(p.List[0], lens(p.List[1]), lens(p.List[2]))
}

func genHttpSplit(r *Rand, tier string, emit func(sx.Sx)) {
	n := 0
	genHttpConv(r, tier, func(conv sx.Sx) {
		n++
		if n%5 != 0 || strings.Contains(conv.String(), "(req #48454144 ") {
			// HEAD exchanges mis-frame what follows (recorded finding of C03): not part of this family
			return
		}
		mk := func() sx.Sx {
			var ls []sx.Sx
			for k := r.Intn(12); k > 0; k-- {
				switch r.Intn(4) {
				case 0:
					ls = append(ls, sx.N(1))
				case 1:
					ls = append(ls, sx.N(1+r.Intn(40)))
				case 2:
					ls = append(ls, sx.N(4090+r.Intn(12)))
				default:
					ls = append(ls, sx.N(1+r.Intn(600)))
				}
			}
			return sx.L(ls...)
		}
		emit(sx.L(conv, mk(), mk()))
	})
}

func runHttpConvSplit(p sx.Sx, clens, slens []int) sx.Sx {
	cb, sb := encHttpConv(p)
	d := httpExt.NewDissector()
	stats := &api.AppStats{}
	out := make(chan *api.OutputChannelItem, 1<<12)
	conn := mock.NewConn(d, d.NewResponseRequestMatcher(), stats, out, "pcap0", "10.0.0.1", "40000", "10.0.0.2", "80")
	half := func(b []byte, r *mock.Reader) (res string) {
		defer func() {
			if rec := recover(); rec != nil {
				res = "panic:" + fmt.Sprintf("%x", fmt.Sprint(rec))
			}
		}()
		lens := clens
		if !r.IsClient {
			lens = slens
		}
		if lens == nil {
			_ = d.Dissect(bufio.NewReader(bytes.NewReader(b)), r)
			return "ok"
		}
		chunks := splitBytes(b, lens)
		_ = d.Dissect(bufio.NewReader(&chunkReader{chunks: chunks, tail: "eof"}), r)
		return "ok"
	}
	ck := half(cb, conn.Client)
	sk := half(sb, conn.Server)
	close(out)
	items := []sx.Sx{sx.A("items")}
	for it := range out {
		qb, _ := json.Marshal(it.Pair.Request.Payload)
		rb, _ := json.Marshal(it.Pair.Response.Payload)
		var q, r map[string]interface{}
		_ = json.Unmarshal(qb, &q)
		_ = json.Unmarshal(rb, &r)
		qd, _ := q["details"].(map[string]interface{})
		rd, _ := r["details"].(map[string]interface{})
		method, _ := qd["method"].(string)
		url, _ := qd["url"].(string)
		status, _ := rd["status"].(float64)
		orient := "mixed"
		if ci := it.ConnectionInfo; ci != nil && ci.ClientIP == "10.0.0.1" && ci.ServerIP == "10.0.0.2" && ci.ClientPort == "40000" && ci.ServerPort == "80" {
			orient = "cs"
		} else if ci != nil && ci.ClientIP == "10.0.0.2" {
			orient = "sc"
		}
		items = append(items, sx.L(
			sx.L(sx.A("req"), sx.S(method), sx.S(url), sx.N(minorOf(qd["httpVersion"])), harHeaders(qd["headers"]), sx.B(harBody(qd["postData"]))),
			sx.L(sx.A("resp"), sx.N(int(status)), sx.N(minorOf(rd["httpVersion"])), harHeaders(rd["headers"]), sx.B(harBody(rd["content"]))),
			sx.A(orient)))
	}
	nreq, nresp := 0, 0
	conn.Matcher.GetMap().Range(func(k, v interface{}) bool {
		if v.(*api.GenericMessage).IsRequest {
			nreq++
		} else {
			nresp++
		}
		return true
	})
	parts := []sx.Sx{sx.L(sx.A("cbytes"), sx.B(cb)), sx.L(sx.A("sbytes"), sx.B(sb)), sx.L(items...), sx.L(sx.A("left"), sx.N(nreq), sx.N(nresp))}
	if ck != "ok" || sk != "ok" {
		parts = append(parts, sx.L(sx.A("panic"), sx.A(ck), sx.A(sk)))
	}
	return sx.L(parts...)
}

// Family http.entry (C03): what Analyze derives from an item - path, query parameters (a repeated
// key reports the list of its values in order), method, status - after the JSON round trips of
// worker and hub.  observation: ((e #method #path (q (#key #v | (l #v ...)) ...) status) ...), keys sorted
func runHttpEntry(p sx.Sx) sx.Sx {
	cb, sb := encHttpConv(p)
	d := httpExt.NewDissector()
	out := make(chan *api.OutputChannelItem, 1<<12)
	conn := mock.NewConn(d, d.NewResponseRequestMatcher(), &api.AppStats{}, out, "pcap0", "10.0.0.1", "40000", "10.0.0.2", "80")
	half := func(b []byte, r *mock.Reader) {
		defer func() { _ = recover() }()
		_ = d.Dissect(bufio.NewReader(bytes.NewReader(b)), r)
	}
	half(cb, conn.Client)
	half(sb, conn.Server)
	close(out)
	var obs []sx.Sx
	for it := range out {
		res := stages.Run(d, it)
		if res.Panic != "" || res.Entry == nil {
			obs = append(obs, sx.L(sx.A("stage-failed"), sx.S(res.Panic+res.Err)))
			continue
		}
		req := res.Entry.Request
		method, _ := req["method"].(string)
		path, _ := req["path"].(string)
		status, _ := res.Entry.Response["status"].(float64)
		q := []sx.Sx{sx.A("q")}
		if qs, ok := req["queryString"].(map[string]interface{}); ok {
			var keys []string
			for k := range qs {
				keys = append(keys, k)
			}
			sort.Slice(keys, func(i, j int) bool { return fmt.Sprintf("%x", keys[i]) < fmt.Sprintf("%x", keys[j]) })
			for _, k := range keys {
				switch v := qs[k].(type) {
				case string:
					q = append(q, sx.L(sx.S(k), sx.S(v)))
				case []interface{}:
					l := []sx.Sx{sx.A("l")}
					for _, x := range v {
						xs, _ := x.(string)
						l = append(l, sx.S(xs))
					}
					q = append(q, sx.L(sx.S(k), sx.L(l...)))
				default:
					q = append(q, sx.L(sx.S(k), sx.A("?")))
				}
			}
		}
		obs = append(obs, sx.L(sx.A("e"), sx.S(method), sx.S(path), sx.L(q...), sx.N(int(status))))
	}
	return sx.L(obs...)
}

func genHttpEntry(r *Rand, tier string, emit func(sx.Sx)) {
	// targets with repeated keys, empty values, keys without '=', percent-escapes and '+'
	targets := []string{"/s?tag=1&tag=2", "/s?tag=1,2", "/s?a=1&b=2&a=3&a=4", "/s?k", "/s?k=&k=v", "/p%20q/r?x=%41%20b&y=c+d", "/", "/plain",
		"http://host.example/abs?z=1&z=2", "/s?tag=1&tag=1"}
	host := sx.L(sx.L(sx.S("Host"), sx.S("host.example")))
	for _, t := range targets {
		req := sx.L(sx.A("req"), sx.S("GET"), sx.S(t), sx.N(1), host, sx.A("none"), sx.B(nil))
		resp := sx.L(sx.A("resp"), sx.N(200), sx.S("OK"), sx.N(1), sx.L(), sx.A("cl"), sx.B([]byte("ok")))
		emit(sx.L(sx.L(sx.A("ex"), req, resp)))
	}
	n := 0
	genHttpConv(r, tier, func(conv sx.Sx) {
		n++
		if n%4 == 0 {
			emit(conv)
		}
	})
}
