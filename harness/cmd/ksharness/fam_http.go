//go:build verif

package main

import (
	"bufio"
	"bytes"
	"encoding/base64"
	"encoding/json"
	"fmt"
	"sort"
	"strings"

	"github.com/kubeshark/base/pkg/api"
	httpExt "github.com/kubeshark/base/pkg/extensions/http"
	"ksverif/harness/internal/mock"
	"ksverif/harness/internal/sx"
)

// Family http.conv (C03): HTTP/1.x conversations from an independent encoder; what each
// emitted item reports (its HAR form) is observed.
// observation: ((cbytes #) (sbytes #) (items ((req #method #url minor (hdr (#n #v)...) #body)
//
//	(resp status minor (hdr ...) #body) orient) ...) (left nreq nresp))
func init() {
	families["http.conv"] = &Family{Gen: genHttpConv, Run: runHttpConv}
}

func harHeaders(v interface{}) sx.Sx {
	type nv struct{ n, v string }
	var hs []nv
	if list, ok := v.([]interface{}); ok {
		for _, h := range list {
			m, _ := h.(map[string]interface{})
			n, _ := m["name"].(string)
			val, _ := m["value"].(string)
			l := strings.ToLower(n)
			if l == "host" || l == "content-length" || l == "transfer-encoding" {
				continue
			}
			hs = append(hs, nv{n, val})
		}
	}
	sort.Slice(hs, func(i, j int) bool {
		a, b := fmt.Sprintf("%x", hs[i].n), fmt.Sprintf("%x", hs[j].n)
		if a != b {
			return a < b
		}
		return fmt.Sprintf("%x", hs[i].v) <= fmt.Sprintf("%x", hs[j].v)
	})
	out := []sx.Sx{sx.A("hdr")}
	for _, h := range hs {
		out = append(out, sx.L(sx.S(h.n), sx.S(h.v)))
	}
	return sx.L(out...)
}

func harBody(v interface{}) []byte {
	m, ok := v.(map[string]interface{})
	if !ok {
		return nil
	}
	text, _ := m["text"].(string)
	if enc, _ := m["encoding"].(string); enc == "base64" {
		if b, err := base64.StdEncoding.DecodeString(text); err == nil {
			return b
		}
	}
	return []byte(text)
}

func minorOf(v interface{}) int {
	s, _ := v.(string)
	switch s {
	case "HTTP/1.0":
		return 0
	case "HTTP/1.1":
		return 1
	}
	return -1
}

func runHttpConv(p sx.Sx) sx.Sx {
	cb, sb := encHttpConv(p)
	d := httpExt.NewDissector()
	stats := &api.AppStats{}
	out := make(chan *api.OutputChannelItem, 1<<12)
	conn := mock.NewConn(d, d.NewResponseRequestMatcher(), stats, out, "pcap0", "10.0.0.1", "40000", "10.0.0.2", "80")
	half := func(b []byte, r *mock.Reader) (res string) {
		defer func() {
			if rec := recover(); rec != nil {
				res = "panic:" + fmt.Sprintf("%x", fmt.Sprint(rec))
			}
		}()
		_ = d.Dissect(bufio.NewReader(bytes.NewReader(b)), r)
		return "ok"
	}
	ck := half(cb, conn.Client)
	sk := half(sb, conn.Server)
	close(out)
	items := []sx.Sx{sx.A("items")}
	for it := range out {
		qb, _ := json.Marshal(it.Pair.Request.Payload)
		rb, _ := json.Marshal(it.Pair.Response.Payload)
		var q, r map[string]interface{}
		_ = json.Unmarshal(qb, &q)
		_ = json.Unmarshal(rb, &r)
		qd, _ := q["details"].(map[string]interface{})
		rd, _ := r["details"].(map[string]interface{})
		method, _ := qd["method"].(string)
		url, _ := qd["url"].(string)
		status, _ := rd["status"].(float64)
		orient := "mixed"
		if ci := it.ConnectionInfo; ci != nil && ci.ClientIP == "10.0.0.1" && ci.ServerIP == "10.0.0.2" && ci.ClientPort == "40000" && ci.ServerPort == "80" {
			orient = "cs"
		} else if ci != nil && ci.ClientIP == "10.0.0.2" {
			orient = "sc"
		}
		items = append(items, sx.L(
			sx.L(sx.A("req"), sx.S(method), sx.S(url), sx.N(minorOf(qd["httpVersion"])), harHeaders(qd["headers"]), sx.B(harBody(qd["postData"]))),
			sx.L(sx.A("resp"), sx.N(int(status)), sx.N(minorOf(rd["httpVersion"])), harHeaders(rd["headers"]), sx.B(harBody(rd["content"]))),
			sx.A(orient)))
	}
	nreq, nresp := 0, 0
	conn.Matcher.GetMap().Range(func(k, v interface{}) bool {
		if v.(*api.GenericMessage).IsRequest {
			nreq++
		} else {
			nresp++
		}
		return true
	})
	parts := []sx.Sx{sx.L(sx.A("cbytes"), sx.B(cb)), sx.L(sx.A("sbytes"), sx.B(sb)), sx.L(items...), sx.L(sx.A("left"), sx.N(nreq), sx.N(nresp))}
	if ck != "ok" || sk != "ok" {
		parts = append(parts, sx.L(sx.A("panic"), sx.A(ck), sx.A(sk)))
	}
	return sx.L(parts...)
}
