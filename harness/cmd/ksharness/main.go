//go:build verif

// ksharness: generator and implementation runner of the correspondence check.
//
//	ksharness gen <family> <tier> <seed>   -> "<id>\t<family>\t<payload>" lines
//	ksharness run                          -> reads those lines, writes "<id>\t<impl observation>"
//
// Each case runs the real kubeshark/base code in-process; a panic is recovered and
// reported as the observation (panic <hex message>).
package main

import (
	"bufio"
	"fmt"
	"os"
	"runtime/debug"
	"strconv"
	"strings"

	"ksverif/harness/internal/sx"
)

type Family struct {
	Gen func(r *Rand, tier string, emit func(sx.Sx))
	Run func(payload sx.Sx) sx.Sx
}

var families = map[string]*Family{}

func main() {
	if len(os.Args) < 2 {
		usage()
	}
	switch os.Args[1] {
	case "gen":
		if len(os.Args) < 5 {
			usage()
		}
		fam, ok := families[os.Args[2]]
		if !ok {
			fmt.Fprintln(os.Stderr, "unknown family", os.Args[2])
			os.Exit(2)
		}
		seed, _ := strconv.ParseUint(os.Args[4], 10, 64)
		w := bufio.NewWriterSize(os.Stdout, 1<<20)
		id := 0
		fam.Gen(NewRand(seed^hashString(os.Args[2])), os.Args[3], func(p sx.Sx) {
			fmt.Fprintf(w, "%s%d\t%s\t%s\n", os.Args[2], id, os.Args[2], p.String())
			id++
		})
		w.Flush()
	case "run":
		debug.SetGCPercent(400)
		sc := bufio.NewScanner(os.Stdin)
		sc.Buffer(make([]byte, 1<<20), 1<<28)
		w := bufio.NewWriter(os.Stdout)
		for sc.Scan() {
			parts := strings.SplitN(sc.Text(), "\t", 3)
			if len(parts) != 3 {
				continue
			}
			obs := runOne(parts[1], parts[2])
			fmt.Fprintf(w, "%s\t%s\n", parts[0], obs.String())
			w.Flush()
		}
	case "families":
		for k := range families {
			fmt.Println(k)
		}
	default:
		usage()
	}
}

func runOne(famName, payload string) (obs sx.Sx) {
	defer func() {
		if r := recover(); r != nil {
			obs = sx.L(sx.A("panic"), sx.S(fmt.Sprint(r)))
		}
	}()
	fam, ok := families[famName]
	if !ok {
		return sx.L(sx.A("harness-error"), sx.S("unknown family"))
	}
	p, err := sx.Parse(payload)
	if err != nil {
		return sx.L(sx.A("harness-error"), sx.S(err.Error()))
	}
	return fam.Run(p)
}

func usage() {
	fmt.Fprintln(os.Stderr, "usage: ksharness gen <family> <tier> <seed> | run | families")
	os.Exit(2)
}

// Rand is splitmix64: every random choice of a run derives from VERIF_SEED.
type Rand struct{ s uint64 }

func NewRand(seed uint64) *Rand { return &Rand{s: seed} }
func (r *Rand) U64() uint64 {
	r.s += 0x9e3779b97f4a7c15
	z := r.s
	z = (z ^ (z >> 30)) * 0xbf58476d1ce4e5b9
	z = (z ^ (z >> 27)) * 0x94d049bb133111eb
	return z ^ (z >> 31)
}
func (r *Rand) Intn(n int) int {
	if n <= 0 {
		return 0
	}
	return int(r.U64() % uint64(n))
}
func (r *Rand) Bool() bool        { return r.U64()&1 == 1 }
func (r *Rand) Chance(p int) bool { return r.Intn(100) < p }
func (r *Rand) Pick(xs []string) string {
	return xs[r.Intn(len(xs))]
}
func (r *Rand) Bytes(n int) []byte {
	b := make([]byte, n)
	for i := range b {
		b[i] = byte(r.U64())
	}
	return b
}

func hashString(s string) uint64 {
	h := uint64(1469598103934665603)
	for i := 0; i < len(s); i++ {
		h ^= uint64(s[i])
		h *= 1099511628211
	}
	return h
}
