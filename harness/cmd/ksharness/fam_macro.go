//go:build verif

package main

import (
	"fmt"
	"strings"

	"github.com/kubeshark/base/pkg/languages/kfl"
	"ksverif/harness/internal/sx"
)

// Family kfl.macro (C17): query texts expanded by the real ExpandMacros, several times (Go
// randomises map iteration, so every call may visit equal-length macros in another order),
// then once more on the result.
// payload: #<query text>
// observation: (ok #<expansion> <all-runs-equal> #<expansion of the expansion>) | (error #msg)
func init() {
	families["kfl.macro"] = &Family{Gen: genMacro, Run: runMacro}
}

func runMacro(p sx.Sx) sx.Sx {
	if p.IsList && len(p.List) == 5 && p.List[0].Atom == "redef" {
		// (redef #name #def1 #def2 #query): the table changes between two expansions of one query -
		// the expansion is a function of (query, table as it is NOW), not of earlier calls
		name, d1, d2, q := p.List[1].Str(), p.List[2].Str(), p.List[3].Str(), p.List[4].Str()
		kfl.AddMacro(name, d1)
		e1, err1 := kfl.ExpandMacros(q)
		kfl.AddMacro(name, d2)
		e2, err2 := kfl.ExpandMacros(q)
		if err1 != nil || err2 != nil {
			return sx.L(sx.A("error"), sx.S("expand failed"))
		}
		return sx.L(sx.A("redef"), sx.S(e1), sx.S(e2))
	}
	q := p.Str()
	first, err := kfl.ExpandMacros(q)
	if err != nil {
		return sx.L(sx.A("error"), sx.S(err.Error()))
	}
	same := true
	for i := 0; i < 12; i++ {
		again, err := kfl.ExpandMacros(q)
		if err != nil || again != first {
			same = false
		}
	}
	twice, err := kfl.ExpandMacros(first)
	if err != nil {
		return sx.L(sx.A("error"), sx.S(err.Error()))
	}
	return sx.L(sx.A("ok"), sx.S(first), sx.Bool(same), sx.S(twice))
}

func genMacro(r *Rand, tier string, emit func(sx.Sx)) {
	var names []string
	for _, l := range readLines("macros.txt") {
		names = append(names, strings.SplitN(l, "\t", 2)[0])
	}
	if len(names) == 0 {
		return
	}
	fixed := []string{
		"http", "http2", "!amqp and redis", "request.httpVersion == \"1.1\"", "xhttp", "http2x", "a.http", "http.a",
		"request.headers[\"http\"] == \"x-amqp-y\"", "http or http2 or grpc or gql or dns or kafka or redis or amqp",
		"(http)", "http==1", "\"http\"", "\"a http b\" and http", "http and \"abc", "http_x", "_http", "http-1", "-http",
		"http and x == \"a\\\"b\"", "", " ", "httphttp", "http http", "redis.redis", "kafka2", "grpc(1)", "dns,gql",
	}
	for _, f := range fixed {
		emit(sx.S(f))
	}
	// macro names inside literals that also hold escaped quotes and backslashes, before and after them
	for _, n := range names {
		for _, f := range []string{`x == "say \"%s\" now" and %s`, `"%s \" x" == a and %s`, `a == "\" %s" or %s`, `a == "b\\" and %s and c == "%s\\\" q"`,
			`%s and a == "\\%s\\"`, `a == "\"\"%s\"\"" and !%s`, `"\\\"" == %s or "%s"`} {
			emit(sx.S(fmt.Sprintf(f, n, n)))
		}
	}
	// a macro defined, used, redefined and used again (AddMacro is the registration API of the table)
	for i, q := range []string{"zzverif", "zzverif and http", "!zzverif or request.path == \"zzverif\"", "http and zzverif2 and xzzverif2 and \"zzverif2\""} {
		emit(sx.L(sx.A("redef"), sx.S([]string{"zzverif", "zzverif", "zzverif", "zzverif2"}[i]), sx.S("dst.name == \"v1\""), sx.S("dst.name == \"v2\" or dst.name == \"v3\""), sx.S(q)))
	}
	// non-ASCII text inside string literals before, around and after macro names (the regexp engine
	// counts in runes, Go strings in bytes): 2-, 3- and 4-byte characters, 1 to 12 of them
	for _, ch := range []string{"é", "日", "😀", "カ"} {
		for _, k := range []int{1, 2, 3, 4, 6, 10, 12} {
			w := strings.Repeat(ch, k)
			emit(sx.S("request.path == \"" + w + "\" or request.headers[\"x\"] == \"http\" or http"))
			emit(sx.S("request.path == \"/" + w + "/" + w + "\" or http and !redis"))
			emit(sx.S("\"" + w + " http " + w + "\" == a and amqp"))
			emit(sx.S("http and a == \"" + w + "\" and \"kafka\" != \"" + w + "\" and dns"))
		}
	}
	// macro names inside (terminated and unterminated) literals of growing length: the look-ahead that
	// skips literals must stay linear in the text that follows the name
	for _, n := range []int{5, 10, 15, 20, 24, 28, 40, 80, 200} {
		tail := strings.Repeat("client library build x", n/22+1)[:n]
		emit(sx.S("request.headers[\"User-Agent\"] == \"http " + tail + "\""))
		emit(sx.S("request.path.startsWith(\"redis://" + tail + "\")"))
		emit(sx.S("http and response.status == 200 and request.method.startsWith(\"" + tail))
		emit(sx.S("\"" + tail + " kafka " + tail + "\" == a and amqp"))
	}
	// every macro name in every context
	pre := []string{"", " ", "(", "!", "x", ".", "_", "9", "\"", "a.", "== "}
	post := []string{"", " ", ")", "x", ".", "_", "2", "\"", ".b", " and true", "=="}
	for _, n := range names {
		for _, a := range pre {
			for _, b := range post {
				emit(sx.S(a + n + b))
			}
		}
	}
	pieces := append([]string{" and ", " or ", "!", "(", ")", " == ", "\"", "\"lit http\"", "request.path", "x", ".", "_", "2", " ", "\"redis\"", "Version", "\"a b\"", "1", "nil", "true",
		"\"日本語\"", "\"é\"", "\"カフェ http メニュー\"", "\"😀😀\""}, names...)
	count := 3000
	if tier == "thorough" {
		count = 60000
	}
	for i := 0; i < count; i++ {
		n := 1 + r.Intn(8)
		var sb strings.Builder
		for j := 0; j < n; j++ {
			if r.Chance(45) {
				sb.WriteString(names[r.Intn(len(names))])
			} else {
				sb.WriteString(pieces[r.Intn(len(pieces))])
			}
		}
		emit(sx.S(sb.String()))
	}
}
