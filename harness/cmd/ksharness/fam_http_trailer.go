//go:build verif

package main

import (
	"fmt"
	"strings"

	"ksverif/harness/internal/sx"
)

// Family http.trailer (C03: "every header field ... nothing is dropped"): chunked HTTP/1.1 messages whose last
// chunk is followed by trailer fields (announced with a Trailer header or not, one or several, repeating a name of
// the header, on the request, the response or both, followed by further exchanges on the connection).  Metamorphic:
// the same conversation with those fields sent in the header block instead must be reported identically, and every
// trailer field must be among the header fields of its message.  The Lean wire model has no trailer part; the
// reference is the implementation on the header form, whose exactness http.conv judges against the model.
// payload: (#cbytesT #sbytesT #cbytesH #sbytesH (want (#name #value) ...)); observation: ((t obs) (h obs))
func init() {
	families["http.trailer"] = &Family{Gen: genHttpTrailer, Run: runHttpTrailer}
}

func genHttpTrailer(r *Rand, tier string, emit func(sx.Sx)) {
	type field struct{ n, v string }
	sets := [][]field{
		{{"X-Sum", "900150983cd24fb0"}},
		{{"X-Sum", "900150983cd24fb0"}, {"X-Signature", "sig=abc; alg=hs256"}},
		{{"Grpc-Status", "0"}, {"Grpc-Message", ""}},
		{{"X-Keep", "again"}},                    // repeats a name of the header block
		{{"X-Multi", "one"}, {"X-Multi", "two"}}, // the same name twice
		{{"Server-Timing", "db;dur=53, app;dur=47.2"}, {"Etag", "\"abc\""}},
	}
	bodies := []string{"abc", "", strings.Repeat("0123456789", 900)}
	chunked := func(body string, trailers []field) string {
		var b strings.Builder
		for len(body) > 0 {
			n := len(body)
			if n > 4000 {
				n = 4000
			}
			fmt.Fprintf(&b, "%x\r\n%s\r\n", n, body[:n])
			body = body[n:]
		}
		b.WriteString("0\r\n")
		for _, t := range trailers {
			b.WriteString(t.n + ": " + t.v + "\r\n")
		}
		b.WriteString("\r\n")
		return b.String()
	}
	msg := func(start string, announce bool, asTrailer bool, fs []field, body string) string {
		var b strings.Builder
		b.WriteString(start + "\r\nX-Keep: yes\r\nTransfer-Encoding: chunked\r\n")
		if announce {
			var names []string
			for _, f := range fs {
				names = append(names, f.n)
			}
			b.WriteString("Trailer: " + strings.Join(names, ", ") + "\r\n")
		}
		if !asTrailer {
			for _, f := range fs {
				b.WriteString(f.n + ": " + f.v + "\r\n")
			}
			b.WriteString("\r\n" + chunked(body, nil))
		} else {
			b.WriteString("\r\n" + chunked(body, fs))
		}
		return b.String()
	}
	const nextReq = "GET /after HTTP/1.1\r\nHost: e\r\n\r\n"
	const nextResp = "HTTP/1.1 404 Not Found\r\nContent-Length: 0\r\n\r\n"
	const plainReq = "POST /up HTTP/1.1\r\nHost: e\r\nContent-Length: 2\r\n\r\nhi"
	const plainResp = "HTTP/1.1 200 OK\r\nContent-Length: 2\r\n\r\nok"
	for _, fs := range sets {
		for _, body := range bodies {
			for _, announce := range []bool{true, false} {
				for side := 0; side < 3; side++ { // 0 request, 1 response, 2 both
					build := func(asTrailer bool) (string, string) {
						cb, sb := plainReq, plainResp
						if side == 0 || side == 2 {
							cb = msg("POST /up HTTP/1.1\r\nHost: e", announce, asTrailer, fs, body)
						}
						if side == 1 || side == 2 {
							sb = msg("HTTP/1.1 200 OK", announce, asTrailer, fs, body)
						}
						return cb + nextReq, sb + nextResp
					}
					ct, st := build(true)
					ch, sh := build(false)
					want := []sx.Sx{sx.A("want")}
					for _, f := range fs {
						want = append(want, sx.L(sx.S(f.n), sx.S(f.v)))
					}
					emit(sx.L(sx.B([]byte(ct)), sx.B([]byte(st)), sx.B([]byte(ch)), sx.B([]byte(sh)), sx.L(want...), sx.N(side)))
				}
			}
		}
	}
}

func runHttpTrailer(p sx.Sx) sx.Sx {
	strip := func(o sx.Sx) sx.Sx { // without the echo of the input bytes
		var out []sx.Sx
		for _, x := range o.List {
			if len(x.List) > 0 && (x.List[0].Atom == "cbytes" || x.List[0].Atom == "sbytes") {
				continue
			}
			out = append(out, x)
		}
		return sx.L(out...)
	}
	t := httpObserveBytes(p.List[0].Bytes(), p.List[1].Bytes(), nil, nil)
	h := httpObserveBytes(p.List[2].Bytes(), p.List[3].Bytes(), nil, nil)
	return sx.L(sx.L(sx.A("t"), strip(t)), sx.L(sx.A("h"), strip(h)))
}
