package main

import (
	"fmt"
	"reflect"
	"sort"
	"strings"

	kafkaExt "github.com/kubeshark/base/pkg/extensions/kafka"
	kgoproto "github.com/segmentio/kafka-go/protocol"
	kgoapiversions "github.com/segmentio/kafka-go/protocol/apiversions"
	kgocreatetopics "github.com/segmentio/kafka-go/protocol/createtopics"
	kgodeletetopics "github.com/segmentio/kafka-go/protocol/deletetopics"
	kgofetch "github.com/segmentio/kafka-go/protocol/fetch"
	kgolistoffsets "github.com/segmentio/kafka-go/protocol/listoffsets"
	kgometadata "github.com/segmentio/kafka-go/protocol/metadata"
	kgoproduce "github.com/segmentio/kafka-go/protocol/produce"

	"ksverif/harness/internal/kprobe"
)

func init() {
	extraGens["GenKafkaLayouts.lean"] = genKafkaLayouts
	factGens["kafka_layouts.txt"] = func() (string, error) {
		if _, err := genKafkaLayouts(); err != nil {
			return "", err
		}
		return kafkaLayoutsFact, nil
	}
}

var kafkaLayoutsFact string

// The layout the dissector selects is learnt from the dissector itself: a header-only
// request with the (api key, version) under test is run through Dissect, and the Go type
// of the payload it registered (and, after a header-only response, of the response
// payload it emitted) is read back by reflection.  The type is then translated field by
// field the way decodeFuncOf walks it (kinds, field order, exported fields only, no
// `kafka:` tags => one non-flexible version).  Versions are sampled at -1..17; the extremes
// of int16 must select the same layout as the nearest sample, else extraction fails.

var kafkaSampleVersions = func() []int {
	var v []int
	for i := -1; i <= 17; i++ {
		v = append(v, i)
	}
	return v
}()

type kafkaTyGen struct {
	defs  map[string]string // lean def name -> body
	order []string
	fact  map[string]string
	err   error
}

func leanStr(s string) string { return fmt.Sprintf("%q", s) }

func jsonName(f reflect.StructField) string {
	tag := f.Tag.Get("json")
	if i := strings.IndexByte(tag, ','); i >= 0 {
		tag = tag[:i]
	}
	if tag == "" {
		return f.Name
	}
	return tag
}

var recordV0Type = reflect.TypeOf(kafkaExt.RecordV0{})

// ty translates a Go type the way decodeFuncOf does.
func (g *kafkaTyGen) ty(t reflect.Type) (lean, fact string) {
	if _, ok := reflect.PtrTo(t).MethodByName("ReadFrom"); ok {
		g.err = fmt.Errorf("type %v has a ReadFrom method: custom decoding is not translated", t)
		return "(.prim .unsupported)", "unsupported"
	}
	switch t.Kind() {
	case reflect.Bool:
		return "(.prim .bool)", "bool"
	case reflect.Int8:
		return "(.prim .int8)", "int8"
	case reflect.Int16:
		return "(.prim .int16)", "int16"
	case reflect.Int32:
		return "(.prim .int32)", "int32"
	case reflect.Int64:
		return "(.prim .int64)", "int64"
	case reflect.String:
		return "(.prim .str)", "string"
	case reflect.Struct:
		if t == recordV0Type {
			return "(.prim .recordV0)", "recordV0"
		}
		name := "ty_" + t.Name()
		if t.Name() == "" || t.PkgPath() != recordV0Type.PkgPath() {
			g.err = fmt.Errorf("struct type %v is not a named type of the kafka package", t)
			return "(.prim .unsupported)", "unsupported"
		}
		if _, done := g.defs[name]; !done {
			g.defs[name] = "" // recursion guard (a recursive type cannot be decoded by value anyway)
			var parts, facts []string
			for i := 0; i < t.NumField(); i++ {
				f := t.Field(i)
				if f.PkgPath != "" && f.Name != "_" {
					continue
				}
				if tag, ok := f.Tag.Lookup("kafka"); ok {
					g.err = fmt.Errorf("%v.%s carries a kafka tag %q: versioned / flexible fields are not translated", t, f.Name, tag)
				}
				l, fc := g.ty(f.Type)
				parts = append(parts, fmt.Sprintf("(%s, %s)", leanStr(jsonName(f)), l))
				facts = append(facts, jsonName(f)+":"+fc)
			}
			g.defs[name] = "Ty.ofFields [" + strings.Join(parts, ", ") + "]"
			g.fact[name] = "{" + strings.Join(facts, " ") + "}"
			g.order = append(g.order, name)
		}
		return name, g.fact[name]
	case reflect.Slice:
		if t.Elem().Kind() == reflect.Uint8 {
			return "(.prim .bytes)", "bytes"
		}
		l, f := g.ty(t.Elem())
		return "(.arr " + l + ")", "[" + f + "]"
	default:
		// decodeFuncOf logs an error and returns a nil decode function: calling it panics
		return "(.prim .unsupported)", "unsupported(" + t.Kind().String() + ")"
	}
}

func genKafkaLayouts() (string, error) {
	g := &kafkaTyGen{defs: map[string]string{}, fact: map[string]string{}}
	type row struct {
		api, ver  int
		req, resp string
	}
	var rows []row
	var fact []string
	named := map[int]string{}
	for apiKey := -1; apiKey <= 51; apiKey++ {
		var prevReq, prevResp reflect.Type
		for _, ver := range append(append([]int{-32768}, kafkaSampleVersions...), 32767) {
			rq, rs, err := kprobe.Probe(apiKey, ver)
			if err != nil {
				return "", err
			}
			if ver == -32768 {
				prevReq, prevResp = rq, rs
				continue
			}
			if ver == -1 && (rq != prevReq || rs != prevResp) {
				return "", fmt.Errorf("api %d: version -32768 selects another layout than version -1", apiKey)
			}
			if ver == 32767 {
				if rq != prevReq || rs != prevResp {
					return "", fmt.Errorf("api %d: version 32767 selects another layout than version 17", apiKey)
				}
				continue
			}
			prevReq, prevResp = rq, rs
			r := row{api: apiKey, ver: ver, req: "none", resp: "none"}
			fr, fs := "-", "-"
			if rq != nil {
				l, f := g.ty(rq)
				r.req, fr = "(some "+l+")", rq.Name()+"="+f
			}
			if rs != nil {
				l, f := g.ty(rs)
				r.resp, fs = "(some "+l+")", rs.Name()+"="+f
			}
			if rq != nil || rs != nil {
				rows = append(rows, r)
				fact = append(fact, fmt.Sprintf("%d %d %s %s", apiKey, ver, fr, fs))
			}
		}
		named[apiKey] = kafkaExt.ApiKey(apiKey).String()
	}
	if g.err != nil {
		return "", g.err
	}
	var b strings.Builder
	b.WriteString("/- GENERATED by ksextract from /repo/pkg/extensions/kafka (request.go, response.go, structs.go via\n   the running dissector and reflection) - do not edit -/\nimport KsVerif.Kafka.Schema\n\nnamespace KsVerif.Generated.Kafka\nopen KsVerif.Kafka\n\n")
	for _, n := range g.order {
		fmt.Fprintf(&b, "def %s : Ty := %s\n", n, g.defs[n])
	}
	b.WriteString("\n/-- (api key, version) ↦ (request layout, response layout), versions sampled at -1..17 -/\ndef layoutTable : List ((Int × Int) × (Option Ty × Option Ty)) := [\n")
	for i, r := range rows {
		sep := ","
		if i == len(rows)-1 {
			sep = ""
		}
		fmt.Fprintf(&b, "  ((%d, %d), (%s, %s))%s\n", r.api, r.ver, r.req, r.resp, sep)
	}
	b.WriteString("]\n\n/-- the names reported for api keys (ApiKey.String) -/\ndef apiNameTable : List (Int × String) := [\n")
	var keys []int
	for k := range named {
		keys = append(keys, k)
	}
	sort.Ints(keys)
	for i, k := range keys {
		sep := ","
		if i == len(keys)-1 {
			sep = ""
		}
		fmt.Fprintf(&b, "  (%d, %s)%s\n", k, leanStr(named[k]), sep)
	}
	b.WriteString("]\n\nend KsVerif.Generated.Kafka\n")
	sort.Strings(fact)
	kafkaLayoutsFact = strings.Join(fact, "\n") + "\n"
	return b.String(), nil
}

// ---- the reference: github.com/segmentio/kafka-go/protocol (a dependency of /repo)

type kgoTag struct {
	min, max int
	nullable bool
	compact  bool
	tagged   bool
}

func kgoParseTag(tag string) []kgoTag {
	var out []kgoTag
	for _, alt := range strings.Split(tag, "|") {
		t := kgoTag{min: -1, max: -1}
		for _, o := range strings.Split(alt, ",") {
			switch {
			case strings.HasPrefix(o, "min=v"):
				fmt.Sscanf(o[5:], "%d", &t.min)
			case strings.HasPrefix(o, "max=v"):
				fmt.Sscanf(o[5:], "%d", &t.max)
			case o == "nullable":
				t.nullable = true
			case o == "compact":
				t.compact = true
			case o == "tag" || strings.HasPrefix(o, "tag="):
				t.tagged = true
			}
		}
		out = append(out, t)
	}
	return out
}

func kgoActive(f reflect.StructField, ver int) (kgoTag, bool) {
	tag, ok := f.Tag.Lookup("kafka")
	if !ok {
		return kgoTag{}, false
	}
	for _, t := range kgoParseTag(tag) {
		if t.min <= ver && ver <= t.max {
			return t, true
		}
	}
	return kgoTag{}, false
}

// kgoVersions: the version range and the first flexible version of a message type
func kgoVersions(t reflect.Type) (min, max, flex int) {
	min, max, flex = -1, -1, -1
	for i := 0; i < t.NumField(); i++ {
		tag, ok := t.Field(i).Tag.Lookup("kafka")
		if !ok {
			continue
		}
		for _, a := range kgoParseTag(tag) {
			if min < 0 || a.min < min {
				min = a.min
			}
			if a.max > max {
				max = a.max
			}
			if a.tagged && (flex < 0 || a.min < flex) {
				flex = a.min
			}
		}
	}
	return
}

var kgoRecordSet = reflect.TypeOf(kgoproto.RecordSet{})

// kgoTy: the wire schema of a kafka-go message type at one version. recordsV2 tells which
// record-set format the API version carries on the wire (record batches, magic 2).
func kgoTy(t reflect.Type, ver int, nullable bool, recordsV2 bool) (string, error) {
	if t == kgoRecordSet {
		if recordsV2 {
			return "recordSetTy", nil
		}
		return "(.prim .bytes)", nil
	}
	switch t.Kind() {
	case reflect.Bool:
		return "(.prim .bool)", nil
	case reflect.Int8:
		return "(.prim .int8)", nil
	case reflect.Int16:
		return "(.prim .int16)", nil
	case reflect.Int32:
		return "(.prim .int32)", nil
	case reflect.Int64:
		return "(.prim .int64)", nil
	case reflect.String:
		if nullable {
			return "(.prim .nstr)", nil
		}
		return "(.prim .str)", nil
	case reflect.Slice:
		if t.Elem().Kind() == reflect.Uint8 {
			return "(.prim .bytes)", nil
		}
		e, err := kgoTy(t.Elem(), ver, false, recordsV2)
		return "(.arr " + e + ")", err
	case reflect.Struct:
		var parts []string
		for i := 0; i < t.NumField(); i++ {
			f := t.Field(i)
			tag, ok := kgoActive(f, ver)
			if !ok || (f.Name == "_") {
				continue
			}
			if f.PkgPath != "" {
				continue
			}
			l, err := kgoTy(f.Type, ver, tag.nullable, recordsV2)
			if err != nil {
				return "", err
			}
			parts = append(parts, fmt.Sprintf("(%s, %s)", leanStr(f.Name), l))
		}
		return "(Ty.ofFields [" + strings.Join(parts, ", ") + "])", nil
	}
	return "", fmt.Errorf("kafka-go type %v: kind %v not translated", t, t.Kind())
}

type kgoApi struct {
	key       int
	req, resp reflect.Type
	// first API version whose record sets are record batches (magic 2); -1: no record sets
	recordsV2From int
}

var kgoApis = []kgoApi{
	{0, reflect.TypeOf(kgoproduce.Request{}), reflect.TypeOf(kgoproduce.Response{}), 3},
	{1, reflect.TypeOf(kgofetch.Request{}), reflect.TypeOf(kgofetch.Response{}), 4},
	{2, reflect.TypeOf(kgolistoffsets.Request{}), reflect.TypeOf(kgolistoffsets.Response{}), -1},
	{3, reflect.TypeOf(kgometadata.Request{}), reflect.TypeOf(kgometadata.Response{}), -1},
	{18, reflect.TypeOf(kgoapiversions.Request{}), reflect.TypeOf(kgoapiversions.Response{}), -1},
	{19, reflect.TypeOf(kgocreatetopics.Request{}), reflect.TypeOf(kgocreatetopics.Response{}), -1},
	{20, reflect.TypeOf(kgodeletetopics.Request{}), reflect.TypeOf(kgodeletetopics.Response{}), -1},
}

func init() {
	extraGens["GenKafkaProtocol.lean"] = genKafkaProtocol
}

func genKafkaProtocol() (string, error) {
	var b strings.Builder
	b.WriteString("/- GENERATED by ksextract from the struct tags of github.com/segmentio/kafka-go/protocol (the\n   version /repo's go.mod requires): the reference wire schemas - do not edit -/\nimport KsVerif.Kafka.Schema\n\nnamespace KsVerif.Generated.KafkaProtocol\nopen KsVerif.Kafka\n\n")
	b.WriteString("/-- (api key, version) ↦ (request schema, request flexible, response schema, response flexible) -/\ndef protoTable : List ((Int × Int) × (Ty × Bool × Ty × Bool)) := [\n")
	var rows []string
	for _, a := range kgoApis {
		qmin, qmax, qflex := kgoVersions(a.req)
		rmin, rmax, rflex := kgoVersions(a.resp)
		if qmin != rmin || qmax != rmax {
			return "", fmt.Errorf("kafka-go api %d: request versions %d-%d, response versions %d-%d", a.key, qmin, qmax, rmin, rmax)
		}
		for v := qmin; v <= qmax; v++ {
			v2 := a.recordsV2From >= 0 && v >= a.recordsV2From
			q, err := kgoTy(a.req, v, false, v2)
			if err != nil {
				return "", err
			}
			r, err := kgoTy(a.resp, v, false, v2)
			if err != nil {
				return "", err
			}
			rows = append(rows, fmt.Sprintf("  ((%d, %d), (%s, %v, %s, %v))", a.key, v, q, qflex >= 0 && v >= qflex, r, rflex >= 0 && v >= rflex))
		}
	}
	b.WriteString(strings.Join(rows, ",\n"))
	b.WriteString("\n]\n\nend KsVerif.Generated.KafkaProtocol\n")
	return b.String(), nil
}
