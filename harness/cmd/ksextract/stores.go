package main

import (
	"bytes"
	"encoding/json"
	"fmt"
	"go/ast"
	"go/parser"
	"go/printer"
	"go/token"
	"path/filepath"
	"sort"
)

// Store facts: every assignment in a source file whose target is a field (x.f = …, x.f++,
// x.f[i] = …), keyed by function and ordinal — not by line — so moving code does not change
// them.  Used for C18: nothing reachable from Eval may write to a field of a query node.
func init() {
	factGens["kfl_eval_stores.json"] = func() (string, error) {
		return storeFacts("pkg/languages/kfl/eval.go")
	}
}

func storeFacts(rel string) (string, error) {
	fset := token.NewFileSet()
	f, err := parser.ParseFile(fset, filepath.Join(repo, rel), nil, 0)
	if err != nil {
		return "", err
	}
	out := map[string][]string{}
	for _, d := range f.Decls {
		fd, ok := d.(*ast.FuncDecl)
		if !ok || fd.Body == nil {
			continue
		}
		name := fd.Name.Name
		var stores []string
		record := func(e ast.Expr) {
			base := e
			for {
				switch x := base.(type) {
				case *ast.IndexExpr:
					base = x.X
					continue
				case *ast.StarExpr:
					base = x.X
					continue
				case *ast.ParenExpr:
					base = x.X
					continue
				}
				break
			}
			if _, ok := base.(*ast.SelectorExpr); ok {
				var buf bytes.Buffer
				printer.Fprint(&buf, fset, e)
				stores = append(stores, buf.String())
			}
		}
		ast.Inspect(fd.Body, func(n ast.Node) bool {
			switch s := n.(type) {
			case *ast.AssignStmt:
				for _, l := range s.Lhs {
					record(l)
				}
			case *ast.IncDecStmt:
				record(s.X)
			}
			return true
		})
		if len(stores) > 0 {
			out[name] = stores
		}
	}
	keys := make([]string, 0, len(out))
	for k := range out {
		keys = append(keys, k)
	}
	sort.Strings(keys)
	ordered := map[string][]string{}
	for _, k := range keys {
		ordered[k] = out[k]
	}
	b, err := json.MarshalIndent(ordered, "", " ")
	if err != nil {
		return "", err
	}
	return fmt.Sprintf("%s\n", b), nil
}
