package main

import (
	"fmt"
	"go/ast"
	"go/parser"
	"go/token"
	"path/filepath"
	"sort"
	"strconv"
	"strings"
)

func init() {
	extraGens["GenAmqpMethods.lean"] = genAmqpMethods
	factGens["amqp_methods.txt"] = func() (string, error) {
		if _, err := genAmqpMethods(); err != nil {
			return "", err
		}
		return amqpMethodsFact, nil
	}
}

// "class method type field:kind field:kind ..." per line (bits as bits=name|name)
var amqpMethodsFact string

// genAmqpMethods translates pkg/extensions/amqp/spec091.go: for every (class, method) the
// struct parseMethodFrame instantiates and, from that struct's read function, the argument
// fields in wire order with their kinds; plus the property flags parseHeaderFrame tests, in
// order. Anything the translator does not recognise is an error (the proofs then fail).
func genAmqpMethods() (string, error) {
	fset := token.NewFileSet()
	dir := filepath.Join(repo, "pkg/extensions/amqp")
	spec, err := parser.ParseFile(fset, filepath.Join(dir, "spec091.go"), nil, 0)
	if err != nil {
		return "", err
	}
	types, err := parser.ParseFile(fset, filepath.Join(dir, "types.go"), nil, 0)
	if err != nil {
		return "", err
	}
	readgo, err := parser.ParseFile(fset, filepath.Join(dir, "read.go"), nil, 0)
	if err != nil {
		return "", err
	}
	// struct field types
	fieldTypes := map[string]map[string]string{}
	collect := func(f *ast.File) {
		for _, d := range f.Decls {
			gd, ok := d.(*ast.GenDecl)
			if !ok {
				continue
			}
			for _, s := range gd.Specs {
				ts, ok := s.(*ast.TypeSpec)
				if !ok {
					continue
				}
				st, ok := ts.Type.(*ast.StructType)
				if !ok {
					continue
				}
				m := map[string]string{}
				for _, fl := range st.Fields.List {
					tn := exprString(fl.Type)
					for _, n := range fl.Names {
						m[n.Name] = tn
					}
				}
				fieldTypes[ts.Name.Name] = m
			}
		}
	}
	collect(spec)
	collect(types)

	intKind := map[string]string{"uint8": "octet", "byte": "octet", "uint16": "short", "uint32": "long", "uint64": "longlong", "int64": "longlong", "int32": "long", "int16": "short"}
	callKind := map[string]string{"readShortStr": "shortstr", "readLongStr": "longstr", "readTable": "table", "readTimestamp": "timestamp"}

	// read functions
	type field struct{ name, kind string }
	reads := map[string][]field{}
	for _, d := range spec.Decls {
		fd, ok := d.(*ast.FuncDecl)
		if !ok || fd.Recv == nil || fd.Name.Name != "read" {
			continue
		}
		tname := recvName(fd)
		recv := fd.Recv.List[0].Names[0].Name
		var fields []field
		var bits []string
		flushBits := func() {
			if bits != nil {
				fields = append(fields, field{strings.Join(bits, ","), "bits"})
				bits = nil
			}
		}
		for _, st := range fd.Body.List {
			switch s := st.(type) {
			case *ast.DeclStmt: // var bits byte
				continue
			case *ast.ReturnStmt:
				continue
			case *ast.IfStmt:
				as, ok := s.Init.(*ast.AssignStmt)
				if !ok || len(as.Rhs) != 1 {
					return "", fmt.Errorf("%s.read: unsupported if", tname)
				}
				call, ok := as.Rhs[0].(*ast.CallExpr)
				if !ok {
					return "", fmt.Errorf("%s.read: unsupported init", tname)
				}
				fn := exprString(call.Fun)
				if fn == "binary.Read" {
					if len(call.Args) != 3 {
						return "", fmt.Errorf("%s.read: binary.Read arity", tname)
					}
					target := strings.TrimPrefix(exprString(call.Args[2]), "&")
					if target == "bits" {
						flushBits()
						bits = []string{}
						continue
					}
					flushBits()
					fname := strings.TrimPrefix(target, recv+".")
					k, ok := intKind[fieldTypes[tname][fname]]
					if !ok {
						return "", fmt.Errorf("%s.read: field %s of unsupported type %q", tname, fname, fieldTypes[tname][fname])
					}
					fields = append(fields, field{fname, k})
					continue
				}
				if k, ok := callKind[fn]; ok {
					flushBits()
					fname := strings.TrimPrefix(exprString(as.Lhs[0]), recv+".")
					fields = append(fields, field{fname, k})
					continue
				}
				return "", fmt.Errorf("%s.read: unsupported call %s", tname, fn)
			case *ast.AssignStmt: // msg.F = bits&(1<<k) > 0
				if bits == nil || len(s.Lhs) != 1 {
					return "", fmt.Errorf("%s.read: unexpected assignment", tname)
				}
				rhs := exprString(s.Rhs[0])
				want := fmt.Sprintf("bits&(1<<%d) > 0", len(bits))
				if strings.ReplaceAll(rhs, " ", "") != strings.ReplaceAll(want, " ", "") {
					return "", fmt.Errorf("%s.read: bit expression %q, expected %q", tname, rhs, want)
				}
				bits = append(bits, strings.TrimPrefix(exprString(s.Lhs[0]), recv+"."))
			default:
				return "", fmt.Errorf("%s.read: unsupported statement %T", tname, st)
			}
		}
		flushBits()
		reads[tname] = fields
	}

	// parseMethodFrame: (class, method) -> type
	type entry struct {
		class, method int
		typ           string
	}
	var entries []entry
	for _, d := range spec.Decls {
		fd, ok := d.(*ast.FuncDecl)
		if !ok || fd.Name.Name != "parseMethodFrame" {
			continue
		}
		ast.Inspect(fd.Body, func(n ast.Node) bool {
			sw, ok := n.(*ast.SwitchStmt)
			if !ok || exprString(sw.Tag) != "mf.ClassId" {
				return true
			}
			for _, cc := range sw.Body.List {
				c := cc.(*ast.CaseClause)
				if len(c.List) != 1 {
					continue
				}
				class, _ := strconv.Atoi(exprString(c.List[0]))
				for _, st := range c.Body {
					msw, ok := st.(*ast.SwitchStmt)
					if !ok {
						continue
					}
					for _, mc := range msw.Body.List {
						m := mc.(*ast.CaseClause)
						if len(m.List) != 1 {
							continue
						}
						method, _ := strconv.Atoi(exprString(m.List[0]))
						typ := ""
						ast.Inspect(m, func(x ast.Node) bool {
							if cl, ok := x.(*ast.CompositeLit); ok && typ == "" {
								typ = exprString(cl.Type)
							}
							return true
						})
						entries = append(entries, entry{class, method, typ})
					}
				}
			}
			return false
		})
	}
	if len(entries) == 0 {
		return "", fmt.Errorf("parseMethodFrame table not found")
	}
	sort.Slice(entries, func(i, j int) bool {
		if entries[i].class != entries[j].class {
			return entries[i].class < entries[j].class
		}
		return entries[i].method < entries[j].method
	})

	// property flags in the order parseHeaderFrame tests them
	consts := map[string]string{}
	for _, d := range types.Decls {
		gd, ok := d.(*ast.GenDecl)
		if !ok || gd.Tok != token.CONST {
			continue
		}
		for _, s := range gd.Specs {
			vs := s.(*ast.ValueSpec)
			for i, n := range vs.Names {
				if i < len(vs.Values) {
					consts[n.Name] = exprString(vs.Values[i])
				}
			}
		}
	}
	type prop struct {
		flag  int64
		field string
		kind  string
	}
	var props []prop
	maxHeader := ""
	for _, d := range readgo.Decls {
		fd, ok := d.(*ast.FuncDecl)
		if !ok || fd.Name.Name != "parseHeaderFrame" {
			continue
		}
		for _, st := range fd.Body.List {
			is, ok := st.(*ast.IfStmt)
			if !ok {
				continue
			}
			if be, ok := is.Cond.(*ast.BinaryExpr); ok && exprString(be.X) == "hf.Size" {
				maxHeader = exprString(be.Y)
			}
			call, ok := is.Cond.(*ast.CallExpr)
			if !ok || exprString(call.Fun) != "hasProperty" {
				continue
			}
			flagName := exprString(call.Args[1])
			v, err := strconv.ParseInt(consts[flagName], 0, 64)
			if err != nil {
				return "", fmt.Errorf("flag %s: %v", flagName, err)
			}
			inner, ok := is.Body.List[0].(*ast.IfStmt)
			if !ok {
				return "", fmt.Errorf("parseHeaderFrame: unsupported property body")
			}
			as := inner.Init.(*ast.AssignStmt)
			c := as.Rhs[0].(*ast.CallExpr)
			fn := exprString(c.Fun)
			var fname, kind string
			if fn == "binary.Read" {
				fname = strings.TrimPrefix(exprString(c.Args[2]), "&hf.Properties.")
				kind = intKind[fieldTypes["Properties"][fname]]
			} else {
				fname = strings.TrimPrefix(exprString(as.Lhs[0]), "hf.Properties.")
				kind = callKind[fn]
			}
			if kind == "" {
				return "", fmt.Errorf("parseHeaderFrame: property %s of unknown kind", fname)
			}
			props = append(props, prop{v, fname, kind})
		}
	}
	if len(props) == 0 {
		return "", fmt.Errorf("parseHeaderFrame properties not found")
	}

	var sb strings.Builder
	sb.WriteString("-- GENERATED by ksextract from pkg/extensions/amqp/spec091.go, types.go, read.go; do not edit.\n")
	sb.WriteString("import KsVerif.Amqp.Kinds\n\nnamespace KsVerif.Gen.Amqp\nopen KsVerif.Amqp (Kind)\n\n")
	sb.WriteString("/-- (class, method, Go type, argument fields in wire order) -/\n")
	sb.WriteString("def methods : List (Nat × Nat × String × List (String × Kind)) := [\n")
	var fact strings.Builder
	for i, e := range entries {
		fs, ok := reads[e.typ]
		if !ok {
			return "", fmt.Errorf("no read function for %s", e.typ)
		}
		fmt.Fprintf(&fact, "%d %d %s", e.class, e.method, e.typ)
		for _, f := range fs {
			if f.kind == "bits" {
				fmt.Fprintf(&fact, " bits=%s", strings.ReplaceAll(f.name, ",", "|"))
			} else {
				fmt.Fprintf(&fact, " %s:%s", f.name, f.kind)
			}
		}
		fact.WriteString("\n")
		var parts []string
		for _, f := range fs {
			if f.kind == "bits" {
				var names []string
				for _, n := range strings.Split(f.name, ",") {
					names = append(names, strconv.Quote(n))
				}
				parts = append(parts, fmt.Sprintf("(\"\", .bits [%s])", strings.Join(names, ", ")))
			} else {
				parts = append(parts, fmt.Sprintf("(%s, .%s)", strconv.Quote(f.name), f.kind))
			}
		}
		sep := ","
		if i == len(entries)-1 {
			sep = ""
		}
		fmt.Fprintf(&sb, "  (%d, %d, %s, [%s])%s\n", e.class, e.method, strconv.Quote(e.typ), strings.Join(parts, ", "), sep)
	}
	amqpMethodsFact = fact.String()
	sb.WriteString("]\n\n/-- content-header properties: (flag bit, field, kind) in the order they are read -/\n")
	sb.WriteString("def properties : List (Nat × String × Kind) := [\n")
	for i, p := range props {
		sep := ","
		if i == len(props)-1 {
			sep = ""
		}
		fmt.Fprintf(&sb, "  (%d, %s, .%s)%s\n", p.flag, strconv.Quote(p.field), p.kind, sep)
	}
	sb.WriteString("]\n\n")
	_ = maxHeader
	// display names: the <class>MethodMap tables of helpers.go
	helpers, err := parser.ParseFile(fset, filepath.Join(dir, "helpers.go"), nil, 0)
	if err != nil {
		return "", err
	}
	classOf := map[string]int{"connectionMethodMap": 10, "channelMethodMap": 20, "exchangeMethodMap": 40, "queueMethodMap": 50, "basicMethodMap": 60}
	type nm struct {
		c, m int
		name string
	}
	var names []nm
	for _, d := range helpers.Decls {
		gd, ok := d.(*ast.GenDecl)
		if !ok || gd.Tok != token.VAR {
			continue
		}
		for _, sp := range gd.Specs {
			vs := sp.(*ast.ValueSpec)
			if len(vs.Names) != 1 || len(vs.Values) != 1 {
				continue
			}
			c, ok := classOf[vs.Names[0].Name]
			if !ok {
				continue
			}
			cl, ok := vs.Values[0].(*ast.CompositeLit)
			if !ok {
				continue
			}
			for _, e := range cl.Elts {
				kv := e.(*ast.KeyValueExpr)
				m, _ := strconv.Atoi(exprString(kv.Key))
				v, _ := strconv.Unquote(exprString(kv.Value))
				names = append(names, nm{c, m, v})
			}
		}
	}
	if len(names) == 0 {
		return "", fmt.Errorf("method name maps not found")
	}
	sort.Slice(names, func(i, j int) bool {
		if names[i].c != names[j].c {
			return names[i].c < names[j].c
		}
		return names[i].m < names[j].m
	})
	sb.WriteString("/-- display names of methods: (class, method, name) -/\ndef methodNames : List (Nat × Nat × String) := [\n")
	for i, n := range names {
		sep := ","
		if i == len(names)-1 {
			sep = ""
		}
		fmt.Fprintf(&sb, "  (%d, %d, %s)%s\n", n.c, n.m, strconv.Quote(n.name), sep)
	}
	sb.WriteString("]\n")
	sb.WriteString("\nend KsVerif.Gen.Amqp\n")
	return sb.String(), nil
}

func exprString(e ast.Expr) string {
	switch x := e.(type) {
	case *ast.Ident:
		return x.Name
	case *ast.SelectorExpr:
		return exprString(x.X) + "." + x.Sel.Name
	case *ast.StarExpr:
		return "*" + exprString(x.X)
	case *ast.UnaryExpr:
		return x.Op.String() + exprString(x.X)
	case *ast.BasicLit:
		return x.Value
	case *ast.ParenExpr:
		return "(" + exprString(x.X) + ")"
	case *ast.BinaryExpr:
		return exprString(x.X) + " " + x.Op.String() + " " + exprString(x.Y)
	case *ast.ArrayType:
		return "[]" + exprString(x.Elt)
	case *ast.CallExpr:
		return exprString(x.Fun) + "(...)"
	}
	return fmt.Sprintf("%T", e)
}
