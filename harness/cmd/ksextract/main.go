// ksextract regenerates, from /repo's current working tree, the Lean definitions the
// theorems are stated over (KsVerif/Generated/*.lean) and fact files (facts/*.json).
// It is a deliberately small translator: each extractor handles one code shape and emits
// `unsupported` markers (which break the proof obligations) for anything it cannot read.
package main

import (
	"fmt"
	"os"
	"path/filepath"
)

var repo = "/repo"

func main() {
	if len(os.Args) < 3 {
		fmt.Fprintln(os.Stderr, "usage: ksextract <repo> <outdir-lean-generated> [facts-dir]")
		os.Exit(2)
	}
	repo = os.Args[1]
	out := os.Args[2]
	facts := ""
	if len(os.Args) > 3 {
		facts = os.Args[3]
	}
	must(os.MkdirAll(out, 0o755))
	gens := map[string]func() (string, error){
		"GenReadProgress.lean": genReadProgress,
		"GenAtomicShapes.lean": genAtomicShapes,
	}
	for name, g := range extraGens {
		gens[name] = g
	}
	failed := false
	for name, g := range gens {
		txt, err := g()
		if err != nil {
			fmt.Fprintf(os.Stderr, "ksextract: %s: %v\n", name, err)
			failed = true
			continue
		}
		writeIfChanged(filepath.Join(out, name), txt)
	}
	if facts != "" {
		must(os.MkdirAll(facts, 0o755))
		for name, g := range factGens {
			txt, err := g()
			if err != nil {
				fmt.Fprintf(os.Stderr, "ksextract: %s: %v\n", name, err)
				failed = true
				continue
			}
			writeIfChanged(filepath.Join(facts, name), txt)
		}
	}
	if failed {
		os.Exit(1)
	}
}

var extraGens = map[string]func() (string, error){}
var factGens = map[string]func() (string, error){}

func must(err error) {
	if err != nil {
		fmt.Fprintln(os.Stderr, "ksextract:", err)
		os.Exit(1)
	}
}

func writeIfChanged(path, txt string) {
	old, err := os.ReadFile(path)
	if err == nil && string(old) == txt {
		return
	}
	must(os.WriteFile(path, []byte(txt), 0o644))
}
