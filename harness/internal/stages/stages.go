// Package stages runs an emitted item through the stages after dissection the way worker
// and hub do: JSON round trip of the item, Analyze, JSON round trip of the entry, Summarize,
// Represent.
package stages

import (
	"encoding/json"
	"fmt"

	"github.com/kubeshark/base/pkg/api"
)

type Result struct {
	Panic     string // non-empty: the stage that panicked and the message
	Err       string // non-empty: a stage returned an error
	Entry     *api.Entry
	Base      *api.BaseEntry
	Rep       []byte
	EntryJSON []byte
}

func Run(d api.Dissector, item *api.OutputChannelItem) (res Result) {
	stage := "marshal-item"
	defer func() {
		if r := recover(); r != nil {
			res.Panic = fmt.Sprintf("%s: %v", stage, r)
		}
	}()
	b, err := json.Marshal(item)
	if err != nil {
		res.Err = "marshal-item: " + err.Error()
		return
	}
	var it api.OutputChannelItem
	if err := json.Unmarshal(b, &it); err != nil {
		res.Err = "unmarshal-item: " + err.Error()
		return
	}
	stage = "analyze"
	entry := d.Analyze(&it, &api.Resolution{IP: "10.0.0.1", Port: "40000"}, &api.Resolution{IP: "10.0.0.2", Port: "80"})
	stage = "marshal-entry"
	eb, err := json.Marshal(entry)
	if err != nil {
		res.Err = "marshal-entry: " + err.Error()
		return
	}
	res.EntryJSON = eb
	var e2 api.Entry
	if err := json.Unmarshal(eb, &e2); err != nil {
		res.Err = "unmarshal-entry: " + err.Error()
		return
	}
	res.Entry = &e2
	stage = "summarize"
	res.Base = d.Summarize(&e2)
	stage = "represent"
	rep, err := d.Represent(e2.Request, e2.Response)
	if err != nil {
		res.Err = "represent: " + err.Error()
		return
	}
	res.Rep = rep
	return
}

// WellFormed checks the representation: an object whose "request" and "response" are lists
// of sections of type table or body; the data of a table section is a JSON list of
// name/value/selector objects.
func WellFormed(rep []byte) string {
	var top map[string]interface{}
	if err := json.Unmarshal(rep, &top); err != nil {
		return "representation is not a JSON object: " + err.Error()
	}
	for _, side := range []string{"request", "response"} {
		v, ok := top[side]
		if !ok {
			return "missing " + side
		}
		if v == nil {
			continue
		}
		secs, ok := v.([]interface{})
		if !ok {
			return side + " is not a list"
		}
		for _, s := range secs {
			sec, ok := s.(map[string]interface{})
			if !ok {
				return side + " section is not an object"
			}
			typ, _ := sec["type"].(string)
			data, isStr := sec["data"].(string)
			switch typ {
			case api.TABLE:
				if !isStr {
					return "table data is not a string"
				}
				var rows []map[string]interface{}
				if err := json.Unmarshal([]byte(data), &rows); err != nil {
					return "table data does not parse: " + err.Error()
				}
			case api.BODY:
				if !isStr {
					return "body data is not a string"
				}
			default:
				return "section of unknown type " + typ
			}
		}
	}
	return ""
}
