// Package sx is the Go side of the S-expression line protocol shared with the Lean driver.
package sx

import (
	"encoding/hex"
	"fmt"
	"strconv"
	"strings"
)

// Sx is an atom (List == nil && !IsList) or a list.
type Sx struct {
	Atom   string
	List   []Sx
	IsList bool
}

func A(s string) Sx { return Sx{Atom: s} }
func L(xs ...Sx) Sx { return Sx{List: xs, IsList: true} }
func B(b []byte) Sx { return Sx{Atom: "#" + hex.EncodeToString(b)} }
func S(s string) Sx { return B([]byte(s)) }
func I(n int64) Sx  { return Sx{Atom: strconv.FormatInt(n, 10)} }
func U(n uint64) Sx { return Sx{Atom: strconv.FormatUint(n, 10)} }
func N(n int) Sx    { return I(int64(n)) }
func Bool(b bool) Sx {
	if b {
		return A("true")
	}
	return A("false")
}

func (x Sx) String() string {
	var sb strings.Builder
	x.write(&sb)
	return sb.String()
}

func (x Sx) write(sb *strings.Builder) {
	if !x.IsList {
		sb.WriteString(x.Atom)
		return
	}
	sb.WriteByte('(')
	for i, y := range x.List {
		if i > 0 {
			sb.WriteByte(' ')
		}
		y.write(sb)
	}
	sb.WriteByte(')')
}

func Parse(s string) (Sx, error) {
	p := &parser{s: s}
	x, err := p.parse()
	if err != nil {
		return Sx{}, err
	}
	p.skip()
	if p.i != len(p.s) {
		return Sx{}, fmt.Errorf("trailing input at %d", p.i)
	}
	return x, nil
}

type parser struct {
	s string
	i int
}

func (p *parser) skip() {
	for p.i < len(p.s) && (p.s[p.i] == ' ' || p.s[p.i] == '\t' || p.s[p.i] == '\n' || p.s[p.i] == '\r') {
		p.i++
	}
}

func (p *parser) parse() (Sx, error) {
	p.skip()
	if p.i >= len(p.s) {
		return Sx{}, fmt.Errorf("unexpected end")
	}
	if p.s[p.i] == ')' {
		return Sx{}, fmt.Errorf("unexpected )")
	}
	if p.s[p.i] == '(' {
		p.i++
		out := Sx{IsList: true, List: []Sx{}}
		for {
			p.skip()
			if p.i >= len(p.s) {
				return Sx{}, fmt.Errorf("unterminated list")
			}
			if p.s[p.i] == ')' {
				p.i++
				return out, nil
			}
			y, err := p.parse()
			if err != nil {
				return Sx{}, err
			}
			out.List = append(out.List, y)
		}
	}
	j := p.i
	for j < len(p.s) && !strings.ContainsRune(" \t\n\r()", rune(p.s[j])) {
		j++
	}
	a := p.s[p.i:j]
	p.i = j
	return Sx{Atom: a}, nil
}

func (x Sx) Bytes() []byte {
	if x.IsList || !strings.HasPrefix(x.Atom, "#") {
		panic("sx: not bytes: " + x.String())
	}
	b, err := hex.DecodeString(x.Atom[1:])
	if err != nil {
		panic(err)
	}
	return b
}

func (x Sx) Str() string { return string(x.Bytes()) }

func (x Sx) Int() int64 {
	n, err := strconv.ParseInt(x.Atom, 10, 64)
	if err != nil {
		panic("sx: not int: " + x.String())
	}
	return n
}

func (x Sx) Sym() string {
	if x.IsList {
		panic("sx: not atom: " + x.String())
	}
	return x.Atom
}
