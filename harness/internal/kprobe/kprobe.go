// Package kprobe learns, from the running Kafka dissector, which payload layout it selects for an
// (api key, version): a header-only request is run through Dissect and the Go type of the payload it
// registered (and, after a header-only response, of the response payload it emitted) is read back by
// reflection.  Shared by ksextract (layout table for the Lean model) and ksharness (layout-directed
// generator).
package kprobe

import (
	"bufio"
	"bytes"
	"encoding/binary"
	"fmt"
	"reflect"

	"github.com/kubeshark/base/pkg/api"
	kafkaExt "github.com/kubeshark/base/pkg/extensions/kafka"

	"ksverif/harness/internal/mock"
)

func ReqBytes(api, ver, corr int) []byte {
	b := &bytes.Buffer{}
	_ = binary.Write(b, binary.BigEndian, int32(10))
	_ = binary.Write(b, binary.BigEndian, int16(api))
	_ = binary.Write(b, binary.BigEndian, int16(ver))
	_ = binary.Write(b, binary.BigEndian, int32(corr))
	_ = binary.Write(b, binary.BigEndian, int16(0))
	return b.Bytes()
}

func RespBytes(corr int) []byte {
	b := &bytes.Buffer{}
	_ = binary.Write(b, binary.BigEndian, int32(4))
	_ = binary.Write(b, binary.BigEndian, int32(corr))
	return b.Bytes()
}

// Probe returns the request payload type and the response payload type selected for
// (api, ver); nil when nothing was registered / emitted.
func Probe(apiKey, ver int) (req, resp reflect.Type, err error) {
	defer func() {
		if r := recover(); r != nil {
			err = fmt.Errorf("probe api=%d version=%d panicked: %v", apiKey, ver, r)
		}
	}()
	d := kafkaExt.NewDissector()
	m := d.NewResponseRequestMatcher()
	m.SetMaxTry(2)
	out := make(chan *api.OutputChannelItem, 16)
	conn := mock.NewConn(d, m, &api.AppStats{}, out, "pcap0", "10.0.0.1", "40000", "10.0.0.2", "9092")
	_ = d.Dissect(bufio.NewReader(bytes.NewReader(ReqBytes(apiKey, ver, 7))), conn.Client)
	m.GetMap().Range(func(k, v interface{}) bool {
		if r, ok := v.(*kafkaExt.Request); ok && r.Payload != nil {
			req = reflect.TypeOf(r.Payload)
		}
		return true
	})
	_ = d.Dissect(bufio.NewReader(bytes.NewReader(RespBytes(7))), conn.Server)
	close(out)
	for it := range out {
		p, ok := it.Pair.Response.Payload.(kafkaExt.KafkaPayload)
		if !ok {
			return nil, nil, fmt.Errorf("response payload is %T", it.Pair.Response.Payload)
		}
		w, ok := p.Data.(*kafkaExt.KafkaWrapper)
		if !ok {
			return nil, nil, fmt.Errorf("response data is %T", p.Data)
		}
		r, ok := w.Details.(kafkaExt.Response)
		if !ok {
			return nil, nil, fmt.Errorf("response details is %T", w.Details)
		}
		if r.Payload != nil {
			resp = reflect.TypeOf(r.Payload)
		}
	}
	for _, t := range []*reflect.Type{&req, &resp} {
		if *t != nil {
			if (*t).Kind() != reflect.Ptr || (*t).Elem().Kind() != reflect.Struct {
				return nil, nil, fmt.Errorf("payload type %v is not a pointer to a struct", *t)
			}
			*t = (*t).Elem()
		}
	}
	return
}
