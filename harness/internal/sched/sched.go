//go:build verif

// Package sched is a deterministic scheduler for goroutines of the real code, driven by
// the yield points of github.com/kubeshark/base/pkg/verifhook. One controlled task runs at
// a time; it runs until its next yield point, its end, or until it blocks on a mutex held
// by a parked task (detected from the goroutine's wait reason).
package sched

import (
	"bytes"
	"fmt"
	"runtime"
	"strconv"
	"sync"
	"time"

	"github.com/kubeshark/base/pkg/verifhook"
)

type state int

const (
	parked state = iota // waiting for the scheduler at a yield point (or at its start)
	running
	blocked // waiting for a lock held by another task
	done
)

type task struct {
	id     int
	gid    int64
	resume chan struct{}
	st     state
	point  string
}

type event struct {
	t     *task
	kind  string // "yield", "done"
	point string
}

// Step records one scheduling decision.
type Step struct {
	Task    int
	Enabled []int
	Point   string // the point the task was parked at when chosen ("start" initially)
	After   string // where the step ended: a yield point, "done" or "blocked"
}

// LogEntry: what happened, in the order the scheduler saw it - a task resumed by the scheduler, or a
// task arriving at a yield point / finishing (also one that had been blocked and moved on by itself
// once the lock it waited for was released).
type LogEntry struct {
	Kind  string // "resume", "yield", "done"
	Task  int
	Point string
}

// Result of one controlled execution.
type Result struct {
	Steps    []Step
	Log      []LogEntry
	Panics   []string
	Deadlock bool
}

var runMu sync.Mutex

func goid() int64 {
	var buf [64]byte
	n := runtime.Stack(buf[:], false)
	// "goroutine 123 [running]:"
	b := buf[:n]
	b = b[len("goroutine "):]
	i := bytes.IndexByte(b, ' ')
	id, _ := strconv.ParseInt(string(b[:i]), 10, 64)
	return id
}

// waitReason returns the bracketed status of goroutine gid in a full stack dump.
func waitReason(gid int64) string {
	buf := make([]byte, 1<<16)
	for {
		n := runtime.Stack(buf, true)
		if n < len(buf) {
			buf = buf[:n]
			break
		}
		buf = make([]byte, 2*len(buf))
	}
	needle := []byte(fmt.Sprintf("goroutine %d [", gid))
	i := bytes.Index(buf, needle)
	if i < 0 {
		return ""
	}
	rest := buf[i+len(needle):]
	j := bytes.IndexByte(rest, ']')
	if j < 0 {
		return ""
	}
	return string(rest[:j])
}

func isLockWait(reason string) bool {
	return bytes.HasPrefix([]byte(reason), []byte("sync.Mutex.Lock")) ||
		bytes.HasPrefix([]byte(reason), []byte("sync.RWMutex")) ||
		bytes.HasPrefix([]byte(reason), []byte("semacquire"))
}

// Chooser picks the index (into enabled) of the task to run next.
type Chooser func(step int, enabled []int, points []string) int

// Run executes fns as controlled tasks under the given chooser. preempt reports whether a
// yield point is a scheduling point (others are passed through without parking).
func Run(fns []func(), preempt func(point string) bool, choose Chooser) Result {
	runMu.Lock()
	defer runMu.Unlock()

	var res Result
	var resMu sync.Mutex
	events := make(chan event, 4*len(fns)+4)
	tasks := make([]*task, len(fns))
	var byGid sync.Map

	verifhook.SetHandler(func(point string) {
		v, ok := byGid.Load(goid())
		if !ok {
			return
		}
		if preempt != nil && !preempt(point) {
			return
		}
		t := v.(*task)
		events <- event{t: t, kind: "yield", point: point}
		<-t.resume
	})
	defer verifhook.SetHandler(nil)

	var started sync.WaitGroup
	for i, fn := range fns {
		t := &task{id: i, resume: make(chan struct{}), st: parked, point: "start"}
		tasks[i] = t
		started.Add(1)
		fn := fn
		go func() {
			t.gid = goid()
			byGid.Store(t.gid, t)
			started.Done()
			<-t.resume
			defer func() {
				if r := recover(); r != nil {
					resMu.Lock()
					res.Panics = append(res.Panics, fmt.Sprintf("task%d: %v", t.id, r))
					resMu.Unlock()
				}
				events <- event{t: t, kind: "done"}
			}()
			fn()
		}()
	}
	started.Wait()

	apply := func(ev event) {
		res.Log = append(res.Log, LogEntry{Kind: ev.kind, Task: ev.t.id, Point: ev.point})
		switch ev.kind {
		case "yield":
			ev.t.st = parked
			ev.t.point = ev.point
		case "done":
			ev.t.st = done
		}
	}

	step := 0
	for {
		// drain pending events (from tasks that were blocked and have since moved on)
		for drained := false; !drained; {
			select {
			case ev := <-events:
				apply(ev)
			default:
				drained = true
			}
		}
		// a task that was blocked and whose lock has been released is running by itself: let it settle
		// (park, finish or block again) before the next decision, so that decisions do not race with it
		for waited := 0; waited < 10000; waited++ {
			settled := true
			for _, t := range tasks {
				if t.st == blocked && !isLockWait(waitReason(t.gid)) {
					settled = false
				}
			}
			if settled {
				break
			}
			select {
			case ev := <-events:
				apply(ev)
			case <-time.After(200 * time.Microsecond):
			}
		}
		var enabled []int
		var points []string
		anyBlocked := false
		for _, t := range tasks {
			if t.st == parked {
				enabled = append(enabled, t.id)
				points = append(points, t.point)
			}
			if t.st == blocked {
				anyBlocked = true
			}
		}
		if len(enabled) == 0 {
			if anyBlocked {
				// blocked tasks may be about to proceed: wait for an event
				select {
				case ev := <-events:
					apply(ev)
					continue
				case <-time.After(2 * time.Second):
					res.Deadlock = true
					return res
				}
			}
			return res
		}
		k := choose(step, enabled, points)
		if k < 0 || k >= len(enabled) {
			k = 0
		}
		cur := tasks[enabled[k]]
		res.Steps = append(res.Steps, Step{Task: cur.id, Enabled: enabled, Point: cur.point})
		step++
		cur.st = running
		res.Log = append(res.Log, LogEntry{Kind: "resume", Task: cur.id})
		cur.resume <- struct{}{}
		// wait until cur parks, ends or blocks
		spins := 0
		lockSeen := 0 // consecutive samples that found the task waiting for a lock
		stepIx := len(res.Steps) - 1
		for cur.st == running {
			select {
			case ev := <-events:
				apply(ev)
			case <-time.After(time.Duration(50+50*spins) * time.Microsecond):
				spins++
				r := waitReason(cur.gid)
				if isLockWait(r) {
					// a task blocked by a parked task stays blocked; a momentary wait (the runtime's
					// or a library's own short critical sections under load) goes away: only four
					// consecutive samples, at least 2 ms apart in total, count
					lockSeen++
					if lockSeen >= 4 {
						cur.st = blocked
					} else {
						time.Sleep(700 * time.Microsecond)
					}
				} else {
					lockSeen = 0
					if spins > 20000 {
						res.Deadlock = true
						return res
					}
				}
			}
		}
		switch cur.st {
		case parked:
			res.Steps[stepIx].After = cur.point
		case done:
			res.Steps[stepIx].After = "done"
		case blocked:
			res.Steps[stepIx].After = "blocked"
		}
	}
}

// Explore enumerates schedules depth-first (stateless): run is called with a chooser and
// must build fresh tasks every time. It returns the number of executions performed.
// visit is called after each execution with the choices made; returning false stops.
func Explore(limit int, run func(choose Chooser) Result, visit func(choices []int, r Result) bool) (int, bool) {
	prefix := []int{}
	count := 0
	for {
		var widths []int
		var taken []int
		choose := func(step int, enabled []int, points []string) int {
			k := 0
			if step < len(prefix) {
				k = prefix[step]
			}
			widths = append(widths, len(enabled))
			taken = append(taken, k)
			return k
		}
		r := run(choose)
		count++
		if !visit(taken, r) {
			return count, false
		}
		if limit > 0 && count >= limit {
			return count, false
		}
		// next prefix: last position with an untried alternative
		i := len(taken) - 1
		for i >= 0 && taken[i]+1 >= widths[i] {
			i--
		}
		if i < 0 {
			return count, true
		}
		prefix = append(append([]int{}, taken[:i]...), taken[i]+1)
	}
}

// Replay returns a chooser following the given task ids (not indices); when the wanted
// task is not enabled it falls back to the first enabled one.
func Replay(order []int) Chooser {
	return func(step int, enabled []int, points []string) int {
		if step < len(order) {
			for k, id := range enabled {
				if id == order[step] {
					return k
				}
			}
		}
		return 0
	}
}
