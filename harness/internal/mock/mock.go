// Package mock provides the tap-side objects (TcpReader, TcpStream, Emitter) a dissector
// is handed in production, backed by in-memory data.
package mock

import (
	"sync"
	"sync/atomic"
	"time"

	"github.com/kubeshark/base/pkg/api"
)

type Stream struct {
	PcapId    string
	Closed    bool // what GetIsClosed reports (a stream closed by FIN / timeout while its halves still drain)
	itemCount int64
	Protocol  *api.Protocol
	mu        sync.Mutex
}

func (t *Stream) SetProtocol(p *api.Protocol) { t.mu.Lock(); t.Protocol = p; t.mu.Unlock() }
func (t *Stream) SetAsEmittable()             {}
func (t *Stream) GetPcapId() string           { return t.PcapId }
func (t *Stream) GetIndex() int64             { return atomic.LoadInt64(&t.itemCount) }
func (t *Stream) GetIsIdentifyMode() bool     { return false }
func (t *Stream) GetReqResMatchers() []api.RequestResponseMatcher {
	return nil
}
func (t *Stream) GetIsTargeted() bool { return true }
func (t *Stream) GetIsClosed() bool   { return t.Closed }
func (t *Stream) IncrementItemCount() { atomic.AddInt64(&t.itemCount, 1) }
func (t *Stream) Count() int64        { return atomic.LoadInt64(&t.itemCount) }

type Reader struct {
	TcpID       *api.TcpID
	IsClient    bool
	Progress    *api.ReadProgress
	CaptureTime time.Time
	Parent      api.TcpStream
	Emitter     api.Emitter
	CounterPair *api.CounterPair
	Matcher     api.RequestResponseMatcher
}

func (r *Reader) Read(p []byte) (int, error)                   { return 0, nil }
func (r *Reader) GetReqResMatcher() api.RequestResponseMatcher { return r.Matcher }
func (r *Reader) GetIsClient() bool                            { return r.IsClient }
func (r *Reader) GetReadProgress() *api.ReadProgress           { return r.Progress }
func (r *Reader) GetParent() api.TcpStream                     { return r.Parent }
func (r *Reader) GetTcpID() *api.TcpID                         { return r.TcpID }
func (r *Reader) GetCounterPair() *api.CounterPair             { return r.CounterPair }
func (r *Reader) GetCaptureTime() time.Time                    { return r.CaptureTime }
func (r *Reader) GetEmitter() api.Emitter                      { return r.Emitter }
func (r *Reader) GetIsClosed() bool                            { return false }

// Conn bundles what the two halves of one connection share.
type Conn struct {
	Stream  *Stream
	Stats   *api.AppStats
	Out     chan *api.OutputChannelItem
	Emitter *api.Emitting
	Counter *api.CounterPair
	Matcher api.RequestResponseMatcher
	Client  *Reader
	Server  *Reader
}

var T0 = time.Unix(1700000000, 0).UTC()

// NewConn builds a connection client cip:cport -> server sip:sport. The TcpID of the
// server half has source and destination swapped, as the tap does.
func NewConn(d api.Dissector, matcher api.RequestResponseMatcher, stats *api.AppStats, out chan *api.OutputChannelItem, pcap, cip, cport, sip, sport string) *Conn {
	st := &Stream{PcapId: pcap}
	em := &api.Emitting{AppStats: stats, Stream: st, OutputChannel: out}
	cp := &api.CounterPair{}
	c := &Conn{Stream: st, Stats: stats, Out: out, Emitter: em, Counter: cp, Matcher: matcher}
	c.Client = &Reader{
		TcpID:    &api.TcpID{SrcIP: cip, DstIP: sip, SrcPort: cport, DstPort: sport},
		IsClient: true, Progress: &api.ReadProgress{}, CaptureTime: T0, Parent: st, Emitter: em, CounterPair: cp, Matcher: matcher,
	}
	c.Server = &Reader{
		TcpID:    &api.TcpID{SrcIP: sip, DstIP: cip, SrcPort: sport, DstPort: cport},
		IsClient: false, Progress: &api.ReadProgress{}, CaptureTime: T0.Add(5 * time.Millisecond), Parent: st, Emitter: em, CounterPair: cp, Matcher: matcher,
	}
	return c
}
