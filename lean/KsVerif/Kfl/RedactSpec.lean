/-
  Spec of C15: what a redaction of paths p1 … pn must do to a record — the marker at every
  location the paths denote (also inside JSON held, plainly or base64-wrapped, in string
  fields reached through `.json()`), every other location unchanged, no key added.
  Written as a direct structural rewrite; nothing here uses `jp.Set` or the model of redact.
-/
import KsVerif.Kfl.Eval

namespace KsVerif.Kfl.RedactSpec
open KsVerif.Kfl

def marker : Json := .str REDACTED

mutual
  /-- replace by `f` exactly the values the path denotes; never create a member -/
  def rewriteAt : Nat → Path → (Json → Json) → Json → Json
    | 0, _, _, j => j
    | _ + 1, [], f, j => f j
    | fuel + 1, .root :: r, f, j => rewriteAt fuel r f j
    | fuel + 1, .child k :: r, f, j =>
      match j with
      | .obj kvs => .obj (kvs.map fun kv => if kv.1 == k then (kv.1, rewriteAt fuel r f kv.2) else kv)
      | _ => j
    | fuel + 1, .nth n :: r, f, j =>
      match j with
      | .arr xs =>
        let i : Int := if n < 0 then (xs.length : Int) + n else n
        if i < 0 then j else .arr (xs.mapIdx fun idx x => if idx == i.toNat then rewriteAt fuel r f x else x)
      | _ => j
    | fuel + 1, .wildcard :: r, f, j =>
      match j with
      | .arr xs => .arr (rewriteEach fuel r f xs)
      | .obj kvs => .obj ((kvs.map (·.1)).zip (rewriteEach fuel r f (kvs.map (·.2))))
      | _ => j
    | fuel + 1, .descent :: r, f, j =>
      -- the node itself and every descendant
      let j' := match j with
        | .arr xs => Json.arr (rewriteDesc fuel r f xs)
        | .obj kvs => .obj ((kvs.map (·.1)).zip (rewriteDesc fuel r f (kvs.map (·.2))))
        | x => x
      rewriteAt fuel r f j'
  def rewriteEach : Nat → Path → (Json → Json) → List Json → List Json
    | 0, _, _, xs => xs
    | _ + 1, _, _, [] => []
    | fuel + 1, r, f, x :: xs => rewriteAt fuel r f x :: rewriteEach fuel r f xs
  def rewriteDesc : Nat → Path → (Json → Json) → List Json → List Json
    | 0, _, _, xs => xs
    | _ + 1, _, _, [] => []
    | fuel + 1, r, f, x :: xs => rewriteAt fuel (.descent :: r) f x :: rewriteDesc fuel r f xs
end

/-- a string field holding a JSON document, plainly or base64-wrapped: apply `g` inside -/
def insideDoc (g : Json → Json) : Json → Json
  | .str s =>
    match Base64.decode? s with
    | some bytes =>
      (match Json.parse? (Json.strOfBytes bytes) with
       | some doc => .str (Base64.encode (Json.print (g doc)).toUTF8.toList)
       | none => .str s)
    | none =>
      match Json.parse? s with
      | some doc => .str (Json.print (g doc))
      | none => .str s
  | j => j

/-- one redaction argument: hops separated by `.json()` -/
def redactHops : Nat → List Path → Json → Json
  | 0, _, j => j
  | _ + 1, [], j => j
  | _ + 1, [p], j => rewriteAt (3 * (p.length + Path.size j) + 8) p (fun _ => marker) j
  | fuel + 1, p :: rest, j =>
    rewriteAt (3 * (p.length + Path.size j) + 8) p (insideDoc (redactHops fuel rest)) j

/-- the record a redaction of `paths` must produce; `none` if a path is outside the subset -/
def expected (record : Json) (paths : List String) : Option Json :=
  paths.foldlM (fun j arg =>
    let hops := (arg.splitOn ".json()").map Path.parse
    if hops.all (fun h => match h with | .ok _ => true | _ => false) then
      let ps := hops.filterMap fun h => match h with | .ok p => some p | _ => none
      some (redactHops (ps.length + 1) ps j)
    else none) record

/-- Canonical form that looks through documents nested in strings (so that two JSON texts of
    the same nested document compare equal). -/
partial def deepSx : Json → Sx
  | .str s =>
    let asDoc (t : String) : Option Json := match Json.parse? t with
      | some (.obj kvs) => some (.obj kvs)
      | some (.arr xs) => some (.arr xs)
      | _ => none
    match Base64.decode? s with
    | some bytes =>
      (match asDoc (Json.strOfBytes bytes) with
       | some d => .list [.atom "b64doc", deepSx d]
       | none => .list [.atom "s", Sx.ofString s])
    | none =>
      match asDoc s with
      | some d => .list [.atom "doc", deepSx d]
      | none => .list [.atom "s", Sx.ofString s]
  | .arr xs => .list (.atom "a" :: xs.map deepSx)
  | .obj kvs =>
    let sorted := kvs.mergeSort (fun a b => a.1 ≤ b.1)
    .list (.atom "o" :: sorted.map fun (k, v) => .list [Sx.ofString k, deepSx v])
  | j => j.toSx

end KsVerif.Kfl.RedactSpec
