/-
  Model of pkg/languages/kfl/precompute.go: the compile-time pass that assembles JSONPath
  strings from the call expressions, recognises helpers, rewrites `.json()` / `.xml()`
  selectors into helper parameters and evaluates `limit(n)`.

  Errors propagate as in the Go code: every binary node overwrites the error of its left
  operand with the error of its right operand ("last one wins").
-/
import KsVerif.Kfl.Eval

namespace KsVerif.Kfl

structure Propagate where
  path : String := ""
  limit : Nat := 0
  deriving Repr, Inhabited

def backpropagate (x y : Propagate) : Propagate :=
  { path := if x.path == "" then y.path else x.path, limit := if x.limit == 0 then y.limit else x.limit }

/-- result of a compute function -/
structure CR (α : Type) where
  node : α
  prop : Propagate := {}
  err : Bool := false
  unsup : Bool := false     -- something outside the modelled subset was met
  panic : Bool := false     -- a Go operation of Precompute that can panic would have (see C13)

def compileTimeHelpers : List String :=
  ["limit", "now", "seconds", "minutes", "hours", "days", "weeks", "months", "years"]

/-- the text after the last '.' (kernel-reducible, unlike `String.splitOn`) -/
def lastSegChars : List Char → List Char → List Char
  | [], acc => acc.reverse
  | c :: rest, acc => if c == '.' then lastSegChars rest [] else lastSegChars rest (c :: acc)

def lastSegment (s : String) : String := String.ofList (lastSegChars s.toList [])

def trimQuotes (s : String) : String :=
  String.ofList ((s.toList.dropWhile (· == '"')).reverse.dropWhile (· == '"')).reverse

/-- uint64(float64Operand(v)) for non-negative values -/
def decToNat (d : Dec) : Option Nat :=
  if d.num < 0 then none else some (d.num.toNat / 10 ^ d.exp)

def firstParam : Params → Option Param
  | .some (.cons p _) => some p
  | _ => none

/-- the `[i]` / `["k"]` selector of a call: the path text so far, the parameters (a compiled
    path when the call ends in json / xml), and whether the subset was left -/
def selPathParams (ident : String) (jsonHelperUsed : Bool) (index : Option Nat) (key : Option String) :
    String × Params × Bool :=
  let frag? : Option String := match index, key with
    | some i, _ => some ("[" ++ toString i ++ "]")
    | none, some k => some ("[\"" ++ trimQuotes k ++ "\"]")
    | none, none => none
  match frag? with
  | none => (ident, Params.none, false)
  | some frag =>
    if jsonHelperUsed then
      match Path.parse frag with
      | .ok p => (frag, Params.some (.cons (.path p) .nil), false)
      | .error => (frag, Params.none, false)
      | .unsupported => (frag, Params.none, true)
    else (ident ++ frag, Params.none, false)

mutual
  def computeExpr : Expr → String → String → CR Expr
    | .empty, _, _ => { node := .empty }
    | .mk l, pre, jhp => let r := computeLogical l pre jhp; { r with node := .mk r.node }
  def computeLogical : Logical → String → String → CR Logical
    | .one e, pre, jhp => let r := computeEquality e pre jhp; { r with node := .one r.node }
    | .bin e op n, pre, jhp =>
      let r := computeEquality e pre jhp
      let s := computeLogical n pre jhp
      { node := .bin r.node op s.node, prop := backpropagate r.prop s.prop, err := s.err, unsup := r.unsup || s.unsup, panic := r.panic || s.panic }
  def computeEquality : Equality → String → String → CR Equality
    | .one c, pre, jhp => let r := computeComparison c pre jhp; { r with node := .one r.node }
    | .bin c op n, pre, jhp =>
      let r := computeComparison c pre jhp
      let s := computeEquality n pre jhp
      { node := .bin r.node op s.node, prop := backpropagate r.prop s.prop, err := s.err, unsup := r.unsup || s.unsup, panic := r.panic || s.panic }
  def computeComparison : Comparison → String → String → CR Comparison
    | .one u, pre, jhp => let r := computeUnary u pre jhp; { r with node := .one r.node }
    | .bin u op n, pre, jhp =>
      let r := computeUnary u pre jhp
      let s := computeComparison n pre jhp
      { node := .bin r.node op s.node, prop := backpropagate r.prop s.prop, err := s.err, unsup := r.unsup || s.unsup, panic := r.panic || s.panic }
  def computeUnary : Unary → String → String → CR Unary
    | .op o u, pre, jhp => let r := computeUnary u pre jhp; { r with node := .op o r.node }
    | .pri p, pre, jhp => let r := computePrimary p pre jhp; { r with node := .pri r.node }
  def computePrimary : Primary → String → String → CR Primary
    | .sub e, pre, jhp => let r := computeExpr e pre jhp; { r with node := .sub r.node }
    | .regex p, _, _ => { node := .regex p, unsup := (Regex.parse p).isNone }
    | .call ident params sel _ _, pre, jhp => computeCall ident params sel pre jhp
    | p, _, _ => { node := p }
  /-- computeCallExpression -/
  def computeCall : String → Params → Sel → String → String → CR Primary
    | ident, params, sel, pre, jhp =>
      match params with
      | .some ps =>
        -- a function call
        finishCall ident (.some ps) sel ident pre jhp none
      | .none =>
        match sel with
        | .none => finishCall ident .none sel ident pre jhp none
        | .mk index key rd hasExpr e =>
          let potentialHelper := lastSegment ident
          let jsonHelperUsed := potentialHelper == "json" || potentialHelper == "xml"
          let helper : Option String := if jsonHelperUsed then some potentialHelper else none
          let jhp := if jsonHelperUsed then ident else jhp
          let (path, params, unsup1) := selPathParams ident jsonHelperUsed index key
          if hasExpr then
            let r := computeExpr e (if jsonHelperUsed then "" else path) jhp
            { node := .call ident params (.mk index key rd true r.node) none helper,
              prop := { path := path, limit := r.prop.limit }, err := r.err, unsup := r.unsup || unsup1, panic := r.panic }
          else
            let path := match rd with
              | some name => if jsonHelperUsed then ".." ++ name else path
              | none => path
            let r := finishCall ident params sel path pre jhp helper
            { r with unsup := r.unsup || unsup1 }
  /-- the tail of computeCallExpression, from `prop.Path = prependPath + "." + prop.Path` -/
  def finishCall : String → Params → Sel → String → String → String → Option String → CR Primary
    | ident, params, sel, path, pre, jhp, helper0 =>
      let path := pre ++ "." ++ path
      let (params, path, unsupA) : Params × String × Bool :=
        if jhp != "" then
          match Path.parse path with
          | .ok p => (Params.some (.cons (.path p) .nil), jhp, false)
          | .error => (params, jhp, false)
          | .unsupported => (params, jhp, true)
        else (params, path, false)
      match Path.parse path with
      | .unsupported => { node := .call ident params sel none helper0, prop := { path }, unsup := true }
      | .error => { node := .call ident params sel none helper0, prop := { path }, err := true, unsup := unsupA }
      | .ok jsonPath =>
        let h := lastSegment path
        -- time helpers (clock), datetime (time parsing) and xml (mxj) are outside the model
        let unsupA := unsupA || ((compileTimeHelpers.contains h && h != "limit") || h == "datetime" || h == "xml")
        match params with
        | .some _ =>
          let jsonPath := jsonPath.dropLast
          if compileTimeHelpers.contains h then
            match firstParam params with
            | some (.expr pe) =>
              let (v, _) := evalExpr pe .null
              if h == "limit" then
                match decToNat (float64Operand v) with
                | some n => { node := .call ident params sel (some jsonPath) (some h), prop := { path, limit := n }, unsup := unsupA }
                | none => { node := .call ident params sel (some jsonPath) (some h), prop := { path }, unsup := true }
              else if h == "now" then
                { node := .call ident params sel (some jsonPath) (some h), prop := { path }, unsup := unsupA }
              else
                -- seconds(n) … years(n): the parameter becomes a point in time
                { node := .call ident (.some (.cons .time .nil)) sel (some jsonPath) (some h), prop := { path }, unsup := unsupA }
            | some _ =>
              -- evalExpression(call.Parameters[0].Expression, nil) with a nil Expression: nil dereference
              { node := .call ident params sel (some jsonPath) (some h), prop := { path }, unsup := unsupA, panic := true }
            | none => { node := .call ident params sel (some jsonPath) (some h), prop := { path }, unsup := unsupA }
          else { node := .call ident params sel (some jsonPath) (some h), prop := { path }, unsup := unsupA }
        | .none =>
          if h == "now" then
            { node := .call ident (.some (.cons .time .nil)) sel (some jsonPath) (some h), prop := { path }, unsup := unsupA }
          else { node := .call ident .none sel (some jsonPath) helper0, prop := { path }, unsup := unsupA }
end

/-- Precompute -/
def precompute (e : Expr) : CR Expr := computeExpr e "" ""

end KsVerif.Kfl
