/-
  Model of pkg/languages/kfl/macro.go ExpandMacros and the token-level spec of C17.

  Model: for each macro, longest name first, one left-to-right pass replacing every
  non-overlapping occurrence of the name that
    * is not preceded and not followed by a word character or a dot   `(?<![\w.])…(?![\w.])`
    * is followed by a remainder made of whole string literals (a backslash escapes the
      character after it) and characters outside literals
      `(?=(?:[^"\\]|\\.|"(?:[^"\\]|\\.)*")*$)`
  by the parenthesised definition.  (ASCII word characters; queries with other letters are
  outside the modelled domain.)
-/
import KsVerif.Generated.GenMacros

namespace KsVerif.Kfl.Macro

def isWord (c : Char) : Bool := c.isAlphanum || c == '_'
def isWordDot (c : Char) : Bool := isWord c || c == '.'

def quoteCount (s : List Char) : Nat := (s.filter (· == '"')).length
def evenQuotes (s : List Char) : Bool := quoteCount s % 2 == 0

def isPrefixOf (p s : List Char) : Bool := s.take p.length == p

/-- The look-ahead `(?=(?:[^"\\]|\\.|"(?:[^"\\]|\\.)*")*$)`: the remainder consists of characters
    outside literals, escaped characters and whole string literals in which a backslash escapes
    the character after it (`.` does not match a line feed).  The alternatives start with
    different characters, so the regexp engine has exactly one way to read the text: this scan.
    `inLit`: inside a literal. -/
def closedAfter : Bool → List Char → Bool
  | inLit, [] => !inLit
  | inLit, '\\' :: c :: r => if c == '\n' then false else closedAfter inLit r
  | _, ['\\'] => false
  | inLit, c :: r => if c == '"' then closedAfter (!inLit) r else closedAfter inLit r

/-- Does the macro `name` match at the head of `s`, given the previous character? -/
def matchesAt (name : List Char) (prev : Option Char) (s : List Char) : Bool :=
  isPrefixOf name s &&
  (match prev with | some c => !isWordDot c | none => true) &&
  (match (s.drop name.length).head? with | some c => !isWordDot c | none => true) &&
  closedAfter false (s.drop name.length)

/-- One pass for one macro. `skip` > 0: we are inside a matched name, whose characters are
    consumed without output. -/
def expandOneAux (name expansion : List Char) : Option Char → Nat → List Char → List Char
  | _, _, [] => []
  | _, skip + 1, c :: rest => expandOneAux name expansion (some c) skip rest
  | prev, 0, c :: rest =>
    if name ≠ [] ∧ matchesAt name prev (c :: rest) then
      expansion ++ expandOneAux name expansion (some c) (name.length - 1) rest
    else c :: expandOneAux name expansion (some c) 0 rest

def expandOne (name expansion : List Char) (q : List Char) : List Char :=
  expandOneAux name expansion none 0 q

/-- AddMacro wraps the definition in parentheses. -/
def wrap (body : String) : List Char := ['('] ++ body.toList ++ [')']

/-- Expansion under a given order of the table. -/
def expandIn (order : List (String × String)) (q : List Char) : List Char :=
  order.foldl (fun q m => expandOne m.1.toList (wrap m.2) q) q

/-- Insertion sort by decreasing name length (one of the orders the real code may use). -/
def insertByLen (m : String × String) : List (String × String) → List (String × String)
  | [] => [m]
  | x :: xs => if m.1.length ≥ x.1.length then m :: x :: xs else x :: insertByLen m xs

def sortByLen (t : List (String × String)) : List (String × String) := t.foldr insertByLen []

def expand (q : String) : String := String.ofList (expandIn (sortByLen Gen.Macros.table) q.toList)

/-! ### spec: tokens -/

inductive Tok where
  | lit (s : List Char)      -- a string literal including its quotes
  | opened (s : List Char)   -- an unterminated literal: the rest of the text
  | word (s : List Char)     -- a maximal run of word characters and dots
  | other (c : Char)
  deriving Repr, DecidableEq

/-- Tokenise. State: `none`, or the token under construction: (kind, reversed text) with
    kind 0 = word, 1 = literal, 2 = literal just after a backslash (the next character is
    escaped, as in the KFL lexer). -/
def tokenizeAux : List Char → Option (Nat × List Char) → List Tok
  | [], none => []
  | [], some (0, acc) => [.word acc.reverse]
  | [], some (_, acc) => [.opened acc.reverse]
  | c :: rest, none =>
    if c == '"' then tokenizeAux rest (some (1, [c]))
    else if isWordDot c then tokenizeAux rest (some (0, [c]))
    else .other c :: tokenizeAux rest none
  | c :: rest, some (0, acc) =>
    if isWordDot c then tokenizeAux rest (some (0, c :: acc))
    else if c == '"' then .word acc.reverse :: tokenizeAux rest (some (1, [c]))
    else .word acc.reverse :: .other c :: tokenizeAux rest none
  | c :: rest, some (1, acc) =>
    if c == '"' then .lit (c :: acc).reverse :: tokenizeAux rest none
    else if c == '\\' then tokenizeAux rest (some (2, c :: acc))
    else tokenizeAux rest (some (1, c :: acc))
  | c :: rest, some (_, acc) => tokenizeAux rest (some (1, c :: acc))

def tokenize (q : List Char) : List Tok := tokenizeAux q none

def lookupMacro (t : List (String × String)) (w : List Char) : Option (List Char) :=
  (t.find? (fun m => m.1.toList == w)).map (fun m => wrap m.2)

/-- Spec: every standalone identifier equal to a macro name is replaced by its parenthesised
    definition; literals and everything else are copied byte for byte. -/
def specExpandToks (t : List (String × String)) : List Tok → List Char
  | [] => []
  | .lit s :: rest => s ++ specExpandToks t rest
  | .opened s :: rest => s ++ specExpandToks t rest
  | .other c :: rest => c :: specExpandToks t rest
  | .word w :: rest =>
    (match lookupMacro t w with
     | some e => e
     | none => w) ++ specExpandToks t rest

def specExpand (q : String) : String :=
  String.ofList (specExpandToks Gen.Macros.table (tokenize q.toList))

/-- Queries in the spec's domain: every string literal terminated, ASCII outside string literals
    (what `\w` makes of other letters is the regexp engine's business; inside a literal every
    character is just copied). -/
def inDomain (q : String) : Bool :=
  (tokenize q.toList).all (fun t => match t with
    | .opened _ => false
    | .lit _ => true
    | .word w => w.all (fun c => c.toNat < 128)
    | .other c => c.toNat < 128)

/-- A literal holds an escaped quote: the look-ahead of the implementation counts it as a
    quote (recorded finding). -/
def hasEscapedQuote (q : String) : Bool :=
  (tokenize q.toList).any fun t => match t with
    | .lit s => (s.zip (s.drop 1)).any (fun (a, b) => a == '\\' && b == '"')
    | _ => false

end KsVerif.Kfl.Macro
