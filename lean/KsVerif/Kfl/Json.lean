/-
  JSON values as the KFL evaluator sees them (what ojg's `oj.ParseString` produces), exact
  decimals standing for float64 within 15 significant digits, a JSON text parser for
  documents nested in string fields, and base64.
-/
import KsVerif.Base.Sx

namespace KsVerif.Kfl

/-- An exact decimal `num / 10^exp`, normalised: `exp = 0` or `num % 10 ≠ 0`. Stands for a
    float64 (assumption: ≤ 15 significant digits, where float64 order and equality agree with
    the exact ones and `FormatFloat(x, 'f', -1, 64)` prints exactly these digits). -/
structure Dec where
  num : Int
  exp : Nat
  deriving DecidableEq, Repr, Inhabited

namespace Dec

def normalize : Nat → Int → Nat → Dec
  | 0, n, e => ⟨n, e⟩
  | fuel + 1, n, e => if e > 0 ∧ n % 10 = 0 then normalize fuel (n / 10) (e - 1) else ⟨n, e⟩

def mk' (n : Int) (e : Nat) : Dec := normalize e n e

def ofInt (n : Int) : Dec := ⟨n, 0⟩

/-- a < b, a = b exactly -/
def lt (a b : Dec) : Bool := a.num * (10 : Int) ^ b.exp < b.num * (10 : Int) ^ a.exp
def le (a b : Dec) : Bool := a.num * (10 : Int) ^ b.exp ≤ b.num * (10 : Int) ^ a.exp
def eqv (a b : Dec) : Bool := a.num * (10 : Int) ^ b.exp == b.num * (10 : Int) ^ a.exp
def neg (a : Dec) : Dec := ⟨-a.num, a.exp⟩
def isPos (a : Dec) : Bool := a.num > 0

def padLeft (s : String) (n : Nat) : String := String.ofList (List.replicate (n - s.length) '0') ++ s

/-- strconv.FormatFloat(x, 'f', -1, 64) for a normalised decimal. -/
def format (a : Dec) : String :=
  let sign := if a.num < 0 then "-" else ""
  let digits := toString a.num.natAbs
  if a.exp = 0 then sign ++ digits
  else
    let d := padLeft digits (a.exp + 1)
    let ip := (d.toList.take (d.length - a.exp))
    let fp := (d.toList.drop (d.length - a.exp))
    sign ++ String.ofList ip ++ "." ++ String.ofList fp

/-- Parse the decimal syntax strconv.ParseFloat accepts that our generators produce:
    [+-] digits [. digits] [e[+-]digits]. `none` = ParseFloat fails (or outside the subset). -/
def parse? (s : String) : Option Dec :=
  let cs := s.toList
  let (neg, cs) := match cs with
    | '-' :: r => (true, r)
    | '+' :: r => (false, r)
    | _ => (false, cs)
  let ip := cs.takeWhile Char.isDigit
  let rest := cs.dropWhile Char.isDigit
  let (fp, rest) := match rest with
    | '.' :: r => (r.takeWhile Char.isDigit, r.dropWhile Char.isDigit)
    | _ => ([], rest)
  -- strconv.ParseFloat also reads "inf" / "infinity" in any case, with an optional sign: an infinity orders above
  -- (below) every number, which a number beyond the range of float64 stands for here ("nan" is not a decimal: the
  -- ordering operators of Eval.lean / Spec.lean ask for it before they coerce)
  let lower := cs.map Char.toLower
  if lower == "inf".toList || lower == "infinity".toList then
    some (ofInt ((if neg then -1 else 1) * (10 : Int) ^ 400))
  else
  if ip.isEmpty && fp.isEmpty then none
  else
    let mant : Nat := (ip ++ fp).foldl (fun acc c => acc * 10 + (c.toNat - 48)) 0
    let base : Option (Int × Int) :=   -- (mantissa, exponent of ten)
      match rest with
      | [] => some ((mant : Int), -(fp.length : Int))
      | e :: r =>
        if e == 'e' || e == 'E' then
          let (eneg, r) := match r with
            | '-' :: r' => (true, r')
            | '+' :: r' => (false, r')
            | _ => (false, r)
          if r.isEmpty || !r.all Char.isDigit then none
          else
            let ev : Nat := r.foldl (fun acc c => acc * 10 + (c.toNat - 48)) 0
            some ((mant : Int), (if eneg then -(ev : Int) else (ev : Int)) - (fp.length : Int))
        else none
    match base with
    | none => none
    | some (m, e10) =>
      let m := if neg then -m else m
      if e10 ≥ 0 then some (ofInt (m * (10 : Int) ^ e10.toNat))
      else some (mk' m (-e10).toNat)

end Dec

inductive Json where
  | null
  | bool (b : Bool)
  | int (n : Int)          -- int64
  | flt (d : Dec)          -- float64
  | str (s : String)
  | arr (xs : List Json)
  | obj (kvs : List (String × Json))
  deriving Repr, Inhabited

namespace Json

mutual
  def beq : Json → Json → Bool
    | .null, .null => true
    | .bool a, .bool b => a == b
    | .int a, .int b => a == b
    | .flt a, .flt b => a == b
    | .str a, .str b => a == b
    | .arr a, .arr b => beqList a b
    | .obj a, .obj b => beqKvs a b
    | _, _ => false
  def beqList : List Json → List Json → Bool
    | [], [] => true
    | x :: xs, y :: ys => beq x y && beqList xs ys
    | _, _ => false
  def beqKvs : List (String × Json) → List (String × Json) → Bool
    | [], [] => true
    | (k, x) :: xs, (l, y) :: ys => k == l && beq x y && beqKvs xs ys
    | _, _ => false
end

instance : BEq Json := ⟨beq⟩

def lookup (kvs : List (String × Json)) (k : String) : Option Json :=
  (kvs.find? (·.1 == k)).map (·.2)

/-- Canonical S-expression of a JSON *value*: object keys sorted, numbers as exact decimals
    (an int64 and a float64 of the same value print alike). -/
partial def toSx : Json → Sx
  | .null => .atom "null"
  | .bool b => Sx.ofBool b
  | .int n => .list [.atom "n", .atom (Dec.format (Dec.ofInt n))]
  | .flt d => .list [.atom "n", .atom (Dec.format d)]
  | .str s => .list [.atom "s", Sx.ofString s]
  | .arr xs => .list (.atom "a" :: xs.map toSx)
  | .obj kvs =>
    let sorted := kvs.mergeSort (fun a b => a.1 ≤ b.1)
    .list (.atom "o" :: sorted.map fun (k, v) => .list [Sx.ofString k, toSx v])

def strOfBytes (b : List UInt8) : String := String.ofList (b.map fun u => Char.ofNat u.toNat)

/-- Decode the generator's structured record: (o (#key v)...) (a v...) (s #hex) (i n) (f dec) null true false -/
partial def ofSx : Sx → Option Json
  | .atom "null" => some .null
  | .atom "true" => some (.bool true)
  | .atom "false" => some (.bool false)
  | .list [.atom "i", n] => n.asInt?.map .int
  | .list [.atom "f", .atom d] => (Dec.parse? d).map .flt
  | .list [.atom "s", s] => s.asBytes?.map fun b => .str (strOfBytes b)
  | .list (.atom "a" :: xs) => (xs.mapM ofSx).map .arr
  | .list (.atom "o" :: kvs) =>
    (kvs.mapM fun (kv : Sx) => match kv with
      | Sx.list [k, v] => do some (strOfBytes (← k.asBytes?), ← ofSx v)
      | _ => none).map .obj
  | _ => none

/-! ### printing as JSON text (what the harness serialises and `oj.JSON` would accept) -/

def escapeChar (c : Char) : String :=
  if c == '"' then "\\\"" else if c == '\\' then "\\\\"
  else if c == '\n' then "\\n" else if c == '\r' then "\\r" else if c == '\t' then "\\t"
  else String.singleton c

def escape (s : String) : String := String.join (s.toList.map escapeChar)

partial def print : Json → String
  | .null => "null"
  | .bool b => if b then "true" else "false"
  | .int n => toString n
  | .flt d => let s := Dec.format d; if d.exp = 0 then s ++ ".0" else s
  | .str s => "\"" ++ escape s ++ "\""
  | .arr xs => "[" ++ ",".intercalate (xs.map print) ++ "]"
  | .obj kvs => "{" ++ ",".intercalate (kvs.map fun (k, v) => "\"" ++ escape k ++ "\":" ++ print v) ++ "}"

/-! ### parsing JSON text (documents nested in string fields) -/

def skipWs : List Char → List Char
  | c :: r => if c == ' ' || c == '\n' || c == '\t' || c == '\r' then skipWs r else c :: r
  | [] => []

def hexVal? (c : Char) : Option Nat :=
  if '0' ≤ c ∧ c ≤ '9' then some (c.toNat - 48)
  else if 'a' ≤ c ∧ c ≤ 'f' then some (c.toNat - 87)
  else if 'A' ≤ c ∧ c ≤ 'F' then some (c.toNat - 55)
  else none

def hex4? (a b c d : Char) : Option Nat := do
  some (4096 * (← hexVal? a) + 256 * (← hexVal? b) + 16 * (← hexVal? c) + (← hexVal? d))

def parseStringBody : List Char → List Char → Option (String × List Char)
  | [], _ => none
  | '"' :: r, acc => some (String.ofList acc.reverse, r)
  | '\\' :: 'u' :: a :: b :: c :: d :: '\\' :: 'u' :: e :: f :: g :: h :: r, acc =>
    match hex4? a b c d, hex4? e f g h with
    | some hi, some lo =>
      if 0xD800 ≤ hi ∧ hi < 0xDC00 ∧ 0xDC00 ≤ lo ∧ lo < 0xE000 then
        parseStringBody r (Char.ofNat (0x10000 + (hi - 0xD800) * 1024 + (lo - 0xDC00)) :: acc)
      else
        -- two separate escapes: the first one now, the second on the next round
        let c1 := if 0xD800 ≤ hi ∧ hi < 0xE000 then Char.ofNat 0xFFFD else Char.ofNat hi
        parseStringBody ('\\' :: 'u' :: e :: f :: g :: h :: r) (c1 :: acc)
    | some hi, none => if 0xD800 ≤ hi ∧ hi < 0xE000 then none else none
    | none, _ => none
  | '\\' :: 'u' :: a :: b :: c :: d :: r, acc =>
    match hex4? a b c d with
    | some n => parseStringBody r ((if 0xD800 ≤ n ∧ n < 0xE000 then Char.ofNat 0xFFFD else Char.ofNat n) :: acc)
    | none => none
  | '\\' :: c :: r, acc =>
    if c == 'n' then parseStringBody r ('\n' :: acc)
    else if c == 't' then parseStringBody r ('\t' :: acc)
    else if c == 'r' then parseStringBody r ('\r' :: acc)
    else if c == 'b' then parseStringBody r (Char.ofNat 8 :: acc)
    else if c == 'f' then parseStringBody r (Char.ofNat 12 :: acc)
    else if c == '"' || c == '\\' || c == '/' then parseStringBody r (c :: acc)
    else none
  | c :: r, acc => if c.toNat < 32 then none else parseStringBody r (c :: acc)
termination_by l _ => l.length
decreasing_by all_goals (simp_wf; try omega)

def isNumChar (c : Char) : Bool := c.isDigit || c == '-' || c == '+' || c == '.' || c == 'e' || c == 'E'

mutual
  def parseValue : Nat → List Char → Option (Json × List Char)
    | 0, _ => none
    | fuel + 1, cs =>
      match skipWs cs with
      | [] => none
      | '{' :: r =>
        match skipWs r with
        | '}' :: r' => some (.obj [], r')
        | r' => parseMembers fuel r' []
      | '[' :: r =>
        match skipWs r with
        | ']' :: r' => some (.arr [], r')
        | r' => parseElems fuel r' []
      | '"' :: r => (parseStringBody r []).map fun (s, r') => (.str s, r')
      | 't' :: 'r' :: 'u' :: 'e' :: r => some (.bool true, r)
      | 'f' :: 'a' :: 'l' :: 's' :: 'e' :: r => some (.bool false, r)
      | 'n' :: 'u' :: 'l' :: 'l' :: r => some (.null, r)
      | c :: r =>
        if c.isDigit || c == '-' then
          let tok := (c :: r).takeWhile isNumChar
          let rest := (c :: r).dropWhile isNumChar
          let s := String.ofList tok
          if tok.all (fun ch => ch.isDigit || ch == '-') then
            (s.toInt?).map fun n => (.int n, rest)
          else (Dec.parse? s).map fun d => (.flt d, rest)
        else none
  def parseMembers : Nat → List Char → List (String × Json) → Option (Json × List Char)
    | 0, _, _ => none
    | fuel + 1, cs, acc =>
      match skipWs cs with
      | '"' :: r =>
        match parseStringBody r [] with
        | none => none
        | some (k, r1) =>
          match skipWs r1 with
          | ':' :: r2 =>
            match parseValue fuel r2 with
            | none => none
            | some (v, r3) =>
              match skipWs r3 with
              | ',' :: r4 => parseMembers fuel r4 ((k, v) :: acc)
              | '}' :: r4 => some (.obj ((k, v) :: acc).reverse, r4)
              | _ => none
          | _ => none
      | _ => none
  def parseElems : Nat → List Char → List Json → Option (Json × List Char)
    | 0, _, _ => none
    | fuel + 1, cs, acc =>
      match parseValue fuel cs with
      | none => none
      | some (v, r) =>
        match skipWs r with
        | ',' :: r' => parseElems fuel r' (v :: acc)
        | ']' :: r' => some (.arr (v :: acc).reverse, r')
        | _ => none
end

/-- oj.ParseString on a whole document (trailing blanks allowed). -/
def parse? (s : String) : Option Json :=
  match parseValue (s.length + 2) s.toList with
  | some (v, rest) => if (skipWs rest).isEmpty then some v else none
  | none => none

end Json

/-! ### base64 (StdEncoding, padded; CR and LF are skipped) -/

namespace Base64

def val (c : Char) : Option Nat :=
  if 'A' ≤ c ∧ c ≤ 'Z' then some (c.toNat - 65)
  else if 'a' ≤ c ∧ c ≤ 'z' then some (c.toNat - 71)
  else if '0' ≤ c ∧ c ≤ '9' then some (c.toNat + 4)
  else if c == '+' then some 62 else if c == '/' then some 63 else none

def decodeQuads : List Char → Option (List UInt8)
  | [] => some []
  | [a, b, '=', '='] => do
    let x ← val a; let y ← val b
    if y % 16 ≠ 0 then none else some [UInt8.ofNat (x * 4 + y / 16)]
  | [a, b, c, '='] => do
    let x ← val a; let y ← val b; let z ← val c
    if z % 4 ≠ 0 then none else some [UInt8.ofNat (x * 4 + y / 16), UInt8.ofNat ((y % 16) * 16 + z / 4)]
  | a :: b :: c :: d :: rest => do
    let x ← val a; let y ← val b; let z ← val c; let w ← val d
    let r ← decodeQuads rest
    some (UInt8.ofNat (x * 4 + y / 16) :: UInt8.ofNat ((y % 16) * 16 + z / 4) :: UInt8.ofNat ((z % 4) * 64 + w) :: r)
  | _ => none

def decode? (s : String) : Option (List UInt8) :=
  decodeQuads (s.toList.filter fun c => c != '\n' && c != '\r')

def enc (n : Nat) : Char :=
  if n < 26 then Char.ofNat (65 + n) else if n < 52 then Char.ofNat (71 + n)
  else if n < 62 then Char.ofNat (n - 4) else if n == 62 then '+' else '/'

def encodeBytes : List UInt8 → List Char
  | [] => []
  | [a] => [enc (a.toNat / 4), enc ((a.toNat % 4) * 16), '=', '=']
  | [a, b] => [enc (a.toNat / 4), enc ((a.toNat % 4) * 16 + b.toNat / 16), enc ((b.toNat % 16) * 4), '=']
  | a :: b :: c :: rest =>
    enc (a.toNat / 4) :: enc ((a.toNat % 4) * 16 + b.toNat / 16) :: enc ((b.toNat % 16) * 4 + c.toNat / 64) ::
      enc (c.toNat % 64) :: encodeBytes rest

def encode (bs : List UInt8) : String := String.ofList (encodeBytes bs)

end Base64

end KsVerif.Kfl
