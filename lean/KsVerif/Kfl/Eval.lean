/-
  Model of pkg/languages/kfl/eval.go on a prepared query.

  The Go evaluator mutates the parsed record in place (redact → jp.Set on the shared maps)
  and evaluates operands left to right, so every sub-evaluation sees the record as the
  previous ones left it and the record returned is that same object: the model threads the
  record through the evaluation in Go's order.
-/
import KsVerif.Kfl.Ast

namespace KsVerif.Kfl

/-- run-time values (`interface{}`) -/
inductive Val where
  | json (j : Json)
  | regex (pattern : String)
  | path (p : Path)       -- *jp.Expr (helper argument)
  | time                  -- time.Time (helper argument)
  deriving Inhabited

def REDACTED : String := "[REDACTED]"

def Val.ofBool (b : Bool) : Val := .json (.bool b)

def boolOperand : Val → Bool
  | .json (.str s) => s != ""
  | .json (.bool b) => b
  | .json (.int n) => n > 0
  | .json (.flt d) => d.isPos
  | .json .null => false
  | .json (.arr xs) => xs.length > 0
  | _ => false

def stringOfJson : Json → String
  | .str s => s
  | .int n => toString n
  | .flt d => d.format
  | .bool b => if b then "true" else "false"
  | .null => "null"
  | _ => ""

def stringOperand : Val → String
  | .json j => stringOfJson j
  | _ => ""

def floatOfJson : Json → Dec
  | .str s => (Dec.parse? s).getD (Dec.ofInt 0)
  | .int n => Dec.ofInt n
  | .flt d => d
  | .bool b => Dec.ofInt (if b then 1 else 0)
  | _ => Dec.ofInt 0

def float64Operand : Val → Dec
  | .json j => floatOfJson j
  | _ => Dec.ofInt 0

/-- regexp.MatchString; patterns outside the modelled subset never match (the driver
    reports such cases as outside the model). -/
def regexMatch (pattern s : String) : Bool :=
  match Regex.parse pattern with
  | some r => Regex.matchString r s
  | none => false

def eql (a b : Val) : Bool :=
  match a with
  | .regex p =>
    match b with
    | .json (.arr ys) => ys.any fun i => regexMatch p (stringOfJson i)   -- any-match
    | _ => regexMatch p (stringOperand b)
  | .json (.arr xs) =>
    match b with
    | .json (.arr ys) => Json.beq (.arr xs) (.arr ys)                 -- reflect.DeepEqual
    | .regex p => xs.any fun i => regexMatch p (stringOfJson i)
    | _ => xs.any fun i => stringOfJson i == stringOperand b
  | _ =>
    match b with
    | .regex p => regexMatch p (stringOperand a)
    | .json (.arr ys) => ys.any fun i => stringOperand a == stringOfJson i
    | _ => stringOperand a == stringOperand b

def neq (a b : Val) : Bool := !eql a b

/-- strconv.ParseFloat reads "nan" in any case (without a sign) as NaN, and every ordering comparison with a NaN
    is false; the decimals of the model have no such value, so the operators ask first -/
def nanJson : Json → Bool
  | .str s => s.toList.map Char.toLower == ['n', 'a', 'n']
  | _ => false

def nanVal : Val → Bool
  | .json j => nanJson j
  | _ => false

/-- the four ordering operators share one shape: `rel` on scalars, any-match against an
    array, all-pairs `strict` for two arrays -/
def ordOp (rel : Dec → Dec → Bool) (a b : Val) : Bool :=
  match a, b with
  | .json (.arr xs), .json (.arr ys) =>
    xs.all fun i => ys.all fun j => !nanJson i && !nanJson j && rel (floatOfJson i) (floatOfJson j)
  | .json (.arr xs), _ => xs.any fun i => !nanJson i && !nanVal b && rel (floatOfJson i) (float64Operand b)
  | _, .json (.arr ys) => ys.any fun j => !nanVal a && !nanJson j && rel (float64Operand a) (floatOfJson j)
  | _, _ => !nanVal a && !nanVal b && rel (float64Operand a) (float64Operand b)

def gtr := ordOp (fun x y => Dec.lt y x)
def lss := ordOp (fun x y => Dec.lt x y)
def geq := ordOp (fun x y => Dec.le y x)
def leq := ordOp (fun x y => Dec.le x y)

def comparisonOp (op : String) (a b : Val) : Bool :=
  if op == ">" then gtr a b else if op == "<" then lss a b
  else if op == ">=" then geq a b else leq a b

def equalityOp (op : String) (a b : Val) : Bool := if op == "==" then eql a b else neq a b

def hasPrefix (s p : String) : Bool := s.toList.take p.length == p.toList
def hasSuffix (s p : String) : Bool := s.toList.drop (s.length - p.length) == p.toList && p.length ≤ s.length
def containsStr (s p : String) : Bool :=
  (List.range (s.length + 1)).any fun i => (s.toList.drop i).take p.length == p.toList

/-- `_json` helper: args[1] is the text, args[2] the compiled path. -/
def jsonHelper (text : Val) (arg : Val) : Val :=
  match arg with
  | .path p =>
    let s := stringOperand text
    let s := match Base64.decode? s with
      | some bytes => Json.strOfBytes bytes
      | none => s
    match Json.parse? s with
    | none => .ofBool false
    | some doc =>
      match Path.getAllOf p doc with
      | [] => .ofBool false
      | [r] => .json r
      | rs => .json (.arr rs)   -- several matches stand for the list of them, as for a plain path
  | _ => .ofBool false          -- not a compiled path (`a.json("x")`)

/-! ### redact -/

def splitOnStr (s sep : String) : List String := s.splitOn sep

/-- redactRecursively on plain JSON paths and `.json()` hops (XML hops are outside the
    model). `none` = the Go function returned an error (the path is skipped). -/
def redactRec : Nat → Json → List String → Option Json
  | 0, _, _ => none
  | _ + 1, obj, [] => some obj
  | fuel + 1, obj, path :: rest =>
    if (path.splitOn ".xml()").length > 1 then none else
    match Path.parse path with
    | .ok p =>
      match Path.getAllOf p obj with
      | [] => none                                       -- "No match"
      | first :: _ =>
        if !rest.isEmpty then
          -- a `.json()` hop: the value must be a string holding (maybe base64) JSON
          match first with
          | .str s =>
            let (text, b64) := match Base64.decode? s with
              | some bytes => (Json.strOfBytes bytes, true)
              | none => (s, false)
            match Json.parse? text with
            | none => none
            | some doc =>
              match redactRec fuel doc rest with
              | none => none
              | some doc' =>
                let out := Json.print doc'
                let out := if b64 then Base64.encode out.toUTF8.toList else out
                Path.setAt p obj (.str out)
          | _ => none                                    -- "Not a string"
        else if (Path.toStr p).startsWith ".." then
          match p with
          | [.descent, .child name] => some (Path.redactKeyEverywhere name (.str REDACTED) obj)
          | _ => none
        else Path.setAt p obj (.str REDACTED)
    | _ => none

/-- `redact` helper: every further argument is a path; a path that fails is skipped. -/
def redactHelper (obj : Json) (args : List Val) : Json :=
  args.foldl (fun o a =>
    let paths := splitOnStr (stringOperand a) ".json()"
    match redactRec (paths.length + 2) o paths with
    | some o' => o'
    | none => o) obj

/-- Helper dispatch: `none` = undefined helper (the expression collapses).
    Returns the record after the call and the helper's value. -/
def applyHelper (name : String) (obj : Json) (v : Val) (params : List Val) : Option (Json × Val) :=
  let arg2 := params.head?
  if name == "startsWith" then
    some (obj, match arg2 with | some a => .ofBool (hasPrefix (stringOperand v) (stringOperand a)) | none => .ofBool false)
  else if name == "endsWith" then
    some (obj, match arg2 with | some a => .ofBool (hasSuffix (stringOperand v) (stringOperand a)) | none => .ofBool false)
  else if name == "contains" then
    some (obj, match arg2 with | some a => .ofBool (containsStr (stringOperand v) (stringOperand a)) | none => .ofBool false)
  else if name == "limit" then some (obj, .ofBool true)
  else if name == "json" then
    some (obj, match arg2 with | some a => jsonHelper v a | none => .ofBool false)
  else if name == "redact" then some (redactHelper obj params, .ofBool true)
  else if name == "now" || name == "seconds" || name == "minutes" || name == "hours" || name == "days"
      || name == "weeks" || name == "months" || name == "years" then
    -- time helpers: a point in time becomes a timestamp (outside the model), anything else is false
    some (obj, match arg2 with | some .time => .json (.int 0) | _ => .ofBool false)
  else if name == "datetime" || name == "xml" then some (obj, .ofBool false)   -- outside the model
  else none

/-! ### evaluation -/

structure R where
  v : Val
  obj : Json
  collapse : Bool := false

mutual
  def evalExpr : Expr → Json → Val × Json
    | .empty, obj => (.ofBool true, obj)
    | .mk l, obj =>
      let r := evalLogical l obj
      (if r.collapse then .ofBool false else r.v, r.obj)
  def evalLogical : Logical → Json → R
    | .one e, obj => evalEquality e obj
    | .bin e op next, obj =>
      let r := evalEquality e obj
      if r.collapse then r
      else
        let b := boolOperand r.v
        if op == "and" && !b then { v := .ofBool false, obj := r.obj }
        else if op == "or" && b then { v := .ofBool true, obj := r.obj }
        else
          let n := evalLogical next r.obj
          if n.collapse then n
          else
            { v := .ofBool (if op == "and" then b && boolOperand n.v else b || boolOperand n.v), obj := n.obj }
  def evalEquality : Equality → Json → R
    | .one c, obj => evalComparison c obj
    | .bin c op next, obj =>
      let r := evalComparison c obj
      if r.collapse then r
      else
        let n := evalEquality next r.obj
        if n.collapse then n else { v := .ofBool (equalityOp op r.v n.v), obj := n.obj }
  def evalComparison : Comparison → Json → R
    | .one u, obj => evalUnary u obj
    | .bin u op next, obj =>
      let r := evalUnary u obj
      if r.collapse then r
      else
        let n := evalComparison next r.obj
        if n.collapse then n else { v := .ofBool (comparisonOp op r.v n.v), obj := n.obj }
  def evalUnary : Unary → Json → R
    | .pri p, obj => evalPrimary p obj
    | .op o u, obj =>
      let r := evalUnary u obj
      if r.collapse then r
      else
        match r.v with
        | .json (.bool b) => if o == "!" then { r with v := .ofBool (!b) } else r
        | .json (.flt d) => if o == "-" then { r with v := .json (.flt d.neg) } else r
        | .json (.int n) => if o == "-" then { r with v := .json (.int (-n)) } else r
        | _ => r
  def evalPrimary : Primary → Json → R
    | .bool b, obj => { v := .ofBool b, obj }
    | .num d, obj => { v := .json (.flt d), obj }
    | .str s, obj => { v := .json (.str s), obj }
    | .regex p, obj => { v := .regex p, obj }
    | .nil, obj => { v := .json .null, obj }
    | .sub e, obj => let (v, o) := evalExpr e obj; { v, obj := o }
    | .call _ params sel jsonPath helper, obj =>
      match jsonPath with
      | some p =>
        let result := Path.getAllOf p obj
        if result.isEmpty && helper.isNone then { v := .json .null, obj, collapse := true }
        else
          let v : Val := match result with
            | [] => .ofBool false
            | [x] => .json x
            | xs => .json (.arr xs)
          match helper with
          | none => { v, obj }
          | some h =>
            let (args, obj') := evalParams params obj
            match applyHelper h obj' v args with
            | some (o, w) => { v := w, obj := o }
            | none => { v := .json .null, obj := obj', collapse := true }
      | none =>
        match sel with
        | .mk _ _ _ true e => let (v, o) := evalExpr e obj; { v, obj := o }
        | _ => { v := .ofBool false, obj }
  def evalParams : Params → Json → List Val × Json
    | .none, obj => ([], obj)
    | .some ps, obj => evalParamList ps obj
  def evalParamList : ParamList → Json → List Val × Json
    | .nil, obj => ([], obj)
    | .cons p rest, obj =>
      let (v, o) := evalParam p obj
      let (vs, o') := evalParamList rest o
      (v :: vs, o')
  def evalParam : Param → Json → Val × Json
    | .path p, obj => (.path p, obj)
    | .time, obj => (.time, obj)
    | .expr e, obj => evalExpr e obj
end

/-- Eval: truth value and the record returned. -/
def eval (e : Expr) (record : Json) : Bool × Json :=
  let (v, o) := evalExpr e record
  (boolOperand v, o)

end KsVerif.Kfl
