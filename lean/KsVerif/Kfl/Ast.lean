/-
  KFL abstract syntax as participle builds it (parser.go), the fields Precompute adds, and a
  tiny regular-expression matcher for the patterns the generators use.
-/
import KsVerif.Kfl.Path

namespace KsVerif.Kfl

/-! ### syntax trees.  `P`-prefixed fields are filled by Precompute. -/

mutual
  inductive Expr where
    | empty                                   -- Expression{Logical: nil}
    | mk (l : Logical)
  inductive Logical where
    | one (e : Equality)
    | bin (e : Equality) (op : String) (next : Logical)
  inductive Equality where
    | one (c : Comparison)
    | bin (c : Comparison) (op : String) (next : Equality)
  inductive Comparison where
    | one (u : Unary)
    | bin (u : Unary) (op : String) (next : Comparison)
  inductive Unary where
    | op (o : String) (u : Unary)
    | pri (p : Primary)
  inductive Primary where
    | num (d : Dec)
    | str (s : String)                        -- token text already trimmed of its quotes
    | regex (pattern : String)
    | bool (b : Bool)
    | nil
    | sub (e : Expr)
    /-- CallExpression; `jsonPath`, `helper` are Primary.JsonPath / Primary.Helper -/
    | call (ident : String) (params : Params) (sel : Sel) (jsonPath : Option Path) (helper : Option String)
  inductive Params where
    | none                                    -- Parameters == nil: not a function call
    | some (ps : ParamList)
  inductive ParamList where
    | nil
    | cons (p : Param) (rest : ParamList)
  inductive Param where
    | expr (e : Expr)
    | path (p : Path)                         -- Parameter.JsonPath (set by Precompute)
    | time                                    -- Parameter.TimeSet (set by Precompute)
  inductive Sel where
    | none
    | mk (index : Option Nat) (key : Option String) (rd : Option String) (hasExpr : Bool) (e : Expr)
end

/-! ### decoding the generator's S-expressions -/

def strOfSx? (x : Sx) : Option String := x.asBytes?.map Json.strOfBytes

mutual
  partial def exprOfSx : Sx → Option Expr
    | .list [.atom "E"] => some .empty
    | .list [.atom "E", l] => (logicalOfSx l).map .mk
    | _ => none
  partial def logicalOfSx : Sx → Option Logical
    | .list [.atom "L", e] => (equalityOfSx e).map .one
    | .list [.atom "L", e, .atom op, n] => do some (.bin (← equalityOfSx e) op (← logicalOfSx n))
    | _ => none
  partial def equalityOfSx : Sx → Option Equality
    | .list [.atom "Q", c] => (comparisonOfSx c).map .one
    | .list [.atom "Q", c, .atom op, n] => do some (.bin (← comparisonOfSx c) op (← equalityOfSx n))
    | _ => none
  partial def comparisonOfSx : Sx → Option Comparison
    | .list [.atom "C", u] => (unaryOfSx u).map .one
    | .list [.atom "C", u, .atom op, n] => do some (.bin (← unaryOfSx u) op (← comparisonOfSx n))
    | _ => none
  partial def unaryOfSx : Sx → Option Unary
    | .list [.atom "U", .atom op, u] => (unaryOfSx u).map (.op op)
    | .list [.atom "P", p] => (primaryOfSx p).map .pri
    | _ => none
  partial def primaryOfSx : Sx → Option Primary
    | .list [.atom "num", .atom d] => (Dec.parse? d).map .num
    | .list [.atom "str", s] => (strOfSx? s).map .str
    | .list [.atom "re", s] => (strOfSx? s).map .regex
    | .atom "true" => some (.bool true)
    | .atom "false" => some (.bool false)
    | .atom "nil" => some .nil
    | .list [.atom "sub", e] => (exprOfSx e).map .sub
    | .list [.atom "call", ident, ps, sel] => do
      some (.call (← strOfSx? ident) (← paramsOfSx ps) (← selOfSx sel) none none)
    | _ => none
  partial def paramsOfSx : Sx → Option Params
    | .atom "noparams" => some .none
    | .list (.atom "params" :: es) => do
      let es ← es.mapM exprOfSx
      some (.some (es.foldr (fun e acc => .cons (.expr e) acc) .nil))
    | _ => none
  partial def selOfSx : Sx → Option Sel
    | .atom "nosel" => some .none
    | .list [.atom "sel", ix, key, rd, e] => do
      let index ← match ix with
        | .atom "-" => some none
        | x => x.asNat?.map some
      let key ← match key with
        | .atom "-" => some none
        | x => (strOfSx? x).map some
      let rd ← match rd with
        | .atom "-" => some none
        | x => (strOfSx? x).map some
      match e with
      | .atom "-" => some (.mk index key rd false .empty)
      | x => (exprOfSx x).map fun e => .mk index key rd true e
    | _ => none
end

/-! ### a small regular-expression matcher (Go `regexp.MatchString`, unanchored search)
    for: literal characters, `.`, postfix `*` `+` `?`, anchors `^` `$`. -/

namespace Regex

inductive Atom where
  | chr (c : Char)
  | any
  deriving Repr

structure Item where
  atom : Atom
  min : Nat          -- 0 or 1
  unbounded : Bool   -- `*` / `+`
  deriving Repr

structure T where
  anchoredStart : Bool
  anchoredEnd : Bool
  items : List Item
  deriving Repr

def isMeta (c : Char) : Bool := "\\[](){}|".toList.contains c

def parseItems : List Char → Option (List Item)
  | [] => some []
  | c :: rest =>
    if isMeta c || c == '*' || c == '+' || c == '?' || c == '^' || c == '$' then none
    else
      let atom := if c == '.' then Atom.any else Atom.chr c
      match rest with
      | '*' :: r => (parseItems r).map (⟨atom, 0, true⟩ :: ·)
      | '+' :: r => (parseItems r).map (⟨atom, 1, true⟩ :: ·)
      | '?' :: r => (parseItems r).map (⟨atom, 0, false⟩ :: ·)
      | r => (parseItems r).map (⟨atom, 1, false⟩ :: ·)
termination_by cs => cs.length
decreasing_by all_goals simp_wf <;> omega

def parse (p : String) : Option T :=
  let cs := p.toList
  let (as, cs) := match cs with
    | '^' :: r => (true, r)
    | _ => (false, cs)
  let (ae, cs) := if cs.getLast? == some '$' then (true, cs.dropLast) else (false, cs)
  (parseItems cs).map fun items => ⟨as, ae, items⟩

def atomMatches : Atom → Char → Bool
  | .chr c, d => c == d
  | .any, d => d != '\n'

/-- match `items` against a prefix of `s`; `fuel` bounds the backtracking -/
def matchHere : Nat → List Item → List Char → Bool → Bool
  | 0, _, _, _ => false
  | _ + 1, [], s, toEnd => !toEnd || s.isEmpty
  | fuel + 1, it :: rest, s, toEnd =>
    if it.unbounded then
      if it.min == 0 then
        -- x*: nothing, or one x and x* again
        matchHere fuel rest s toEnd ||
          (match s with
           | c :: s' => atomMatches it.atom c && matchHere fuel (it :: rest) s' toEnd
           | [] => false)
      else
        -- x+: one x, then x*
        match s with
        | c :: s' => atomMatches it.atom c && matchHere fuel ({ it with min := 0 } :: rest) s' toEnd
        | [] => false
    else if it.min == 0 then
      matchHere fuel rest s toEnd ||
        (match s with
         | c :: s' => atomMatches it.atom c && matchHere fuel rest s' toEnd
         | [] => false)
    else
      match s with
      | c :: s' => atomMatches it.atom c && matchHere fuel rest s' toEnd
      | [] => false

def matchString (r : T) (s : String) : Bool :=
  let cs := s.toList
  let fuel := 4 * (r.items.length + cs.length) + 8
  if r.anchoredStart then matchHere fuel r.items cs r.anchoredEnd
  else (List.range (cs.length + 1)).any fun i => matchHere fuel r.items (cs.drop i) r.anchoredEnd

end Regex

end KsVerif.Kfl
