/-
  Driver glue for the KFL evaluation family.
-/
import KsVerif.Kfl.Spec
import KsVerif.Kfl.RedactSpec
import KsVerif.Base.Verdict

namespace KsVerif.Kfl.Driver
open KsVerif KsVerif.Kfl

def field? (obs : Sx) (name : String) : Option (List Sx) :=
  match obs with
  | .list parts => parts.findSome? fun
      | .list (.atom n :: rest) => if n == name then some rest else none
      | _ => none
  | _ => none

/-- observation of the model for (ast, record) -/
def observe (ast : Expr) (record : Json) : Sx × Bool :=
  let pre := precompute ast
  let (truth, rec) := eval pre.node record
  (.list [
    .list [.atom "astok", .atom "true"],
    .list [.atom "prep", .atom (if pre.err then "err" else "ok")],
    .list [.atom "limit", Sx.ofNat pre.prop.limit],
    .list [.atom "truth", Sx.ofBool truth],
    .list [.atom "rec", RedactSpec.deepSx rec],
    .list [.atom "again", .atom "true", .atom "true"],
    .list [.atom "aststable", .atom "true"],
    .list [.atom "conc", .atom "true"]], pre.unsup)

def fieldIs (obs : Option Sx) (name : String) (want : List String) : Bool :=
  match obs.bind (field? · name) with
  | some xs => xs.map Sx.toStr == want
  | none => false

/-- which property the family is judged for -/
inductive Aspect where
  | truth     -- C12: truth value and limit as the language defines them
  | frame     -- C14: the record is returned unchanged (queries without redact)
  | reuse     -- C18: evaluating again with the same prepared query gives the same; AST untouched
  | total     -- C13: returns a result or an error
  deriving DecidableEq

def usesRedact (q : String) : Bool := (q.splitOn "redact").length > 1

/-! ### outside the deterministic domain: two multi-match operands compared with each other

ojg enumerates the members of an object in Go's map order, so a wildcard or a recursive descent
over an object yields its matches in an order that changes from run to run.  Against a scalar the
comparison is an any-match and the order does not matter; two such lists compared with each other
are compared element by element (`reflect.DeepEqual`, pairwise loops), and the truth value is not a
function of query and record.  Such queries are not judged. -/
mutual
  /-- can this operand be a list whose ORDER is not determined by query and record?  A plain path:
      when evaluating it on the record enumerates an object with two or more members through a
      wildcard or a descent (`Path.orderSensitive`; arrays are enumerated in document order).  A
      json() selector with a descent: conservatively yes. -/
  partial def multiPri (rec : Json) : Primary → Bool
    | .call ident _ sel jp _ =>
      (match jp with
       | some p => Path.orderSensitive p rec
       | none => (ident.splitOn "..").length > 1 || (ident.splitOn "*").length > 1) ||
      (match sel with
       | .mk _ _ rd _ _ => rd.isSome
       | .none => false)
    | .sub e => riskExpr rec e   -- conservative
    | _ => false
  partial def multiUn (rec : Json) : Unary → Bool
    | .op _ u => multiUn rec u
    | .pri p => multiPri rec p
  partial def headCmp : Comparison → Unary
    | .one u => u
    | .bin u _ _ => u
  partial def riskCmp (rec : Json) : Comparison → Bool
    | .one u => riskUn rec u
    | .bin u _ next => (multiUn rec u && multiUn rec (headCmp next)) || riskUn rec u || riskCmp rec next
  partial def riskUn (rec : Json) : Unary → Bool
    | .op _ u => riskUn rec u
    | .pri (.sub e) => riskExpr rec e
    | .pri (.call _ _ (.mk _ _ _ true e) _ _) => riskExpr rec e
    | .pri _ => false
  partial def headEq : Equality → Comparison
    | .one c => c
    | .bin c _ _ => c
  partial def riskEq (rec : Json) : Equality → Bool
    | .one c => riskCmp rec c
    | .bin c _ next => (multiUn rec (headCmp c) && multiUn rec (headCmp (headEq next))) || riskCmp rec c || riskEq rec next
  partial def riskLog (rec : Json) : Logical → Bool
    | .one e => riskEq rec e
    | .bin e _ next => riskEq rec e || riskLog rec next
  partial def riskExpr (rec : Json) : Expr → Bool
    | .empty => false
    | .mk l => riskLog rec l
end

def judgeEval (aspect : Aspect) (payload impl : String) : Verdict :=
  match (Sx.parse payload).bind (fun x => match x with
      | .list (a :: b :: c :: _) => some (a, b, c)
      | _ => none) with
  | some (qSx, astSx, recSx) =>
    match exprOfSx astSx, Json.ofSx recSx with
    | some ast, some record =>
      let (m, unsup0) := observe ast record
      let pre := precompute ast
      let unsup := unsup0 || riskExpr record pre.node
      let implSx := Sx.parse impl
      let q := (strOfSx? qSx).getD ""
      let astok := fieldIs implSx "astok" ["true"]
      let noCrash := !((impl.splitOn "panic").length > 1 || (impl.splitOn "crash").length > 1 || (impl.splitOn "timeout").length > 1)
      if !noCrash then
        { corr := false, implSpec := false, modelSpec := true, nontrivial := true, cls := "crash", model := m.toStr, spec := "no panic" }
      else if !astok then
        { corr := true, implSpec := true, modelSpec := true, nontrivial := false, cls := "generator-ast-mismatch", model := "-", spec := "-" }
      else
        let corr := unsup || m.toStr == impl
        let specTruth := if riskExpr record pre.node then none else Spec.truth ast record
        let specLimit := Spec.limitOf astSx
        let check (obs : Option Sx) : Bool :=
          match aspect with
          | .truth =>
            (match specTruth with
             | some t => fieldIs obs "truth" [toString t]
             | none => true) &&
            (match specLimit with
             | some n => fieldIs obs "limit" [toString n]
             | none => true)
          | .frame => usesRedact q || fieldIs obs "rec" [(RedactSpec.deepSx record).toStr]
          | .reuse => fieldIs obs "again" ["true", "true"] && fieldIs obs "aststable" ["true"] && fieldIs obs "conc" ["true"]
          | .total => true
        let prepErr := fieldIs implSx "prep" ["err"]
        { corr, implSpec := prepErr || check implSx, modelSpec := unsup || prepErr || check (some m),
          nontrivial := !unsup && (aspect != .truth || specTruth.isSome),
          cls := (if unsup then "outside-model" else "in-model") ++ (if specTruth.isSome then ",in-spec" else ",outside-spec"),
          model := m.toStr,
          spec := match aspect with
            | .truth => s!"truth={specTruth} limit={specLimit}"
            | .frame => "record returned = record given"
            | .reuse => "second evaluation identical; prepared query unchanged"
            | .total => "returns" }
    | _, _ => .bad "bad-case"
  | _ => .bad "bad-case"

/-- kfl.redact (C15): the returned record must be the spec's rewrite of the given one. -/
def judgeRedact (payload impl : String) : Verdict :=
  match Sx.parse payload with
  | some (.list [_q, astSx, recSx, .list (.atom "paths" :: ps)]) =>
    match exprOfSx astSx, Json.ofSx recSx, ps.mapM strOfSx? with
    | some ast, some record, some paths =>
      let (m, unsup) := observe ast record
      let implSx := Sx.parse impl
      let noCrash := !((impl.splitOn "panic").length > 1 || (impl.splitOn "crash").length > 1 || (impl.splitOn "timeout").length > 1)
      let want := RedactSpec.expected record paths
      let check (obs : Option Sx) : Bool :=
        match want with
        | some w => fieldIs obs "rec" [(RedactSpec.deepSx w).toStr] && fieldIs obs "truth" ["true"]
        | none => true
      -- defect tags: shapes of path the implementation is known to mishandle
      let hopAfterMany := paths.any fun p =>
        match (p.splitOn ".json()") with
        | first :: _ :: _ => (first.splitOn "*").length > 1 || (first.splitOn "..").length > 1
        | _ => false
      let wildThenChild := paths.any fun p => (p.splitOn ".*.").length > 1
      let innerDescent := paths.any fun p => (p.splitOn ".json()").any fun hop =>
        (hop.splitOn "..").length > 1 && !hop.startsWith ".."
      let tags := (if innerDescent then ["kfl-redact-inner-descent"] else []) ++
                  (if hopAfterMany then ["kfl-redact-hop-after-wildcard"] else []) ++
                  (if wildThenChild then ["kfl-redact-wildcard-adds-key"] else [])
      let changed := match want with
        | some w => (RedactSpec.deepSx w).toStr != (RedactSpec.deepSx record).toStr
        | none => false
      { corr := unsup || !noCrash || m.toStr == impl, implSpec := noCrash && check implSx,
        modelSpec := unsup || check (some m), tags,
        nontrivial := !unsup && want.isSome && changed,
        cls := s!"paths={paths.length},changed={changed},model={!unsup}",
        model := m.toStr,
        spec := match want with | some w => (RedactSpec.deepSx w).toStr | none => "-" }
    | _, _, _ => .bad "bad-case"
  | _ => .bad "bad-case"

/-- kfl.fuzz (C13): any text against any text; the only demand is that the call returns. -/
def judgeFuzz (payload impl : String) : Verdict :=
  let crashed := (impl.splitOn "panic").length > 1 || (impl.splitOn "crash").length > 1 ||
    (impl.splitOn "timeout").length > 1 || (impl.splitOn "missing").length > 1
  let stage := if (impl.splitOn "evaluated").length > 1 then "evaluated"
    else if (impl.splitOn "prepare-error").length > 1 then "prepare-error"
    else if (impl.splitOn "eval-error").length > 1 then "eval-error" else "other"
  { corr := !crashed, implSpec := !crashed, modelSpec := true, nontrivial := payload.length > 12,
    cls := stage, model := "(ok <a result or an error>)", spec := "returns a result or an error; never panics" }

/-- the tree with the redaction marker at the path (keys `#..`, indices), where the path is in the tree; the tree itself otherwise -/
partial def markAt (v : Sx) : List Sx → Sx
  | [] => .list [.atom "s", Sx.ofString "[REDACTED]"]
  | .atom k :: ks =>
    if k.startsWith "#" then
      match v with
      | .list (.atom "o" :: kvs) => .list (.atom "o" :: kvs.map fun
          | .list [.atom k', x] => if k' == k then .list [.atom k', markAt x ks] else .list [.atom k', x]
          | o => o)
      | o => o
    else match v, k.toNat? with
      | .list (.atom "a" :: xs), some i => .list (.atom "a" :: xs.mapIdx fun j x => if j == i then markAt x ks else x)
      | o, _ => o
  | _ :: _ => v

partial def hasPath (v : Sx) : List Sx → Bool
  | [] => true
  | .atom k :: ks =>
    if k.startsWith "#" then
      match v with
      | .list (.atom "o" :: kvs) => kvs.any fun
          | .list [.atom k', x] => k' == k && hasPath x ks
          | _ => false
      | _ => false
    else match v, k.toNat? with
      | .list (.atom "a" :: xs), some i => (xs[i]?.map (hasPath · ks)).getD false
      | _, _ => false
  | _ :: _ => false

/-- kfl.redactxml (C15): redaction through an xml() hop, the document read before and after by the XML reader:
    the marker at the path and everything else as it was; the declaration kept; the target's text gone; a path
    that is not in the document changes nothing -/
def judgeRedactXml (payload impl : String) : Verdict :=
  match Sx.parse payload, Sx.parse impl with
  | some (.list [_, .list path, _]), some (.list [p, b]) =>
    -- the path as the redaction argument spells it, for the structural spec of C15 (`RedactSpec`, whose theorems
    -- `c15_marker_at_target` / `c15_frame` cover chains of keys and indices): where that spec accepts the path it
    -- must agree with `markAt` on the tree read before, so the reference of this family is the proved one
    let pathStr := path.foldl (fun acc st => match st with
      | .atom k => if k.startsWith "#" then (match (Sx.atom k).asBytes? with
          | some b => (if acc.isEmpty then "" else acc ++ ".") ++ Json.strOfBytes b
          | none => acc) else acc ++ "[" ++ k ++ "]"
      | _ => acc) ""
    let specAgrees (bf want : Sx) : Option Bool :=
      match Json.ofSx bf, Json.ofSx want with
      | some r, some w => (RedactSpec.expected r [pathStr]).map fun e =>
          (RedactSpec.deepSx e).toStr == (RedactSpec.deepSx w).toStr
      | _, _ => none
    let one : Sx → Option (Bool × String × Option Bool) := fun
      | .list [.atom _, .list [.atom "before", bf], .list [.atom "after", af], .list [.atom "decl", d], .list [.atom "leak", l], .list [.atom "seen", sn]] =>
        let want := markAt bf path
        -- the read path sees the marker where the redaction wrote it (paths of element names and indices; an
        -- attribute key `-at` is not a KFL identifier)
        let attr := path.any fun st => match st with | .atom k => k.startsWith "#2d" | _ => false
        let seenOk := attr || !hasPath bf path || sn.toStr == "true"
        some (af.toStr == want.toStr && d.toStr == "true" && (!hasPath bf path || l.toStr == "false") && seenOk, want.toStr, specAgrees bf want)
      | _ => none
    match one p, one b with
    | some (okp, w, sp), some (okb, _, _) =>
      let ok := okp && okb
      { corr := ok, implSpec := ok, modelSpec := sp != some false, tags := [], nontrivial := true,
        cls := s!"steps={path.length},redactspec={match sp with | some true => "agrees" | some false => "differs" | none => "n/a"}", model := w,
        spec := "plain and base64: the document reads as " ++ w ++ ", its declaration kept, the target's text gone" }
    | _, _ => { corr := false, implSpec := false, modelSpec := true, tags := [], nontrivial := true, cls := "no-observation",
                model := "-", spec := "the marker at the path and everything else as it was" }
  | _, _ => .bad "bad-case"

end KsVerif.Kfl.Driver
