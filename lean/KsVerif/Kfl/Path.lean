/-
  The JSONPath subset KFL builds (`jp.ParseString`, `jp.Expr.Get`, `jp.Expr.Set` of ojg):
  children, array indices, bracket keys, wildcards, recursive descent.  Anything outside the
  subset parses to `unsupported` and the case is skipped by the correspondence check.
-/
import KsVerif.Kfl.Json

namespace KsVerif.Kfl

inductive Frag where
  | root
  | child (k : String)
  | nth (n : Int)
  | wildcard
  | descent
  deriving DecidableEq, Repr, Inhabited

abbrev Path := List Frag

inductive PathParse where
  | ok (p : Path)
  | error              -- jp.ParseString returns an error
  | unsupported        -- outside the modelled subset
  deriving Repr, Inhabited, DecidableEq

namespace Path

def isNameChar (c : Char) : Bool := c.isAlphanum || c == '_'

def takeName (cs : List Char) : String × List Char :=
  (String.ofList (cs.takeWhile isNameChar), cs.dropWhile isNameChar)

/-- inside `[ … ]` -/
def parseBracket (cs : List Char) : Option (Frag × List Char) :=
  match cs with
  | '*' :: ']' :: r => some (.wildcard, r)
  | '"' :: r =>
    let k := r.takeWhile (· != '"')
    match r.dropWhile (· != '"') with
    | '"' :: ']' :: r' => if k.contains '\\' then none else some (.child (String.ofList k), r')
    | _ => none
  | '\'' :: r =>
    let k := r.takeWhile (· != '\'')
    match r.dropWhile (· != '\'') with
    | '\'' :: ']' :: r' => if k.contains '\\' then none else some (.child (String.ofList k), r')
    | _ => none
  | _ =>
    let (neg, ds) := match cs with
      | '-' :: r => (true, r)
      | _ => (false, cs)
    let digits := ds.takeWhile Char.isDigit
    match ds.dropWhile Char.isDigit with
    | ']' :: r =>
      if digits.isEmpty then none
      else
        let n : Nat := digits.foldl (fun a c => a * 10 + (c.toNat - 48)) 0
        some (.nth (if neg then -(n : Int) else n), r)
    | _ => none

/-- fragments after the first one -/
def parseRest : Nat → List Char → Path → PathParse
  | 0, _, _ => .unsupported
  | _ + 1, [], acc => .ok acc.reverse
  | fuel + 1, '.' :: '.' :: r0, acc =>
    -- ojg reads any run of two or more dots as one recursive descent
    let r := r0.dropWhile (· == '.')
    match r with
    | '*' :: r' => parseRest fuel r' (.wildcard :: .descent :: acc)
    | '[' :: r' =>
      match parseBracket r' with
      | some (f, r'') => parseRest fuel r'' (f :: .descent :: acc)
      | none => .unsupported
    | _ =>
      let (name, r') := takeName r
      if name.isEmpty then .error else parseRest fuel r' (.child name :: .descent :: acc)
  | fuel + 1, '.' :: r, acc =>
    match r with
    | [] => .error                                   -- "not terminated"
    | '*' :: r' => parseRest fuel r' (.wildcard :: acc)
    | '[' :: _ => .error                             -- "an expression fragment can not start with a '['"
    | _ =>
      let (name, r') := takeName r
      if name.isEmpty then .error else parseRest fuel r' (.child name :: acc)
  | fuel + 1, '[' :: r, acc =>
    match parseBracket r with
    | some (f, r') => parseRest fuel r' (f :: acc)
    | none => .unsupported
  | _ + 1, _ :: _, _ => .error

/-- jp.ParseString -/
def parse (s : String) : PathParse :=
  let cs := s.toList
  let fuel := cs.length + 2
  match cs with
  | [] => .ok []
  | '$' :: r => parseRest fuel r [.root]
  | '.' :: _ => parseRest fuel cs []
  | '[' :: _ => parseRest fuel cs []
  | '*' :: r => parseRest fuel r [.wildcard]
  | _ =>
    let (name, r) := takeName cs
    if name.isEmpty then .error else parseRest fuel r [.child name]

/-- jp.Expr.String() for the subset. `afterDescent`: the previous fragment was `..` -/
def toStrAux : Bool → Bool → Path → String
  | _, _, [] => ""
  | _, _, .root :: r => "$" ++ toStrAux false false r
  | first, afterDescent, .child k :: r =>
    let simple := !k.isEmpty && k.toList.all isNameChar
    (if simple then (if first || afterDescent then k else "." ++ k) else "['" ++ k ++ "']") ++ toStrAux false false r
  | _, _, .nth n :: r => "[" ++ toString n ++ "]" ++ toStrAux false false r
  | first, afterDescent, .wildcard :: r => (if first || afterDescent then "*" else ".*") ++ toStrAux false false r
  | _, _, .descent :: r => ".." ++ toStrAux false true r

def toStr (p : Path) : String := toStrAux true false p

/-! ### Get -/

def children : Json → List Json
  | .arr xs => xs
  | .obj kvs => kvs.map (·.2)
  | _ => []

mutual
  /-- every value the path denotes in `j` (fuel bounds the depth of the document) -/
  def get : Nat → Path → Json → List Json
    | 0, _, _ => []
    | _ + 1, [], j => [j]
    | fuel + 1, .root :: r, j => get fuel r j
    | fuel + 1, .child k :: r, j =>
      match j with
      | .obj kvs => match Json.lookup kvs k with
        | some v => get fuel r v
        | none => []
      | _ => []
    | fuel + 1, .nth n :: r, j =>
      match j with
      | .arr xs =>
        let i : Int := if n < 0 then (xs.length : Int) + n else n
        if i < 0 then [] else match xs[i.toNat]? with
          | some v => get fuel r v
          | none => []
      | _ => []
    | fuel + 1, .wildcard :: r, j => getAll fuel r (children j)
    | fuel + 1, .descent :: r, j =>
      -- descendants first (children in order), then the node itself
      getDescAll fuel r (children j) ++ get fuel r j
  def getAll : Nat → Path → List Json → List Json
    | 0, _, _ => []
    | _ + 1, _, [] => []
    | fuel + 1, r, x :: xs => get fuel r x ++ getAll fuel r xs
  def getDescAll : Nat → Path → List Json → List Json
    | 0, _, _ => []
    | _ + 1, _, [] => []
    | fuel + 1, r, x :: xs => get fuel (.descent :: r) x ++ getDescAll fuel r xs
end

partial def depth : Json → Nat
  | .arr xs => 1 + (xs.map depth).foldl max 0
  | .obj kvs => 1 + (kvs.map (fun kv => depth kv.2)).foldl max 0
  | _ => 1

partial def size : Json → Nat
  | .arr xs => 1 + (xs.map size).foldl (· + ·) 0
  | .obj kvs => 1 + (kvs.map (fun kv => size kv.2)).foldl (· + ·) 0
  | _ => 1

/-- jp.Expr.Get -/
def getAllOf (p : Path) (j : Json) : List Json := get (3 * (p.length + size j) + 8) p j

/-- Does evaluating `p` on `j` enumerate an object with two or more members through a
    wildcard or a descent?  ojg then yields the matches in Go's map order, which is random:
    order-sensitive uses are outside the deterministic domain. -/
partial def orderSensitive : Path → Json → Bool
  | [], _ => false
  | .root :: r, j => orderSensitive r j
  | .child k :: r, .obj kvs => match Json.lookup kvs k with
    | some v => orderSensitive r v
    | none => false
  | .child _ :: _, _ => false
  | .nth n :: r, .arr xs =>
    let i : Int := if n < 0 then (xs.length : Int) + n else n
    if i < 0 then false else match xs[i.toNat]? with
      | some v => orderSensitive r v
      | none => false
  | .nth _ :: _, _ => false
  | .wildcard :: r, j =>
    (match j with | .obj kvs => kvs.length ≥ 2 | _ => false) || (children j).any (orderSensitive r)
  | .descent :: r, j =>
    (match j with | .obj kvs => kvs.length ≥ 2 | _ => false) ||
      (children j).any (orderSensitive (.descent :: r)) || orderSensitive r j

/-! ### Set (used by redact) -/

def setKey (kvs : List (String × Json)) (k : String) (v : Json) : List (String × Json) :=
  if kvs.any (·.1 == k) then kvs.map fun kv => if kv.1 == k then (k, v) else kv
  else kvs ++ [(k, v)]

mutual
  /-- jp.Expr.Set for child / index / wildcard paths: replaces the value at every location
      the path denotes; a missing last key of an object is created (ojg does). `none` = error. -/
  def set : Nat → Path → Json → Json → Option Json
    | 0, _, _, _ => none
    | _ + 1, [], _, v => some v
    | fuel + 1, .root :: r, j, v => set fuel r j v
    | fuel + 1, .child k :: r, j, v =>
      match j with
      | .obj kvs =>
        match Json.lookup kvs k with
        | some old => (set fuel r old v).map fun nv => .obj (setKey kvs k nv)
        | none =>
          -- ojg creates the missing member (as an object for inner fragments)
          match r with
          | [] => some (.obj (setKey kvs k v))
          | _ => (set fuel r (.obj []) v).map fun nv => .obj (setKey kvs k nv)
      | _ => none
    | fuel + 1, .nth n :: r, j, v =>
      match j with
      | .arr xs =>
        let i : Int := if n < 0 then (xs.length : Int) + n else n
        if i < 0 then none else
        match xs[i.toNat]? with
        | some old => (set fuel r old v).map fun nv => .arr (xs.set i.toNat nv)
        | none => none
      | _ => none
    | fuel + 1, .wildcard :: r, j, v =>
      match j with
      | .arr xs => (setEach fuel r xs v).map .arr
      | .obj kvs => (setEach fuel r (kvs.map (·.2)) v).map fun vs => .obj ((kvs.map (·.1)).zip vs)
      | _ => some j
    | fuel + 1, .descent :: r, j, v =>
      -- ojg sets below every node: descendants first, then the node itself; an object that
      -- lacks the member gets it (this is why redact avoids Set for paths that *start* with `..`)
      let j' : Json := match j with
        | .arr xs => .arr (setDesc fuel r xs v)
        | .obj kvs => .obj ((kvs.map (·.1)).zip (setDesc fuel r (kvs.map (·.2)) v))
        | x => x
      match set fuel r j' v with
      | some j'' => some j''
      | none => some j'
  def setEach : Nat → Path → List Json → Json → Option (List Json)
    | 0, _, _, _ => none
    | _ + 1, _, [], _ => some []
    | fuel + 1, r, x :: xs, v =>
      match set fuel r x v, setEach fuel r xs v with
      | some nx, some nxs => some (nx :: nxs)
      | none, some nxs => some (x :: nxs)      -- an element the rest of the path cannot enter is left alone
      | _, none => none
  def setDesc : Nat → Path → List Json → Json → List Json
    | 0, _, xs, _ => xs
    | _ + 1, _, [], _ => []
    | fuel + 1, r, x :: xs, v =>
      (match set fuel (.descent :: r) x v with
       | some nx => nx
       | none => x) :: setDesc fuel r xs v
end

def setAt (p : Path) (j v : Json) : Option Json := set (3 * (p.length + size j) + 8) p j v

/-- The recursive-descent branch of redact: walk the document and overwrite every member
    (at any depth) whose key is `name`. -/
partial def redactKeyEverywhere (name : String) (marker : Json) : Json → Json
  | .obj kvs => .obj (kvs.map fun (k, v) => if k == name then (k, marker) else (k, redactKeyEverywhere name marker v))
  | .arr xs => .arr (xs.map (redactKeyEverywhere name marker))
  | j => j

end Path
end KsVerif.Kfl
