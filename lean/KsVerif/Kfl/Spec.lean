/-
  Reference semantics of KFL (C12): what the language rules of the property statement say,
  written over the syntax tree as parsed — selectors are resolved structurally, numbers are
  compared numerically — without the compile-time pass and its JSONPath strings.

  Where the statement is silent the choice made here is listed in DESIGN.md §6 C12; query
  shapes whose meaning the statement does not fix are outside the spec's domain (`none`).
-/
import KsVerif.Kfl.Precompute

namespace KsVerif.Kfl.Spec
open KsVerif.Kfl

/-- values of the reference semantics -/
inductive SVal where
  | j (x : Json)
  | re (pattern : String)
  deriving Inhabited

def isNum : Json → Bool
  | .int _ => true
  | .flt _ => true
  | _ => false

def numOf : Json → Dec
  | .int n => Dec.ofInt n
  | .flt d => d
  | .str s => (Dec.parse? s).getD (Dec.ofInt 0)
  | .bool b => Dec.ofInt (if b then 1 else 0)
  | _ => Dec.ofInt 0

/-- canonical text of a scalar (numbers in plain decimal notation) -/
def textOf : Json → String
  | .str s => s
  | .int n => toString n
  | .flt d => d.format
  | .bool b => if b then "true" else "false"
  | .null => "null"
  | _ => ""

/-- scalars are equal when both are numbers of the same value, else when their texts are equal -/
def scalarEq (x y : Json) : Bool :=
  if isNum x && isNum y then Dec.eqv (numOf x) (numOf y) else textOf x == textOf y

def truthy : SVal → Bool
  | .j (.str s) => s != ""
  | .j (.bool b) => b
  | .j (.int n) => n > 0
  | .j (.flt d) => d.isPos
  | .j (.arr xs) => !xs.isEmpty
  | _ => false

def eqS (a b : SVal) : Bool :=
  match a, b with
  | .re p, .j (.arr ys) => ys.any fun e => regexMatch p (textOf e)     -- any-match over an array result
  | .j (.arr xs), .re p => xs.any fun e => regexMatch p (textOf e)
  | .re p, .j y => regexMatch p (textOf y)
  | .j x, .re p => regexMatch p (textOf x)
  | .re p, .re _ => regexMatch p ""
  | .j (.arr xs), .j (.arr ys) => Json.beq (.arr xs) (.arr ys)
  | .j (.arr xs), .j y => xs.any fun e => scalarEq e y        -- any-match
  | .j x, .j (.arr ys) => ys.any fun e => scalarEq x e
  | .j x, .j y => scalarEq x y

def numS : SVal → Dec
  | .j x => numOf x
  | .re _ => Dec.ofInt 0

/-- a string spelling "nan" (any case) is not a number at all: no ordering holds of it -/
def notANumber : Json → Bool
  | .str s => s.toLower == "nan"
  | _ => false

def notANumberS : SVal → Bool
  | .j x => notANumber x
  | .re _ => false

def ordS (rel : Dec → Dec → Bool) (a b : SVal) : Bool :=
  match a, b with
  | .j (.arr xs), .j (.arr ys) => xs.all fun i => ys.all fun k => !notANumber i && !notANumber k && rel (numOf i) (numOf k)
  | .j (.arr xs), _ => xs.any fun i => !notANumber i && !notANumberS b && rel (numOf i) (numS b)
  | _, .j (.arr ys) => ys.any fun k => !notANumberS a && !notANumber k && rel (numS a) (numOf k)
  | _, _ => !notANumberS a && !notANumberS b && rel (numS a) (numS b)

def cmpS (op : String) (a b : SVal) : Bool :=
  if op == ">" then ordS (fun x y => Dec.lt y x) a b
  else if op == "<" then ordS (fun x y => Dec.lt x y) a b
  else if op == ">=" then ordS (fun x y => Dec.le y x) a b
  else ordS (fun x y => Dec.le x y) a b

/-- fragments of a dotted identifier: `a.*.b`, `d..e` -/
def identFrags (ident : String) : Path :=
  -- an empty segment (from `..`) is a descent; a run of them is one descent
  let rec go (prevEmpty : Bool) : List String → Path
    | [] => []
    | "" :: rest => if prevEmpty then go true rest else .descent :: go true rest
    | "*" :: rest => .wildcard :: go false rest
    | s :: rest => .child s :: go false rest
  go false (ident.splitOn ".")

/-- environment of a (sub)expression -/
structure Env where
  doc : Json                 -- the document references are resolved in
  pre : Path := []           -- the enclosing selector
  nested : Bool := false     -- inside a json() document: a missing reference is `false`
  deriving Inhabited

/-- result: value, whether the enclosing parenthesised expression is void (missing path),
    `none` when the shape is outside the spec's domain -/
structure SR where
  v : SVal
  void : Bool := false

def resolve (env : Env) (p : Path) : SR :=
  match Path.getAllOf (env.pre ++ p) env.doc with
  | [] => if env.nested then { v := .j (.bool false) } else { v := .j .null, void := true }
  | [x] => { v := .j x }
  | xs => { v := .j (.arr xs) }

def selFrags (index : Option Nat) (key : Option String) : Path :=
  match index, key with
  | some i, _ => [.nth i]
  | none, some k => [.child k]
  | none, none => []

def nestedDoc (text : Json) : Option Json :=
  match text with
  | .str s =>
    let s := match Base64.decode? s with
      | some bytes => Json.strOfBytes bytes
      | none => s
    Json.parse? s
  | _ => none

mutual
  def sExpr : Expr → Env → Option SVal
    | .empty, _ => some (.j (.bool true))
    | .mk l, env =>
      match sLogical l env with
      | none => none
      | some r => some (if r.void then .j (.bool false) else r.v)
  def sLogical : Logical → Env → Option SR
    | .one e, env => sEquality e env
    | .bin e op next, env =>
      match sEquality e env with
      | none => none
      | some r =>
        if r.void then some r
        else
          let b := truthy r.v
          -- right-nested, short-circuit
          if op == "and" && !b then some { v := .j (.bool false) }
          else if op == "or" && b then some { v := .j (.bool true) }
          else
            match sLogical next env with
            | none => none
            | some n =>
              if n.void then some n
              else some { v := .j (.bool (if op == "and" then b && truthy n.v else b || truthy n.v)) }
  def sEquality : Equality → Env → Option SR
    | .one c, env => sComparison c env
    | .bin c op next, env =>
      match sComparison c env with
      | none => none
      | some r =>
        if r.void then some r
        else match sEquality next env with
          | none => none
          | some n =>
            if n.void then some n
            else some { v := .j (.bool (if op == "==" then eqS r.v n.v else !eqS r.v n.v)) }
  def sComparison : Comparison → Env → Option SR
    | .one u, env => sUnary u env
    | .bin u op next, env =>
      match sUnary u env with
      | none => none
      | some r =>
        if r.void then some r
        else match sComparison next env with
          | none => none
          | some n => if n.void then some n else some { v := .j (.bool (cmpS op r.v n.v)) }
  def sUnary : Unary → Env → Option SR
    | .pri p, env => sPrimary p env
    | .op o u, env =>
      match sUnary u env with
      | none => none
      | some r =>
        if r.void then some r
        else match r.v with
          | .j (.bool b) => some (if o == "!" then { v := .j (.bool (!b)) } else r)
          | .j (.flt d) => some (if o == "-" then { v := .j (.flt d.neg) } else r)
          | .j (.int n) => some (if o == "-" then { v := .j (.int (-n)) } else r)
          | _ => some r        -- `!` / `-` on other operands: left as they are (statement silent)
  def sPrimary : Primary → Env → Option SR
    | .bool b, _ => some { v := .j (.bool b) }
    | .num d, _ => some { v := .j (.flt d) }
    | .str s, _ => some { v := .j (.str s) }
    | .regex p, _ => some { v := .re p }
    | .nil, _ => some { v := .j .null }
    | .sub e, env => (sExpr e env).map fun v => { v }
    | .call ident params sel _ _, env =>
      let frags := identFrags ident
      match params with
      | .some ps =>
        -- helper call on the value the path before the helper name denotes
        if env.nested then none else
        match frags.getLast? with
        | some (.child h) =>
          let target := resolve { env with nested := true } frags.dropLast
          let arg : Option SVal := match ps with
            | .cons (.expr e) .nil => sExpr e { doc := env.doc }
            | _ => none
          if h == "limit" then some { v := .j (.bool true) }
          else if h == "startsWith" || h == "endsWith" || h == "contains" then
            match arg, target.v with
            | some (.j a), .j t =>
              let s := textOf t; let x := textOf a
              some { v := .j (.bool (if h == "startsWith" then hasPrefix s x
                                     else if h == "endsWith" then hasSuffix s x else containsStr s x)) }
            | _, _ => none
          else if h == "json" || h == "now" then some { v := .j (.bool false) }   -- ill-typed argument
          else if h == "redact" || h == "xml" || h == "datetime" || ["now", "seconds", "minutes", "hours", "days", "weeks", "months", "years"].contains h then none
          else some { v := .j .null, void := true }                            -- undefined helper
        | _ => none
      | .none =>
        let isDocHop := match frags.getLast? with
          | some (.child "json") => true
          | _ => false
        match sel with
        | .none => if isDocHop then none else some (resolve env frags)
        | .mk index key rd hasExpr e =>
          if isDocHop then
            if env.nested then none else
            -- X.json()<selector>: the text at X holds a document
            let text := resolve { env with nested := true } frags.dropLast
            match text.v with
            | .j t =>
              match nestedDoc t with
              | none => if hasExpr then
                          -- no document: every reference inside is false
                          (sExpr e { doc := .null, nested := true }).map fun v => { v }
                        else some { v := .j (.bool false) }
              | some doc =>
                if hasExpr then
                  if index.isSome || key.isSome then none      -- index/key followed by a path: see findings
                  else (sExpr e { doc, nested := true }).map fun v => { v }
                else
                  let p : Path := match rd with
                    | some name => [.descent, .child name]
                    | none => selFrags index key
                  if p.isEmpty then none
                  else match Path.getAllOf p doc with
                    | [] => some { v := .j (.bool false) }
                    | [x] => some { v := .j x }
                    | xs => some { v := .j (.arr xs) }   -- any-match over several matches, as for a plain path
            | _ => none
          else
            if rd.isSome then none else
            let p := frags ++ selFrags index key
            if hasExpr then (sExpr e { env with pre := env.pre ++ p }).map fun v => { v }
            else some (resolve env p)
end

/-- truth value the language defines, if the query is in the spec's domain -/
def truth (e : Expr) (record : Json) : Option Bool :=
  (sExpr e { doc := record }).map truthy

/-- every `limit(arg)` / `x.limit(arg)` of the query in source order: `some n` for a literal
    argument, `none` when the argument is not a literal (outside the spec's domain) -/
partial def limitsOf : Sx → List (Option Nat)
  | .list [.atom "call", ident, .list [.atom "params", arg], sel] =>
    let name := ((strOfSx? ident).getD "").splitOn "." |>.getLast? |>.getD ""
    let here : List (Option Nat) :=
      if name == "limit" then
        match arg with
        | .list [.atom "E", .list [.atom "L", .list [.atom "Q", .list [.atom "C", .list [.atom "P", lit]]]]] =>
          match lit with
          | .list [.atom "num", .atom d] => [(Dec.parse? d).bind natOf]
          | .list [.atom "str", s] => [some (((strOfSx? s).bind Dec.parse?).bind natOf |>.getD 0)]
          | .atom "true" => [some 1]
          | .atom "false" => [some 0]
          | .atom "nil" => [some 0]
          | _ => [none]
        | _ => [none]
      else []
    here ++ limitsOf arg ++ limitsOf sel
  | .list xs => xs.flatMap limitsOf
  | _ => []
where natOf (d : Dec) : Option Nat := if d.num < 0 then none else some (d.num.toNat / 10 ^ d.exp)

/-- `limit(n)` is reported to the caller: with several, the first non-zero one in source
    order (the statement does not say; this is what the implementation does). -/
def limitOf (ast : Sx) : Option Nat :=
  let ls := limitsOf ast
  if ls.any Option.isNone then none
  else some ((ls.filterMap id).find? (· != 0) |>.getD 0)

end KsVerif.Kfl.Spec
