import KsVerif.Kfl.Macro
import KsVerif.Base.Verdict

namespace KsVerif.Kfl.Macro
open KsVerif

/-- the text of a case: UTF-8 (the generator writes valid UTF-8; anything else is read byte-wise) -/
def strOfSx (x : Sx) : Option String := x.asBytes?.map fun b =>
  match String.fromUTF8? (ByteArray.mk b.toArray) with
  | some s => s
  | none => String.ofList (b.map fun u => Char.ofNat u.toNat)

/-- kfl.macro: model = `expand`; spec (C17): in the domain the expansion is the token-level
    rewrite, every run gives the same text, and expanding again changes nothing. -/
def judge (payload impl : String) : Verdict :=
  match Sx.parse payload >>= strOfSx with
  | none => .bad "bad-case"
  | some q =>
    let e := expand q
    let m := Sx.list [.atom "ok", Sx.ofString e, .atom "true", Sx.ofString (expand e)]
    let dom := inDomain q
    let spec := specExpand q
    let specOk (obs : Sx) : Bool :=
      match obs with
      | .list [.atom "ok", first, same, twice] =>
        same.asBool? == some true && (toString twice == toString first) &&
          (!dom || strOfSx first == some spec)
      | _ => false
    let tags := if hasEscapedQuote q then ["kfl-macro-escaped-quote"] else []
    let hasName := Gen.Macros.table.any fun m => (q.splitOn m.1).length > 1
    { corr := m.toStr == impl,
      implSpec := match Sx.parse impl with | some o => specOk o | none => false,
      modelSpec := specOk m, tags, nontrivial := hasName,
      cls := s!"dom={dom},changed={e != q}", model := m.toStr, spec := (Sx.ofString spec).toStr }

end KsVerif.Kfl.Macro
