import KsVerif.Kfl.Macro
import KsVerif.Base.Verdict

namespace KsVerif.Kfl.Macro
open KsVerif

/-- the text of a case: UTF-8 (the generator writes valid UTF-8; anything else is read byte-wise) -/
def strOfSx (x : Sx) : Option String := x.asBytes?.map fun b =>
  match String.fromUTF8? (ByteArray.mk b.toArray) with
  | some s => s
  | none => String.ofList (b.map fun u => Char.ofNat u.toNat)

/-- (redef #name #def1 #def2 #query): with `name` defined as def1 the query must expand by the
    token-level rewrite over the table extended by (name, def1); after the redefinition by the one
    over the table extended by (name, def2) - whatever was expanded before. -/
def judgeRedef (name d1 d2 q : String) (impl : String) : Verdict :=
  let extra (d : String) : List (String × String) := [(name, d)]
  let want (d : String) := String.ofList (specExpandToks (extra d ++ Gen.Macros.table) (tokenize q.toList))
  let w := Sx.list [.atom "redef", Sx.ofString (want d1), Sx.ofString (want d2)]
  { corr := w.toStr == impl, implSpec := w.toStr == impl, modelSpec := true, tags := [], nontrivial := true,
    cls := "redef", model := w.toStr, spec := w.toStr }

/-- kfl.macro: model = `expand`; spec (C17): in the domain the expansion is the token-level
    rewrite, every run gives the same text, and expanding again changes nothing. -/
def judge (payload impl : String) : Verdict :=
  match Sx.parse payload with
  | some (.list [.atom "redef", n, a, b, q]) =>
    (match strOfSx n, strOfSx a, strOfSx b, strOfSx q with
     | some n, some a, some b, some q => judgeRedef n a b q impl
     | _, _, _, _ => .bad "bad-case")
  | _ =>
  match Sx.parse payload >>= strOfSx with
  | none => .bad "bad-case"
  | some q =>
    let e := expand q
    let m := Sx.list [.atom "ok", Sx.ofString e, .atom "true", Sx.ofString (expand e)]
    let dom := inDomain q
    let spec := specExpand q
    let specOk (obs : Sx) : Bool :=
      match obs with
      | .list [.atom "ok", first, same, twice] =>
        same.asBool? == some true && (toString twice == toString first) &&
          (!dom || strOfSx first == some spec)
      | _ => false
    let tags := if hasEscapedQuote q then ["kfl-macro-escaped-quote"] else []
    let hasName := Gen.Macros.table.any fun m => (q.splitOn m.1).length > 1
    { corr := m.toStr == impl,
      implSpec := match Sx.parse impl with | some o => specOk o | none => false,
      modelSpec := specOk m, tags, nontrivial := hasName,
      cls := s!"dom={dom},changed={e != q}", model := m.toStr, spec := (Sx.ofString spec).toStr }

/-- kfl.api (C12): Apply and PrepareQuery + Eval must give what the steps they are made of give, on
    every call; a time helper denotes the instant of THIS preparation (the record of a `time` case is
    stamped between two preparations of the same text). -/
def judgeApi (payload impl : String) : Verdict :=
  let ok := match Sx.parse payload, Sx.parse impl with
    | some (.list [.atom "time", _, want]), some (.list [.atom "time", a, b]) =>
      a.toStr == want.toStr && b.toStr == want.toStr
    | some (.list [.atom "dt", _, _, want]), some (.list [.atom "time", a, b]) =>
      a.toStr == want.toStr && b.toStr == want.toStr
    | some (.list (.atom "q" :: _)), some (.list [.atom "q", .list [.atom "ref", rt, rl], .list [.atom "apply", a1, a2],
        .list [.atom "prep", p1t, p1l, p2t, p2l]]) =>
      -- a precompute error makes Apply / PrepareQuery report an error too; otherwise all agree
      a1.toStr == rt.toStr && a2.toStr == rt.toStr && p1t.toStr == rt.toStr && p2t.toStr == rt.toStr &&
        p1l.toStr == rl.toStr && p2l.toStr == rl.toStr
    | _, _ => false
  { corr := ok, implSpec := ok && (impl.splitOn "panic").length == 1, modelSpec := true, tags := [], nontrivial := true,
    cls := (if (payload.splitOn "(time").length > 1 then "time" else "q"),
    model := "entry points = their steps, on every call", spec := "entry points = their steps; now() is the instant of this preparation" }

/-- kfl.redactf (C15): `F and redact(P)` on a record on which F holds returns the record
    `redact(P)` alone returns -/
def judgeRedactF (_payload impl : String) : Verdict :=
  match Sx.parse impl with
  | some (.list [tf, r1, r2, _t2]) =>
    let applicable := tf.toStr == "true"
    let ok := !applicable || r1.toStr == r2.toStr
    { corr := ok, implSpec := ok && r1.toStr != "error", modelSpec := true, tags := [], nontrivial := applicable,
      cls := s!"filter-holds={applicable}", model := r1.toStr, spec := "the record redact(P) alone returns" }
  | _ => { corr := false, implSpec := false, modelSpec := true, tags := [], nontrivial := true, cls := "no-observation",
           model := "-", spec := "the record redact(P) alone returns" }

/-- kfl.shared (C18): a prepared query shared by goroutines that evaluate it on different records: no result may
    differ from that of a fresh copy evaluated on the record alone -/
def judgeShared (_payload impl : String) : Verdict :=
  match Sx.parse impl with
  | some (.list [.atom "shared", .list [.atom "evals", n], .list [.atom "differ", d], .list [.atom "errors", _]]) =>
    let ok := d.toStr == "0"
    { corr := ok, implSpec := ok, modelSpec := true, tags := [], nontrivial := n.toStr != "0", cls := "shared",
      model := "differ 0", spec := "every concurrent evaluation equals that of a fresh copy on the record alone" }
  | some (.list [.atom "shared", .atom "prepare-error"]) =>
    { corr := true, implSpec := true, modelSpec := true, tags := [], nontrivial := false, cls := "prepare-error", model := "-", spec := "-" }
  | _ => { corr := false, implSpec := false, modelSpec := true, tags := [], nontrivial := true, cls := "no-observation",
           model := "-", spec := "every concurrent evaluation equals that of a fresh copy" }

end KsVerif.Kfl.Macro
