/-
  A parser for the query shapes `Summarize` and `Macros()` produce (C16):

      query  ::= conj ( " and " conj )*
      conj   ::= "(" query ")" | ref " == " value
      ref    ::= ident ( "[" digits "]" "." ref-tail )?        e.g. request.questions[0].name
      value  ::= "\"" chars "\"" | number | ident

  It builds the syntax tree the KFL grammar builds for these texts (a select expression
  swallows the rest of the comparison).  Anything else is outside the model (`none`).
-/
import KsVerif.Kfl.Precompute
import KsVerif.Kfl.Macro

namespace KsVerif.Kfl.QueryParse
open KsVerif.Kfl

def trim (s : String) : String := String.ofList ((s.toList.dropWhile (· == ' ')).reverse.dropWhile (· == ' ')).reverse

/-- split at the first top-level occurrence of `sep` (outside double quotes and parentheses) -/
def splitTop (sep : List Char) : List Char → Bool → Nat → List Char → Option (List Char × List Char)
  | [], _, _, _ => none
  | c :: rest, inq, depth, acc =>
    if !inq && depth == 0 && (c :: rest).take sep.length == sep then
      some (acc.reverse, (c :: rest).drop sep.length)
    else if c == '"' then splitTop sep rest (!inq) depth (c :: acc)
    else if !inq && c == '(' then splitTop sep rest inq (depth + 1) (c :: acc)
    else if !inq && c == ')' then splitTop sep rest inq (depth - 1) (c :: acc)
    else splitTop sep rest inq depth (c :: acc)

def isIdentChar (c : Char) : Bool := c.isAlphanum || c == '_' || c == '.'

def wrapPrimary (p : Primary) : Expr := .mk (.one (.one (.one (.pri p))))

def parseValue (s : String) : Option Primary :=
  let cs := s.toList
  match cs with
  | '"' :: _ =>
    if cs.length ≥ 2 && cs.getLast? == some '"' && !((cs.drop 1).dropLast.contains '"') && !cs.contains '\\' then
      some (.str (String.ofList ((cs.drop 1).dropLast)))
    else none
  | c :: _ =>
    if c.isDigit then (Dec.parse? s).map .num
    else if cs.all isIdentChar then some (.call s .none .none none none)
    else none
  | [] => none

/-- `ref == value` as the grammar parses it -/
def parseConj (s : String) : Option Equality :=
  match splitTop " == ".toList s.toList false 0 [] with
  | none => none
  | some (l, r) =>
    let lhs := trim (String.ofList l)
    match parseValue (trim (String.ofList r)) with
    | none => none
    | some v =>
      let rhs : Equality := .one (.one (.pri v))
      -- index selector: ident[n].tail
      match lhs.splitOn "[" with
      | [ident] =>
        if ident.toList.all isIdentChar && !ident.isEmpty then
          some (.bin (.one (.pri (.call ident .none .none none none))) "==" rhs)
        else none
      | [ident, rest] =>
        match rest.splitOn "]." with
        | [digits, tail] =>
          match digits.toNat? with
          | some n =>
            if ident.toList.all isIdentChar && tail.toList.all isIdentChar && !tail.isEmpty then
              let inner : Expr := .mk (.one (.bin (.one (.pri (.call tail .none .none none none))) "==" rhs))
              some (.one (.one (.pri (.call ident .none (.mk (some n) none none true inner) none none))))
            else none
          | none => none
        | _ => none
      | _ => none

mutual
  def parseQuery : Nat → String → Option Logical
    | 0, _ => none
    | fuel + 1, s =>
      let s := trim s
      match splitTop " and ".toList s.toList false 0 [] with
      | some (l, r) =>
        match parseOperand fuel (String.ofList l), parseQuery fuel (String.ofList r) with
        | some e, some n => some (.bin e "and" n)
        | _, _ => none
      | none => (parseOperand fuel s).map .one
  def parseOperand : Nat → String → Option Equality
    | 0, _ => none
    | fuel + 1, s =>
      let s := trim s
      let cs := s.toList
      if cs.head? == some '(' && cs.getLast? == some ')' then
        (parseQuery fuel (String.ofList (cs.drop 1).dropLast)).map fun l => .one (.one (.pri (.sub (.mk l))))
      else parseConj s
end

/-- expand macros, parse, prepare -/
def prepare (q : String) : Option (CR Expr) :=
  (parseQuery (q.length + 4) (Macro.expand q)).map fun l => precompute (.mk l)

/-- truth of a summary query / macro on an entry, by the model -/
def truthOn (q : String) (entry : Json) : Option Bool :=
  match prepare q with
  | some pre => if pre.unsup || pre.err then none else some (eval pre.node entry).1
  | none => none

end KsVerif.Kfl.QueryParse
