/-
  Model of pkg/extensions/redis/read.go (RedisInputStream, RedisProtocol) and the Dissect
  loop of pkg/extensions/redis/main.go, on the bytes that remain to be read.

  A half connection is `St` = the remaining bytes `rem` and how the stream ends (`tail`).
  The real reader keeps an 8 KiB window `Buf[count:limit]` over those bytes; every routine
  except `readLineBytes` consumes through `ensureFill(); Buf[count]; count++`, i.e. takes the
  next remaining byte whatever the window is.  `readLineBytes` looks at the window directly;
  it is modelled with the window (`vis` = number of remaining bytes currently in the window)
  in `readLineBytesWin`, and `Proofs/C08.lean` shows that it equals the window-free scan.

  Go operations that can panic are explicit `Err.panic` results.
-/
import KsVerif.Generated.GenRedisTables

namespace KsVerif.Redis

abbrev Bytes := List UInt8

inductive Tail where
  | eof   -- clean end of stream
  | err   -- the reader fails with an error
  deriving DecidableEq, Repr, Inhabited

inductive Err where
  | eof | readErr
  | unknownReply | unexpectedChar | emptyLine | badRedirect
  | unrecognizedElement | unrecognizedKeyword | unrecognizedCommand | unrecognizedType
  | outOfFuel
  | panic (site : String)
  deriving DecidableEq, Repr, Inhabited

structure St where
  rem : Bytes
  tail : Tail
  deriving Repr

def Err.isPanic : Err → Bool
  | .panic _ => true
  | _ => false

def St.endErr (st : St) : Err :=
  match st.tail with
  | .eof => .eof
  | .err => .readErr

/-- ensureFill + Buf[count] + count++ -/
def next (st : St) : Except Err (UInt8 × St) :=
  match st.rem with
  | [] => .error st.endErr
  | b :: r => .ok (b, { st with rem := r })

def CR : UInt8 := 13
def LF : UInt8 := 10

/-- The line scan shared by readLine, readLineBytes and readLineBytesSlowly: a CR followed
    by LF ends the line; a CR followed by anything else keeps both bytes. `none` = the input
    ends first. -/
def scanLine : Bytes → Option (Bytes × Bytes)
  | [] => none
  | [_] => none
  | b :: c :: rest =>
    if b = CR then
      if c = LF then some ([], rest)
      else (scanLine rest).map fun (l, r) => (b :: c :: l, r)
    else (scanLine (c :: rest)).map fun (l, r) => (b :: l, r)

/-- readLineBytesSlowly (and the scan of readLine). -/
def readLineBytes (st : St) : Except Err (Bytes × St) :=
  match scanLine st.rem with
  | some (l, r) => .ok (l, { st with rem := r })
  | none => .error st.endErr

/-- readLineBytes with its window: `vis` bytes of `rem` are in the buffer (`vis = 0` forces a
    refill first, which makes `refill` bytes visible).  Fast path: the terminating CR LF is
    inside the window; otherwise the slow path re-reads from the same position. -/
def scanWin : Nat → Bytes → Option (Bytes × Bytes)
  | _, [] => none
  | 0, _ => none
  | _ + 1, [_] => none
  | 1, _ :: _ :: _ => none
  | v + 2, b :: c :: rest =>
    if b = CR then
      if c = LF then some ([], rest)
      else (scanWin v rest).map fun (l, r) => (b :: c :: l, r)
    else (scanWin (v + 1) (c :: rest)).map fun (l, r) => (b :: l, r)

def readLineBytesWin (vis refill : Nat) (st : St) : Except Err (Bytes × St) :=
  if st.rem = [] then .error st.endErr       -- ensureFill fails
  else
    let vis := if vis = 0 then refill else vis
    match scanWin vis st.rem with
    | some (l, r) => .ok (l, { st with rem := r })   -- fast path: copy Buf[count:pos-2]
    | none => readLineBytes st                        -- readLineBytesSlowly

/-- readLine: the scan, as a string; an empty line is an error. -/
def readLine (st : St) : Except Err (Bytes × St) :=
  match readLineBytes st with
  | .error e => .error e
  | .ok (l, st') => if l = [] then .error .emptyLine else .ok (l, st')

def wrap64 (v : Int) : Int := (v + 9223372036854775808) % 18446744073709551616 - 9223372036854775808

/-- The digit loop of readIntCrLf. -/
def digits : Bytes → Int → Tail → Except Err (Int × Bytes)
  | [], _, t => .error (match t with | .eof => .eof | .err => .readErr)
  | [_], _, t => .error (match t with | .eof => .eof | .err => .readErr)
  | b :: c :: rest, v, t =>
    if b = CR then (if c = LF then .ok (v, rest) else .error .unexpectedChar)
    else digits (c :: rest) (wrap64 (v * 10 + b.toNat - 48)) t

def readInt (st : St) : Except Err (Int × St) :=
  match st.rem with
  | [] => .error st.endErr
  | b :: r =>
    let neg := b = 45
    match digits (if neg then r else st.rem) 0 st.tail with
    | .error e => .error e
    | .ok (v, rest) => .ok (if neg then wrap64 (-v) else v, { st with rem := rest })

/-- Values produced by `process`. -/
inductive RVal where
  | bytes (b : Bytes) (isNil : Bool)    -- []byte (simple string, bulk string; nil for $-1)
  | str (s : Bytes)                      -- string (error replies)
  | int (n : Int)
  | arr (xs : List RVal) (isNil : Bool)
  deriving Repr, Inhabited

inductive RType where
  | simple | bulk | array | integer | error | na
  deriving DecidableEq, Repr, Inhabited

/-- bytes of an ASCII string (kernel-reducible, unlike `String.toUTF8`) -/
def asciiBytes (s : String) : Bytes := s.toList.map fun c => c.toNat.toUInt8

def hasPrefix (p : Bytes) (s : Bytes) : Bool := s.take p.length == p

def splitOnByte (sep : UInt8) : Bytes → List Bytes
  | [] => [[]]
  | b :: rest =>
    match splitOnByte sep rest with
    | [] => [[]]   -- unreachable
    | cur :: more => if b = sep then [] :: cur :: more else (b :: cur) :: more

def lastIndexOf (x : UInt8) (s : Bytes) : Option Nat :=
  let rec go (i : Nat) (s : Bytes) (acc : Option Nat) : Option Nat :=
    match s with
    | [] => acc
    | b :: r => go (i + 1) r (if b = x then some i else acc)
  go 0 s none

/-- strconv.Atoi succeeded? (optional sign, at least one digit, all digits; overflow ignored:
    ports and slots beyond int64 are outside the modelled domain) -/
def atoiOk (s : Bytes) : Bool :=
  let d := match s with
    | 43 :: r => r
    | 45 :: r => r
    | _ => s
  !d.isEmpty && d.all (fun b => 48 ≤ b && b ≤ 57)

def atoiVal (s : Bytes) : Int :=
  let (neg, d) := match s with
    | 43 :: r => (false, r)
    | 45 :: r => (true, r)
    | _ => (false, s)
  let v : Int := d.foldl (fun acc b => acc * 10 + (b.toNat - 48 : Int)) 0
  if neg then -v else v

def intBytes (n : Int) : Bytes := asciiBytes (toString n)

/-- processError, after readLine: the reported string, or an error. -/
def errorString (msg : Bytes) : Except Err Bytes :=
  let redirect (kind : String) : Except Err Bytes :=
    -- parseTargetHostAndSlot: arr := strings.Split(msg, " ")
    let arr := splitOnByte 32 msg
    if arr.length < 3 then .error .badRedirect      -- the guard in front of the indexing
    else
    -- arr[2], arr[1]: Go index expressions, panic when out of range
    match arr[2]?, arr[1]? with
    | some target, some slotS =>
      let (host, port) := match lastIndexOf 58 target with
        | some i => (target.take i, target.drop (i + 1))
        | none => (target, [])
      if atoiOk port then
        let slot : Int := if atoiOk slotS then atoiVal slotS else 0
        .ok (asciiBytes kind ++ msg ++ asciiBytes " host: " ++ host ++ asciiBytes " port: " ++ intBytes (atoiVal port)
              ++ asciiBytes " slot: " ++ intBytes slot)
      else .error .badRedirect
    | _, _ => .error (.panic "parseTargetHostAndSlot: index out of range")
  if hasPrefix (asciiBytes "MOVED ") msg then redirect "MovedDataError: "
  else if hasPrefix (asciiBytes "ASK ") msg then redirect "AskDataError: "
  else if hasPrefix (asciiBytes "CLUSTERDOWN ") msg then .ok (asciiBytes "ClusterError: " ++ msg)
  else if hasPrefix (asciiBytes "BUSY ") msg then .ok (asciiBytes "BusyError: " ++ msg)
  else if hasPrefix (asciiBytes "NOSCRIPT ") msg then .ok (asciiBytes "NoScriptError: " ++ msg)
  else .ok (asciiBytes "DataError: " ++ msg)

/-- processBulkString after the length: exactly `l` bytes, then CR LF. -/
def bulkBody (l : Int) (st : St) : Except Err (Bytes × St) :=
  let n := l.toNat
  if st.rem.length < n then .error st.endErr
  else
    let body := st.rem.take n
    match next { st with rem := st.rem.drop n } with
    | .error e => .error e
    | .ok (c1, st1) =>
      if c1 ≠ CR then .error .unexpectedChar
      else match next st1 with
        | .error e => .error e
        | .ok (c2, st2) => if c2 ≠ LF then .error .unexpectedChar else .ok (body, st2)

mutual
  /-- RedisProtocol.process -/
  def process : Nat → St → Except Err (RVal × RType × St)
    | 0, _ => .error .outOfFuel
    | fuel + 1, st =>
      match next st with
      | .error e => .error e
      | .ok (b, st) =>
        if b = 43 then        -- '+'
          match readLineBytes st with
          | .error e => .error e
          | .ok (l, st) => .ok (.bytes l false, .simple, st)
        else if b = 36 then   -- '$'
          match readInt st with
          | .error e => .error e
          | .ok (l, st) =>
            if l = -1 then .ok (.bytes [] true, .bulk, st)
            else match bulkBody l st with
              | .error e => .error e
              | .ok (body, st) => .ok (.bytes body false, .bulk, st)
        else if b = 42 then   -- '*'
          match readInt st with
          | .error e => .error e
          | .ok (l, st) =>
            if l = -1 then .ok (.arr [] true, .array, st)
            else match elems fuel l.toNat st with
              | .error e => .error e
              | .ok (xs, st) => .ok (.arr xs false, .array, st)
        else if b = 58 then   -- ':'
          match readInt st with
          | .error e => .error e
          | .ok (n, st) => .ok (.int n, .integer, st)
        else if b = 45 then   -- '-'
          match readLine st with
          | .error e => .error e
          | .ok (msg, st) =>
            match errorString msg with
            | .error e => .error e
            | .ok s => .ok (.str s, .error, st)
        else .error .unknownReply
  /-- the element loop of processArray: stops at the first error -/
  def elems : Nat → Nat → St → Except Err (List RVal × St)
    | 0, _, _ => .error .outOfFuel
    | _ + 1, 0, st => .ok ([], st)
    | fuel + 1, n + 1, st =>
      match process fuel st with
      | .error e => .error e
      | .ok (v, _, st) =>
        match elems fuel n st with
        | .error e => .error e
        | .ok (vs, st) => .ok (v :: vs, st)
end

structure Packet where
  type : RType
  command : Bytes := []
  key : Bytes := []
  value : Bytes := []
  keyword : Bytes := []
  deriving Repr, Inhabited

def upperAscii (s : Bytes) : Bytes := s.map fun b => if 97 ≤ b ∧ b ≤ 122 then b - 32 else b

def isAscii (s : Bytes) : Bool := s.all (· < 128)

def inTable (tbl : List String) (s : Bytes) : Bool := tbl.any fun t => asciiBytes t == s

/-- RedisProtocol.Read after `process`: packet shaping and table validation. -/
def shape (v : RVal) (t : RType) : Except Err Packet :=
  let p : Packet := { type := t }
  let validate (p : Packet) : Except Err Packet :=
    if p.command ≠ [] ∧ !inTable Gen.Redis.commands p.command then .error .unrecognizedCommand else .ok p
  match v with
  | .arr xs _ =>
    match xs with
    | [] => .ok p
    | .bytes c _ :: rest =>
      let item (x : RVal) : Option Bytes := match x with
        | .bytes b _ => some b
        | .int n => some (intBytes n)
        | _ => none
      let p := { p with command := upperAscii c }
      let p := match rest with
        | k :: _ => match item k with
          | some b => { p with key := b }
          | none => p
        | [] => p
      let p := match rest.drop 1 with
        | v :: _ => match item v with
          | some b => { p with value := b }
          | none => p
        | [] => p
      let p := if rest.length > 2 then
          -- "[v, a, b, ...]": items that are neither bytes nor integers are skipped
          let more := (rest.drop 2).filterMap item
          let body := asciiBytes "[" ++ p.value ++ (more.map (fun m => asciiBytes ", " ++ m)).flatten
          { p with value := body ++ asciiBytes "]" }
        else p
      validate p
    | _ :: _ => .error .unrecognizedElement
  | .bytes b _ =>
    if t = .simple then
      let kw := upperAscii b
      if inTable Gen.Redis.keywords kw then .ok { p with keyword := kw } else .error .unrecognizedKeyword
    else .ok { p with value := b }
  | .str s => .ok { p with value := s }
  | .int n => .ok { p with value := intBytes n }

/-- RedisProtocol.Read -/
def read (fuel : Nat) (st : St) : Except Err (Packet × St) :=
  match process fuel st with
  | .error e => .error e
  | .ok (v, t, st) =>
    match shape v t with
    | .error e => .error e
    | .ok p => .ok (p, st)

/-- Dissect of one half: packets handed to the matcher, and the error that ended it. -/
def dissect : Nat → St → List Packet × Err
  | 0, _ => ([], .outOfFuel)
  | fuel + 1, st =>
    match read (2 * st.rem.length + 4) st with
    | .error e => ([], e)
    | .ok (p, st') =>
      let (ps, e) := dissect fuel st'
      (p :: ps, e)

def dissectAll (bytes : Bytes) (tail : Tail) : List Packet × Err :=
  dissect (bytes.length + 2) { rem := bytes, tail }

end KsVerif.Redis
