/-
  Driver glue for the Redis families.
-/
import KsVerif.Redis.Spec
import KsVerif.Base.Verdict

namespace KsVerif.Redis.Driver
open KsVerif KsVerif.Redis KsVerif.Redis.Spec

def typeSym : RType → String
  | .simple => "simple" | .bulk => "bulk" | .array => "array"
  | .integer => "integer" | .error => "error" | .na => "na"

def typeOfSym : String → Option RType
  | "simple" => some .simple | "bulk" => some .bulk | "array" => some .array
  | "integer" => some .integer | "error" => some .error | "na" => some .na
  | _ => none

def errSym : Err → String
  | .eof => "eof" | .readErr => "readerr" | .unknownReply => "unknown-reply"
  | .unexpectedChar => "unexpected-char" | .emptyLine => "empty-line" | .badRedirect => "bad-redirect"
  | .unrecognizedElement => "unrecognized-element" | .unrecognizedKeyword => "unrecognized-keyword"
  | .unrecognizedCommand => "unrecognized-command" | .unrecognizedType => "unrecognized-type"
  | .outOfFuel => "model-out-of-fuel" | .panic s => "panic:" ++ s

def pktSx (p : Packet) : Sx :=
  .list [.atom (typeSym p.type), Sx.ofBytes p.command, Sx.ofBytes p.key, Sx.ofBytes p.value, Sx.ofBytes p.keyword]

def pktOfSx : Sx → Option Packet
  | .list [.atom t, c, k, v, w] => do
    let type ← typeOfSym t
    some { type, command := ← c.asBytes?, key := ← k.asBytes?, value := ← v.asBytes?, keyword := ← w.asBytes? }
  | _ => none

partial def replyOfSx : Sx → Option Reply
  | .list [.atom "simple", s] => s.asBytes?.map .simple
  | .list [.atom "error", s] => s.asBytes?.map .error
  | .list [.atom "int", n] => n.asInt?.map .int
  | .list [.atom "bulk", b] => b.asBytes?.map (fun b => .bulk (some b))
  | .list [.atom "nullbulk"] => some (.bulk none)
  | .list [.atom "nullarray"] => some (.array none)
  | .list (.atom "array" :: xs) => (xs.mapM replyOfSx).map (fun xs => .array (some xs))
  | _ => none

def exchangeOfSx : Sx → Option Exchange
  | .list [.list [.atom "cmd", name, .list args], reply] => do
    some { cmd := { name := ← name.asBytes?, args := ← args.mapM Sx.asBytes? }, reply := ← replyOfSx reply }
  | _ => none

def tailOfSx : Sx → Option Tail
  | .atom "eof" => some .eof
  | .atom "err" => some .err
  | _ => none

def field? (obs : Sx) (name : String) : Option (List Sx) :=
  match obs with
  | .list parts => parts.findSome? fun
      | .list (.atom n :: rest) => if n == name then some rest else none
      | _ => none
  | _ => none

/-- Observation of a conversation: both halves dissected one after the other. -/
def observeConv (cb sb : Bytes) (ctail stail : Tail) : Sx × List (Packet × Packet) :=
  let (pc, ec) := dissectAll cb ctail
  let (ps, es) := dissectAll sb stail
  let items := pc.zip ps
  let n := items.length
  let left := ((pc.drop n).zipIdx.map fun (p, i) => Sx.list [Sx.ofNat (n + i + 1), .atom "req", pktSx p]) ++
              ((ps.drop n).zipIdx.map fun (p, i) => Sx.list [Sx.ofNat (n + i + 1), .atom "resp", pktSx p])
  (.list [.list [.atom "cbytes", Sx.ofBytes cb], .list [.atom "sbytes", Sx.ofBytes sb],
     .list [.atom "c", .atom (errSym ec)], .list [.atom "s", .atom (errSym es)],
     .list (.atom "items" :: items.map fun (q, r) => .list [pktSx q, pktSx r]),
     .list (.atom "left" :: left)], items)

def itemsOfObs (obs : Sx) : Option (List (Packet × Packet)) :=
  match field? obs "items" with
  | some xs => xs.mapM fun
      | .list [q, r] => do some (← pktOfSx q, ← pktOfSx r)
      | _ => none
  | none => none

def replyClass : Reply → String
  | .simple _ => "simple" | .error _ => "error" | .int _ => "int"
  | .bulk none => "nullbulk" | .bulk (some _) => "bulk"
  | .array none => "nullarray" | .array (some []) => "emptyarray" | .array (some _) => "array"

def judgeConv (payload impl : String) (splitMode : Bool := false) : Verdict :=
  match Sx.parse payload with
  | some (.list [.list (.atom "conv" :: exs), _, _]) =>
    match exs.mapM exchangeOfSx with
    | none => .bad "bad-case"
    | some conv =>
      let cb := encClient conv
      let sb := encServer conv
      let (m, mitems) := observeConv cb sb .eof .eof
      let implSx := Sx.parse impl
      let implItems := implSx >>= itemsOfObs
      -- the harness must have fed the bytes the spec encoder produces
      let sameBytes := match implSx with
        | some o => ((field? o "cbytes").map fun l => (Sx.list l).toStr) == some (Sx.list [Sx.ofBytes cb]).toStr &&
                    ((field? o "sbytes").map fun l => (Sx.list l).toStr) == some (Sx.list [Sx.ofBytes sb]).toStr
        | none => false
      if !sameBytes && (implSx.bind (field? · "cbytes")).isSome then .bad "encoder-mismatch"
      else
      if splitMode then
        -- C08: what is observed must be what the bytes alone determine
        let splits := match Sx.parse payload with
          | some (.list [_, .list a, .list b]) => a.length + b.length
          | _ => 0
        { corr := m.toStr == impl, implSpec := m.toStr == impl, modelSpec := true,
          nontrivial := splits ≥ 1, cls := s!"n={min conv.length 5},splits={min splits 5}",
          model := m.toStr, spec := m.toStr }
      else
      let wf := conv.all wfExchange
      let cls := ",".intercalate ((conv.map fun e => replyClass e.reply).eraseDups)
      { corr := m.toStr == impl,
        implSpec := match implItems with
          | some its => convOk conv its
          | none => false,
        modelSpec := convOk conv mitems,
        tags := tagsOf conv,
        nontrivial := wf && conv.length ≥ 1,
        cls := s!"n={min conv.length 5},{cls}",
        model := m.toStr,
        spec := "one item per exchange; k-th command with k-th reply; name/key/args and reply type/content as sent" }
  | _ => .bad "bad-case"

/-- redis.raw: one half, arbitrary bytes in arbitrary chunks. -/
def judgeRaw (payload impl : String) (splitMode : Bool := false) : Verdict :=
  match Sx.parse payload with
  | some (.list [.atom _side, .list chunks, tail]) =>
    match chunks.mapM Sx.asBytes?, tailOfSx tail with
    | some cs, some t =>
      let bytes := cs.flatten
      let (ps, e) := dissectAll bytes t
      let m := Sx.list [.list [.atom "end", .atom (errSym e)], .list (.atom "packets" :: ps.map pktSx)]
      let noPanic (s : String) := !(s.splitOn "panic").length > 1 && !(s.splitOn "crash").length > 1 && !(s.splitOn "timeout").length > 1
      if splitMode then
        -- C08: the observation must be the one determined by the bytes alone
        { corr := m.toStr == impl, implSpec := m.toStr == impl, modelSpec := true,
          nontrivial := cs.length ≥ 2, cls := s!"end={errSym e},packets={min ps.length 3},chunks={min cs.length 4}",
          model := m.toStr, spec := m.toStr }
      else
      { corr := m.toStr == impl, implSpec := noPanic impl, modelSpec := noPanic m.toStr,
        nontrivial := bytes.length ≥ 2, cls := s!"end={errSym e},packets={min ps.length 3},chunks={min cs.length 4}",
        model := m.toStr, spec := "returns an end-of-stream or error result; never panics" }
    | _, _ => .bad "bad-case"
  | _ => .bad "bad-case"

/-- redis.bigreply (C07): a reply array of n elements (n around 2^20), then a second command and its reply; the
    conversation is built from n by the harness, what must be reported is computed from n here: two pairs, the
    first reply with all n elements (command name, key, n - 2 in the value), the second answered by PONG -/
def judgeBigReply (payload impl : String) : Verdict :=
  match Sx.parse payload with
  | some (.list [nSx]) =>
    match nSx.asInt? with
    | some n =>
      let want := s!"(big (pairs 2) (xs {n - 2}) (second simple #504f4e47) (c eof) (s eof))"
      let ok := impl == want
      { corr := ok, implSpec := ok, modelSpec := true, tags := [], nontrivial := true, cls := "bigreply",
        model := want, spec := want }
    | none => .bad "bad-case"
  | _ => .bad "bad-case"

end KsVerif.Redis.Driver
