/-
  RESP2 as the property statements describe it: an independent encoder from abstract
  conversations to wire bytes, and what must be reported for each exchange (C07).
  Nothing here reads the model.
-/
import KsVerif.Redis.Model

namespace KsVerif.Redis.Spec
open KsVerif.Redis

inductive Reply where
  | simple (s : Bytes)
  | error (msg : Bytes)
  | int (n : Int)
  | bulk (b : Option Bytes)
  | array (xs : Option (List Reply))
  deriving Repr, Inhabited

structure Command where
  name : Bytes
  args : List Bytes
  deriving Repr, Inhabited

structure Exchange where
  cmd : Command
  reply : Reply
  deriving Repr, Inhabited

def crlf : Bytes := [13, 10]
def dec (n : Int) : Bytes := asciiBytes (toString n)

def encBulk (b : Bytes) : Bytes := [36] ++ dec b.length ++ crlf ++ b ++ crlf

def encCommand (c : Command) : Bytes :=
  [42] ++ dec (c.args.length + 1) ++ crlf ++ encBulk c.name ++ (c.args.map encBulk).flatten

mutual
  def encReply : Reply → Bytes
    | .simple s => [43] ++ s ++ crlf
    | .error m => [45] ++ m ++ crlf
    | .int n => [58] ++ dec n ++ crlf
    | .bulk none => [36] ++ dec (-1) ++ crlf
    | .bulk (some b) => encBulk b
    | .array none => [42] ++ dec (-1) ++ crlf
    | .array (some xs) => [42] ++ dec xs.length ++ crlf ++ encReplies xs
  def encReplies : List Reply → Bytes
    | [] => []
    | r :: rs => encReply r ++ encReplies rs
end

def encClient (conv : List Exchange) : Bytes := (conv.map fun e => encCommand e.cmd).flatten
def encServer (conv : List Exchange) : Bytes := (conv.map fun e => encReply e.reply).flatten

def upper (s : Bytes) : Bytes := s.map fun b => if 97 ≤ b ∧ b ≤ 122 then b - 32 else b

def isInfix (needle hay : Bytes) : Bool :=
  (List.range (hay.length + 1)).any fun i => (hay.drop i).take needle.length == needle

def joinArgs : List Bytes → Bytes
  | [] => []
  | [a] => a
  | a :: rest => a ++ [44, 32] ++ joinArgs rest

/-- What must be reported for a command: its name, its key, its further arguments. -/
def reqOk (c : Command) (p : Packet) : Bool :=
  p.type == .array && p.command == upper c.name && p.keyword == [] &&
  match c.args with
  | [] => p.key == [] && p.value == []
  | [k] => p.key == k && p.value == []
  | [k, v] => p.key == k && p.value == v
  | k :: more => p.key == k && p.value == [91] ++ joinArgs more ++ [93]

/-- What must be reported for a reply: its type and its content. -/
def respOk (r : Reply) (p : Packet) : Bool :=
  match r with
  | .simple s => p.type == .simple && p.keyword == upper s && p.value == []
  | .error m => p.type == .error && isInfix m p.value
  | .int n => p.type == .integer && p.value == dec n
  | .bulk (some b) => p.type == .bulk && p.value == b
  | .bulk none => !(p.type == .bulk && p.value == [])     -- null must not look like an empty bulk string
  | .array _ => p.type == .array

/-- C07 on a whole conversation: one item per exchange, the k-th item joins the k-th command
    with the k-th reply, each reported as sent. -/
def convOk (conv : List Exchange) (items : List (Packet × Packet)) : Bool :=
  items.length == conv.length &&
  (conv.zip items).all fun (e, (q, r)) => reqOk e.cmd q && respOk e.reply r

/-! ### well-formedness of generated conversations and defect tags -/

def noCRLF (s : Bytes) : Bool := s.all fun b => b != 13 && b != 10

def inTable (tbl : List String) (s : Bytes) : Bool := tbl.any fun t => asciiBytes t == s

mutual
  def wfReply : Reply → Bool
    | .simple s => noCRLF s
    | .error m => noCRLF m && !m.isEmpty
    | .int n => -9223372036854775808 ≤ n && n ≤ 9223372036854775807
    | .bulk _ => true
    | .array none => true
    | .array (some xs) => wfReplies xs
  def wfReplies : List Reply → Bool
    | [] => true
    | r :: rs => wfReply r && wfReplies rs
end

def wfExchange (e : Exchange) : Bool :=
  inTable Gen.Redis.commands (upper e.cmd.name) && e.cmd.name.all (· < 128) && wfReply e.reply

/-- Defect tags: shapes of legal replies the dissector is known not to report (see
    known_findings.json). -/
def tagsOfReply : Reply → List String
  | .simple s => if inTable Gen.Redis.keywords (upper s) then [] else ["redis-reply-simple-not-keyword"]
  | .bulk none => ["redis-reply-null-bulk"]
  | .array (some (_ :: _)) => ["redis-reply-array-nonempty"]
  | _ => []

def tagsOf (conv : List Exchange) : List String :=
  (conv.flatMap fun e => tagsOfReply e.reply).eraseDups

end KsVerif.Redis.Spec
