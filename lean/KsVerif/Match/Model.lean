/-
  The request/response matcher shared by the two halves of a connection
  (pkg/extensions/{http,redis,amqp}/matcher.go registerRequest / registerResponse):

      if other, found := openMessagesMap.LoadAndDelete(ident); found {
          if other.IsRequest == mine.IsRequest { return nil }     -- same side: both dropped
          return pair
      }
      openMessagesMap.Store(ident, mine); return nil

  modelled as one atomic step `register` (the register functions run under the matcher's
  mutex — checked on the regenerated shape, see Proofs/C10.lean).  Keys are any type with
  decidable equality: the ident strings are an injective image of (connection, ordinal),
  see `Match/Ident.lean`.
-/
namespace KsVerif.Match

inductive Side where
  | req | resp
  deriving DecidableEq, Repr, Inhabited

def Side.other : Side → Side
  | .req => .resp
  | .resp => .req

@[simp] theorem Side.other_other (s : Side) : s.other.other = s := by cases s <;> rfl
@[simp] theorem Side.other_ne (s : Side) : s.other ≠ s := by cases s <;> simp [Side.other]
@[simp] theorem Side.ne_other (s : Side) : s ≠ s.other := by cases s <;> simp [Side.other]
theorem Side.eq_other_of_ne {s t : Side} (h : s ≠ t) : s = t.other := by
  cases s <;> cases t <;> simp_all [Side.other]

variable {κ : Type} [DecidableEq κ]

/-- The open-messages map: which side's message is held under a key. -/
abbrev Map (κ : Type) := κ → Option Side

def Map.empty : Map κ := fun _ => none
def Map.set (m : Map κ) (k : κ) (v : Option Side) : Map κ := fun k' => if k' = k then v else m k'

/-- State of the matcher: the map and the keys of the pairs emitted so far (oldest first). -/
structure State (κ : Type) where
  map : Map κ
  emitted : List κ

def State.init : State κ := { map := Map.empty, emitted := [] }

/-- One message arriving: `(key, side)`. -/
def register (st : State κ) (k : κ) (s : Side) : State κ :=
  match st.map k with
  | some held =>
    if held = s then { st with map := st.map.set k none }             -- same side: dropped
    else { map := st.map.set k none, emitted := st.emitted ++ [k] }   -- pair completed
  | none => { st with map := st.map.set k (some s) }

/-- A history: messages in arrival order. -/
def run (st : State κ) : List (κ × Side) → State κ
  | [] => st
  | (k, s) :: h => run (register st k s) h

end KsVerif.Match
