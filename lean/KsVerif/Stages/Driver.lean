/-
  Judges of the families stages.<proto> (C11) and queries.<proto> (C16).
-/
import KsVerif.Kfl.QueryParse
import KsVerif.Redis.Spec
import KsVerif.Base.Verdict

namespace KsVerif.Stages
open KsVerif KsVerif.Kfl

def field? (obs : Sx) (name : String) : Option (List Sx) :=
  match obs with
  | .list parts => parts.findSome? fun
      | .list (.atom n :: rest) => if n == name then some rest else none
      | _ => none
  | _ => none

def itemsOf (impl : String) : Option (List Sx) :=
  match Sx.parse impl with
  | some (.list xs) => if xs.all (fun x => match x with | .list (.atom "item" :: _) => true | _ => false) then some xs else none
  | _ => none

def noCrash (s : String) : Bool :=
  !((s.splitOn "crash").length > 1 || (s.splitOn "timeout").length > 1 || (s.splitOn "missing").length > 1 || (s.splitOn "harness-error").length > 1)

/-! ### C11 -/

/-- the JSON shape of a Redis packet (RedisPacket's json tags) -/
def redisShape (p : Redis.Packet) : Json :=
  let s (b : Redis.Bytes) : Json := .str (Json.strOfBytes b)
  .obj [("type", .str (match p.type with
            | .simple => "Simple String" | .bulk => "Bulk String" | .array => "Array"
            | .integer => "Integer" | .error => "Error" | .na => "N/A")),
        ("command", s p.command), ("key", s p.key), ("value", s p.value), ("keyword", s p.keyword)]

/-- what representGeneric demands of a details object: these members, as strings -/
def redisDemands : List String := ["type", "command", "key", "value", "keyword"]

def demandsHold (ds : List String) (j : Json) : Bool :=
  match j with
  | .obj kvs => ds.all fun k => match Json.lookup kvs k with
    | some (.str _) => true
    | _ => false
  | _ => false

def judgeStages (_proto payload impl : String) : Verdict :=
  match itemsOf impl with
  | none =>
    { corr := true, implSpec := false, modelSpec := true, nontrivial := true, cls := "no-observation",
      model := "-", spec := "every item passes the stages" }
  | some items =>
    let ok := items.all fun it =>
      (match field? it "stage" with | some [.atom "ok"] => true | _ => false) &&
      (match field? it "wf" with | some [.atom "ok"] => true | _ => false)
    { corr := true, implSpec := noCrash impl && ok, modelSpec := true, nontrivial := !items.isEmpty,
      cls := s!"items={min items.length 6}", model := "-",
      spec := "every emitted item: marshal / analyze / summarize / represent without panic or error; representation well-formed" }

/-! ### C16 -/

def strOf (x : Sx) : String := ((x.asBytes?).map Json.strOfBytes).getD ""

/-- expected truth of a macro on an entry of protocol (name, abbr): its definition compares
    `protocol.name` or `protocol.abbr` with a literal -/
def macroExpected (body : String) (name abbr : String) : Option Bool :=
  match body.splitOn " == " with
  | [lhs, rhs] =>
    let lit := String.ofList ((rhs.toList.dropWhile (· == '"')).reverse.dropWhile (· == '"')).reverse
    if lhs == "protocol.name" then some (name == lit)
    else if lhs == "protocol.abbr" then some (abbr == lit)
    else none
  | _ => none

/-- the text between the first and the last double quote of a query -/
def literalBody (q : String) : List Char :=
  ((q.toList.dropWhile (· != '"')).drop 1).reverse.dropWhile (· != '"') |>.drop 1 |>.reverse

/-- outside the modelled lexer: the model is not asked -/
def unsafeLiteral (q : String) : Bool :=
  (q.toList.filter (· == '"')).length > 2 || q.toList.contains '\\' || q.toList.any (fun c => c.toNat < 32)

def isOct (c : Char) : Bool := '0' ≤ c && c ≤ '7'
def isHex (c : Char) : Bool := c.isDigit || ('a' ≤ c && c ≤ 'f') || ('A' ≤ c && c ≤ 'F')

/-- a backslash that is not the start of one of the lexer's escapes inside a double-quoted string
    (text/scanner's scanEscape: a b f n r t v \\ ", three octal digits, x + 2, u + 4, U + 8 hex
    digits; `\'` is NOT one) -/
def escBreaks : List Char → Bool
  | '\\' :: c :: rest =>
    if "abfnrtv\\\"".toList.contains c then escBreaks rest
    else if isOct c then !((rest.take 2).length == 2 && (rest.take 2).all isOct) || escBreaks (rest.drop 2)
    else
      let need := if c == 'x' then 2 else if c == 'u' then 4 else if c == 'U' then 8 else 0
      if need == 0 then true
      else !((rest.take need).length == need && (rest.take need).all isHex) || escBreaks (rest.drop need)
  | ['\\'] => true
  | _ :: rest => escBreaks rest
  | [] => false
termination_by l => l.length
decreasing_by all_goals (simp_wf; try omega)

/-- the recorded finding `query-literal-unescaped`: a value that cannot stand between plain double
    quotes - it holds a quote, a line feed, a NUL, or a backslash that does not start one of the
    lexer's character escapes (a trailing one escapes the closing quote).  Every other value (tabs, other control characters, backslashes
    inside, non-ASCII) must give a query that is true of its entry. -/
def breaksLiteral (q : String) : Bool :=
  -- a conjunction of clauses (kafka summaries): clause by clause
  -- the split takes the closing quote off every clause but the last; the last one is the text as it stands
  -- (a query that does not end in a quote - `path.startsWith("...")` - must not be given one: the text between
  -- its first and last quote would then hold the real closing quote and pass for the recorded finding)
  let pieces := q.splitOn "\" and "
  let clauses := (pieces.dropLast.map fun c => c ++ "\"") ++ pieces.getLast?.toList
  clauses.any fun c =>
    let body := literalBody c
    body.contains '"' || body.contains '\n' || body.contains (Char.ofNat 0) || escBreaks body

/-- the paths a Summarize-shaped query compares with a string literal: the run of path characters
    before every ` == "` -/
def queryPaths (q : String) : List String :=
  let pieces := q.splitOn " == \""
  (pieces.dropLast).map fun pre =>
    String.ofList (pre.toList.reverse.takeWhile (fun c => c.isAlphanum || c == '_' || c == '.' || c == '[' || c == ']')).reverse

/-- the value an entry holds at `a.b[2].c` -/
def valueAt (j : Json) (path : String) : Option Json :=
  (path.splitOn ".").foldl (fun cur seg => cur.bind fun j =>
    let name := String.ofList (seg.toList.takeWhile (· != '['))
    let idxs := ((seg.splitOn "[").drop 1).map fun t => (String.ofList (t.toList.takeWhile (· != ']'))).toNat?
    let base := if name.isEmpty then some j else match j with
      | .obj kvs => Json.lookup kvs name
      | _ => none
    idxs.foldl (fun cur i => cur.bind fun j => match j, i with
      | .arr xs, some i => xs[i]?
      | _, _ => none) base) (some j)

/-- the recorded finding again, judged on the VALUES the query was built from (robust against values
    that themselves hold `" and `): some compared path of the entry holds a string that cannot stand
    between plain double quotes -/
def valueBreaks (entry : Option Json) (q : String) : Bool :=
  match entry with
  | none => false
  | some e => (queryPaths q).any fun p => match valueAt e p with
    | some (.str v) => v.toList.contains '"' || v.toList.contains '\n' || v.toList.contains (Char.ofNat 0) || escBreaks v.toList
    | _ => false

def judgeQueries (_proto payload impl : String) : Verdict :=
  match itemsOf impl with
  | none =>
    { corr := true, implSpec := false, modelSpec := true, nontrivial := true, cls := "no-observation",
      model := "-", spec := "queries true on their own entry" }
  | some items =>
    -- per item: (impl ok, model agrees, unsafe literal seen)
    let results := items.map fun it =>
      -- the macro of the protocol the entry belongs to (api.Protocol.Macro): the one macro that must hold
      let owner : Option String := match field? it "owner" with
        | some [o] => some (strOf o)
        | _ => none
      match field? it "queries", field? it "macros", field? it "proto", field? it "entry" with
      | some qs, some ms, some [pn, pa], some [entryHex] =>
        let entry := Json.parse? (strOf entryHex)
        let qres := qs.map fun q => match q with
          | .list [_, qtext, .atom truth] =>
            let qt := strOf qtext
            let implOk := truth == "true" || truth == "none"
            -- literals holding quotes, backslashes, control or non-ASCII characters are outside the modelled lexer
            let modelT : Option Bool :=
              if qt.isEmpty || unsafeLiteral qt || qt.toList.any (fun c => c.toNat > 126) then none
              else entry.bind (QueryParse.truthOn qt)
            let agree := match modelT with
              | some b => truth == toString b
              | none => true
            (implOk, agree, breaksLiteral qt || valueBreaks entry qt)
          | _ => (false, true, false)
        let mres := ms.map fun m => match m with
          | .list [.atom name, .atom truth] =>
            let body := ((Gen.Macros.table.find? (·.1 == name)).map (·.2)).getD ""
            let expected := macroExpected body (strOf pn) (strOf pa)
            -- independent of the definition's text: a macro holds exactly on the entries of its protocol
            let ownOk := match owner with
              | some o => truth == toString (o == name)
              | none => true
            let implOk := ownOk && match expected with
              | some b => truth == toString b
              | none => true
            let modelT : Option Bool := entry.bind (QueryParse.truthOn name)
            let agree := match modelT with
              | some b => truth == toString b
              | none => true
            (implOk, agree, false)
          | _ => (false, true, false)
        qres ++ mres
      | _, _, _, _ => [(match field? it "stage" with | some [.atom "ok"] => false | _ => true, true, false)]
    let flat := results.flatten
    let tags := if flat.any (·.2.2) then ["query-literal-unescaped"] else []
    { corr := flat.all (·.2.1), implSpec := noCrash impl && flat.all (·.1), modelSpec := true, tags,
      nontrivial := !items.isEmpty, cls := s!"items={min items.length 6}",
      model := "truth of each query and macro on the entry, by the KFL model", spec := "method / summary / status query true on the own entry; a macro true iff the entry is of its protocol" }

end KsVerif.Stages
