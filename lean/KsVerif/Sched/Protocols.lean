/-
  The protocols the regenerated shapes are classified into.  The theorems of C10, C19 and
  C20 (dump) quantify over every schedule of these protocols at their finest granularity
  (every atomic macro-step is a scheduling point), which includes every schedule the yield
  points of the real code can produce.
-/
import KsVerif.Base.Shape

namespace KsVerif.Sched

/-- A register function whose look-up and store happen inside one lock region. -/
def isAtomicRegister (shape : List AOp) : Bool :=
  stripYields shape == [.lock, .deferUnlock, .mapLoadAndDelete, .mapStore]

/-- Emit: statistic incremented atomically, index read and incremented inside one lock
    region, then the send. Macro-steps: incM ; reserve ; send. -/
def isAtomicEmit (shape : List AOp) : Bool :=
  stripYields shape == [.incMatched, .setEmittable, .lock, .getIndex, .incCount, .unlock, .send]

/-- Counter reset as a single atomic exchange. -/
def isAtomicReset (shape : List AOp) : Bool :=
  stripYields shape == [.atomicSwap]

/-- A counter update of AppStats: one atomic add (possibly followed by an atomic load of the
    result), nothing else - the `inc` event of the dump protocol and the `incMatched` step of Emit. -/
def isAtomicCounterOp (shape : List AOp) : Bool :=
  stripYields shape == [.atomicAdd] || stripYields shape == [.atomicAdd, .atomicLoad]

/-! ### dump protocol (C20) -/

inductive DEvent where
  | inc    -- some goroutine increments the counter (atomic add)
  | dump   -- the dumper exchanges the counter with 0 and reports the old value
  deriving DecidableEq, Repr

structure DState where
  cell : Nat := 0
  dumps : List Nat := []

def dstep (s : DState) : DEvent → DState
  | .inc => { s with cell := s.cell + 1 }
  | .dump => { cell := 0, dumps := s.dumps ++ [s.cell] }

def drun (s : DState) (es : List DEvent) : DState := es.foldl dstep s

/-! ### emit protocol (C19): two goroutines of one stream -/

structure ETask where
  rem : Nat        -- Emit calls not yet started
  pc : Nat := 0    -- 0 idle, 1 after incMatched, 2 after reserve (index read + incremented)
  reg : Nat := 0   -- the index read
  deriving Repr

structure EState where
  idx : Nat := 0
  matched : Nat := 0
  out : List Nat := []
  a : ETask
  b : ETask
  deriving Repr

/-- One macro-step of a task (no-op when it has nothing left to do). -/
def etaskStep (idx matched : Nat) (out : List Nat) (t : ETask) : Nat × Nat × List Nat × ETask :=
  if t.pc = 0 then
    if t.rem = 0 then (idx, matched, out, t)
    else (idx, matched + 1, out, { t with rem := t.rem - 1, pc := 1 })
  else if t.pc = 1 then (idx + 1, matched, out, { t with pc := 2, reg := idx })
  else (idx, matched, out ++ [t.reg], { t with pc := 0 })

def estep (s : EState) (who : Bool) : EState :=
  if who then
    let (i, m, o, t) := etaskStep s.idx s.matched s.out s.a
    { s with idx := i, matched := m, out := o, a := t }
  else
    let (i, m, o, t) := etaskStep s.idx s.matched s.out s.b
    { s with idx := i, matched := m, out := o, b := t }

def erun (s : EState) (sched : List Bool) : EState := sched.foldl estep s

def EState.finished (s : EState) : Prop := s.a.rem = 0 ∧ s.a.pc = 0 ∧ s.b.rem = 0 ∧ s.b.pc = 0

end KsVerif.Sched
