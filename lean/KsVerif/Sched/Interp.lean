/-
  Executable small-step model of goroutines running the real code's shared-memory
  operations, at the granularity of the verifhook yield points.  It interprets the shapes
  regenerated from the Go sources (`Gen.Shapes`), so the same definitions predict the real
  code for the present shapes and for changed ones (e.g. a removed mutex).

  A *step* of the deterministic scheduler resumes one task, which runs until it reaches a
  yield point outside any lock region (lock regions are atomic: nobody else can be inside,
  and every access to the protected data is inside one), or ends.

  Used by the correspondence check (families sched.*); the theorems about all schedules are
  in Proofs/C10, C19, C20 over the protocols these shapes are classified into.
-/
import KsVerif.Base.Shape
import KsVerif.Base.Sx
import KsVerif.Match.Model

namespace KsVerif.Sched
open KsVerif KsVerif.Match

inductive Kind where
  | half (side : Side)     -- one half of a connection: counter++, register, emit when paired
  | emitter                -- calls Emit directly
  | incr (cell : Nat)      -- increments a statistics cell
  | dumper                 -- calls DumpStats
  deriving Repr, DecidableEq

structure Shapes where
  regReq : List AOp
  regResp : List AOp
  emit : List AOp
  reset : List AOp
  /-- does the response side store when it misses (http/redis/amqp) or poll (kafka)? -/
  respPolls : Bool := false
  maxTry : Nat := 3

structure Task where
  kind : Kind
  remaining : Nat
  stream : Nat := 0
  ops : List (AOp × Nat) := []
  reg : Nat := 0
  key : Nat := 0
  lockDepth : Nat := 0
  deferred : Bool := false
  started : Bool := false
  finished : Bool := false
  parkedAt : String := "start"
  acc : List Nat := []
  tries : Nat := 0
  gaveUp : Bool := false

structure Shared where
  map : List (Nat × Side) := []     -- open messages: key ↦ side held
  reqCtr : Nat := 0
  respCtr : Nat := 0
  indexes : List Nat := List.replicate 4 0   -- item count per stream
  matched : Nat := 0
  out : List (Nat × Nat × Nat) := []      -- (stream, index, key) in send order
  cells : List Nat := List.replicate 8 0
  dumps : List (List Nat) := []

def mapLookup (m : List (Nat × Side)) (k : Nat) : Option Side := (m.find? (·.1 == k)).map (·.2)
def mapErase (m : List (Nat × Side)) (k : Nat) : List (Nat × Side) := m.filter (·.1 != k)
def mapInsert (m : List (Nat × Side)) (k : Nat) (s : Side) : List (Nat × Side) := mapErase m k ++ [(k, s)]

def tagOps (ops : List AOp) (n : Nat) : List (AOp × Nat) := ops.map (·, n)

/-- Operations of one DumpStats call: the reset shape on cells 0…7 (LiveTcpStreams, cell 8,
    is read plainly and not reset). -/
def dumpOps (reset : List AOp) : List (AOp × Nat) :=
  (List.range 8).flatMap (fun c => tagOps reset c)

/-- Load the next unit of work of a task, if any. -/
def loadNext (sh : Shapes) (s : Shared) (t : Task) : Shared × Task :=
  if t.remaining = 0 then (s, { t with finished := true })
  else
    let t := { t with remaining := t.remaining - 1, started := true }
    match t.kind with
    | .half .req =>
      let s := { s with reqCtr := s.reqCtr + 1 }
      (s, { t with key := s.reqCtr, ops := tagOps sh.regReq 0, tries := 0 })
    | .half .resp =>
      let s := { s with respCtr := s.respCtr + 1 }
      (s, { t with key := s.respCtr, ops := tagOps sh.regResp 0, tries := 0 })
    | .emitter => (s, { t with ops := tagOps sh.emit 0 })
    | .incr c => ({ s with cells := s.cells.set c (s.cells.getD c 0 + 1) }, t)
    | .dumper => (s, { t with ops := dumpOps sh.reset, acc := [] })

def sideOf (t : Task) : Side :=
  match t.kind with
  | .half s => s
  | _ => .req

/-- Execute one operation. Returns the new state and whether the task must park. -/
def execOp (sh : Shapes) (s : Shared) (t : Task) (op : AOp) (arg : Nat) : Shared × Task × Bool :=
  match op with
  | .yield p =>
    if t.lockDepth = 0 then (s, { t with parkedAt := p }, true) else (s, t, false)
  | .lock => (s, { t with lockDepth := t.lockDepth + 1 }, false)
  | .unlock => (s, { t with lockDepth := t.lockDepth - 1 }, false)
  | .deferUnlock => (s, { t with deferred := true }, false)
  | .mapLoadAndDelete =>
    match mapLookup s.map t.key with
    | some held =>
      let s := { s with map := mapErase s.map t.key }
      -- the register function returns here: deferred unlock runs, remaining ops dropped
      let t := { t with lockDepth := if t.deferred then t.lockDepth - 1 else t.lockDepth, deferred := false }
      if held = sideOf t then (s, { t with ops := [] }, false)            -- same side: nil
      else (s, { t with ops := tagOps sh.emit 0 }, false)                 -- pair: handler emits
    | none =>
      if sh.respPolls && sideOf t == .resp then
        -- kafka response: one more failed look-up; the loop head decides whether to try again
        (s, { t with tries := t.tries + 1 }, false)
      else (s, t, false)
  | .loopEnd =>
    if sh.respPolls && sideOf t == .resp && !t.ops.isEmpty then (s, t, false)
    else if sh.respPolls && sideOf t == .resp then
      -- back to the top of the poll loop: `try++; if try > maxTry { return nil }`
      if t.tries ≥ sh.maxTry then (s, { t with ops := [], gaveUp := true, remaining := 0 }, false)
      else
        let body := (tagOps sh.regResp 0).dropWhile (fun o => o.1 != .loopBegin)
        (s, { t with ops := body }, false)
    else (s, t, false)
  | .mapStore => ({ s with map := mapInsert s.map t.key (sideOf t) }, t, false)
  | .incMatched => ({ s with matched := s.matched + 1 }, t, false)
  | .getIndex => (s, { t with reg := s.indexes.getD t.stream 0 }, false)
  | .incCount => ({ s with indexes := s.indexes.set t.stream (s.indexes.getD t.stream 0 + 1) }, t, false)
  | .send => ({ s with out := s.out ++ [(t.stream, t.reg, t.key)] }, t, false)
  | .atomicLoad => (s, { t with acc := t.acc ++ [s.cells.getD arg 0] }, false)
  | .atomicStore => ({ s with cells := s.cells.set arg 0 }, t, false)
  | .atomicSwap => ({ s with cells := s.cells.set arg 0 }, { t with acc := t.acc ++ [s.cells.getD arg 0] }, false)
  | _ => (s, t, false)

/-- Run task `t` until it parks or finishes (fuel bounds the work of one step). -/
def stepTask (sh : Shapes) : Nat → Shared → Task → Shared × Task
  | 0, s, t => (s, t)
  | fuel + 1, s, t =>
    if t.finished then (s, t)
    else
      match t.ops with
      | [] =>
        -- end of the current unit: deferred unlock, dump commit, next unit
        let t := { t with lockDepth := if t.deferred then t.lockDepth - 1 else t.lockDepth, deferred := false }
        let s := if t.kind == .dumper && t.started && !t.acc.isEmpty then { s with dumps := s.dumps ++ [t.acc] } else s
        let t := { t with acc := [] }
        let (s, t) := loadNext sh s t
        stepTask sh fuel s t
      | (op, arg) :: rest =>
        let (s, t, park) := execOp sh s { t with ops := rest } op arg
        if park then (s, t) else stepTask sh fuel s t

structure World where
  sh : Shared
  tasks : List Task
  trace : List (Nat × String) := []

def enabled (w : World) : List Nat :=
  (List.range w.tasks.length).filter (fun i => !(w.tasks.getD i { kind := .emitter, remaining := 0 }).finished)

/-- One scheduler step: run the wanted task if enabled, else the first enabled one. -/
def schedStep (shapes : Shapes) (w : World) (want : Option Nat) : Option World :=
  let en := enabled w
  match en with
  | [] => none
  | first :: _ =>
    let i := match want with
      | some i => if en.contains i then i else first
      | none => first
    match w.tasks[i]? with
    | none => none
    | some t =>
      let (s, t') := stepTask shapes 10000 w.sh t
      some { sh := s, tasks := w.tasks.set i t',
             trace := w.trace ++ [(i, if t'.finished then "done" else t'.parkedAt)] }

/-- Follow `order`, then run the first enabled task until everyone is done. -/
def runSchedule (shapes : Shapes) : Nat → World → List Nat → World
  | 0, w, _ => w
  | fuel + 1, w, order =>
    match order with
    | i :: rest =>
      match schedStep shapes w (some i) with
      | none => w
      | some w' => runSchedule shapes fuel w' rest
    | [] =>
      match schedStep shapes w none with
      | none => w
      | some w' => runSchedule shapes fuel w' []

def sideSx : Side → Sx
  | .req => .atom "req"
  | .resp => .atom "resp"

end KsVerif.Sched
