/-
  Driver glue for the scheduler families (C10, C19, C20): decode the case, run the
  interpreter over the regenerated shapes, evaluate the spec on an observation.
-/
import KsVerif.Sched.Interp
import KsVerif.Base.Verdict
import KsVerif.Generated.GenAtomicShapes

namespace KsVerif.Sched
open KsVerif KsVerif.Match

def shapesOf (proto : String) : Option Shapes :=
  let e := Gen.Shapes.emit
  let r := Gen.Shapes.resetUint64
  match proto with
  | "http" | "http10" => some { regReq := Gen.Shapes.httpRegisterRequest, regResp := Gen.Shapes.httpRegisterResponse, emit := e, reset := r }
  | "redis" => some { regReq := Gen.Shapes.redisRegisterRequest, regResp := Gen.Shapes.redisRegisterResponse, emit := e, reset := r }
  | "amqp" => some { regReq := Gen.Shapes.amqpRegisterRequest, regResp := Gen.Shapes.amqpRegisterResponse, emit := e, reset := r }
  | "kafka" => some { regReq := Gen.Shapes.kafkaRegisterRequest, regResp := Gen.Shapes.kafkaRegisterResponse, emit := e, reset := r, respPolls := true }
  | _ => none

def natList? (x : Sx) : Option (List Nat) := x.asList? >>= fun xs => xs.mapM Sx.asNat?

/-- Observation printed like the harness prints it: items as (index reqOrd respOrd). -/
def observeMatch (w : World) : Sx :=
  let tr := Sx.list (Sx.atom "trace" :: w.trace.map (fun (i, p) => .list [Sx.ofNat i, .atom p]))
  let items := Sx.list (Sx.atom "items" :: w.sh.out.map (fun (_, ix, k) => .list [Sx.ofNat ix, Sx.ofNat k, Sx.ofNat k]))
  let res := w.sh.map.mergeSort (fun a b => a.1 ≤ b.1)
  let residue := Sx.list (Sx.atom "residue" :: res.map (fun (k, s) => .list [Sx.ofNat k, sideSx s]))
  .list [tr, items, residue, .list [.atom "matched", Sx.ofNat w.sh.matched], .list [.atom "count", Sx.ofNat (w.sh.indexes.getD 0 0)]]

def field? (obs : Sx) (name : String) : Option (List Sx) :=
  match obs with
  | .list parts => parts.findSome? fun
      | .list (.atom n :: rest) => if n == name then some rest else none
      | _ => none
  | _ => none

/-- C10 spec on an observation of a complete conversation of `n` exchanges: the emitted
    pairs are exactly (k, k) for k = 1…n, each once, and nothing is left in the matcher —
    the outcome of dissecting one direction after the other. -/
def matchSpecHolds (n : Nat) (obs : Sx) : Bool :=
  match field? obs "items", field? obs "residue" with
  | some items, some residue =>
    let pairs := items.filterMap fun
      | .list [_, a, b] => match a.asNat?, b.asNat? with
        | some a, some b => some (a, b)
        | _, _ => none
      | _ => none
    pairs.length == items.length && residue.isEmpty &&
      (pairs.mergeSort (fun a b => a.1 ≤ b.1)) == (List.range n).map (fun k => (k + 1, k + 1))
  | _, _ => false

/-- a schedule on which a polling response ran out of tries before its request was registered
    (a timeout, not an interleaving the pairing must survive): still no wrong pair, no pair twice,
    and what waits in the matcher are requests that were not answered in time -/
def matchSpecTimedOut (n : Nat) (obs : Sx) : Bool :=
  match field? obs "items", field? obs "residue" with
  | some items, some residue =>
    let pairs := items.filterMap fun
      | .list [_, a, b] => match a.asNat?, b.asNat? with
        | some a, some b => some (a, b)
        | _, _ => none
      | _ => none
    let left := residue.filterMap fun
      | .list [k, .atom "req"] => k.asNat?
      | _ => none
    pairs.length == items.length && left.length == residue.length &&
      pairs.all (fun (a, b) => a == b && 1 ≤ a && a ≤ n) && (pairs.map (·.1)).eraseDups.length == pairs.length &&
      left.all (fun k => !(pairs.map (·.1)).contains k)
  | _, _ => false

def judgeMatch (proto payload impl : String) : Verdict :=
  match shapesOf proto, Sx.parse payload with
  | some sh, some (.list [n, order]) =>
    match n.asNat?, natList? order with
    | some n, some order =>
      let w0 : World := { sh := {}, tasks := [{ kind := .half .req, remaining := n }, { kind := .half .resp, remaining := n }] }
      let w := runSchedule sh (order.length + 40 * n + 40) w0 order
      let m := observeMatch w
      let timedOut := w.tasks.any (·.gaveUp)
      let specOn (o : Sx) : Bool := if timedOut then matchSpecTimedOut n o else matchSpecHolds n o
      let implOk := match Sx.parse impl with
        | some o => specOn o
        | none => false
      let switches := (order.zip order.tail).filter (fun (a, b) => a != b) |>.length
      { corr := m.toStr == impl, implSpec := implOk, modelSpec := specOn m,
        nontrivial := switches ≥ 2, cls := s!"n={n},switches={min switches 6}",
        model := m.toStr, spec := s!"items=(k,k) for k=1..{n} once each; residue empty" }
    | _, _ => .bad "bad-case"
  | _, _ => .bad "bad-case"

/-! ### sched.excl (C09, C10, C19): a locked region excludes -/

/-- While one task is parked at a yield point inside a locked region, the other task of the same
    connection (the same Emitting) must block: it may stop at points outside locked regions first,
    but it must not reach a point inside one (`*.mid`), nor finish. -/
def judgeExcl (_payload impl : String) : Verdict :=
  let ok := match Sx.parse impl with
    | some (.list (.atom "hold" :: .list [.atom "maxinside", k] :: rest)) =>
      -- the hold policy: somebody reached the region, and never two at once
      k.toStr == "1" && !rest.any (fun x => x.toStr == "deadlock" || x.toStr == "panic")
    | some (.list [.atom "stress", .list [.atom "emits", n], .list [.atom "items", i], .list [.atom "distinct", d], .list [.atom "matched", m],
        .list [.atom "fresh", _, bad]]) =>
      -- free-running emitters: exactly N items, N distinct identities, the statistic grown by N; and on every fresh
      -- stream the first two concurrent Emit calls got the identities 0 and 1
      i.toStr == n.toStr && d.toStr == n.toStr && m.toStr == n.toStr && bad.toStr == "0"
    | some (.list [.atom "excl", .atom "reached", .list (.atom "after" :: steps)]) =>
      let names := steps.filterMap fun | .atom a => some a | _ => none
      names.length == steps.length && names.getLast? == some "blocked" &&
        names.all (fun a => a != "done" && !a.endsWith ".mid")
    | some (.list [.atom "excl", .atom "reached", .list (.atom "after" :: steps), .list [.atom "outcome", items, residue]]) =>
      -- the two halves of one exchange: the other task blocks, and once the parked one is released the
      -- exchange is reported once and nothing stays behind (blocking after the look-up is too late)
      let names := steps.filterMap fun | .atom a => some a | _ => none
      names.length == steps.length && names.getLast? == some "blocked" &&
        names.all (fun a => a != "done" && !a.endsWith ".mid") && items.toStr == "1" && residue.toStr == "0"
    | _ => false
  { corr := ok, implSpec := ok, modelSpec := true, tags := [], nontrivial := true, cls := "excl",
    model := "(excl reached (after ... blocked))", spec := "the other task blocks while one is inside the locked region" }

/-! ### match.multi (C09): two connections sharing one matcher -/

/-- connection A carries the exchanges 1..nA, connection B the exchanges nA+1..nA+nB: every exchange is
    reported once, k-th request with k-th response, under its own connection; nothing stays behind -/
def judgeMulti (payload impl : String) : Verdict :=
  match Sx.parse payload with
  | some (.list (_ :: na :: nb :: _)) =>
    match na.asNat?, nb.asNat? with
    | some nA, some nB =>
      let item (k : Nat) : Sx := .list [Sx.ofNat k, Sx.ofNat k, .atom (if k ≤ nA then "A" else "B")]
      let want : Sx := .list [.list (.atom "items" :: (List.range (nA + nB)).map fun i => item (i + 1)),
                              .list [.atom "left", Sx.ofNat 0]]
      let ok := impl == want.toStr
      { corr := ok, implSpec := ok, modelSpec := true, tags := [], nontrivial := true, cls := "multi",
        model := want.toStr, spec := "every exchange once, k-th with k-th, under its own connection; nothing left in the matcher" }
    | _, _ => .bad "bad-case"
  | _ => .bad "bad-case"

/-! ### sched.indep (C10): schedule independence without a model -/

/-- what the dissector makes of the two byte streams under the given schedule must be what it makes
    of them when the client half runs to its end first -/
def judgeIndep (_payload impl : String) : Verdict :=
  match Sx.parse impl with
  | some (.list [.list [.atom "seq", a], .list [.atom "this", b]]) =>
    let ok := a.toStr == b.toStr
    { corr := ok, implSpec := ok && (impl.splitOn "panics").length == 1 && (impl.splitOn "deadlock").length == 1,
      modelSpec := true, tags := [], nontrivial := true, cls := "indep", model := a.toStr,
      spec := "the outcome of the run client half first, then server half" }
  | _ => { corr := false, implSpec := false, modelSpec := true, tags := [], nontrivial := true, cls := "no-observation",
           model := "-", spec := "the outcome of the sequential run" }

/-! ### sched.emit (C19) -/

def traceSx (w : World) : Sx :=
  Sx.list (Sx.atom "trace" :: w.trace.map (fun (i, p) => .list [Sx.ofNat i, .atom p]))

/-- items as (stream index), in send order; counts per stream actually used -/
def observeEmit (w : World) (nstreams : Nat) : Sx :=
  let items := Sx.list (Sx.atom "items" :: w.sh.out.map (fun (st, ix, _) => .list [Sx.ofNat st, Sx.ofNat ix]))
  .list [traceSx w, items, .list [.atom "matched", Sx.ofNat w.sh.matched],
    .list (.atom "counts" :: (w.sh.indexes.take nstreams).map Sx.ofNat)]

/-- C19 spec: exactly N items, indices distinct within each stream, matched = N. -/
def emitSpecHolds (total : Nat) (obs : Sx) : Bool :=
  match field? obs "items", field? obs "matched" with
  | some items, some [m] =>
    let pairs := items.filterMap fun
      | .list [a, b] => match a.asNat?, b.asNat? with
        | some a, some b => some (a, b)
        | _, _ => none
      | _ => none
    pairs.length == items.length && items.length == total && m.asNat? == some total &&
      pairs.eraseDups.length == pairs.length
  | _, _ => false

def judgeEmit (payload impl : String) : Verdict :=
  -- a third element `closed`: the stream reports itself closed; Emit must behave the same
  let parsed := match Sx.parse payload with
    | some (.list [tasks, order, .atom "closed"]) => some (Sx.list [tasks, order])
    | other => other
  match parsed with
  | some (.list [tasks, order]) =>
    let specs := (tasks.asList?.getD []).filterMap fun
      | .list [st, k] => match st.asNat?, k.asNat? with
        | some st, some k => some (st, k)
        | _, _ => none
      | _ => none
    match natList? order with
    | some order =>
      let sh : Shapes := { regReq := [], regResp := [], emit := Gen.Shapes.emit, reset := [] }
      let w0 : World := { sh := {}, tasks := specs.map fun (st, k) => { kind := .emitter, remaining := k, stream := st } }
      let total := (specs.map (·.2)).sum
      let nstreams := (specs.map (·.1)).foldl max 0 + 1
      let w := runSchedule sh (order.length + 10 * total + 40) w0 order
      let m := observeEmit w nstreams
      let implOk := match Sx.parse impl with
        | some o => emitSpecHolds total o
        | none => false
      let switches := (order.zip order.tail).filter (fun (a, b) => a != b) |>.length
      { corr := m.toStr == impl, implSpec := implOk, modelSpec := emitSpecHolds total m,
        nontrivial := switches ≥ 2, cls := s!"tasks={specs.length},N={total},streams={nstreams}",
        model := m.toStr, spec := s!"{total} items, distinct (stream,index), matched={total}" }
    | none => .bad "bad-case"
  | _ => .bad "bad-case"

/-! ### sched.dump (C20) -/

def observeDump (w : World) : Sx :=
  .list [traceSx w, .list (.atom "dumps" :: w.sh.dumps.map (fun d => .list (d.map Sx.ofNat))),
    .list (.atom "cells" :: w.sh.cells.map Sx.ofNat)]

/-- C20 spec: per cell, the dumped values plus the residue equal the increments made. -/
def dumpSpecHolds (incs : List Nat) (obs : Sx) : Bool :=
  match field? obs "dumps", field? obs "cells" with
  | some dumps, some cells =>
    (List.range 8).all fun c =>
      let dumped := (dumps.map fun d => ((d.asList?.getD []).getD c (.atom "0")).asNat?.getD 0).sum
      let residue := ((cells.getD c (.atom "x")).asNat?).getD 1000000
      dumped + residue == (incs.filter (· == c)).length
  | _, _ => false

def judgeDump (payload impl : String) : Verdict :=
  match Sx.parse payload with
  | some (.list [d, incs, order]) =>
    match d.asNat?, natList? incs, natList? order with
    | some d, some incs, some order =>
      let sh : Shapes := { regReq := [], regResp := [], emit := [], reset := Gen.Shapes.resetUint64 }
      let w0 : World := { sh := {}, tasks := { kind := .dumper, remaining := d } :: incs.map fun c => { kind := .incr c, remaining := 1 } }
      let w := runSchedule sh (order.length + 20 * d + incs.length + 40) w0 order
      let m := observeDump w
      let implOk := match Sx.parse impl with
        | some o => dumpSpecHolds incs o
        | none => false
      { corr := m.toStr == impl, implSpec := implOk, modelSpec := dumpSpecHolds incs m,
        nontrivial := d ≥ 1 && incs.length ≥ 2, cls := s!"dumps={d},incs={incs.length}",
        model := m.toStr, spec := "per cell: sum of dumps + residue = increments" }
    | _, _, _ => .bad "bad-case"
  | _ => .bad "bad-case"

end KsVerif.Sched
