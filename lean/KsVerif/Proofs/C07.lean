/-
  C07 — Redis commands and replies are reported exactly, binary-safe.
-/
import KsVerif.Redis.Spec

namespace KsVerif.Proofs.C07
open KsVerif.Redis KsVerif.Redis.Spec

/-- **Bulk strings are binary-safe.** Whatever bytes the body holds (CR, LF, CR LF, anything),
    a body of the declared length followed by CR LF is returned byte for byte, and reading
    resumes exactly after the terminator. -/
theorem c07_bulk_binary_safe (body rest : Bytes) (tail : Tail) :
    bulkBody body.length { rem := body ++ [CR, LF] ++ rest, tail }
      = .ok (body, { rem := rest, tail }) := by
  unfold bulkBody
  simp [next, CR, LF]

/-- A declared length larger than what the stream holds ends with the stream's own end
    result; nothing is fabricated. -/
theorem c07_bulk_short (l : Int) (st : St) (h : st.rem.length < l.toNat) :
    bulkBody l st = .error st.endErr := by
  unfold bulkBody
  simp [h]

/-- A line without CR, terminated by CR LF, is returned as sent, and reading resumes after
    the terminator. -/
theorem scanLine_line (s rest : Bytes) (h : ∀ b ∈ s, b ≠ CR) :
    scanLine (s ++ [CR, LF] ++ rest) = some (s, rest) := by
  induction s with
  | nil => simp [scanLine]
  | cons b s ih =>
    have hb : b ≠ CR := h b (by simp)
    have hs : ∀ x ∈ s, x ≠ CR := fun x hx => h x (by simp [hx])
    have ih' := ih hs
    cases s with
    | nil =>
      simp only [List.nil_append, List.cons_append] at ih' ⊢
      simp only [scanLine, hb, if_false, ih']
      rfl
    | cons c s' =>
      simp only [List.cons_append] at ih' ⊢
      simp only [scanLine, hb, if_false, ih']
      rfl

/-- **Simple strings and error lines** (no CR inside) are read back exactly. -/
theorem c07_line_exact (s rest : Bytes) (tail : Tail) (h : ∀ b ∈ s, b ≠ CR) :
    readLineBytes { rem := s ++ [CR, LF] ++ rest, tail } = .ok (s, { rem := rest, tail }) := by
  have := scanLine_line s rest h
  simp only [List.append_assoc, List.cons_append, List.nil_append] at this
  simp [readLineBytes, this]

/-- Non-vacuity: a value holding CR LF and a NUL. -/
example : bulkBody 5 { rem := [97, 13, 10, 0, 98, 13, 10, 43], tail := .eof }
    = .ok ([97, 13, 10, 0, 98], { rem := [43], tail := .eof }) := by rfl

end KsVerif.Proofs.C07
