/-
  C07 — Redis commands and replies are reported exactly, binary-safe.

  Theorems over the reader model (`Redis/Model.lean`; command and keyword tables regenerated)
  * `c07_readInt_dec` — `readIntCrLf` inverts the decimal encoding over the whole int64 range;
  * `c07_bulk_binary_safe`, `c07_line_exact` — bulk strings by length, lines up to CR LF;
  * `c07_process_enc` / `c07_elems_enc` — mutual induction over replies: `process` inverts the
    reference encoder for every well-formed reply and every continuation;
  * `c07_server_half`, `c07_client_half` — every pipelined sequence yields one packet per reply /
    command, in order; none stops the ones after it;
  * `c07_reply_reported`, `c07_command_reported` — the packet carries what the statement demands.
-/
import KsVerif.Redis.Spec

namespace KsVerif.Proofs.C07
open KsVerif.Redis KsVerif.Redis.Spec

/-- **Bulk strings are binary-safe.** Whatever bytes the body holds (CR, LF, CR LF, anything),
    a body of the declared length followed by CR LF is returned byte for byte, and reading
    resumes exactly after the terminator. -/
theorem c07_bulk_binary_safe (body rest : Bytes) (tail : Tail) :
    bulkBody body.length { rem := body ++ [CR, LF] ++ rest, tail }
      = .ok (body, { rem := rest, tail }) := by
  unfold bulkBody
  simp [next, CR, LF]

/-- A declared length larger than what the stream holds ends with the stream's own end
    result; nothing is fabricated. -/
theorem c07_bulk_short (l : Int) (st : St) (h : st.rem.length < l.toNat) :
    bulkBody l st = .error st.endErr := by
  unfold bulkBody
  simp [h]

/-- A line without CR, terminated by CR LF, is returned as sent, and reading resumes after
    the terminator. -/
theorem scanLine_line (s rest : Bytes) (h : ∀ b ∈ s, b ≠ CR) :
    scanLine (s ++ [CR, LF] ++ rest) = some (s, rest) := by
  induction s with
  | nil => simp [scanLine]
  | cons b s ih =>
    have hb : b ≠ CR := h b (by simp)
    have hs : ∀ x ∈ s, x ≠ CR := fun x hx => h x (by simp [hx])
    have ih' := ih hs
    cases s with
    | nil =>
      simp only [List.nil_append, List.cons_append] at ih' ⊢
      simp only [scanLine, hb, if_false, ih']
      rfl
    | cons c s' =>
      simp only [List.cons_append] at ih' ⊢
      simp only [scanLine, hb, if_false, ih']
      rfl

/-- **Simple strings and error lines** (no CR inside) are read back exactly. -/
theorem c07_line_exact (s rest : Bytes) (tail : Tail) (h : ∀ b ∈ s, b ≠ CR) :
    readLineBytes { rem := s ++ [CR, LF] ++ rest, tail } = .ok (s, { rem := rest, tail }) := by
  have := scanLine_line s rest h
  simp only [List.append_assoc, List.cons_append, List.nil_append] at this
  simp [readLineBytes, this]

/-- Non-vacuity: a value holding CR LF and a NUL. -/
example : bulkBody 5 { rem := [97, 13, 10, 0, 98, 13, 10, 43], tail := .eof }
    = .ok ([97, 13, 10, 0, 98], { rem := [43], tail := .eof }) := by rfl

/-! ### integers: `readIntCrLf` inverts the decimal encoding over the whole int64 range -/

theorem wrap64_step (a : Int) (d : Int) : wrap64 (wrap64 a * 10 + d - 48) = wrap64 (a * 10 + d - 48) := by
  unfold wrap64; omega

theorem wrap64_id (a : Int) (h1 : -9223372036854775808 ≤ a) (h2 : a ≤ 9223372036854775807) : wrap64 a = a := by
  unfold wrap64; omega

theorem wrap64_neg (a : Int) : wrap64 (-(wrap64 a)) = wrap64 (-a) := by
  unfold wrap64; omega

/-- the accumulator of the digit loop -/
def foldDigits (ds : Bytes) (v : Int) : Int := ds.foldl (fun acc b => wrap64 (acc * 10 + b.toNat - 48)) v

/-- the same without wrap-around -/
def plainDigits (ds : Bytes) (v : Int) : Int := ds.foldl (fun acc b => acc * 10 + b.toNat - 48) v

theorem foldDigits_wrap (ds : Bytes) : ∀ v : Int, foldDigits ds (wrap64 v) = wrap64 (plainDigits ds v) := by
  induction ds with
  | nil => intro v; rfl
  | cons b ds ih =>
    intro v
    simp only [foldDigits, plainDigits, List.foldl_cons] at ih ⊢
    rw [wrap64_step]
    exact ih _

/-- the digit loop on digits followed by CR LF -/
theorem digits_exact (ds rest : Bytes) (t : Tail) (h : ∀ b ∈ ds, b ≠ CR) : ∀ v : Int,
    digits (ds ++ CR :: LF :: rest) v t = .ok (foldDigits ds v, rest) := by
  induction ds with
  | nil => intro v; simp [digits, foldDigits]
  | cons b ds ih =>
    intro v
    have hb : b ≠ CR := h b (by simp)
    have hs : ∀ x ∈ ds, x ≠ CR := fun x hx => h x (by simp [hx])
    have ih' := ih hs (wrap64 (v * 10 + b.toNat - 48))
    cases ds with
    | nil =>
      have hb' : ¬ b = 13 := hb
      simp [digits, hb', foldDigits, CR, LF]
    | cons c ds' =>
      simp only [List.cons_append] at ih' ⊢
      simp only [digits, hb, if_false, foldDigits, List.foldl_cons] at ih' ⊢
      exact ih'

def byteOfChar (c : Char) : UInt8 := c.toNat.toUInt8

theorem asciiBytes_eq (s : String) : asciiBytes s = s.toList.map byteOfChar := rfl

theorem byteOfChar_digit (c : Char) (h : c.isDigit = true) :
    (byteOfChar c).toNat = c.toNat ∧ 48 ≤ c.toNat ∧ c.toNat ≤ 57 := by
  have h' : 48 ≤ c.toNat ∧ c.toNat ≤ 57 := by
    simp only [Char.isDigit, Bool.and_eq_true, decide_eq_true_eq] at h
    have h1 : (48 : Nat) ≤ c.val.toNat := by simpa [UInt32.le_iff_toNat_le] using h.1
    have h2 : c.val.toNat ≤ 57 := by simpa [UInt32.le_iff_toNat_le] using h.2
    exact ⟨h1, h2⟩
  refine ⟨?_, h'⟩
  unfold byteOfChar
  simp only [Nat.toUInt8_eq, UInt8.toNat_ofNat']
  omega

/-- folding the bytes of decimal digits is `Nat.ofDigitChars` -/
theorem plainDigits_chars (cs : List Char) (h : ∀ c ∈ cs, c.isDigit = true) : ∀ acc : Nat,
    plainDigits (cs.map byteOfChar) (acc : Int) = (Nat.ofDigitChars 10 cs acc : Nat) := by
  induction cs with
  | nil => intro acc; simp [plainDigits]
  | cons c cs ih =>
    intro acc
    obtain ⟨h1, h2, h3⟩ := byteOfChar_digit c (h c (by simp))
    have ih' := ih (fun x hx => h x (by simp [hx])) (10 * acc + (c.toNat - 48))
    simp only [plainDigits, List.map_cons, List.foldl_cons, Nat.ofDigitChars_cons] at ih' ⊢
    have : ((acc : Int) * 10 + ((byteOfChar c).toNat : Int) - 48) = ((10 * acc + (c.toNat - 48) : Nat) : Int) := by
      rw [h1]; omega
    rw [this]
    simpa using ih'

theorem digitBytes_ne_CR (cs : List Char) (h : ∀ c ∈ cs, c.isDigit = true) : ∀ b ∈ cs.map byteOfChar, b ≠ CR := by
  intro b hb
  simp only [List.mem_map] at hb
  obtain ⟨c, hc, rfl⟩ := hb
  obtain ⟨h1, h2, _⟩ := byteOfChar_digit c (h c hc)
  intro hcr
  have : (byteOfChar c).toNat = 13 := by rw [hcr]; rfl
  omega

theorem toDigits_isDigit (n : Nat) : ∀ c ∈ Nat.toDigits 10 n, c.isDigit = true :=
  fun _ hc => Nat.isDigit_of_mem_toDigits (by decide) (by decide) hc

/-- the decimal encoding of a natural number, as bytes -/
def natBytes (n : Nat) : Bytes := (Nat.toDigits 10 n).map byteOfChar

theorem dec_nonneg (n : Int) (h : 0 ≤ n) : dec n = natBytes n.toNat := by
  simp [dec, asciiBytes_eq, Int.repr_eq_if, h, natBytes]

theorem dec_neg (n : Int) (h : n < 0) : dec n = 45 :: natBytes (-n).toNat := by
  have : ¬ (0 ≤ n) := by omega
  simp [dec, asciiBytes_eq, Int.repr_eq_if, this, natBytes, byteOfChar]

theorem natBytes_ne_nil (n : Nat) : natBytes n ≠ [] := by
  simp [natBytes, Nat.toDigits_ne_nil]

theorem natBytes_head_digit (n : Nat) : ∀ b ∈ natBytes n, b ≠ 45 := by
  intro b hb
  simp only [natBytes, List.mem_map] at hb
  obtain ⟨c, hc, rfl⟩ := hb
  obtain ⟨h1, h2, _⟩ := byteOfChar_digit c (toDigits_isDigit n c hc)
  intro h45
  have : (byteOfChar c).toNat = 45 := by rw [h45]; rfl
  omega

theorem digits_natBytes (n : Nat) (rest : Bytes) (t : Tail) :
    digits (natBytes n ++ CR :: LF :: rest) 0 t = .ok (wrap64 n, rest) := by
  have hx := digits_exact (natBytes n) rest t (digitBytes_ne_CR _ (toDigits_isDigit n)) 0
  rw [hx]
  have h0 : (0 : Int) = wrap64 0 := by unfold wrap64; omega
  have := foldDigits_wrap (natBytes n) 0
  rw [← h0] at this
  rw [this]
  have hp := plainDigits_chars (Nat.toDigits 10 n) (toDigits_isDigit n) 0
  simp only [Nat.ofDigitChars_ten_toDigits] at hp
  have : plainDigits (natBytes n) 0 = (n : Int) := by simpa [natBytes] using hp
  rw [this]

/-- **Integers round-trip**: for every int64 `n`, `readIntCrLf` on its decimal encoding followed by
    CR LF returns `n` and resumes right after the terminator. -/
theorem c07_readInt_dec (n : Int) (h1 : -9223372036854775808 ≤ n) (h2 : n ≤ 9223372036854775807)
    (rest : Bytes) (tail : Tail) :
    readInt { rem := dec n ++ crlf ++ rest, tail } = .ok (n, { rem := rest, tail }) := by
  by_cases hn : 0 ≤ n
  · rw [dec_nonneg n hn]
    have hne := natBytes_ne_nil n.toNat
    cases hd : natBytes n.toNat with
    | nil => exact absurd hd hne
    | cons b bs =>
      have hb : b ≠ 45 := natBytes_head_digit n.toNat b (by rw [hd]; simp)
      have := digits_natBytes n.toNat rest tail
      rw [hd] at this
      simp only [readInt, crlf, List.cons_append, List.append_assoc, List.nil_append, hb, decide_false,
        Bool.false_eq_true, if_false] at this ⊢
      simp only [CR, LF] at this
      rw [this]
      have hw : wrap64 (n.toNat : Int) = n := by rw [wrap64_id] <;> omega
      rw [hw]
  · have hneg : n < 0 := by omega
    rw [dec_neg n hneg]
    have := digits_natBytes (-n).toNat rest tail
    simp only [readInt, crlf, List.cons_append, List.append_assoc, List.nil_append, decide_true, if_true]
    simp only [CR, LF] at this
    rw [this]
    have hw : wrap64 (-(wrap64 ((-n).toNat : Int))) = n := by
      rw [wrap64_neg, wrap64_id] <;> omega
    simp only [hw]

/-! ### whole replies: `process` inverts the encoder -/

mutual
  /-- the value `process` must return for a reply -/
  def valOf : Reply → RVal
    | .simple s => .bytes s false
    | .error m => match errorString m with
      | .ok s => .str s
      | .error _ => .str []
    | .int n => .int n
    | .bulk none => .bytes [] true
    | .bulk (some b) => .bytes b false
    | .array none => .arr [] true
    | .array (some xs) => .arr (valsOf xs) false
  def valsOf : List Reply → List RVal
    | [] => []
    | r :: rs => valOf r :: valsOf rs
end

def typeOf : Reply → RType
  | .simple _ => .simple
  | .error _ => .error
  | .int _ => .integer
  | .bulk _ => .bulk
  | .array _ => .array

mutual
  /-- well-formed, lengths within int64, error lines the dissector accepts (a cluster
      redirection must carry its slot and target) -/
  def wfR : Reply → Bool
    | .simple s => noCRLF s
    | .error m => noCRLF m && !m.isEmpty && (match errorString m with | .ok _ => true | .error _ => false)
    | .int n => -9223372036854775808 ≤ n && n ≤ 9223372036854775807
    | .bulk none => true
    | .bulk (some b) => decide (b.length ≤ 9223372036854775807)
    | .array none => true
    | .array (some xs) => decide (xs.length ≤ 9223372036854775807) && wfRs xs
  def wfRs : List Reply → Bool
    | [] => true
    | r :: rs => wfR r && wfRs rs
end

mutual
  /-- fuel `process` needs (one per nesting level and per element) -/
  def need : Reply → Nat
    | .array (some xs) => 1 + needs xs
    | _ => 1
  def needs : List Reply → Nat
    | [] => 1
    | r :: rs => 1 + max (need r) (needs rs)
end

theorem noCRLF_ne_CR (s : Bytes) (h : noCRLF s = true) : ∀ b ∈ s, b ≠ CR := by
  intro b hb
  simp only [noCRLF, List.all_eq_true, Bool.and_eq_true, bne_iff_ne, ne_eq] at h
  exact (h b hb).1

theorem next_cons (b : UInt8) (r : Bytes) (tail : Tail) :
    next { rem := b :: r, tail } = .ok (b, { rem := r, tail }) := rfl

theorem valsOf_length : ∀ xs : List Reply, (valsOf xs).length = xs.length
  | [] => by simp [valsOf]
  | _ :: rs => by simp [valsOf, valsOf_length rs]

mutual
  /-- **Replies round-trip**: for every well-formed reply - any nesting, any bytes in bulk
      strings, any int64 - and whatever follows it on the stream, `process` returns the reply's
      value and type and resumes right after its encoding. -/
  theorem c07_process_enc : ∀ (r : Reply), wfR r = true → ∀ (fuel : Nat), need r ≤ fuel → ∀ (rest : Bytes) (tail : Tail),
      process fuel { rem := encReply r ++ rest, tail } = .ok (valOf r, typeOf r, { rem := rest, tail })
    | .simple s, hw, fuel, hf, rest, tail => by
      cases fuel with
      | zero => simp [need] at hf
      | succ f =>
        have hl := c07_line_exact s rest tail (noCRLF_ne_CR s (by simpa [wfR] using hw))
        simp only [List.append_assoc, List.cons_append, List.nil_append] at hl
        simp [process, encReply, crlf, next_cons, hl, valOf, typeOf, CR, LF] at hl ⊢
    | .error m, hw, fuel, hf, rest, tail => by
      cases fuel with
      | zero => simp [need] at hf
      | succ f =>
        simp only [wfR, Bool.and_eq_true, Bool.not_eq_true'] at hw
        obtain ⟨⟨hcr, hne⟩, hok⟩ := hw
        have hl := c07_line_exact m rest tail (noCRLF_ne_CR m hcr)
        simp only [List.append_assoc, List.cons_append, List.nil_append, CR, LF] at hl
        have hne' : m ≠ [] := by intro h; simp [h] at hne
        cases he : errorString m with
        | error e => simp [he] at hok
        | ok v =>
          simp [process, encReply, crlf, next_cons, readLine, hl, hne', he, valOf, typeOf]
    | .int n, hw, fuel, hf, rest, tail => by
      cases fuel with
      | zero => simp [need] at hf
      | succ f =>
        simp only [wfR, Bool.and_eq_true, decide_eq_true_eq] at hw
        have hi := c07_readInt_dec n hw.1 hw.2 rest tail
        simp only [List.append_assoc] at hi
        simp [process, encReply, next_cons, hi, valOf, typeOf]
    | .bulk none, hw, fuel, hf, rest, tail => by
      cases fuel with
      | zero => simp [need] at hf
      | succ f =>
        have hi := c07_readInt_dec (-1) (by omega) (by omega) rest tail
        simp only [List.append_assoc] at hi
        simp [process, encReply, next_cons, hi, valOf, typeOf]
    | .bulk (some b), hw, fuel, hf, rest, tail => by
      cases fuel with
      | zero => simp [need] at hf
      | succ f =>
        simp only [wfR, decide_eq_true_eq] at hw
        have hi := c07_readInt_dec (b.length : Int) (by omega) (by omega) (b ++ crlf ++ rest) tail
        have hb := c07_bulk_binary_safe b rest tail
        simp only [List.append_assoc, crlf, CR, LF, List.cons_append, List.nil_append] at hi hb
        have hne : ¬ ((b.length : Int) = -1) := by omega
        simp [process, encReply, encBulk, crlf, next_cons, hi, hne, hb, valOf, typeOf]
    | .array none, hw, fuel, hf, rest, tail => by
      cases fuel with
      | zero => simp [need] at hf
      | succ f =>
        have hi := c07_readInt_dec (-1) (by omega) (by omega) rest tail
        simp only [List.append_assoc] at hi
        simp [process, encReply, next_cons, hi, valOf, typeOf]
    | .array (some xs), hw, fuel, hf, rest, tail => by
      cases fuel with
      | zero => simp [need] at hf
      | succ f =>
        simp only [wfR, Bool.and_eq_true, decide_eq_true_eq] at hw
        have hi := c07_readInt_dec (xs.length : Int) (by omega) (by omega) (encReplies xs ++ rest) tail
        simp only [List.append_assoc] at hi
        have hne : ¬ ((xs.length : Int) = -1) := by omega
        have hf' : needs xs ≤ f := by simp only [need] at hf; omega
        have he := c07_elems_enc xs hw.2 f hf' rest tail
        simp [process, encReply, next_cons, hi, hne, he, valOf, typeOf]
  theorem c07_elems_enc : ∀ (xs : List Reply), wfRs xs = true → ∀ (fuel : Nat), needs xs ≤ fuel → ∀ (rest : Bytes) (tail : Tail),
      elems fuel xs.length { rem := encReplies xs ++ rest, tail } = .ok (valsOf xs, { rem := rest, tail })
    | [], _, fuel, hf, rest, tail => by
      cases fuel with
      | zero => simp [needs] at hf
      | succ f => simp [elems, encReplies, valsOf]
    | r :: rs, hw, fuel, hf, rest, tail => by
      cases fuel with
      | zero => simp [needs] at hf
      | succ f =>
        simp only [wfRs, Bool.and_eq_true] at hw
        simp only [needs] at hf
        have h1 := c07_process_enc r hw.1 f (by omega) (encReplies rs ++ rest) tail
        have h2 := c07_elems_enc rs hw.2 f (by omega) rest tail
        simp only [List.length_cons, elems, encReplies, List.append_assoc, h1, h2, valsOf]
end

/-! ### a whole server half -/

theorem encReply_pos : ∀ r : Reply, 1 ≤ (encReply r).length
  | .simple _ | .error _ | .int _ | .bulk none | .array none | .array (some _) => by simp [encReply]
  | .bulk (some _) => by simp [encReply, encBulk]

mutual
  theorem need_le : ∀ r : Reply, need r ≤ 2 * (encReply r).length
    | .simple _ | .error _ | .int _ | .bulk none | .array none => by simp [need, encReply]; omega
    | .bulk (some _) => by simp [need, encReply, encBulk]; omega
    | .array (some xs) => by
      have := needs_le xs
      simp only [need, encReply, List.length_append, List.length_cons, List.length_nil, crlf]
      omega
  theorem needs_le : ∀ xs : List Reply, needs xs ≤ 2 * (encReplies xs).length + 1
    | [] => by simp [needs, encReplies]
    | r :: rs => by
      have h1 := need_le r
      have h2 := needs_le rs
      have h3 := encReply_pos r
      simp only [needs, encReplies, List.length_append]
      omega
end

/-- the packet the dissector hands to the matcher for a reply -/
def packetOf (r : Reply) : Packet :=
  match shape (valOf r) (typeOf r) with
  | .ok p => p
  | .error _ => default

/-- the reply is of a shape `RedisProtocol.Read` accepts (known findings: a simple string outside
    the keyword table and most non-empty arrays are not) -/
def reportable (r : Reply) : Bool :=
  match shape (valOf r) (typeOf r) with
  | .ok _ => true
  | .error _ => false

def encAll (rs : List Reply) : Bytes := (rs.map encReply).flatten

theorem read_enc (r : Reply) (hw : wfR r = true) (hr : reportable r = true) (rest : Bytes) (tail : Tail)
    (fuel : Nat) (hf : need r ≤ fuel) :
    read fuel { rem := encReply r ++ rest, tail } = .ok (packetOf r, { rem := rest, tail }) := by
  unfold Redis.read
  rw [c07_process_enc r hw fuel hf rest tail]
  unfold reportable at hr
  unfold packetOf
  cases hs : shape (valOf r) (typeOf r) with
  | error e => simp [hs] at hr
  | ok p => simp [hs]

/-- **Every reply of a half is reported, in order, none stops the ones after it**: for every
    list of well-formed reportable replies - pipelined in one stream, of any sizes - the
    dissection of their concatenated encodings hands the matcher exactly one packet per reply,
    in order, and ends with the stream's own end. -/
theorem c07_server_half : ∀ (rs : List Reply), (∀ r ∈ rs, wfR r = true ∧ reportable r = true) →
    ∀ (tail : Tail) (fuel : Nat), rs.length < fuel →
    dissect fuel { rem := encAll rs, tail } = (rs.map packetOf, ({ rem := [], tail } : St).endErr)
  | [], _, tail, fuel, hf => by
    cases fuel with
    | zero => omega
    | succ f => simp [dissect, encAll, Redis.read, process, next]
  | r :: rs, h, tail, fuel, hf => by
    cases fuel with
    | zero => omega
    | succ f =>
      have hr := h r (by simp)
      have hrest : ∀ x ∈ rs, wfR x = true ∧ reportable x = true := fun x hx => h x (by simp [hx])
      have hlen : need r ≤ 2 * (encReply r ++ encAll rs).length + 4 := by
        have := need_le r
        simp only [List.length_append]; omega
      have hread := read_enc r hr.1 hr.2 (encAll rs) tail _ hlen
      have ih := c07_server_half rs hrest tail f (by simp only [List.length_cons] at hf; omega)
      simp only [dissect, encAll, List.map_cons, List.flatten_cons] at ih ⊢
      simp only [encAll] at hread
      rw [hread]
      simp only [ih]

/-! ### what is reported for a reply -/

theorem upper_eq (s : Bytes) : upperAscii s = upper s := rfl

theorem inTable_eq (tbl : List String) (s : Bytes) : Redis.inTable tbl s = Spec.inTable tbl s := rfl

/-- **Replies are reported as sent** (every kind outside the recorded findings): a simple string
    of the keyword table, every error line (any bytes but CR / LF; reported with its class
    prefix), every integer, every non-null bulk string with whatever bytes, null and empty arrays. -/
theorem isInfix_mid (a m b : Bytes) : isInfix m (a ++ m ++ b) = true := by
  unfold isInfix
  simp only [List.any_eq_true, List.mem_range, beq_iff_eq]
  refine ⟨a.length, by simp only [List.length_append]; omega, ?_⟩
  simp [List.append_assoc]

theorem isInfix_mid' (a m b : Bytes) : isInfix m (a ++ (m ++ b)) = true := by
  have := isInfix_mid a m b
  simpa [List.append_assoc] using this

theorem errorString_infix (m s : Bytes) (h : errorString m = .ok s) : isInfix m s = true := by
  unfold errorString at h
  simp only at h
  repeat' (split at h)
  all_goals first
    | (injection h with h; subst h; simp only [List.append_assoc]; exact isInfix_mid' _ _ _)
    | (injection h with h; subst h; simpa using isInfix_mid' _ m [])
    | cases h

theorem c07_reply_reported (r : Reply) (hw : wfR r = true) (hr : reportable r = true) (hk : tagsOfReply r = []) :
    respOk r (packetOf r) = true := by
  cases r with
  | simple s =>
    have hin : Spec.inTable Gen.Redis.keywords (upper s) = true := by
      by_cases h : Spec.inTable Gen.Redis.keywords (upper s) = true
      · exact h
      · simp [tagsOfReply, h] at hk
    simp [respOk, packetOf, valOf, typeOf, shape, upper_eq, inTable_eq, hin]
  | error m =>
    simp only [wfR, Bool.and_eq_true] at hw
    cases he : errorString m with
    | error e => simp [he] at hw
    | ok v =>
      have := errorString_infix m v he
      simp [respOk, packetOf, valOf, typeOf, shape, he, this]
  | int n => simp [respOk, packetOf, valOf, typeOf, shape, intBytes, dec]
  | bulk o =>
    cases o with
    | none => simp [tagsOfReply] at hk
    | some b => simp [respOk, packetOf, valOf, typeOf, shape]
  | array o =>
    cases o with
    | none => simp [respOk, packetOf, valOf, typeOf, shape]
    | some xs =>
      cases xs with
      | nil => simp [respOk, packetOf, valOf, valsOf, typeOf, shape]
      | cons x xs => simp [tagsOfReply] at hk

/-! ### commands -/

/-- a command is the array of its name and arguments as bulk strings -/
def cmdReply (c : Command) : Reply := .array (some (.bulk (some c.name) :: c.args.map fun a => .bulk (some a)))

theorem encReplies_bulks (args : List Bytes) :
    encReplies (args.map fun a => Reply.bulk (some a)) = (args.map encBulk).flatten := by
  induction args with
  | nil => simp [encReplies]
  | cons a as ih => simp [encReplies, encReply, ih]

theorem encCommand_eq (c : Command) : encCommand c = encReply (cmdReply c) := by
  simp [encCommand, cmdReply, encReply, encReplies, encReplies_bulks]

theorem valsOf_bulks (args : List Bytes) :
    valsOf (args.map fun a => Reply.bulk (some a)) = args.map fun a => RVal.bytes a false := by
  induction args with
  | nil => simp [valsOf]
  | cons a as ih => simp [valsOf, valOf, ih]

theorem wfRs_bulks (args : List Bytes) (h : ∀ a ∈ args, a.length ≤ 9223372036854775807) :
    wfRs (args.map fun a => Reply.bulk (some a)) = true := by
  induction args with
  | nil => simp [wfRs]
  | cons a as ih =>
    simp only [List.map_cons, wfRs, wfR, Bool.and_eq_true, decide_eq_true_eq]
    exact ⟨h a (by simp), ih (fun x hx => h x (by simp [hx]))⟩

theorem joinArgs_cons (a : Bytes) (more : List Bytes) :
    a ++ (more.map fun m => asciiBytes ", " ++ m).flatten = joinArgs (a :: more) := by
  induction more generalizing a with
  | nil => simp [joinArgs]
  | cons m ms ih =>
    have := ih m
    simp only [List.map_cons, List.flatten_cons, joinArgs] at this ⊢
    rw [← this]
    simp [asciiBytes, List.append_assoc]

theorem filterMap_bytes (f : RVal → Option Bytes) (hf : ∀ a, f (.bytes a false) = some a) (l : List Bytes) :
    List.filterMap (f ∘ fun a => RVal.bytes a false) l = l := by
  induction l with
  | nil => rfl
  | cons a as ih => simp [List.filterMap_cons, hf, ih]

/-- **Commands are reported as sent**: for every command whose (upper-cased) name is in the
    command table, with any number of arguments holding any bytes, the packet carries the name,
    the key and the further arguments exactly. -/
theorem c07_command_reported (c : Command) (hin : Redis.inTable Gen.Redis.commands (upperAscii c.name) = true) :
    reportable (cmdReply c) = true ∧ reqOk c (packetOf (cmdReply c)) = true := by
  have hv : valOf (cmdReply c) = .arr (.bytes c.name false :: c.args.map fun a => RVal.bytes a false) false := by
    simp [cmdReply, valOf, valsOf, valsOf_bulks]
  have hin' : Redis.inTable Gen.Redis.commands (upper c.name) = true := hin
  unfold reportable packetOf
  rw [hv]
  rcases hargs : c.args with _ | ⟨k, _ | ⟨v, _ | ⟨w, more⟩⟩⟩
  · simp [shape, typeOf, cmdReply, hin', reqOk, hargs, upper_eq]
  · simp [shape, typeOf, cmdReply, hin', reqOk, hargs, upper_eq]
  · simp [shape, typeOf, cmdReply, hin', reqOk, hargs, upper_eq]
  · have hj := joinArgs_cons v (w :: more)
    simp only [List.map_cons, List.flatten_cons, asciiBytes] at hj
    simp [shape, typeOf, cmdReply, hin', reqOk, hargs, upper_eq]
    rw [filterMap_bytes _ (fun a => rfl)]
    have hj' : v ++ 44 :: 32 :: (w ++ (List.map (fun m => 44 :: 32 :: m) more).flatten) = joinArgs (v :: w :: more) := by
      simpa [List.append_assoc] using hj
    rw [← hj']
    have e1 : asciiBytes "[" = [91] := rfl
    have e2 : asciiBytes ", " = [44, 32] := rfl
    have e3 : asciiBytes "]" = [93] := rfl
    simp [List.append_assoc, e1, e2, e3]

theorem wfR_cmdReply (c : Command) (hn : c.name.length ≤ 9223372036854775807)
    (ha : ∀ a ∈ c.args, a.length ≤ 9223372036854775807) (hl : c.args.length < 9223372036854775807) :
    wfR (cmdReply c) = true := by
  simp only [cmdReply, wfR, wfRs, Bool.and_eq_true, decide_eq_true_eq, List.length_cons, List.length_map]
  exact ⟨by omega, hn, wfRs_bulks c.args ha⟩

/-- **A whole client half**: every pipelined sequence of commands of the table - any arguments,
    any bytes - yields one packet per command, in order, each carrying name, key and arguments
    as sent (`c07_command_reported`). -/
theorem c07_client_half (cs : List Command)
    (h : ∀ c ∈ cs, Redis.inTable Gen.Redis.commands (upperAscii c.name) = true ∧ c.name.length ≤ 9223372036854775807 ∧
      (∀ a ∈ c.args, a.length ≤ 9223372036854775807) ∧ c.args.length < 9223372036854775807)
    (tail : Tail) (fuel : Nat) (hf : cs.length < fuel) :
    dissect fuel { rem := (cs.map encCommand).flatten, tail } =
      (cs.map fun c => packetOf (cmdReply c), ({ rem := [], tail } : St).endErr) := by
  have he : cs.map encCommand = (cs.map cmdReply).map encReply := by
    simp [List.map_map, Function.comp_def, encCommand_eq]
  have := c07_server_half (cs.map cmdReply) (by
      intro r hr
      simp only [List.mem_map] at hr
      obtain ⟨c, hc, rfl⟩ := hr
      obtain ⟨h1, h2, h3, h4⟩ := h c hc
      exact ⟨wfR_cmdReply c h2 h3 h4, (c07_command_reported c h1).1⟩) tail fuel (by simpa using hf)
  simp only [encAll, List.map_map] at this
  rw [he, List.map_map]
  exact this

/-- Non-vacuity: SET with a binary value, answered +OK; GET answered by a bulk string holding CR LF. -/
example : wfR (cmdReply { name := [83, 69, 84], args := [[107], [0, 13, 10, 255]] }) = true ∧
    wfR (.simple [79, 75]) = true ∧ wfR (.bulk (some [13, 10])) = true ∧ wfR (.array (some [.int (-5), .bulk none])) = true := by
  decide

end KsVerif.Proofs.C07
