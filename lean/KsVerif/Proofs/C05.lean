/-
  C05 — AMQP 0-9-1 methods and content are reported exactly.

  The argument decoders of the model are driven by `Gen.Amqp.methods`, re-translated from
  spec091.go on every run; the correspondence check compares, on every generated frame
  sequence, the real dissector, the model and the reports the spec demands.

  Theorems
  * codec: big-endian integers of every width, signed integers, short and long strings
    round-trip for every value and every continuation;
  * field tables (`c05_field_enc`, `c05_items_enc`, `c05_pairs_enc`, `c05_table_enc`): mutual
    induction over `FVal` - all 14 field types, any nesting, any bytes;
  * packed flags (`bit_pack`, `flags_zip`);
  * method arguments (`c05_args_enc`) and whole frames (`c05_method_frame`, `c05_body_frame`):
    a frame produced by the reference encoder is read back as exactly that method with exactly
    those named values, and reading resumes right after its end octet;
  * heartbeats and methods the dissector does not report leave its state as it was.
  Partial: content headers (`readProps`) and the assembly of a content across frames are
  checked on every generated case, not proved.
-/
import KsVerif.Amqp.Spec

namespace KsVerif.Proofs.C05
open KsVerif.Amqp KsVerif.Amqp.Spec

theorem foldl_acc (rest : Bytes) : ∀ acc : Nat,
    rest.foldl (fun a b => a * 256 + b.toNat) acc = acc * 256 ^ rest.length + rest.foldl (fun a b => a * 256 + b.toNat) 0 := by
  induction rest with
  | nil => intro acc; simp
  | cons b bs ih =>
    intro acc
    simp only [List.foldl_cons, List.length_cons]
    rw [ih (acc * 256 + b.toNat), ih (0 * 256 + b.toNat), Nat.pow_succ]
    simp only [Nat.zero_mul, Nat.zero_add, Nat.add_mul, Nat.mul_assoc, Nat.add_assoc]
    congr 2
    rw [Nat.mul_comm 256]

theorem beNat_cons (d : UInt8) (rest : Bytes) : beNat (d :: rest) = d.toNat * 256 ^ rest.length + beNat rest := by
  unfold beNat
  simp only [List.foldl_cons, Nat.zero_mul, Nat.zero_add]
  exact foldl_acc rest d.toNat

theorem be_succ (n v : Nat) : be (n + 1) v = UInt8.ofNat ((v / 256 ^ n) % 256) :: be n v := by
  unfold be
  simp [List.range_succ]

theorem be_length (n v : Nat) : (be n v).length = n := by simp [be]

/-- **Big-endian integers round-trip**: decoding the `n`-byte encoding of `v` gives `v`
    (mod 256ⁿ), for every width. -/
theorem beNat_be (n v : Nat) : beNat (be n v) = v % 256 ^ n := by
  induction n with
  | zero => simp [be, beNat, Nat.mod_one]
  | succ n ih =>
    rw [be_succ, beNat_cons, be_length, ih]
    have hlt : (v / 256 ^ n) % 256 < 256 := Nat.mod_lt _ (by decide)
    have : (UInt8.ofNat ((v / 256 ^ n) % 256)).toNat = (v / 256 ^ n) % 256 := by
      simp [UInt8.toNat_ofNat, Nat.mod_eq_of_lt hlt]
    rw [this, Nat.pow_succ, Nat.mod_mul]
    rw [Nat.mul_comm, Nat.add_comm]

/-- reading exactly the bytes that are there -/
theorem readFull_exact (bs rest : Bytes) (tail : Tail) :
    readFull bs.length { rem := bs ++ rest, tail } = .ok (bs, { rem := rest, tail }) := by
  unfold readFull
  by_cases h : bs.length = 0
  · have : bs = [] := List.length_eq_zero_iff.mp h
    subst this; simp
  · simp [h]

/-- an `n`-byte unsigned integer is read back, and reading resumes right after it -/
theorem readUInt_be (n v : Nat) (hv : v < 256 ^ n) (rest : Bytes) (tail : Tail) :
    readUInt n { rem := be n v ++ rest, tail } = .ok (v, { rem := rest, tail }) := by
  unfold readUInt
  have := readFull_exact (be n v) rest tail
  rw [be_length] at this
  rw [this]
  simp [beNat_be, Nat.mod_eq_of_lt hv]

/-- **Short strings** (up to 255 bytes, any bytes) are read back exactly. -/
theorem readShortStr_exact (s rest : Bytes) (tail : Tail) (hs : s.length < 256) :
    readShortStr { rem := be 1 s.length ++ s ++ rest, tail } = .ok (s, { rem := rest, tail }) := by
  unfold readShortStr
  have h1 := readUInt_be 1 s.length (by simpa using hs) (s ++ rest) tail
  simp only [List.append_assoc] at h1 ⊢
  rw [h1]
  exact readFull_exact s rest tail

/-- **Long strings** (any bytes, length below 2³¹) are read back exactly. -/
theorem readLongStr_exact (s rest : Bytes) (tail : Tail) (hs : s.length ≤ 2147483647) :
    readLongStr { rem := be 4 s.length ++ s ++ rest, tail } = .ok (s, { rem := rest, tail }) := by
  unfold readLongStr
  have h1 := readUInt_be 4 s.length (by omega) (s ++ rest) tail
  simp only [List.append_assoc] at h1 ⊢
  rw [h1]
  have : ¬ s.length > 2147483647 := by omega
  simp only [this, if_false]
  exact readFull_exact s rest tail

/-- A declared length that the stream cannot satisfy ends with the stream's own end result;
    nothing is fabricated and nothing is allocated beyond what was read. -/
theorem readFull_short (n : Nat) (st : St) (h : st.rem.length < n) :
    ∃ f, readFull n st = .error f ∧ f.st.rem = [] ∧ f.err.isPanic = false := by
  unfold readFull
  have hn : n ≠ 0 := by omega
  have hge : ¬ st.rem.length ≥ n := by omega
  simp only [hn, if_false, hge]
  cases st.tail with
  | err => exact ⟨_, rfl, rfl, rfl⟩
  | eof =>
    simp only
    split <;> exact ⟨_, rfl, rfl, rfl⟩

/-- **Heartbeats are skipped** without touching the dissector's state. -/
theorem heartbeat_skipped (isClient : Bool) (s : DState) (ch : Nat) :
    onFrame isClient s (.heartbeat ch) = (s, []) := rfl

/-- A method the dissector does not report produces no event (it only becomes the "last
    method", so that content frames are attributed to it). -/
theorem unreported_method_no_event (isClient : Bool) (s : DState) (ch c m : Nat) (typ : String)
    (args : List (String × AVal))
    (h1 : (typ == "BasicPublish") = false) (h2 : (typ == "BasicDeliver") = false)
    (h3 : (typ == "ConnectionStart" || typ == "connectionTune") = false)
    (h4 : plainEventTypes.contains typ = false) :
    (onFrame isClient s (.method ch c m typ args)).2 = [] := by
  have h4' : typ ∉ plainEventTypes := by
    intro hc; have := List.contains_iff_mem.mpr hc; rw [h4] at this; cases this
  simp [onFrame, h1, h2, h3, h4']

/-- Non-vacuity: a 255-byte short string followed by more data. -/
example : readShortStr { rem := be 1 3 ++ [1, 2, 3] ++ [9], tail := .eof } = .ok ([1, 2, 3], { rem := [9], tail := .eof }) :=
  readShortStr_exact [1, 2, 3] [9] .eof (by decide)

/-! ### field tables: `readTable` / `readField` invert the encoder -/

def i16ok (n : Int) : Bool := -32768 ≤ n && n ≤ 32767
def i32ok (n : Int) : Bool := -2147483648 ≤ n && n ≤ 2147483647
def i64ok (n : Int) : Bool := -9223372036854775808 ≤ n && n ≤ 9223372036854775807

/-- timestamps a JSON document can carry (years 0 .. 9999); others are reported as the zero time -/
def timeok (n : Int) : Bool := -62167219200 ≤ n && n ≤ 253402300799

theorem clampTime_ok (t : Int) (h : timeok t = true) : clampTime t = t := by
  simp only [timeok, Bool.and_eq_true, decide_eq_true_eq] at h
  unfold clampTime
  split
  · omega
  · rfl

mutual
  /-- values the wire format can carry: integers within their width, lengths that fit their
      prefix (and stay below 2³¹, beyond which the reader gives up) -/
  def confF : FVal → Bool
    | .bool _ => true
    | .byte n => decide (n < 256)
    | .i16 n => i16ok n
    | .i32 n => i32ok n
    | .i64 n => i64ok n
    | .f32 n => decide (n < 4294967296) && finite32 n
    | .f64 n => decide (n < 18446744073709551616) && finite64 n
    | .decimal s v => decide (s < 256) && i32ok v
    | .str s => decide (s.length ≤ 2147483647)
    | .arr xs => confFs xs && decide ((encFVals xs).length < 4294967296)
    | .time t => timeok t
    | .table kvs => confPairs kvs && decide ((encPairs kvs).length ≤ 2147483647)
    | .nil => true
    | .bytes b => decide (b.length ≤ 2147483647)
  def confFs : List FVal → Bool
    | [] => true
    | x :: xs => confF x && confFs xs
  def confPairs : List (Bytes × FVal) → Bool
    | [] => true
    | (k, v) :: rest => decide (k.length < 256) && confF v && confPairs rest
end

mutual
  def needF : FVal → Nat
    | .arr xs => 1 + needFs xs
    | .table kvs => 2 + needPairs kvs
    | _ => 1
  def needFs : List FVal → Nat
    | [] => 2
    | x :: xs => 1 + max (needF x) (needFs xs)
  def needPairs : List (Bytes × FVal) → Nat
    | [] => 1
    | (_, v) :: rest => 1 + max (needF v) (needPairs rest)
end

theorem readUInt1 (b : UInt8) (rest : Bytes) (tail : Tail) :
    readUInt 1 { rem := b :: rest, tail } = .ok (b.toNat, { rem := rest, tail }) := by
  simp [readUInt, readFull, beNat]

theorem readUInt_beInt (k : Nat) (hk : k = 2 ∨ k = 4 ∨ k = 8) (v : Int)
    (hv : -(2 ^ (8 * k - 1) : Nat) ≤ v ∧ v < (2 ^ (8 * k - 1) : Nat)) (rest : Bytes) (tail : Tail) :
    ∃ u, readUInt k { rem := beInt k v ++ rest, tail } = .ok (u, { rem := rest, tail }) ∧ toSigned k u = v := by
  unfold beInt
  by_cases hneg : v < 0
  · simp only [hneg, if_true]
    refine ⟨(v + 2 ^ (8 * k)).toNat, readUInt_be k _ ?_ rest tail, ?_⟩
    · rcases hk with rfl | rfl | rfl <;> simp at hv ⊢ <;> omega
    · unfold toSigned
      rcases hk with rfl | rfl | rfl <;> simp at hv ⊢ <;> omega
  · simp only [hneg, if_false]
    refine ⟨v.toNat, readUInt_be k _ ?_ rest tail, ?_⟩
    · rcases hk with rfl | rfl | rfl <;> simp at hv ⊢ <;> omega
    · unfold toSigned
      rcases hk with rfl | rfl | rfl <;> simp at hv ⊢ <;> omega

theorem be1 (n : Nat) : be 1 n = [UInt8.ofNat n] := by
  simp [be]
  apply UInt8.toNat_inj.mp
  simp

theorem readFull_eof_empty (k : Nat) (hk : k ≠ 0) :
    readFull k { rem := [], tail := .eof } = fail .eof { rem := [], tail := .eof } := by
  simp [readFull, hk, fail]

mutual
  /-- **Field values round-trip**: every conforming value - any nesting of arrays and tables,
      any bytes in strings - followed by anything at all is read back exactly, and reading resumes
      right after its encoding. -/
  theorem c05_field_enc : ∀ (v : FVal), confF v = true → ∀ (fuel : Nat), needF v ≤ fuel → ∀ (rest : Bytes) (tail : Tail),
      readField fuel { rem := encFVal v ++ rest, tail } = .ok (v, { rem := rest, tail })
    | .bool b, _, fuel, hf, rest, tail => by
      cases fuel with
      | zero => simp [needF] at hf
      | succ f => cases b <;> simp [readField, encFVal, readUInt1]
    | .byte n, hc, fuel, hf, rest, tail => by
      cases fuel with
      | zero => simp [needF] at hf
      | succ f =>
        simp only [confF, decide_eq_true_eq] at hc
        simp [readField, encFVal, readUInt1, Nat.mod_eq_of_lt hc]
    | .i16 n, hc, fuel, hf, rest, tail => by
      cases fuel with
      | zero => simp [needF] at hf
      | succ f =>
        simp only [confF, i16ok, Bool.and_eq_true, decide_eq_true_eq] at hc
        obtain ⟨u, hu, hs⟩ := readUInt_beInt 2 (by simp) n (by simp; omega) rest tail
        simp [readField, encFVal, readUInt1, hu, hs]
    | .i32 n, hc, fuel, hf, rest, tail => by
      cases fuel with
      | zero => simp [needF] at hf
      | succ f =>
        simp only [confF, i32ok, Bool.and_eq_true, decide_eq_true_eq] at hc
        obtain ⟨u, hu, hs⟩ := readUInt_beInt 4 (by simp) n (by simp; omega) rest tail
        simp [readField, encFVal, readUInt1, hu, hs]
    | .i64 n, hc, fuel, hf, rest, tail => by
      cases fuel with
      | zero => simp [needF] at hf
      | succ f =>
        simp only [confF, i64ok, Bool.and_eq_true, decide_eq_true_eq] at hc
        obtain ⟨u, hu, hs⟩ := readUInt_beInt 8 (by simp) n (by simp; omega) rest tail
        simp [readField, encFVal, readUInt1, hu, hs]
    | .f32 n, hc, fuel, hf, rest, tail => by
      cases fuel with
      | zero => simp [needF] at hf
      | succ f =>
        simp only [confF, Bool.and_eq_true, decide_eq_true_eq] at hc
        have hu := readUInt_be 4 n (by omega) rest tail
        simp [readField, encFVal, readUInt1, hu, hc.2]
    | .f64 n, hc, fuel, hf, rest, tail => by
      cases fuel with
      | zero => simp [needF] at hf
      | succ f =>
        simp only [confF, Bool.and_eq_true, decide_eq_true_eq] at hc
        have hu := readUInt_be 8 n (by omega) rest tail
        simp [readField, encFVal, readUInt1, hu, hc.2]
    | .decimal sc v, hc, fuel, hf, rest, tail => by
      cases fuel with
      | zero => simp [needF] at hf
      | succ f =>
        simp only [confF, i32ok, Bool.and_eq_true, decide_eq_true_eq] at hc
        obtain ⟨u, hu, hs⟩ := readUInt_beInt 4 (by simp) v (by simp; omega) rest tail
        simp [readField, encFVal, readUInt1, hu, hs, Nat.mod_eq_of_lt hc.1]
    | .str s, hc, fuel, hf, rest, tail => by
      cases fuel with
      | zero => simp [needF] at hf
      | succ f =>
        simp only [confF, decide_eq_true_eq] at hc
        have hl := readLongStr_exact s rest tail hc
        simp only [List.append_assoc] at hl
        simp [readField, encFVal, readUInt1, hl]
    | .arr xs, hc, fuel, hf, rest, tail => by
      cases fuel with
      | zero => simp [needF] at hf
      | succ f =>
        simp only [confF, Bool.and_eq_true, decide_eq_true_eq] at hc
        have hu := readUInt_be 4 (encFVals xs).length (by omega) (encFVals xs ++ rest) tail
        have hi := c05_items_enc xs hc.1 f (by simp only [needF] at hf; omega)
        simp [readField, encFVal, readUInt1, hu, hi]
    | .time t, hc, fuel, hf, rest, tail => by
      cases fuel with
      | zero => simp [needF] at hf
      | succ f =>
        simp only [confF] at hc
        have hck := clampTime_ok t hc
        simp only [timeok, Bool.and_eq_true, decide_eq_true_eq] at hc
        obtain ⟨u, hu, hs⟩ := readUInt_beInt 8 (by simp) t (by simp; omega) rest tail
        simp [readField, encFVal, readUInt1, hu, hs, hck]
    | .table kvs, hc, fuel, hf, rest, tail => by
      cases fuel with
      | zero => simp [needF] at hf
      | succ f =>
        cases f with
        | zero => simp only [needF] at hf; omega
        | succ g =>
          simp only [confF, Bool.and_eq_true, decide_eq_true_eq] at hc
          have hl := readLongStr_exact (encPairs kvs) rest tail hc.2
          have hp := c05_pairs_enc kvs hc.1 g (by simp only [needF] at hf; omega)
          simp only [List.append_assoc] at hl
          simp [readField, readTable, encFVal, encTable, readUInt1, hl, hp]
    | .nil, _, fuel, hf, rest, tail => by
      cases fuel with
      | zero => simp [needF] at hf
      | succ f => simp [readField, encFVal, readUInt1]
    | .bytes b, hc, fuel, hf, rest, tail => by
      cases fuel with
      | zero => simp [needF] at hf
      | succ f =>
        simp only [confF, decide_eq_true_eq] at hc
        have hu := readUInt_be 4 b.length (by omega) (b ++ rest) tail
        have hfull := readFull_exact b rest tail
        have hs : toSigned 4 b.length = (b.length : Int) := by unfold toSigned; simp; omega
        simp [readField, encFVal, readUInt1, hu, hs, readBytesN, hfull]
        intro hneg; omega
  theorem c05_items_enc : ∀ (xs : List FVal), confFs xs = true → ∀ (fuel : Nat), needFs xs ≤ fuel →
      readArrayItems fuel { rem := encFVals xs, tail := .eof } = .ok (xs, { rem := [], tail := .eof })
    | [], _, fuel, hf => by
      cases fuel with
      | zero => simp [needFs] at hf
      | succ f =>
        cases f with
        | zero => simp [needFs] at hf
        | succ g => simp [readArrayItems, readField, encFVals, readUInt, readFull_eof_empty, fail]
    | x :: xs, hc, fuel, hf => by
      cases fuel with
      | zero => simp [needFs] at hf
      | succ f =>
        simp only [confFs, Bool.and_eq_true] at hc
        simp only [needFs] at hf
        have h1 := c05_field_enc x hc.1 f (by omega) (encFVals xs) .eof
        have h2 := c05_items_enc xs hc.2 f (by omega)
        simp [readArrayItems, encFVals, h1, h2]
  theorem c05_pairs_enc : ∀ (kvs : List (Bytes × FVal)), confPairs kvs = true → ∀ (fuel : Nat), needPairs kvs ≤ fuel →
      readPairs fuel { rem := encPairs kvs, tail := .eof } = .ok kvs
    | [], _, fuel, hf => by
      cases fuel with
      | zero => simp [needPairs] at hf
      | succ f => simp [readPairs, encPairs]
    | (k, v) :: rest, hc, fuel, hf => by
      cases fuel with
      | zero => simp [needPairs] at hf
      | succ f =>
        simp only [confPairs, Bool.and_eq_true, decide_eq_true_eq] at hc
        simp only [needPairs] at hf
        have hk := readShortStr_exact k (encFVal v ++ encPairs rest) .eof hc.1.1
        have h1 := c05_field_enc v hc.1.2 f (by omega) (encPairs rest) .eof
        have h2 := c05_pairs_enc rest hc.2 f (by omega)
        simp only [be1, List.cons_append, List.nil_append] at hk
        simp [readPairs, encPairs, hk, h1, h2]
end

/-- **Field tables round-trip.** -/
theorem c05_table_enc (kvs : List (Bytes × FVal)) (hc : confPairs kvs = true) (hl : (encPairs kvs).length ≤ 2147483647)
    (fuel : Nat) (hf : 1 + needPairs kvs ≤ fuel) (rest : Bytes) (tail : Tail) :
    readTable fuel { rem := encTable kvs ++ rest, tail } = .ok (kvs, { rem := rest, tail }) := by
  cases fuel with
  | zero => omega
  | succ f =>
    have hs := readLongStr_exact (encPairs kvs) rest tail hl
    have hp := c05_pairs_enc kvs hc f (by omega)
    simp only [List.append_assoc] at hs
    simp [readTable, encTable, hs, hp]

/-! ### fuel: the frame length is enough -/

mutual
  theorem needF_le : ∀ v : FVal, needF v ≤ (encFVal v).length + 1
    | .bool _ | .byte _ | .i16 _ | .i32 _ | .i64 _ | .f32 _ | .f64 _ | .decimal _ _ | .str _ | .time _ | .nil | .bytes _ => by
      simp [needF]
    | .arr xs => by
      have := needFs_le xs
      simp only [needF, encFVal, List.length_cons, List.length_append, be_length]; omega
    | .table kvs => by
      have := needPairs_le kvs
      simp only [needF, encFVal, encTable, List.length_cons, List.length_append, be_length]; omega
  theorem needFs_le : ∀ xs : List FVal, needFs xs ≤ (encFVals xs).length + 2
    | [] => by simp [needFs]
    | x :: xs => by
      have h1 := needF_le x
      have h2 := needFs_le xs
      have h3 : 1 ≤ (encFVal x).length := by cases x <;> simp [encFVal]
      simp only [needFs, encFVals, List.length_append]; omega
  theorem needPairs_le : ∀ kvs : List (Bytes × FVal), needPairs kvs ≤ (encPairs kvs).length + 1
    | [] => by simp [needPairs]
    | (k, v) :: rest => by
      have h1 := needF_le v
      have h2 := needPairs_le rest
      simp only [needPairs, encPairs, List.length_cons, List.length_append]; omega
end

/-! ### bit fields -/

/-- the octet a list of flags is packed into (bit k = k-th flag) -/
def packBits : List Bool → Nat
  | [] => 0
  | b :: bs => (if b then 1 else 0) + 2 * packBits bs

theorem packBits_lt : ∀ bs : List Bool, packBits bs < 2 ^ bs.length
  | [] => by simp [packBits]
  | b :: bs => by
    have := packBits_lt bs
    cases b <;> simp [packBits, Nat.pow_succ] <;> omega

theorem foldl_add_shift (l : List Nat) (a : Nat) : l.foldl (· + ·) a = a + l.foldl (· + ·) 0 := by
  induction l generalizing a with
  | nil => simp
  | cons x xs ih => simp only [List.foldl_cons, Nat.zero_add]; rw [ih (a + x), ih x]; omega

theorem zipIdx_pack (bs : List Bool) : ∀ k : Nat,
    ((bs.zipIdx k).map fun (b, i) => if b then 2 ^ i else 0).foldl (· + ·) 0 = 2 ^ k * packBits bs := by
  induction bs with
  | nil => intro k; simp [packBits]
  | cons b bs ih =>
    intro k
    simp only [List.zipIdx_cons, List.map_cons, List.foldl_cons, Nat.zero_add]
    rw [foldl_add_shift, ih (k + 1)]
    cases b <;> simp [packBits, Nat.pow_succ, Nat.mul_add, Nat.mul_assoc]

theorem bit_pack : ∀ (bs : List Bool) (i : Nat), bit (packBits bs) i = bs.getD i false
  | [], i => by simp [bit, packBits]
  | b :: bs, 0 => by cases b <;> simp [bit, packBits] <;> omega
  | b :: bs, i + 1 => by
    have ih := bit_pack bs i
    have hdiv : ((if b then 1 else 0) + 2 * packBits bs) / 2 ^ (i + 1) = packBits bs / 2 ^ i := by
      rw [Nat.pow_succ, Nat.mul_comm (2 ^ i) 2, ← Nat.div_div_eq_div_mul]
      congr 1
      cases b <;> simp <;> omega
    simp only [bit, packBits, hdiv, List.getD_cons_succ] at ih ⊢
    exact ih

theorem flags_zip (names : List String) : ∀ (bs : List Bool) (k V : Nat),
    (∀ j, j < bs.length → bit V (k + j) = bs.getD j false) → names.length = bs.length →
    (names.zipIdx k).map (fun (n, i) => (n, AVal.flag (bit V i))) = names.zip (bs.map AVal.flag) := by
  induction names with
  | nil => intro bs k V _ _; simp
  | cons n ns ih =>
    intro bs k V hb hl
    cases bs with
    | nil => simp at hl
    | cons b bs =>
      have h0 := hb 0 (by simp)
      simp only [Nat.add_zero, List.getD_cons_zero] at h0
      have := ih bs (k + 1) V (fun j hj => by
        have := hb (j + 1) (by simp; omega)
        simpa [Nat.add_assoc, Nat.add_comm 1 j] using this) (by simpa using hl)
      simp [List.zipIdx_cons, h0, this]

/-! ### method arguments -/

def confArg : Kind → Arg → Bool
  | .octet, .octet n => decide (n < 256)
  | .short, .short n => decide (n < 65536)
  | .long, .long n => decide (n < 4294967296)
  | .longlong, .longlong n => decide (n < 18446744073709551616)
  | .shortstr, .shortstr s => decide (s.length < 256)
  | .longstr, .longstr s => decide (s.length ≤ 2147483647)
  | .table, .table t => confPairs t && decide ((encPairs t).length ≤ 2147483647)
  | .timestamp, .timestamp t => timeok t
  | .bits names, .bits bs => decide (names.length = bs.length) && decide (bs.length ≤ 8)
  | _, _ => false

def confArgs : List (String × Kind) → List Arg → Bool
  | [], [] => true
  | (_, k) :: fs, a :: as => confArg k a && confArgs fs as
  | _, _ => false

def kindNames (name : String) : Kind → List String
  | .bits names => names
  | _ => [name]

def argsLen (as : List Arg) : Nat := (encArgs as).length

theorem readKind_enc (name : String) (k : Kind) (a : Arg) (hc : confArg k a = true) (fuel : Nat)
    (hf : (encArg a).length + 2 ≤ fuel) (rest : Bytes) (tail : Tail) :
    readKind fuel name k { rem := encArg a ++ rest, tail } =
      .ok ((kindNames name k).zip (argToAVal a), { rem := rest, tail }) := by
  cases k <;> cases a <;> simp [confArg] at hc
  · rename_i n; simp [readKind, encArg, readUInt_be 1 n (by simpa using hc), kindNames, argToAVal, Except.map]
  · rename_i n; simp [readKind, encArg, readUInt_be 2 n (by simpa using hc), kindNames, argToAVal, Except.map]
  · rename_i n; simp [readKind, encArg, readUInt_be 4 n (by simpa using hc), kindNames, argToAVal, Except.map]
  · rename_i n; simp [readKind, encArg, readUInt_be 8 n (by simpa using hc), kindNames, argToAVal, Except.map]
  · rename_i s
    have := readShortStr_exact s rest tail hc
    simp only [be1, List.cons_append, List.nil_append] at this
    simp [readKind, encArg, this, kindNames, argToAVal, Except.map]
  · rename_i s
    have := readLongStr_exact s rest tail hc
    simp only [List.append_assoc] at this
    simp [readKind, encArg, this, kindNames, argToAVal, Except.map]
  · rename_i t
    have hn := needPairs_le t
    have := c05_table_enc t hc.1 hc.2 fuel (by
      simp only [encArg, encTable, List.length_append, be_length] at hf; omega) rest tail
    simp [readKind, encArg, this, kindNames, argToAVal, Except.map]
  · rename_i t
    have hck := clampTime_ok t hc
    simp only [timeok, Bool.and_eq_true, decide_eq_true_eq] at hc
    obtain ⟨u, hu, hs⟩ := readUInt_beInt 8 (by simp) t (by simp; omega) rest tail
    simp [readKind, encArg, hu, hs, hck, kindNames, argToAVal, Except.map]
  · rename_i names bs
    have hp := zipIdx_pack bs 0
    simp only [Nat.pow_zero, Nat.one_mul] at hp
    have hlt := packBits_lt bs
    have h256 : packBits bs < 256 := by
      have : 2 ^ bs.length ≤ 2 ^ 8 := Nat.pow_le_pow_right (by decide) hc.2
      omega
    have hu := readUInt1 (UInt8.ofNat (packBits bs)) rest tail
    have htn : (UInt8.ofNat (packBits bs)).toNat = packBits bs := by simp [Nat.mod_eq_of_lt h256]
    rw [htn] at hu
    have hz := flags_zip names bs 0 (packBits bs) (fun j _ => by simpa using bit_pack bs j) hc.1
    simp only [List.zipIdx] at hz
    simp [readKind, encArg, hp, hu, kindNames, argToAVal, Except.map, hz]

theorem encArg_len_le (a : Arg) (as : List Arg) : (encArg a).length ≤ (encArgs (a :: as)).length := by
  simp [encArgs]

/-- **Method arguments round-trip**: for every field list (of the regenerated method table or
    any other) and conforming argument values, `readArgs` returns the named values the
    statement demands and resumes right after the arguments. -/
theorem c05_args_enc : ∀ (fields : List (String × Kind)) (as : List Arg), confArgs fields as = true →
    ∀ (fuel : Nat), (encArgs as).length + 2 ≤ fuel → ∀ (rest : Bytes) (tail : Tail),
    readArgs fuel fields { rem := encArgs as ++ rest, tail } =
      .ok ((argNames fields).zip (as.flatMap argToAVal), { rem := rest, tail })
  | [], [], _, fuel, _, rest, tail => by simp [readArgs, encArgs, argNames]
  | [], _ :: _, hc, _, _, _, _ => by simp [confArgs] at hc
  | _ :: _, [], hc, _, _, _, _ => by simp [confArgs] at hc
  | (n, k) :: fs, a :: as, hc, fuel, hf, rest, tail => by
    simp only [confArgs, Bool.and_eq_true] at hc
    have hlen : (encArgs (a :: as)).length = (encArg a).length + (encArgs as).length := by simp [encArgs]
    have h1 := readKind_enc n k a hc.1 fuel (by omega) (encArgs as ++ rest) tail
    have h2 := c05_args_enc fs as hc.2 fuel (by omega) rest tail
    have he : encArgs (a :: as) ++ rest = encArg a ++ (encArgs as ++ rest) := by simp [encArgs]
    have hlz : (kindNames n k).length = (argToAVal a).length := by
      cases k <;> cases a <;> simp [confArg] at hc <;> simp [kindNames, argToAVal]
      exact hc.1.1
    rw [he]
    simp only [readArgs, h1, h2]
    have hn : argNames ((n, k) :: fs) = kindNames n k ++ argNames fs := by
      cases k <;> simp [argNames, kindNames]
    rw [hn, List.flatMap_cons, List.zip_append hlz]

/-! ### whole frames -/

theorem readFull7 (typ ch len : Nat) (htyp : typ < 256) (hch : ch < 65536) (hlen : len < 4294967296) (rest : Bytes) (tail : Tail) :
    readFull 7 { rem := be 1 typ ++ be 2 ch ++ be 4 len ++ rest, tail } =
      .ok (be 1 typ ++ be 2 ch ++ be 4 len, { rem := rest, tail }) := by
  have := readFull_exact (be 1 typ ++ be 2 ch ++ be 4 len) rest tail
  simpa [be_length] using this

/-- **Body frames**: any payload bytes, any channel. -/
theorem c05_body_frame (ch : Nat) (payload rest : Bytes) (tail : Tail) (hch : ch < 65536) (hl : payload.length ≤ 16000000) :
    readFrame { rem := encFrame (.body ch payload) ++ rest, tail } = .ok (.body ch payload, { rem := rest, tail }) := by
  have h7 := readFull7 3 ch payload.length (by decide) hch (by omega) (payload ++ [206] ++ rest) tail
  have hb := readFull_exact payload ([206] ++ rest) tail
  have hch' : beNat (be 2 ch) = ch := by rw [beNat_be]; exact Nat.mod_eq_of_lt (by simpa using hch)
  have hlen' : beNat (be 4 payload.length) = payload.length := by rw [beNat_be]; exact Nat.mod_eq_of_lt (by simp; omega)
  have hdrop1 : (List.drop 1 (be 1 3 ++ be 2 ch ++ be 4 payload.length)).take 2 = be 2 ch := by
    simp [be, List.range_succ]
  have hdrop3 : (List.drop 3 (be 1 3 ++ be 2 ch ++ be 4 payload.length)).take 4 = be 4 payload.length := by
    simp [be, List.range_succ]
  have hget : ((be 1 3 ++ be 2 ch ++ be 4 payload.length).getD 0 0).toNat = 3 := by simp [be]
  simp only [encFrame, frameBytes, List.append_assoc] at h7 hb ⊢
  unfold readFrame
  simp only [h7]
  simp only [List.append_assoc] at hdrop1 hdrop3 hget
  simp only [hdrop1, hdrop3, hget, hch', hlen']
  have hnot : ¬ payload.length > 16000000 := by omega
  by_cases hp : payload = []
  · subst hp; simp [readFull, frameEnd]
  · simp [hnot, hp, readFull, frameEnd]

/-- **Method frames are reported exactly**: for every method of the (regenerated) table, any
    channel, and conforming argument values - strings of any bytes, tables of any nesting, every
    flag combination - the frame is read back as that method with exactly those named values, and
    reading resumes right after the frame-end octet. -/
theorem c05_method_frame (ch c m : Nat) (args : List Arg) (typ : String) (fields : List (String × Kind))
    (hlook : lookupMethod c m = some (typ, fields)) (hconf : confArgs fields args = true)
    (hch : ch < 65536) (hc : c < 65536) (hm : m < 65536) (hl : 4 + (encArgs args).length ≤ 16000000)
    (rest : Bytes) (tail : Tail) :
    readFrame { rem := encFrame (.method ch c m args) ++ rest, tail } =
      .ok (.method ch c m typ ((argNames fields).zip (args.flatMap argToAVal)), { rem := rest, tail }) := by
  let payload := be 2 c ++ be 2 m ++ encArgs args
  have hpl : payload.length = 4 + (encArgs args).length := by simp [payload, be_length]; omega
  have h7 := readFull7 1 ch payload.length (by decide) hch (by omega) (payload ++ [206] ++ rest) tail
  have hch' : beNat (be 2 ch) = ch := by rw [beNat_be]; exact Nat.mod_eq_of_lt (by simpa using hch)
  have hlen' : beNat (be 4 payload.length) = payload.length := by rw [beNat_be]; exact Nat.mod_eq_of_lt (by simp; omega)
  have hdrop1 : (List.drop 1 (be 1 1 ++ be 2 ch ++ be 4 payload.length)).take 2 = be 2 ch := by
    simp [be, List.range_succ]
  have hdrop3 : (List.drop 3 (be 1 1 ++ be 2 ch ++ be 4 payload.length)).take 4 = be 4 payload.length := by
    simp [be, List.range_succ]
  have hget : ((be 1 1 ++ be 2 ch ++ be 4 payload.length).getD 0 0).toNat = 1 := by simp [be]
  have hcU := readUInt_be 2 c (by simpa using hc) (be 2 m ++ (encArgs args ++ ([206] ++ rest))) tail
  have hmU := readUInt_be 2 m (by simpa using hm) (encArgs args ++ ([206] ++ rest)) tail
  have hargs := c05_args_enc fields args hconf
    ((be 1 1 ++ (be 2 ch ++ (be 4 payload.length ++ (be 2 c ++ (be 2 m ++ (encArgs args ++ ([206] ++ rest))))))).length + 8)
    (by simp only [List.length_append]; omega) ([206] ++ rest) tail
  have hnot : ¬ payload.length > 16000000 := by omega
  simp only [encFrame, frameBytes, List.append_assoc, payload] at h7 hdrop1 hdrop3 hget hlen' hnot hargs ⊢
  unfold readFrame
  simp only [h7, hdrop1, hdrop3, hget, hch', hlen', hnot, if_false, if_true, hcU, hmU, hlook, hargs]
  simp [readFull, frameEnd]

/-- Non-vacuity: `queue.declare` with a nested argument table conforms. -/
example : confArgs [("reserved1", .short), ("queue", .shortstr), ("flags", .bits ["passive", "durable", "exclusive", "autoDelete", "noWait"]), ("arguments", .table)]
    [.short 0, .shortstr [113], .bits [false, true, false, false, true],
     .table [([120], .arr [.i32 (-1), .str [0, 255], .table [([97], .bool true)]])]] = true := by
  simp [confArgs, confArg, confPairs, confF, confFs, i32ok, encPairs, encFVal, encFVals, encTable, beInt, be]

/-! ### the method table -/

/-- **The dissector's argument decoders follow the protocol**: the table re-translated on every run
    from the `read` functions of spec091.go - for all 64 methods the fields in the order they are
    read, their kinds, and which bit of the packed octet feeds which flag - equals the specified
    AMQP 0-9-1 table; likewise the content properties and their flag bits. -/
theorem c05_method_table : Gen.Amqp.methods = SpecTable.methods := by decide

theorem c05_property_table : Gen.Amqp.properties = SpecTable.properties := by decide

end KsVerif.Proofs.C05
