/-
  C05 — AMQP 0-9-1 methods and content are reported exactly.

  The argument decoders of the model are driven by `Gen.Amqp.methods`, re-translated from
  spec091.go on every run; the correspondence check compares, on every generated frame
  sequence, the real dissector, the model and the reports the spec demands.
  Theorems: the big-endian codec and the string round trips every decoder is built from
  (for every value and every following bytes), and that heartbeats and frames the dissector
  does not report leave its state as it was.
  Partial: the round trip of whole method frames with field tables (`readArgs ∘ encArgs`) and
  frame exactness are checked on every generated case, not yet proved.
-/
import KsVerif.Amqp.Spec

namespace KsVerif.Proofs.C05
open KsVerif.Amqp KsVerif.Amqp.Spec

theorem foldl_acc (rest : Bytes) : ∀ acc : Nat,
    rest.foldl (fun a b => a * 256 + b.toNat) acc = acc * 256 ^ rest.length + rest.foldl (fun a b => a * 256 + b.toNat) 0 := by
  induction rest with
  | nil => intro acc; simp
  | cons b bs ih =>
    intro acc
    simp only [List.foldl_cons, List.length_cons]
    rw [ih (acc * 256 + b.toNat), ih (0 * 256 + b.toNat), Nat.pow_succ]
    simp only [Nat.zero_mul, Nat.zero_add, Nat.add_mul, Nat.mul_assoc, Nat.add_assoc]
    congr 2
    rw [Nat.mul_comm 256]

theorem beNat_cons (d : UInt8) (rest : Bytes) : beNat (d :: rest) = d.toNat * 256 ^ rest.length + beNat rest := by
  unfold beNat
  simp only [List.foldl_cons, Nat.zero_mul, Nat.zero_add]
  exact foldl_acc rest d.toNat

theorem be_succ (n v : Nat) : be (n + 1) v = UInt8.ofNat ((v / 256 ^ n) % 256) :: be n v := by
  unfold be
  simp [List.range_succ]

theorem be_length (n v : Nat) : (be n v).length = n := by simp [be]

/-- **Big-endian integers round-trip**: decoding the `n`-byte encoding of `v` gives `v`
    (mod 256ⁿ), for every width. -/
theorem beNat_be (n v : Nat) : beNat (be n v) = v % 256 ^ n := by
  induction n with
  | zero => simp [be, beNat, Nat.mod_one]
  | succ n ih =>
    rw [be_succ, beNat_cons, be_length, ih]
    have hlt : (v / 256 ^ n) % 256 < 256 := Nat.mod_lt _ (by decide)
    have : (UInt8.ofNat ((v / 256 ^ n) % 256)).toNat = (v / 256 ^ n) % 256 := by
      simp [UInt8.toNat_ofNat, Nat.mod_eq_of_lt hlt]
    rw [this, Nat.pow_succ, Nat.mod_mul]
    rw [Nat.mul_comm, Nat.add_comm]

/-- reading exactly the bytes that are there -/
theorem readFull_exact (bs rest : Bytes) (tail : Tail) :
    readFull bs.length { rem := bs ++ rest, tail } = .ok (bs, { rem := rest, tail }) := by
  unfold readFull
  by_cases h : bs.length = 0
  · have : bs = [] := List.length_eq_zero_iff.mp h
    subst this; simp
  · simp [h]

/-- an `n`-byte unsigned integer is read back, and reading resumes right after it -/
theorem readUInt_be (n v : Nat) (hv : v < 256 ^ n) (rest : Bytes) (tail : Tail) :
    readUInt n { rem := be n v ++ rest, tail } = .ok (v, { rem := rest, tail }) := by
  unfold readUInt
  have := readFull_exact (be n v) rest tail
  rw [be_length] at this
  rw [this]
  simp [beNat_be, Nat.mod_eq_of_lt hv]

/-- **Short strings** (up to 255 bytes, any bytes) are read back exactly. -/
theorem readShortStr_exact (s rest : Bytes) (tail : Tail) (hs : s.length < 256) :
    readShortStr { rem := be 1 s.length ++ s ++ rest, tail } = .ok (s, { rem := rest, tail }) := by
  unfold readShortStr
  have h1 := readUInt_be 1 s.length (by simpa using hs) (s ++ rest) tail
  simp only [List.append_assoc] at h1 ⊢
  rw [h1]
  exact readFull_exact s rest tail

/-- **Long strings** (any bytes, length below 2³¹) are read back exactly. -/
theorem readLongStr_exact (s rest : Bytes) (tail : Tail) (hs : s.length ≤ 2147483647) :
    readLongStr { rem := be 4 s.length ++ s ++ rest, tail } = .ok (s, { rem := rest, tail }) := by
  unfold readLongStr
  have h1 := readUInt_be 4 s.length (by omega) (s ++ rest) tail
  simp only [List.append_assoc] at h1 ⊢
  rw [h1]
  have : ¬ s.length > 2147483647 := by omega
  simp only [this, if_false]
  exact readFull_exact s rest tail

/-- A declared length that the stream cannot satisfy ends with the stream's own end result;
    nothing is fabricated and nothing is allocated beyond what was read. -/
theorem readFull_short (n : Nat) (st : St) (h : st.rem.length < n) :
    ∃ f, readFull n st = .error f ∧ f.st.rem = [] ∧ f.err.isPanic = false := by
  unfold readFull
  have hn : n ≠ 0 := by omega
  have hge : ¬ st.rem.length ≥ n := by omega
  simp only [hn, if_false, hge]
  cases st.tail with
  | err => exact ⟨_, rfl, rfl, rfl⟩
  | eof =>
    simp only
    split <;> exact ⟨_, rfl, rfl, rfl⟩

/-- **Heartbeats are skipped** without touching the dissector's state. -/
theorem heartbeat_skipped (isClient : Bool) (s : DState) (ch : Nat) :
    onFrame isClient s (.heartbeat ch) = (s, []) := rfl

/-- A method the dissector does not report produces no event (it only becomes the "last
    method", so that content frames are attributed to it). -/
theorem unreported_method_no_event (isClient : Bool) (s : DState) (ch c m : Nat) (typ : String)
    (args : List (String × AVal))
    (h1 : (typ == "BasicPublish") = false) (h2 : (typ == "BasicDeliver") = false)
    (h3 : (typ == "ConnectionStart" || typ == "connectionTune") = false)
    (h4 : plainEventTypes.contains typ = false) :
    (onFrame isClient s (.method ch c m typ args)).2 = [] := by
  have h4' : typ ∉ plainEventTypes := by
    intro hc; have := List.contains_iff_mem.mpr hc; rw [h4] at this; cases this
  simp [onFrame, h1, h2, h3, h4']

/-- Non-vacuity: a 255-byte short string followed by more data. -/
example : readShortStr { rem := be 1 3 ++ [1, 2, 3] ++ [9], tail := .eof } = .ok ([1, 2, 3], { rem := [9], tail := .eof }) :=
  readShortStr_exact [1, 2, 3] [9] .eof (by decide)

end KsVerif.Proofs.C05
