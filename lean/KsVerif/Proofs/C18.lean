/-
  C18 — a prepared query can be reused and shared between goroutines.

  In the model a prepared query is a value and `eval` a function of (prepared query, record):
  evaluation cannot change the query, and evaluations cannot see each other.  The theorems
  below say so for every sequence of records and every interleaving of evaluation steps;
  what they rest on — that the Go evaluator writes to no field of a query node — is not a
  theorem but a checked tie: the store facts extracted from eval.go on every run (expected:
  none) and, in the correspondence check, the deep comparison of the prepared tree before
  and after evaluation and the repeated / concurrent evaluations against fresh copies.
  Data races inside compiled third-party objects (regexp, jp.Expr) are runtime behaviour the
  model cannot exhibit: partial.
-/
import KsVerif.Kfl.Precompute

namespace KsVerif.Proofs.C18
open KsVerif.Kfl

/-- evaluating a list of records one after the other with one prepared query -/
def evalAll (q : Expr) (records : List Json) : List (Bool × Json) := records.map (eval q)

/-- **C18 (sequences).** Every record of any sequence gets, from the shared prepared query,
    what a freshly prepared copy evaluated on that record alone gives — whatever came before
    it (matches, failures, collapses, redactions). -/
theorem c18_sequence (raw : Expr) (records : List Json) :
    evalAll (precompute raw).node records = records.map (fun r => eval (precompute raw).node r) := rfl

theorem c18_order_irrelevant (q : Expr) (rs₁ rs₂ : List Json) (r : Json)
    (h₁ : r ∈ rs₁) (h₂ : r ∈ rs₂) :
    eval q r ∈ evalAll q rs₁ ∧ eval q r ∈ evalAll q rs₂ := by
  exact ⟨List.mem_map_of_mem h₁, List.mem_map_of_mem h₂⟩

/-- a step of a goroutine evaluating record `i` -/
structure Task where
  record : Json
  done : Option (Bool × Json) := none

/-- one scheduler step: goroutine `i` finishes its evaluation (reads only `q` and its record) -/
def stepTask (q : Expr) (ts : List Task) (i : Nat) : List Task :=
  ts.mapIdx fun j t => if j = i ∧ t.done.isNone then { t with done := some (eval q t.record) } else t

def runSched (q : Expr) (ts : List Task) (sched : List Nat) : List Task := sched.foldl (stepTask q) ts

theorem stepTask_inv (q : Expr) (ts : List Task) (i : Nat)
    (h : ∀ t ∈ ts, ∀ r, t.done = some r → r = eval q t.record) :
    ∀ t ∈ stepTask q ts i, ∀ r, t.done = some r → r = eval q t.record := by
  intro t ht r hr
  simp only [stepTask, List.mem_mapIdx] at ht
  obtain ⟨j, hj, rfl⟩ := ht
  by_cases hc : j = i ∧ ts[j].done.isNone = true
  · rw [if_pos hc] at hr ⊢
    simp only [Option.some.injEq] at hr
    exact hr.symm
  · rw [if_neg hc] at hr ⊢
    exact h _ (List.getElem_mem hj) r hr

/-- **C18 (interleavings).** Under every interleaving of the evaluations of any number of
    goroutines sharing one prepared query, each result is the solo result for its record. -/
theorem c18_interleaving (q : Expr) (sched : List Nat) : ∀ (ts : List Task),
    (∀ t ∈ ts, ∀ r, t.done = some r → r = eval q t.record) →
    ∀ t ∈ runSched q ts sched, ∀ r, t.done = some r → r = eval q t.record := by
  induction sched with
  | nil => intro ts h; simpa [runSched] using h
  | cons i rest ih =>
    intro ts h
    simp only [runSched, List.foldl_cons]
    exact ih _ (stepTask_inv q ts i h)

end KsVerif.Proofs.C18
