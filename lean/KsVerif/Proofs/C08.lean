/-
  C08 — results do not depend on how the stream is split into reads (Redis part).

  The Redis reader keeps its own refill buffer.  Two facts make the dissection a function of
  the bytes alone:
  * `nextWin_flat`: taking the next byte through the buffer (`ensureFill`, which refills with
    at most `B` bytes of the next read when the buffer is exhausted) returns the head of the
    remaining bytes, for every buffer size `B ≥ 1` and every segmentation into non-empty reads;
  * `readLineBytesWin_eq`: `readLineBytes`, the only routine that inspects the buffer window
    itself, returns the same line and the same remainder whatever part of the remaining bytes
    is currently in the window (fast path = slow path).
-/
import KsVerif.Redis.Model

namespace KsVerif.Proofs.C08
open KsVerif.Redis

/-! ### the buffer window of readLineBytes -/

theorem scanWin_sub : ∀ (v : Nat) (s : Bytes) (x : Bytes × Bytes),
    scanWin v s = some x → scanLine s = some x := by
  intro v s
  induction s using scanLine.induct generalizing v with
  | case1 => intro x h; cases v <;> simp [scanWin] at h
  | case2 b => intro x h; cases v <;> simp [scanWin] at h
  | case3 rest =>
    intro x h
    match v with
    | 0 => simp [scanWin] at h
    | 1 => simp [scanWin] at h
    | v + 2 => simp [scanWin] at h; simp [scanLine, h]
  | case4 c rest hc ih =>
    intro x h
    match v with
    | 0 => simp [scanWin] at h
    | 1 => simp [scanWin] at h
    | v + 2 =>
      simp only [scanWin, hc, if_true, if_false] at h
      simp only [scanLine, hc, if_true, if_false]
      cases hw : scanWin v rest with
      | none => simp [hw] at h
      | some y => rw [hw] at h; rw [ih v y hw]; exact h
  | case5 b c rest hb ih =>
    intro x h
    match v with
    | 0 => simp [scanWin] at h
    | 1 => simp [scanWin] at h
    | v + 2 =>
      simp only [scanWin, hb, if_false] at h
      simp only [scanLine, hb, if_false]
      cases hw : scanWin (v + 1) (c :: rest) with
      | none => simp [hw] at h
      | some y => rw [hw] at h; rw [ih (v + 1) y hw]; exact h

/-- **C08 (Redis, line reader).** Whatever part of the remaining bytes is in the buffer
    (`vis`), and however many the next refill brings (`refill`), `readLineBytes` returns what
    the plain scan of the remaining bytes returns. -/
theorem readLineBytesWin_eq (vis refill : Nat) (st : St) :
    readLineBytesWin vis refill st = readLineBytes st := by
  unfold readLineBytesWin
  by_cases hr : st.rem = []
  · simp [hr, readLineBytes, scanLine]
  · simp only [hr, if_false]
    cases hw : scanWin (if vis = 0 then refill else vis) st.rem with
    | none => rfl
    | some x =>
      have := scanWin_sub _ _ _ hw
      simp [readLineBytes, this]

/-! ### the refill buffer under any segmentation -/

/-- The reader's buffer and the reads still to come. -/
structure Win where
  cur : Bytes           -- Buf[count:limit]
  chunks : List Bytes   -- what successive Read calls will deliver
  deriving Repr

def Win.flat (w : Win) : Bytes := w.cur ++ w.chunks.flatten

/-- ensureFill with a buffer of `B` bytes: one Read, which delivers at most `B` bytes of the
    next segment and leaves the rest of that segment for the following Read. -/
def fill (B : Nat) (w : Win) : Option Win :=
  match w.cur with
  | _ :: _ => some w
  | [] =>
    match w.chunks with
    | [] => none
    | c :: cs => some { cur := c.take B, chunks := if c.drop B = [] then cs else c.drop B :: cs }

/-- readByte through the buffer. -/
def nextWin (B : Nat) (w : Win) : Option (UInt8 × Win) :=
  match fill B w with
  | none => none
  | some w' =>
    match w'.cur with
    | [] => none
    | b :: r => some (b, { w' with cur := r })

theorem fill_flat {B : Nat} {w w' : Win} (h : fill B w = some w') : w'.flat = w.flat := by
  unfold fill at h
  cases hc : w.cur with
  | cons b r => simp [hc] at h; rw [← h]
  | nil =>
    simp only [hc] at h
    cases hk : w.chunks with
    | nil => simp [hk] at h
    | cons c cs =>
      simp only [hk, Option.some.injEq] at h
      subst h
      simp only [Win.flat, hc, hk, List.nil_append, List.flatten_cons]
      by_cases hd : c.drop B = []
      · simp only [hd, if_true]
        have : c.take B = c := by
          have := List.take_append_drop B c
          rw [hd, List.append_nil] at this; exact this
        rw [this]
      · simp only [hd, if_false, List.flatten_cons, ← List.append_assoc, List.take_append_drop]

/-- **C08 (Redis, byte reader).** For every buffer size `B ≥ 1` and every segmentation of the
    stream into non-empty reads, reading a byte through the buffer yields the first of the
    remaining bytes and leaves the rest. -/
theorem nextWin_flat (B : Nat) (hB : 0 < B) (w : Win) (hne : ∀ c ∈ w.chunks, c ≠ []) :
    match nextWin B w with
    | none => w.flat = []
    | some (b, w') => w.flat = b :: w'.flat := by
  unfold nextWin
  cases hf : fill B w with
  | none =>
    unfold fill at hf
    cases hc : w.cur with
    | cons b r => simp [hc] at hf
    | nil =>
      cases hk : w.chunks with
      | nil => simp [Win.flat, hc, hk]
      | cons c cs => simp [hc, hk] at hf
  | some w' =>
    have hflat := fill_flat hf
    cases hc' : w'.cur with
    | cons b r =>
      simp only
      rw [← hflat]; simp [Win.flat, hc']
    | nil =>
      -- a refill never leaves the buffer empty: segments are non-empty and B ≥ 1
      exfalso
      unfold fill at hf
      cases hc : w.cur with
      | cons b r => simp [hc] at hf; rw [← hf] at hc'; simp [hc] at hc'
      | nil =>
        cases hk : w.chunks with
        | nil => simp [hc, hk] at hf
        | cons c cs =>
          simp only [hc, hk, Option.some.injEq] at hf
          rw [← hf] at hc'
          simp only at hc'
          have hcne : c ≠ [] := hne c (by simp [hk])
          cases c with
          | nil => exact hcne rfl
          | cons x xs =>
            cases B with
            | zero => omega
            | succ n => simp at hc'

/-- Non-vacuity: the split `"+" | "OK\r\n"` that used to panic. -/
example : readLineBytesWin 0 4 { rem := [79, 75, 13, 10, 43], tail := .eof }
    = .ok ([79, 75], { rem := [43], tail := .eof }) := by rfl

end KsVerif.Proofs.C08
