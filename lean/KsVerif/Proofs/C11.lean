/-
  C11 — every emitted item survives the analyse / summarise / represent stages.

  The later stages read the JSON shape the payload wrappers define.  For Redis the shape is
  modelled (`Stages.redisShape`: the json tags of RedisPacket) together with what
  `representGeneric` and `Summarize` demand of it (five members, all strings; `command` and
  `key` strings when present): `c11_redis_shape_meets_demands` shows every packet the reader
  model can produce meets them, so the unchecked assertions of those functions cannot fail on
  an item the dissector emitted.  For AMQP, HTTP, DNS (and Redis again) the property is
  exercised on the real code: every item any conversation family emits goes through the same
  JSON round trips and stages as in worker and hub, and the representation is checked for
  well-formedness.  Partial: only the Redis stages are carried by a theorem; timing of the
  stages is measured by the cost families (C02).
-/
import KsVerif.Stages.Driver

namespace KsVerif.Proofs.C11
open KsVerif KsVerif.Kfl KsVerif.Stages

/-- **C11 (Redis).** Every packet, whatever its fields hold, serialises to an object in which
    `type`, `command`, `key`, `value` and `keyword` are present and are strings: exactly what
    `representGeneric` asserts (and `Summarize`, which additionally checks for nil). -/
theorem c11_redis_shape_meets_demands (p : Redis.Packet) : demandsHold redisDemands (redisShape p) = true := by
  simp [demandsHold, redisDemands, redisShape, Json.lookup]

/-- the shape has no other members: nothing the later stages do not expect -/
theorem c11_redis_shape_members (p : Redis.Packet) :
    ∃ kvs, redisShape p = .obj kvs ∧ kvs.map (·.1) = redisDemands := ⟨_, rfl, rfl⟩

/-- every packet the reader model hands over, for every input stream, meets the demands -/
theorem c11_redis_all_packets (bytes : Redis.Bytes) (tail : Redis.Tail) :
    ∀ p ∈ (Redis.dissectAll bytes tail).1, demandsHold redisDemands (redisShape p) = true :=
  fun p _ => c11_redis_shape_meets_demands p

end KsVerif.Proofs.C11
