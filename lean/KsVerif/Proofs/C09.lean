/-
  C09 — requests are paired with the responses that answer them, once.
-/
import KsVerif.Match.Model

namespace KsVerif.Proofs.C09
open KsVerif.Match

variable {κ : Type} [DecidableEq κ]

/-- Invariant of the matcher after the messages `seen` (no (key, side) twice) arrived. -/
structure Inv (st : State κ) (seen : List (κ × Side)) : Prop where
  held : ∀ k s, st.map k = some s ↔ ((k, s) ∈ seen ∧ (k, s.other) ∉ seen)
  emitted : ∀ k, k ∈ st.emitted ↔ ((k, Side.req) ∈ seen ∧ (k, Side.resp) ∈ seen)
  nodup : st.emitted.Nodup

theorem inv_init : Inv (State.init : State κ) [] :=
  ⟨by simp [State.init, Map.empty], by simp [State.init], by simp [State.init]⟩

theorem both_sides {seen : List (κ × Side)} {k : κ} (s : Side)
    (h1 : (k, s) ∈ seen) (h2 : (k, s.other) ∈ seen) :
    (k, Side.req) ∈ seen ∧ (k, Side.resp) ∈ seen := by
  cases s <;> simp_all [Side.other]

theorem inv_step {st : State κ} {seen : List (κ × Side)} (hi : Inv st seen) (k : κ) (s : Side)
    (hnew : (k, s) ∉ seen) : Inv (register st k s) (seen ++ [(k, s)]) := by
  unfold register
  cases hm : st.map k with
  | none =>
    -- nothing held under k: the counterpart has not been seen
    have hother : (k, s.other) ∉ seen := by
      intro hc
      have := (hi.held k s.other).mpr ⟨hc, by simpa using hnew⟩
      simp [hm] at this
    refine ⟨?_, ?_, hi.nodup⟩
    · intro k' s'
      simp only [Map.set]
      by_cases hk : k' = k
      · subst hk
        simp only [if_true, Option.some.injEq, List.mem_append, List.mem_singleton, Prod.mk.injEq,
          true_and]
        constructor
        · intro h; subst h
          exact ⟨Or.inr rfl, by intro hc; rcases hc with hc | hc; exact hother hc; exact absurd hc (by simp)⟩
        · rintro ⟨h1, h2⟩
          rcases h1 with h1 | h1
          · -- (k', s') already seen: then either s' = s (contradiction) or s' = s.other (contradiction)
            by_cases hs : s' = s
            · exact hs.symm
            · have := Side.eq_other_of_ne hs; subst this; exact absurd h1 hother
          · exact h1.symm
      · simp only [hk, if_false, List.mem_append, List.mem_singleton, Prod.mk.injEq, false_and,
          or_false]
        exact hi.held k' s'
    · intro k'
      simp only [List.mem_append, List.mem_singleton, Prod.mk.injEq]
      rw [hi.emitted k']
      constructor
      · rintro ⟨a, b⟩; exact ⟨Or.inl a, Or.inl b⟩
      · rintro ⟨a | a, b | b⟩
        · exact ⟨a, b⟩
        · obtain ⟨rfl, rfl⟩ := b
          exact absurd a (by simpa [Side.other] using hother)
        · obtain ⟨rfl, rfl⟩ := a
          exact absurd b (by simpa [Side.other] using hother)
        · obtain ⟨rfl, rfl⟩ := a
          simp at b
  | some held =>
    have hh := (hi.held k held).mp hm
    have hne : held ≠ s := by intro h; subst h; exact hnew hh.1
    have hs : held = s.other := Side.eq_other_of_ne hne
    subst hs
    simp only [hne, if_false]
    have hknot : k ∉ st.emitted := by
      intro hc
      have := (hi.emitted k).mp hc
      cases s <;> simp_all [Side.other]
    refine ⟨?_, ?_, ?_⟩
    · intro k' s'
      simp only [Map.set]
      by_cases hk : k' = k
      · subst hk
        simp only [if_true, List.mem_append, List.mem_singleton, Prod.mk.injEq, true_and]
        constructor
        · intro h; cases h
        · rintro ⟨h1, h2⟩
          exfalso
          by_cases hs' : s' = s
          · subst hs'; exact h2 (Or.inl hh.1)
          · have := Side.eq_other_of_ne hs'; subst this
            exact h2 (Or.inr (by simp))
      · simp only [hk, if_false, List.mem_append, List.mem_singleton, Prod.mk.injEq, false_and,
          or_false]
        exact hi.held k' s'
    · intro k'
      simp only [List.mem_append, List.mem_singleton, Prod.mk.injEq]
      by_cases hk : k' = k
      · subst hk
        simp only [or_true, true_iff, true_and]
        have h1 : (k', s) ∈ seen ++ [(k', s)] := by simp
        have h2 : (k', s.other) ∈ seen ++ [(k', s)] := List.mem_append_left _ hh.1
        have := both_sides s h1 h2
        simpa using this
      · simp only [hk, or_false, false_and]
        exact hi.emitted k'
    · exact List.nodup_append.mpr ⟨hi.nodup, by simp, by
        intro a ha b hb; simp at hb; subst hb; intro h; subst h; exact hknot ha⟩

theorem inv_run (h : List (κ × Side)) : ∀ (st : State κ) (seen : List (κ × Side)),
    Inv st seen → (seen ++ h).Nodup → Inv (run st h) (seen ++ h) := by
  induction h with
  | nil => intro st seen hi _; simpa [run] using hi
  | cons x h ih =>
    intro st seen hi hnd
    obtain ⟨k, s⟩ := x
    have hnew : (k, s) ∉ seen := by
      intro hc
      have := List.nodup_append.mp hnd
      exact this.2.2 _ hc _ (List.mem_cons_self) rfl
    have := ih (register st k s) (seen ++ [(k, s)]) (inv_step hi k s hnew) (by simpa using hnd)
    simpa [run] using this

/-- **C09 (pairing).** For every arrival history `h` in which no message arrives twice — in
    particular every order-preserving merge of the client-side and server-side sequences of
    any number of connections — and whatever its length:
    * a pair is emitted for key `k` iff both the request and the response with key `k` arrived,
    * no pair is emitted twice,
    * what is left in the map is exactly the messages whose counterpart never arrived. -/
theorem c09_pairing (h : List (κ × Side)) (hnd : h.Nodup) :
    let st := run (State.init : State κ) h
    (∀ k, k ∈ st.emitted ↔ ((k, Side.req) ∈ h ∧ (k, Side.resp) ∈ h)) ∧
    st.emitted.Nodup ∧
    (∀ k s, st.map k = some s ↔ ((k, s) ∈ h ∧ (k, s.other) ∉ h)) := by
  have := inv_run h State.init [] inv_init (by simpa using hnd)
  simp only [List.nil_append] at this
  exact ⟨this.emitted, this.nodup, this.held⟩

/-- **C09 (arrival order is irrelevant).** Two histories with the same messages emit the same
    set of pairs and leave the same residue. -/
theorem c09_order_independent (h₁ h₂ : List (κ × Side)) (hnd₁ : h₁.Nodup) (hnd₂ : h₂.Nodup)
    (hperm : ∀ x, x ∈ h₁ ↔ x ∈ h₂) :
    (∀ k, k ∈ (run (State.init : State κ) h₁).emitted ↔ k ∈ (run (State.init : State κ) h₂).emitted) ∧
    (∀ k, (run (State.init : State κ) h₁).map k = (run (State.init : State κ) h₂).map k) := by
  have a := c09_pairing h₁ hnd₁
  have b := c09_pairing h₂ hnd₂
  refine ⟨fun k => ?_, fun k => ?_⟩
  · rw [a.1 k, b.1 k, hperm, hperm]
  · cases h1 : (run State.init h₁).map k with
    | none =>
      cases h2 : (run State.init h₂).map k with
      | none => rfl
      | some s =>
        have := (b.2.2 k s).mp h2
        rw [← hperm, ← hperm] at this
        have := (a.2.2 k s).mpr this
        simp [h1] at this
    | some s =>
      have := (a.2.2 k s).mp h1
      rw [hperm, hperm] at this
      exact ((b.2.2 k s).mpr this).symm

/-- Non-vacuity: response first, then request, on two interleaved exchanges. -/
example : (run (State.init : State Nat) [(1, .resp), (2, .req), (1, .req), (2, .resp)]).emitted = [1, 2] := by
  decide

end KsVerif.Proofs.C09
