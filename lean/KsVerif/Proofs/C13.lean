/-
  C13 — no query text and no record content can crash KFL (the part the model carries).

  * Termination: every function of the model (`precompute`, `evalExpr` and all they call, the
    JSON / JSONPath / base64 / regex routines) is accepted by Lean's termination checker —
    structural recursion or explicit fuel — so evaluation of any prepared query on any record
    terminates in the model.
  * Precompute: the one Go operation of the compile-time pass that can still panic — the nil
    dereference in `evalExpression(call.Parameters[0].Expression, nil)` when the first
    parameter has been replaced by a compiled path — is an explicit `panic` flag in the
    model; `c13_precompute_no_panic` shows no syntax tree reaches it.
  * Helpers: `startsWith`, `endsWith`, `contains`, `datetime` and the time helpers index
    `args[2]` without a length check; `c13_helper_args_present` shows that a prepared query
    never calls one of them without a parameter.
  Parsing (participle), macro expansion (regexp2) and the XML library are outside the model:
  they are exercised by the correspondence check only.
-/
import KsVerif.Kfl.Precompute

namespace KsVerif.Proofs.C13
open KsVerif.Kfl

/-! ### syntax trees as the parser builds them: every parameter is an expression, and a
    parameter list is never empty -/
mutual
  def rawExpr : Expr → Bool
    | .empty => true
    | .mk l => rawLogical l
  def rawLogical : Logical → Bool
    | .one e => rawEquality e
    | .bin e _ n => rawEquality e && rawLogical n
  def rawEquality : Equality → Bool
    | .one c => rawComparison c
    | .bin c _ n => rawComparison c && rawEquality n
  def rawComparison : Comparison → Bool
    | .one u => rawUnary u
    | .bin u _ n => rawUnary u && rawComparison n
  def rawUnary : Unary → Bool
    | .op _ u => rawUnary u
    | .pri p => rawPrimary p
  def rawPrimary : Primary → Bool
    | .sub e => rawExpr e
    | .call ident params sel _ hl => ident != "" && hl.isNone && rawParams params && rawSel sel
    | _ => true
  def rawParams : Params → Bool
    | .none => true
    | .some .nil => false
    | .some (.cons p rest) => rawParam p && rawParamList rest
  def rawParamList : ParamList → Bool
    | .nil => true
    | .cons p rest => rawParam p && rawParamList rest
  def rawParam : Param → Bool
    | .expr e => rawExpr e
    | _ => false
  def rawSel : Sel → Bool
    | .none => true
    | .mk _ _ _ _ e => rawExpr e
end

/-- the enclosing `.json()` / `.xml()` path handed down by the compile-time pass -/
def JhpOk (s : String) : Prop := s = "" ∨ lastSegment s = "json" ∨ lastSegment s = "xml"

theorem json_not_compileTime : compileTimeHelpers.contains "json" = false := by decide
theorem xml_not_compileTime : compileTimeHelpers.contains "xml" = false := by decide

theorem not_compileTime_of_jhp {jhp : String} (h : JhpOk jhp) (hne : jhp ≠ "") :
    compileTimeHelpers.contains (lastSegment jhp) = false := by
  rcases h with h | h | h
  · exact absurd h hne
  · rw [h]; exact json_not_compileTime
  · rw [h]; exact xml_not_compileTime

theorem firstParam_raw {ps : Params} (h : rawParams ps = true) :
    ∀ p, firstParam ps = some p → ∃ e, p = .expr e := by
  intro p hp
  cases ps with
  | none => simp [firstParam] at hp
  | some l =>
    cases l with
    | nil => simp [rawParams] at h
    | cons q rest =>
      simp only [firstParam, Option.some.injEq] at hp
      subst hp
      cases q with
      | expr e => exact ⟨e, rfl⟩
      | path _ => simp [rawParams, rawParam] at h
      | time => simp [rawParams, rawParam] at h

theorem selPathParams_plain (ident : String) (index : Option Nat) (key : Option String) :
    rawParams (selPathParams ident false index key).2.1 = true := by
  unfold selPathParams
  cases index <;> cases key <;> rfl

theorem firstParam_raw' {ps : Params} (h : rawParams ps = true) :
    firstParam ps = none ∨ ∃ e, firstParam ps = some (.expr e) := by
  cases hf : firstParam ps with
  | none => exact Or.inl rfl
  | some p =>
    obtain ⟨e, he⟩ := firstParam_raw h p hf
    exact Or.inr ⟨e, by rw [he]⟩

/-- the tail of computeCallExpression never dereferences a missing parameter expression -/
theorem finishCall_no_panic (ident : String) (params : Params) (sel : Sel) (path pre jhp : String)
    (h0 : Option String) (hj : JhpOk jhp) (hp : jhp = "" → rawParams params = true) :
    (finishCall ident params sel path pre jhp h0).panic = false := by
  unfold finishCall
  by_cases hne : jhp = ""
  · -- no enclosing json(): the parameters are the parser's
    subst hne
    have hraw := hp rfl
    simp only [bne_self_eq_false, Bool.false_eq_true, if_false]
    rcases firstParam_raw' hraw with hf | ⟨e, hf⟩
    · simp only [hf]
      repeat' split
      all_goals first
        | rfl
        | simp_all
    · simp only [hf]
      repeat' split
      all_goals first
        | rfl
        | simp_all
  · -- inside json()/xml(): the path becomes `jhp`, whose last segment is not compile-time
    have hct := not_compileTime_of_jhp hj hne
    have hb : (jhp != "") = true := by simpa using hne
    simp only [hb, if_true]
    repeat' split
    all_goals first
      | rfl
      | simp_all

mutual
  theorem np_expr : ∀ (e : Expr) (pre jhp : String), rawExpr e = true → JhpOk jhp →
      (computeExpr e pre jhp).panic = false
    | .empty, _, _, _, _ => rfl
    | .mk l, pre, jhp, h, hj => by
      simp only [computeExpr]; exact np_logical l pre jhp (by simpa [rawExpr] using h) hj
  theorem np_logical : ∀ (l : Logical) (pre jhp : String), rawLogical l = true → JhpOk jhp →
      (computeLogical l pre jhp).panic = false
    | .one e, pre, jhp, h, hj => by
      simp only [computeLogical]; exact np_equality e pre jhp (by simpa [rawLogical] using h) hj
    | .bin e op n, pre, jhp, h, hj => by
      have h' : rawEquality e = true ∧ rawLogical n = true := by simpa [rawLogical] using h
      simp only [computeLogical, np_equality e pre jhp h'.1 hj, np_logical n pre jhp h'.2 hj, Bool.or_self]
  theorem np_equality : ∀ (q : Equality) (pre jhp : String), rawEquality q = true → JhpOk jhp →
      (computeEquality q pre jhp).panic = false
    | .one c, pre, jhp, h, hj => by
      simp only [computeEquality]; exact np_comparison c pre jhp (by simpa [rawEquality] using h) hj
    | .bin c op n, pre, jhp, h, hj => by
      have h' : rawComparison c = true ∧ rawEquality n = true := by simpa [rawEquality] using h
      simp only [computeEquality, np_comparison c pre jhp h'.1 hj, np_equality n pre jhp h'.2 hj, Bool.or_self]
  theorem np_comparison : ∀ (c : Comparison) (pre jhp : String), rawComparison c = true → JhpOk jhp →
      (computeComparison c pre jhp).panic = false
    | .one u, pre, jhp, h, hj => by
      simp only [computeComparison]; exact np_unary u pre jhp (by simpa [rawComparison] using h) hj
    | .bin u op n, pre, jhp, h, hj => by
      have h' : rawUnary u = true ∧ rawComparison n = true := by simpa [rawComparison] using h
      simp only [computeComparison, np_unary u pre jhp h'.1 hj, np_comparison n pre jhp h'.2 hj, Bool.or_self]
  theorem np_unary : ∀ (u : Unary) (pre jhp : String), rawUnary u = true → JhpOk jhp →
      (computeUnary u pre jhp).panic = false
    | .op o u, pre, jhp, h, hj => by
      simp only [computeUnary]; exact np_unary u pre jhp (by simpa [rawUnary] using h) hj
    | .pri p, pre, jhp, h, hj => by
      simp only [computeUnary]; exact np_primary p pre jhp (by simpa [rawUnary] using h) hj
  theorem np_primary : ∀ (p : Primary) (pre jhp : String), rawPrimary p = true → JhpOk jhp →
      (computePrimary p pre jhp).panic = false
    | .sub e, pre, jhp, h, hj => by
      simp only [computePrimary]; exact np_expr e pre jhp (by simpa [rawPrimary] using h) hj
    | .regex _, _, _, _, _ => rfl
    | .bool _, _, _, _, _ => rfl
    | .num _, _, _, _, _ => rfl
    | .str _, _, _, _, _ => rfl
    | .nil, _, _, _, _ => rfl
    | .call ident params sel jp hl, pre, jhp, h, hj => by
      have h' : ident ≠ "" ∧ rawParams params = true ∧ rawSel sel = true := by
        have := h; simp only [rawPrimary, Bool.and_eq_true, bne_iff_ne, ne_eq] at this
        exact ⟨this.1.1.1, this.1.2, this.2⟩
      simp only [computePrimary]
      unfold computeCall
      cases params with
      | some ps => exact finishCall_no_panic _ _ _ _ _ _ _ hj (fun _ => h'.2.1)
      | none =>
        cases sel with
        | none => exact finishCall_no_panic _ _ _ _ _ _ _ hj (fun _ => rfl)
        | mk index key rd hasExpr e =>
          have he : rawExpr e = true := by simpa [rawSel] using h'.2.2
          simp only
          -- the path handed down: the identifier itself when it ends in json / xml
          have hj' : JhpOk (if (lastSegment ident == "json" || lastSegment ident == "xml") = true then ident else jhp) := by
            split
            · rename_i hc
              simp only [Bool.or_eq_true, beq_iff_eq] at hc
              rcases hc with hc | hc
              · exact Or.inr (Or.inl hc)
              · exact Or.inr (Or.inr hc)
            · exact hj
          cases hasExpr with
          | true =>
            simp only [if_true]
            exact np_expr e _ _ he hj'
          | false =>
            simp only [Bool.false_eq_true, if_false]
            apply finishCall_no_panic _ _ _ _ _ _ _ hj'
            intro hempty
            -- no enclosing document path: the identifier does not end in json / xml, so the
            -- parameters were left as the parser built them (none)
            split at hempty
            · rename_i hc
              -- the identifier of a call is never empty
              exact absurd hempty h'.1
            · rename_i hc
              simp only [Bool.or_eq_true, beq_iff_eq, not_or] at hc
              have hf : (lastSegment ident == "json" || lastSegment ident == "xml") = false := by
                simp [hc.1, hc.2]
              simp only [hf]
              exact selPathParams_plain ident index key
end

/-- **C13 (compile-time pass).** Whatever syntax tree the parser produces — any helper, any
    number and kind of arguments, any nesting of json()/xml() selectors — Precompute never
    dereferences a missing parameter expression. -/
theorem c13_precompute_no_panic (e : Expr) (h : rawExpr e = true) : (precompute e).panic = false :=
  np_expr e "" "" h (Or.inl rfl)

/-! ### helpers are never called without the parameter they index -/

def paramsNonEmpty : Params → Bool
  | .none => false
  | .some .nil => false
  | .some (.cons _ _) => true

/-- a call node is safe when its helper, unless it is `json` / `xml` (which check the number
    of their arguments), comes with at least one parameter -/
def callOk (params : Params) (helper : Option String) : Bool :=
  match helper with
  | none => true
  | some h => h == "json" || h == "xml" || paramsNonEmpty params

mutual
  def okExpr : Expr → Bool
    | .empty => true
    | .mk l => okLogical l
  def okLogical : Logical → Bool
    | .one e => okEquality e
    | .bin e _ n => okEquality e && okLogical n
  def okEquality : Equality → Bool
    | .one c => okComparison c
    | .bin c _ n => okComparison c && okEquality n
  def okComparison : Comparison → Bool
    | .one u => okUnary u
    | .bin u _ n => okUnary u && okComparison n
  def okUnary : Unary → Bool
    | .op _ u => okUnary u
    | .pri p => okPrimary p
  def okPrimary : Primary → Bool
    | .sub e => okExpr e
    | .call _ params sel _ helper => callOk params helper && okSel sel
    | _ => true
  def okSel : Sel → Bool
    | .none => true
    | .mk _ _ _ _ e => okExpr e
end

-- a tree as the parser built it has no helper field set: nothing to call
mutual
  theorem okr_expr : ∀ (e : Expr), rawExpr e = true → okExpr e = true
    | .empty, _ => rfl
    | .mk l, h => by simp only [okExpr]; exact okr_logical l (by simpa [rawExpr] using h)
  theorem okr_logical : ∀ (l : Logical), rawLogical l = true → okLogical l = true
    | .one e, h => by simp only [okLogical]; exact okr_equality e (by simpa [rawLogical] using h)
    | .bin e _ n, h => by
      have h' : rawEquality e = true ∧ rawLogical n = true := by simpa [rawLogical] using h
      simp only [okLogical, okr_equality e h'.1, okr_logical n h'.2, Bool.and_self]
  theorem okr_equality : ∀ (q : Equality), rawEquality q = true → okEquality q = true
    | .one c, h => by simp only [okEquality]; exact okr_comparison c (by simpa [rawEquality] using h)
    | .bin c _ n, h => by
      have h' : rawComparison c = true ∧ rawEquality n = true := by simpa [rawEquality] using h
      simp only [okEquality, okr_comparison c h'.1, okr_equality n h'.2, Bool.and_self]
  theorem okr_comparison : ∀ (c : Comparison), rawComparison c = true → okComparison c = true
    | .one u, h => by simp only [okComparison]; exact okr_unary u (by simpa [rawComparison] using h)
    | .bin u _ n, h => by
      have h' : rawUnary u = true ∧ rawComparison n = true := by simpa [rawComparison] using h
      simp only [okComparison, okr_unary u h'.1, okr_comparison n h'.2, Bool.and_self]
  theorem okr_unary : ∀ (u : Unary), rawUnary u = true → okUnary u = true
    | .op _ u, h => by simp only [okUnary]; exact okr_unary u (by simpa [rawUnary] using h)
    | .pri p, h => by simp only [okUnary]; exact okr_primary p (by simpa [rawUnary] using h)
  theorem okr_primary : ∀ (p : Primary), rawPrimary p = true → okPrimary p = true
    | .sub e, h => by simp only [okPrimary]; exact okr_expr e (by simpa [rawPrimary] using h)
    | .regex _, _ => rfl
    | .bool _, _ => rfl
    | .num _, _ => rfl
    | .str _, _ => rfl
    | .nil, _ => rfl
    | .call ident params sel jp hl, h => by
      have this := h
      simp only [rawPrimary, Bool.and_eq_true] at this
      have hn : hl = none := by simpa using this.1.1.2
      subst hn
      simp only [okPrimary, callOk, Bool.true_and]
      exact okr_sel sel this.2
  theorem okr_sel : ∀ (s : Sel), rawSel s = true → okSel s = true
    | .none, _ => rfl
    | .mk _ _ _ _ e, h => by simp only [okSel]; exact okr_expr e (by simpa [rawSel] using h)
end

def H0ok (h0 : Option String) : Prop := h0 = none ∨ h0 = some "json" ∨ h0 = some "xml"

theorem callOk_of_h0 {params : Params} {h0 : Option String} (h : H0ok h0) : callOk params h0 = true := by
  rcases h with h | h | h <;> subst h <;> simp [callOk]

theorem finishCall_ok (ident : String) (params : Params) (sel : Sel) (path pre jhp : String)
    (h0 : Option String) (hh : H0ok h0) (hp : params = .none ∨ paramsNonEmpty params = true)
    (hs : okSel sel = true) :
    okPrimary (finishCall ident params sel path pre jhp h0).node = true := by
  unfold finishCall
  simp only
  have c0 := callOk_of_h0 (params := params) hh
  have cn := callOk_of_h0 (params := Params.none) hh
  repeat' split
  all_goals first
    | (simp only [okPrimary, hs, Bool.and_true]; first
        | exact c0
        | exact cn
        | exact callOk_of_h0 hh
        | (simp [callOk, paramsNonEmpty]; done)
        | (rcases hp with hp | hp <;> simp_all [callOk, paramsNonEmpty]))
    | simp_all [okPrimary, callOk, paramsNonEmpty]

theorem selPathParams_some (ident : String) (b : Bool) (index : Option Nat) (key : Option String) :
    (selPathParams ident b index key).2.1 = .none ∨ paramsNonEmpty (selPathParams ident b index key).2.1 = true := by
  unfold selPathParams
  simp only
  split
  · exact Or.inl rfl
  · split
    · split
      · exact Or.inr rfl
      · exact Or.inl rfl
      · exact Or.inl rfl
    · exact Or.inl rfl

theorem rawParams_nonEmpty {ps : Params} (h : rawParams ps = true) : ps = .none ∨ paramsNonEmpty ps = true := by
  cases ps with
  | none => exact Or.inl rfl
  | some l => cases l with
    | nil => simp [rawParams] at h
    | cons _ _ => exact Or.inr rfl

mutual
  theorem ok_expr : ∀ (e : Expr) (pre jhp : String), rawExpr e = true → okExpr (computeExpr e pre jhp).node = true
    | .empty, _, _, _ => rfl
    | .mk l, pre, jhp, h => by
      simp only [computeExpr, okExpr]; exact ok_logical l pre jhp (by simpa [rawExpr] using h)
  theorem ok_logical : ∀ (l : Logical) (pre jhp : String), rawLogical l = true → okLogical (computeLogical l pre jhp).node = true
    | .one e, pre, jhp, h => by
      simp only [computeLogical, okLogical]; exact ok_equality e pre jhp (by simpa [rawLogical] using h)
    | .bin e op n, pre, jhp, h => by
      have h' : rawEquality e = true ∧ rawLogical n = true := by simpa [rawLogical] using h
      simp only [computeLogical, okLogical, ok_equality e pre jhp h'.1, ok_logical n pre jhp h'.2, Bool.and_self]
  theorem ok_equality : ∀ (q : Equality) (pre jhp : String), rawEquality q = true → okEquality (computeEquality q pre jhp).node = true
    | .one c, pre, jhp, h => by
      simp only [computeEquality, okEquality]; exact ok_comparison c pre jhp (by simpa [rawEquality] using h)
    | .bin c op n, pre, jhp, h => by
      have h' : rawComparison c = true ∧ rawEquality n = true := by simpa [rawEquality] using h
      simp only [computeEquality, okEquality, ok_comparison c pre jhp h'.1, ok_equality n pre jhp h'.2, Bool.and_self]
  theorem ok_comparison : ∀ (c : Comparison) (pre jhp : String), rawComparison c = true → okComparison (computeComparison c pre jhp).node = true
    | .one u, pre, jhp, h => by
      simp only [computeComparison, okComparison]; exact ok_unary u pre jhp (by simpa [rawComparison] using h)
    | .bin u op n, pre, jhp, h => by
      have h' : rawUnary u = true ∧ rawComparison n = true := by simpa [rawComparison] using h
      simp only [computeComparison, okComparison, ok_unary u pre jhp h'.1, ok_comparison n pre jhp h'.2, Bool.and_self]
  theorem ok_unary : ∀ (u : Unary) (pre jhp : String), rawUnary u = true → okUnary (computeUnary u pre jhp).node = true
    | .op o u, pre, jhp, h => by
      simp only [computeUnary, okUnary]; exact ok_unary u pre jhp (by simpa [rawUnary] using h)
    | .pri p, pre, jhp, h => by
      simp only [computeUnary, okUnary]; exact ok_primary p pre jhp (by simpa [rawUnary] using h)
  theorem ok_primary : ∀ (p : Primary) (pre jhp : String), rawPrimary p = true → okPrimary (computePrimary p pre jhp).node = true
    | .sub e, pre, jhp, h => by
      simp only [computePrimary, okPrimary]; exact ok_expr e pre jhp (by simpa [rawPrimary] using h)
    | .regex _, _, _, _ => rfl
    | .bool _, _, _, _ => rfl
    | .num _, _, _, _ => rfl
    | .str _, _, _, _ => rfl
    | .nil, _, _, _ => rfl
    | .call ident params sel jp hl, pre, jhp, h => by
      have h' : ident ≠ "" ∧ rawParams params = true ∧ rawSel sel = true := by
        have := h; simp only [rawPrimary, Bool.and_eq_true, bne_iff_ne, ne_eq] at this
        exact ⟨this.1.1.1, this.1.2, this.2⟩
      simp only [computePrimary]
      unfold computeCall
      cases params with
      | some ps =>
        cases sel with
        | none => exact finishCall_ok _ _ _ _ _ _ _ (Or.inl rfl) (rawParams_nonEmpty h'.2.1) rfl
        | mk i k r he e =>
          -- a function call keeps its select expression as the parser built it
          exact finishCall_ok _ _ _ _ _ _ _ (Or.inl rfl) (rawParams_nonEmpty h'.2.1) (okr_sel _ h'.2.2)
      | none =>
        cases sel with
        | none => exact finishCall_ok _ _ _ _ _ _ _ (Or.inl rfl) (Or.inl rfl) rfl
        | mk index key rd hasExpr e =>
          have he : rawExpr e = true := by simpa [rawSel] using h'.2.2
          simp only
          have hh0 : H0ok (if (lastSegment ident == "json" || lastSegment ident == "xml") = true
              then some (lastSegment ident) else none) := by
            split
            · rename_i hc
              simp only [Bool.or_eq_true, beq_iff_eq] at hc
              rcases hc with hc | hc
              · exact Or.inr (Or.inl (by rw [hc]))
              · exact Or.inr (Or.inr (by rw [hc]))
            · exact Or.inl rfl
          cases hasExpr with
          | true =>
            simp only [if_true, okPrimary, okSel, ok_expr e _ _ he, Bool.and_true]
            exact callOk_of_h0 hh0
          | false =>
            simp only [Bool.false_eq_true, if_false]
            apply finishCall_ok _ _ _ _ _ _ _ hh0 _ (okr_sel _ h'.2.2)
            exact selPathParams_some _ _ _ _
end

/-- **C13 (helpers).** In a query prepared from any syntax tree of the parser, every helper
    other than `json` / `xml` (which check the number of their arguments themselves) is called
    with at least one parameter: the unguarded `args[2]` of `startsWith`, `endsWith`,
    `contains`, `datetime` and the time helpers is always in range. -/
theorem c13_helper_args_present (e : Expr) (h : rawExpr e = true) : okExpr (precompute e).node = true :=
  ok_expr e "" "" h

end KsVerif.Proofs.C13
