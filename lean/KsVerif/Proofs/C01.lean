/-
  C01 — dissecting any byte stream never panics (Redis part).

  In the model every Go operation of the Redis reader that can panic is an explicit check
  producing `Err.panic`; the theorem shows no input reaches one.
-/
import KsVerif.Redis.Model

namespace KsVerif.Proofs.C01
open KsVerif.Redis

/-- The result, if an error, is not a panic. -/
def NoPanic {α : Type} (r : Except Err α) : Prop := ∀ e, r = .error e → e.isPanic = false

theorem np_ok {α : Type} (a : α) : NoPanic (Except.ok a : Except Err α) := by
  intro e h; cases h

theorem np_endErr (st : St) {α : Type} : NoPanic (Except.error st.endErr : Except Err α) := by
  intro e h; cases h; cases st with | mk rem tail => cases tail <;> rfl

theorem np_next (st : St) : NoPanic (next st) := by
  unfold next; split
  · exact np_endErr st
  · exact np_ok _

theorem np_readLineBytes (st : St) : NoPanic (readLineBytes st) := by
  unfold readLineBytes; split
  · exact np_ok _
  · exact np_endErr st

theorem np_readLine (st : St) : NoPanic (readLine st) := by
  unfold readLine
  split
  · rename_i e h; intro e' h'; cases h'; exact np_readLineBytes st e h
  · split
    · intro e h; cases h; rfl
    · exact np_ok _

theorem np_digits : ∀ (bs : Bytes) (v : Int) (t : Tail), NoPanic (digits bs v t) := by
  intro bs v t
  fun_induction digits bs v t <;>
    first
    | exact np_ok _
    | assumption
    | (intro e h; cases h; rfl)
    | (intro e h; cases h; rename_i t; cases t <;> rfl)

theorem np_readInt (st : St) : NoPanic (readInt st) := by
  unfold readInt
  split
  · exact np_endErr st
  · simp only
    split
    · rename_i e h; intro e' h'; cases h'; exact np_digits _ _ _ e h
    · exact np_ok _

theorem np_bulkBody (l : Int) (st : St) : NoPanic (bulkBody l st) := by
  unfold bulkBody
  simp only
  split
  · exact np_endErr st
  · split
    · rename_i e h; intro e' h'; cases h'; exact np_next _ e h
    · split
      · intro e h; cases h; rfl
      · split
        · rename_i e h; intro e' h'; cases h'; exact np_next _ e h
        · split
          · intro e h; cases h; rfl
          · exact np_ok _

/-- The index expressions `arr[2]`, `arr[1]` of parseTargetHostAndSlot are never reached
    with fewer than three fields. -/
theorem np_errorString (msg : Bytes) : NoPanic (errorString msg) := by
  intro e h
  unfold errorString at h
  simp only at h
  repeat' split at h
  all_goals first
    | (cases h; rfl)
    | (cases h; done)
    | (exfalso
       have h2 : 2 < (splitOnByte 32 msg).length := by omega
       have h1 : 1 < (splitOnByte 32 msg).length := by omega
       rename_i hno
       exact hno _ _ (List.getElem?_eq_getElem h2) (List.getElem?_eq_getElem h1))

theorem np_process_elems : ∀ (fuel : Nat), (∀ st, NoPanic (process fuel st)) ∧
    (∀ n st, NoPanic (elems fuel n st)) := by
  intro fuel
  induction fuel with
  | zero =>
    constructor
    · intro st e h; simp [process] at h; subst h; rfl
    · intro n st e h; simp [elems] at h; subst h; rfl
  | succ fuel ih =>
    constructor
    · intro st e h
      simp only [process] at h
      repeat' split at h
      all_goals first
        | (cases h; rfl)
        | (cases h; done)
        | (cases h; rename_i h'; first
            | exact np_next _ _ h'
            | exact np_readLineBytes _ _ h'
            | exact np_readInt _ _ h'
            | exact np_bulkBody _ _ _ h'
            | exact np_readLine _ _ h'
            | exact np_errorString _ _ h'
            | exact ih.2 _ _ _ h')
    · intro n st e h
      cases n with
      | zero => simp [elems] at h
      | succ n =>
        simp only [elems] at h
        repeat' split at h
        all_goals first
          | (cases h; done)
          | (cases h; rename_i h'; first
              | exact ih.1 _ _ h'
              | exact ih.2 _ _ _ h')

theorem np_shape (v : RVal) (t : RType) : NoPanic (shape v t) := by
  intro e h
  unfold shape at h
  simp only at h
  repeat' split at h
  all_goals first
    | (cases h; rfl)
    | (cases h; done)

theorem np_read (fuel : Nat) (st : St) : NoPanic (Redis.read fuel st) := by
  intro e h
  unfold Redis.read at h
  repeat' split at h
  all_goals first
    | (cases h; done)
    | (cases h; rename_i h'; first
        | exact (np_process_elems _).1 _ _ h'
        | exact np_shape _ _ _ h')

theorem np_dissect : ∀ (fuel : Nat) (st : St), (dissect fuel st).2.isPanic = false := by
  intro fuel
  induction fuel with
  | zero => intro st; rfl
  | succ fuel ih =>
    intro st
    simp only [dissect]
    split
    · rename_i e h; exact np_read _ _ e h
    · exact ih _

/-- **C01 (Redis).** For every byte string, on either half, ended by a clean end of stream or
    by a reader error: the dissection hands back an error result that is not a panic, and the
    packets read completely before the bad point have been handed to the matcher (they are
    the first component; see `c01_redis_prefix`). -/
theorem c01_redis_no_panic (bytes : Bytes) (tail : Tail) :
    (dissectAll bytes tail).2.isPanic = false :=
  np_dissect _ _

/-- Whatever was completely received before the bad point is still reported: if the stream
    starts with something `read` accepts, that packet is the first one reported and the rest
    of the dissection is the dissection of the remaining bytes. -/
theorem c01_redis_prefix (fuel : Nat) (st st' : St) (p : Packet)
    (h : Redis.read (2 * st.rem.length + 4) st = .ok (p, st')) :
    dissect (fuel + 1) st = (p :: (dissect fuel st').1, (dissect fuel st').2) := by
  simp [dissect, h]

example : (dissectAll [45, 77, 79, 86, 69, 68, 32, 13, 10] .eof).2 = .badRedirect := by decide

end KsVerif.Proofs.C01
