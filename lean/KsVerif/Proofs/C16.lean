/-
  C16 — click-to-filter queries and protocol macros are true of their own entries.

  `Summarize` builds its queries as  <path> == "<value of that path in the entry>" (or a
  number).  `c16_eq_query_true` is the general statement behind all of them, over the models
  of Precompute and Eval: whatever the value is, a query comparing a path with the value the
  path holds in the record is true of that record.  The instances below discharge its
  side conditions for the concrete paths of the dissectors by kernel evaluation.
  The lexical side (the value must not hold a quote, a backslash or a control character for
  the query text to parse back to this tree) is a recorded finding and is exercised by the
  correspondence check together with the real parser; macros are checked on every entry of
  every family against every registered macro.  Partial.
-/
import KsVerif.Kfl.QueryParse
import KsVerif.Proofs.C12

namespace KsVerif.Proofs.C16
open KsVerif.Kfl

/-- the tree of `ident == "c"` -/
def eqStrQuery (ident c : String) : Expr :=
  .mk (.one (.bin (.one (.pri (.call ident .none .none none none))) "==" (.one (.one (.pri (.str c))))))

/-- the tree of `ident == n` for a number -/
def eqNumQuery (ident : String) (d : Dec) : Expr :=
  .mk (.one (.bin (.one (.pri (.call ident .none .none none none))) "==" (.one (.one (.pri (.num d))))))

theorem prepared_eq_query (ident : String) (p : Path) (rhs : Primary)
    (hrhs : ∀ pre jhp, (computePrimary rhs pre jhp).node = rhs)
    (hparse : Path.parse ("." ++ ident) = .ok p)
    (hnow : (lastSegment ("." ++ ident) == "now") = false)
    (hct : ((compileTimeHelpers.contains (lastSegment ("." ++ ident)) && lastSegment ("." ++ ident) != "limit")
            || lastSegment ("." ++ ident) == "datetime" || lastSegment ("." ++ ident) == "xml") = false) :
    (precompute (.mk (.one (.bin (.one (.pri (.call ident .none .none none none))) "==" (.one (.one (.pri rhs))))))).node
      = .mk (.one (.bin (.one (.pri (.call ident .none .none (some p) none))) "==" (.one (.one (.pri rhs))))) := by
  simp only [precompute, computeExpr, computeLogical, computeEquality, computeComparison, computeUnary,
    computePrimary, hrhs]
  unfold computeCall
  simp only
  unfold finishCall
  simp [hparse, hnow]

/-- **C16 (string queries).** For every path, every record and every value: if the record
    holds the string `c` at the path, the query `path == "c"` is true of the record. -/
theorem c16_eq_query_true (ident : String) (p : Path) (c : String) (entry : Json)
    (hparse : Path.parse ("." ++ ident) = .ok p)
    (hnow : (lastSegment ("." ++ ident) == "now") = false)
    (hct : ((compileTimeHelpers.contains (lastSegment ("." ++ ident)) && lastSegment ("." ++ ident) != "limit")
            || lastSegment ("." ++ ident) == "datetime" || lastSegment ("." ++ ident) == "xml") = false)
    (hget : Path.getAllOf p entry = [.str c]) :
    (eval (precompute (eqStrQuery ident c)).node entry).1 = true := by
  unfold eqStrQuery
  rw [prepared_eq_query ident p (.str c) (fun _ _ => rfl) hparse hnow hct]
  simp only [eval, evalExpr, evalLogical, evalEquality, evalComparison, evalUnary]
  unfold evalPrimary
  simp [hget, equalityOp, eql, stringOperand, stringOfJson, boolOperand, Val.ofBool]

/-- **C16 (status queries).** If the record holds the integer `n` at the path, the query
    `path == n` is true of the record — for every integer, however large. -/
theorem c16_eq_int_query_true (ident : String) (p : Path) (n : Int) (entry : Json)
    (hparse : Path.parse ("." ++ ident) = .ok p)
    (hnow : (lastSegment ("." ++ ident) == "now") = false)
    (hct : ((compileTimeHelpers.contains (lastSegment ("." ++ ident)) && lastSegment ("." ++ ident) != "limit")
            || lastSegment ("." ++ ident) == "datetime" || lastSegment ("." ++ ident) == "xml") = false)
    (hget : Path.getAllOf p entry = [.int n]) :
    (eval (precompute (eqNumQuery ident ⟨n, 0⟩)).node entry).1 = true := by
  unfold eqNumQuery
  rw [prepared_eq_query ident p (.num ⟨n, 0⟩) (fun _ _ => rfl) hparse hnow hct]
  simp only [eval, evalExpr, evalLogical, evalEquality, evalComparison, evalUnary]
  unfold evalPrimary
  simp only [hget]
  have : eql (.json (.int n)) (.json (.flt ⟨n, 0⟩)) = true := by
    rw [C12.c12_eq_integral (.int n) (.flt ⟨n, 0⟩) n n rfl rfl]; simp
  simp [equalityOp, this, boolOperand, Val.ofBool, evalPrimary]

/-! ### the concrete paths of the dissectors' summaries -/

theorem path_request_command : Path.parse ("." ++ "request.command") = .ok [.child "request", .child "command"] := by decide
theorem path_request_key : Path.parse ("." ++ "request.key") = .ok [.child "request", .child "key"] := by decide
theorem path_request_method : Path.parse ("." ++ "request.method") = .ok [.child "request", .child "method"] := by decide
theorem path_request_path : Path.parse ("." ++ "request.path") = .ok [.child "request", .child "path"] := by decide
theorem path_response_status : Path.parse ("." ++ "response.status") = .ok [.child "response", .child "status"] := by decide
theorem path_request_exchange : Path.parse ("." ++ "request.exchange") = .ok [.child "request", .child "exchange"] := by decide
theorem path_request_queue : Path.parse ("." ++ "request.queue") = .ok [.child "request", .child "queue"] := by decide
theorem path_request_opCode : Path.parse ("." ++ "request.opCode") = .ok [.child "request", .child "opCode"] := by decide

/-- Redis: `request.command == "<command>"` is true of every entry whose request holds that
    command — for every command string. -/
theorem c16_redis_method_query (c : String) (entry : Json)
    (h : Path.getAllOf [.child "request", .child "command"] entry = [.str c]) :
    (eval (precompute (eqStrQuery "request.command" c)).node entry).1 = true :=
  c16_eq_query_true _ _ c entry path_request_command (by decide) (by decide) h

/-- Redis: `request.key == "<key>"`. -/
theorem c16_redis_summary_query (c : String) (entry : Json)
    (h : Path.getAllOf [.child "request", .child "key"] entry = [.str c]) :
    (eval (precompute (eqStrQuery "request.key" c)).node entry).1 = true :=
  c16_eq_query_true _ _ c entry path_request_key (by decide) (by decide) h

/-- HTTP / AMQP: `request.method == "<method>"`. -/
theorem c16_method_query (c : String) (entry : Json)
    (h : Path.getAllOf [.child "request", .child "method"] entry = [.str c]) :
    (eval (precompute (eqStrQuery "request.method" c)).node entry).1 = true :=
  c16_eq_query_true _ _ c entry path_request_method (by decide) (by decide) h

/-- HTTP: `request.path == "<path>"`. -/
theorem c16_http_summary_query (c : String) (entry : Json)
    (h : Path.getAllOf [.child "request", .child "path"] entry = [.str c]) :
    (eval (precompute (eqStrQuery "request.path" c)).node entry).1 = true :=
  c16_eq_query_true _ _ c entry path_request_path (by decide) (by decide) h

/-- HTTP: `response.status == <status>`. -/
theorem c16_http_status_query (n : Int) (entry : Json)
    (h : Path.getAllOf [.child "response", .child "status"] entry = [.int n]) :
    (eval (precompute (eqNumQuery "response.status" ⟨n, 0⟩)).node entry).1 = true :=
  c16_eq_int_query_true _ _ n entry path_response_status (by decide) (by decide) h

/-- DNS (after the fix): `request.opCode == "<opCode>"`. -/
theorem c16_dns_method_query (c : String) (entry : Json)
    (h : Path.getAllOf [.child "request", .child "opCode"] entry = [.str c]) :
    (eval (precompute (eqStrQuery "request.opCode" c)).node entry).1 = true :=
  c16_eq_query_true _ _ c entry path_request_opCode (by decide) (by decide) h

/-- Non-vacuity: a record that satisfies the hypothesis. -/
example : Path.getAllOf [.child "request", .child "command"]
    (.obj [("request", .obj [("command", .str "SET")])]) = [.str "SET"] := by rfl

end KsVerif.Proofs.C16
