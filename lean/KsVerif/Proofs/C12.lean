/-
  C12 — KFL evaluation returns the truth value the language defines.

  Theorems over the evaluator model (which the correspondence check ties to eval.go on every
  generated query × record, together with the reference semantics `Kfl.Spec`):

  * `c12_eq_integral`, `c12_eq_coherent` — numbers that are numerically equal compare equal,
    and `==` agrees with `>=` and `<=` taken together, for every pair of integral numbers
    (integers of the record, integral literals) of any size;
  * `c12_and_short_circuit`, `c12_or_short_circuit` — right-nested short-circuit `and` / `or`;
  * `c12_missing_path_false` — a (sub)expression whose evaluation meets a missing path is false;
  * `c12_limit_neutral` — `limit(n)` is true and leaves the record alone.
  Partial: the equality theorem for non-integral decimals (injectivity of the decimal
  formatter with a fraction part) is checked by the correspondence only.
-/
import KsVerif.Kfl.Eval

namespace KsVerif.Proofs.C12
open KsVerif.Kfl

/-! ### decimal text of integers is injective -/

theorem nat_repr_inj {a b : Nat} (h : a.repr = b.repr) : a = b := by
  have h1 : Nat.toDigits 10 a = Nat.toDigits 10 b := by
    rw [← Nat.toList_repr, ← Nat.toList_repr, h]
  have ha := Nat.ofDigitChars_toDigits (b := 10) (n := a) (by omega) (by omega)
  have hb := Nat.ofDigitChars_toDigits (b := 10) (n := b) (by omega) (by omega)
  rw [h1] at ha
  omega

theorem nat_repr_no_minus (n : Nat) : n.repr.toList.head? ≠ some '-' := by
  rw [Nat.toList_repr]
  intro h
  cases hd : Nat.toDigits 10 n with
  | nil => exact Nat.toDigits_ne_nil hd
  | cons c cs =>
    rw [hd] at h
    simp only [List.head?_cons, Option.some.injEq] at h
    have : c ∈ Nat.toDigits 10 n := by rw [hd]; simp
    have hdig := Nat.isDigit_of_mem_toDigits (by omega) (by omega) this
    subst h
    simp [Char.isDigit] at hdig

theorem int_toString_inj {a b : Int} (h : toString a = toString b) : a = b := by
  cases a with
  | ofNat m =>
    cases b with
    | ofNat n =>
      have : m.repr = n.repr := h
      rw [nat_repr_inj this]
    | negSucc n =>
      exfalso
      have h' : m.repr = "-" ++ n.succ.repr := h
      have := nat_repr_no_minus m
      rw [h', String.toList_append] at this
      exact this (by simp)
  | negSucc m =>
    cases b with
    | ofNat n =>
      exfalso
      have h' : "-" ++ m.succ.repr = n.repr := h
      have := nat_repr_no_minus n
      rw [← h', String.toList_append] at this
      exact this (by simp)
    | negSucc n =>
      have h' : "-" ++ m.succ.repr = "-" ++ n.succ.repr := h
      have := (String.append_right_inj "-").mp h'
      have := nat_repr_inj this
      have : m = n := by omega
      rw [this]

/-- the formatter prints an integral float64 like the integer it is -/
theorem format_integral (n : Int) : Dec.format ⟨n, 0⟩ = toString n := by
  unfold Dec.format
  simp only [if_true]
  cases n with
  | ofNat m =>
    have : ¬ (Int.ofNat m < 0) := by simp
    simp only [this, if_false]
    show "" ++ toString m = toString (Int.ofNat m)
    simp; rfl
  | negSucc m =>
    have : Int.negSucc m < 0 := Int.negSucc_lt_zero m
    simp only [this, if_true]
    rfl

/-- integral numbers as the evaluator meets them: an int64 of the record, or a float64
    (literal, or decimal of the record) with no fraction part -/
def integral : Json → Option Int
  | .int n => some n
  | .flt ⟨n, 0⟩ => some n
  | _ => none

theorem stringOfJson_integral {x : Json} {n : Int} (h : integral x = some n) : stringOfJson x = toString n := by
  cases x with
  | int m => simp [integral] at h; subst h; rfl
  | flt d =>
    obtain ⟨m, e⟩ := d
    cases e with
    | zero => simp [integral] at h; subst h; exact format_integral m
    | succ k => simp [integral] at h
  | _ => simp [integral] at h

theorem floatOfJson_integral {x : Json} {n : Int} (h : integral x = some n) : floatOfJson x = ⟨n, 0⟩ := by
  cases x with
  | int m => simp [integral] at h; subst h; rfl
  | flt d =>
    obtain ⟨m, e⟩ := d
    cases e with
    | zero => simp [integral] at h; subst h; rfl
    | succ k => simp [integral] at h
  | _ => simp [integral] at h

theorem not_arr_of_integral {x : Json} {n : Int} (h : integral x = some n) : ∀ xs, x ≠ .arr xs := by
  intro xs hx; subst hx; simp [integral] at h

/-- **Numbers that are numerically equal compare equal** (and only those): for integral
    numbers of any size, `==` is numeric equality. -/
theorem c12_eq_integral (x y : Json) (n m : Int) (hx : integral x = some n) (hy : integral y = some m) :
    eql (.json x) (.json y) = decide (n = m) := by
  have sx := stringOfJson_integral hx
  have sy := stringOfJson_integral hy
  have e : eql (.json x) (.json y) = (stringOfJson x == stringOfJson y) := by
    unfold eql
    cases x <;> cases y <;> simp_all [integral, stringOperand]
  rw [e, sx, sy]
  by_cases hnm : n = m
  · subst hnm; simp
  · simp only [hnm, decide_false, beq_eq_false_iff_ne, ne_eq]
    exact fun hc => hnm (int_toString_inj hc)

theorem ord_integral (rel : Dec → Dec → Bool) (x y : Json) (n m : Int)
    (hx : integral x = some n) (hy : integral y = some m) :
    ordOp rel (.json x) (.json y) = rel ⟨n, 0⟩ ⟨m, 0⟩ := by
  have fx := floatOfJson_integral hx
  have fy := floatOfJson_integral hy
  unfold ordOp
  cases x <;> cases y <;> simp_all [integral, float64Operand, nanVal, nanJson]

/-- **`==` agrees with `>=` and `<=` taken together**, for integral numbers of any size. -/
theorem c12_eq_coherent (x y : Json) (n m : Int) (hx : integral x = some n) (hy : integral y = some m) :
    eql (.json x) (.json y) = (geq (.json x) (.json y) && leq (.json x) (.json y)) := by
  rw [c12_eq_integral x y n m hx hy]
  unfold geq leq
  rw [ord_integral _ x y n m hx hy, ord_integral _ x y n m hx hy]
  simp only [Dec.le, Int.pow_zero, Int.mul_one]
  by_cases h : n = m
  · subst h; simp
  · simp only [h, decide_false]
    by_cases h1 : m ≤ n
    · have : ¬ n ≤ m := by omega
      simp [h1, this]
    · simp [h1]

/-- `and` short-circuits: when the left operand is falsy the result is false, the record is
    the one the left operand left, and the right operand is never consulted. -/
theorem c12_and_short_circuit (e : Equality) (next₁ next₂ : Logical) (obj : Json)
    (hc : (evalEquality e obj).collapse = false)
    (hf : boolOperand (evalEquality e obj).v = false) :
    evalLogical (.bin e "and" next₁) obj = evalLogical (.bin e "and" next₂) obj ∧
    boolOperand (evalLogical (.bin e "and" next₁) obj).v = false := by
  have key : ∀ next, evalLogical (.bin e "and" next) obj
      = { v := .ofBool false, obj := (evalEquality e obj).obj } := by
    intro next
    unfold evalLogical
    simp only [hc, hf]
    simp
  rw [key next₁, key next₂]
  exact ⟨rfl, rfl⟩

/-- `or` short-circuits on a truthy left operand. -/
theorem c12_or_short_circuit (e : Equality) (next₁ next₂ : Logical) (obj : Json)
    (hc : (evalEquality e obj).collapse = false)
    (ht : boolOperand (evalEquality e obj).v = true) :
    evalLogical (.bin e "or" next₁) obj = evalLogical (.bin e "or" next₂) obj ∧
    boolOperand (evalLogical (.bin e "or" next₁) obj).v = true := by
  have key : ∀ next, evalLogical (.bin e "or" next) obj
      = { v := .ofBool true, obj := (evalEquality e obj).obj } := by
    intro next
    unfold evalLogical
    simp only [hc, ht]
    simp
  rw [key next₁, key next₂]
  exact ⟨rfl, rfl⟩

/-- A parenthesised (sub)expression — or the whole query — whose evaluation meets a missing
    path is false. -/
theorem c12_missing_path_false (l : Logical) (obj : Json) (h : (evalLogical l obj).collapse = true) :
    boolOperand (evalExpr (.mk l) obj).1 = false := by
  simp [evalExpr, h, boolOperand, Val.ofBool]

/-- a plain path that denotes nothing in the record makes its expression collapse -/
theorem c12_missing_path_collapses (ident : String) (p : Path) (obj : Json)
    (h : Path.getAllOf p obj = []) :
    (evalPrimary (.call ident .none .none (some p) none) obj).collapse = true := by
  unfold evalPrimary
  simp [h]

/-- `limit(n)` is true and hands the record back untouched. -/
theorem c12_limit_neutral (obj : Json) (v : Val) (ps : List Val) :
    applyHelper "limit" obj v ps = some (obj, .ofBool true) := by
  unfold applyHelper
  simp

/-- Non-vacuity: the comparison that used to fail. -/
example : eql (.json (.int 1234567)) (.json (.flt ⟨1234567, 0⟩)) = true := by
  rw [c12_eq_integral _ _ 1234567 1234567 rfl rfl]; rfl

/-- **No ordering holds of a NaN**: a string that spells `nan` (any case) on either side of `>`, `<`, `>=`, `<=` makes
    the comparison false against every scalar - whatever relation the operator stands for. -/
theorem c12_nan_unordered (rel : Dec → Dec → Bool) (s : String) (hs : nanJson (.str s) = true) (y : Json)
    (hy : ∀ ys, y ≠ .arr ys) :
    ordOp rel (.json (.str s)) (.json y) = false ∧ ordOp rel (.json y) (.json (.str s)) = false := by
  constructor
  · unfold ordOp
    cases y <;> simp_all [nanVal]
  · unfold ordOp
    cases y <;> simp_all [nanVal]

/-- ... and against every element of a list: no element of the list is ordered with it -/
theorem c12_nan_unordered_list (rel : Dec → Dec → Bool) (s : String) (hs : nanJson (.str s) = true) (ys : List Json) :
    ordOp rel (.json (.str s)) (.json (.arr ys)) = false ∧ ordOp rel (.json (.arr ys)) (.json (.str s)) = false := by
  constructor
  · unfold ordOp
    simp [nanVal, hs]
  · unfold ordOp
    simp [nanVal, hs]

/-- not vacuous: the spellings ParseFloat reads as NaN, and two it does not -/
example : nanJson (.str "NaN") = true ∧ nanJson (.str "nan") = true ∧ nanJson (.str "NAN") = true ∧
    nanJson (.str "+nan") = false ∧ nanJson (.str "nanx") = false := by decide

/-- an infinity orders beyond every number of either sign the generators know -/
example : gtr (.json (.str "Infinity")) (.json (.int 9223372036854775807)) = true ∧
    lss (.json (.str "-inf")) (.json (.int (-9223372036854775808))) = true ∧
    geq (.json (.str "Infinit")) (.json (.int 1)) = false := by decide

/-- **An infinity orders above every number**: for every integral JSON number below 10^400 (every float64 is),
    `"Infinity" > x` holds and `"Infinity" <= x` does not - whatever the size of `x`. -/
theorem c12_inf_above_integral (x : Json) (n : Int) (hx : integral x = some n) (hn : n < (10 : Int) ^ 400) :
    gtr (.json (.str "Infinity")) (.json x) = true ∧ leq (.json (.str "Infinity")) (.json x) = false := by
  have hinf : floatOfJson (.str "Infinity") = ⟨(10 : Int) ^ 400, 0⟩ := by decide
  have hnan : nanJson (.str "Infinity") = false := by decide
  have fx := floatOfJson_integral hx
  constructor
  · unfold gtr ordOp
    cases x <;> simp_all [integral, float64Operand, nanVal, nanJson, Dec.lt]
  · unfold leq ordOp
    cases x <;> simp_all [integral, float64Operand, nanVal, nanJson, Dec.le]
    all_goals omega

end KsVerif.Proofs.C12
