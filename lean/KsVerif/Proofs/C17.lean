/-
  C17 — macro expansion is a deterministic, literal-preserving rewrite.

  Proved here: the facts about one pass that the determinism / idempotence argument rests on
  (`expandOne_quote_parity`, `expandOne_id_of_no_match`) and the facts about the regenerated
  macro table it needs (`c17_table_*`, by kernel evaluation).  The full statements - equality
  with the token-level spec, order independence, idempotence - are theorems in
  `Proofs/C17Spec.lean` (`c17_pass_eq_spec`, `c17_expand_eq_spec`, `c17_order_independent`,
  `c17_idempotent`, and their instances for the regenerated table).
-/
import KsVerif.Kfl.Macro

namespace KsVerif.Proofs.C17
open KsVerif.Kfl.Macro

theorem quoteCount_append (a b : List Char) : quoteCount (a ++ b) = quoteCount a + quoteCount b := by
  simp [quoteCount]

theorem quoteCount_cons (c : Char) (s : List Char) :
    quoteCount (c :: s) = (if c == '"' then 1 else 0) + quoteCount s := by
  simp only [quoteCount, List.filter_cons]
  split <;> simp <;> omega

/-- A name without quotes: skipping its characters skips no quote. -/
theorem quoteCount_take_prefix (name s : List Char) (hn : quoteCount name = 0)
    (hp : isPrefixOf name s = true) : quoteCount s = quoteCount (s.drop name.length) := by
  have : s = name ++ s.drop name.length := by
    have h1 : s.take name.length = name := by simpa [isPrefixOf] using hp
    conv => lhs; rw [← List.take_append_drop name.length s, h1]
  conv => lhs; rw [this]
  rw [quoteCount_append, hn]; simp

/-- **Parity is preserved by a pass.** If the name holds no quote and the definition an even
    number, the text produced by one pass has the same quote parity as the text it came from
    (at every suffix) — so the in-literal / out-of-literal status of everything after an
    expansion is unchanged, which is what makes the passes commute and repeat safely. -/
theorem expandOneAux_quote_parity (name exp : List Char) (hn : quoteCount name = 0)
    (he : quoteCount exp % 2 = 0) :
    ∀ (s : List Char) (prev : Option Char) (skip : Nat),
      skip ≤ s.length → quoteCount (s.take skip) = 0 →
      quoteCount (expandOneAux name exp prev skip s) % 2 = quoteCount s % 2 := by
  intro s
  induction s with
  | nil => intro prev skip _ _; simp [expandOneAux]
  | cons c rest ih =>
    intro prev skip hle hq
    cases skip with
    | succ k =>
      simp only [expandOneAux]
      have hc : (if c == '"' then 1 else 0) = 0 := by
        have := hq; simp only [List.take_succ_cons, quoteCount_cons] at this; omega
      have hk : quoteCount (rest.take k) = 0 := by
        have := hq; simp only [List.take_succ_cons, quoteCount_cons] at this; omega
      rw [ih (some c) k (by simpa using hle) hk, quoteCount_cons, hc]; simp
    | zero =>
      simp only [expandOneAux]
      split
      · rename_i hm
        have hp : isPrefixOf name (c :: rest) = true := by
          have := hm.2; simp only [matchesAt, Bool.and_eq_true] at this; exact this.1.1.1
        have hne : name ≠ [] := hm.1
        have hlen : name.length - 1 ≤ rest.length := by
          have h1 : (c :: rest).take name.length = name := by simpa [isPrefixOf] using hp
          have : name.length ≤ rest.length + 1 := by
            have := congrArg List.length h1
            simp only [List.length_take, List.length_cons] at this; omega
          omega
        have hpos : 0 < name.length := List.length_pos_iff.mpr hne
        have hq' : quoteCount (rest.take (name.length - 1)) = 0 := by
          have h1 : (c :: rest).take name.length = name := by simpa [isPrefixOf] using hp
          have : quoteCount ((c :: rest).take name.length) = 0 := by rw [h1]; exact hn
          obtain ⟨k, hk⟩ : ∃ k, name.length = k + 1 := ⟨name.length - 1, by omega⟩
          rw [hk] at this ⊢
          simp only [List.take_succ_cons, quoteCount_cons] at this
          simp; omega
        rw [quoteCount_append, Nat.add_mod, he, ih (some c) (name.length - 1) hlen hq']
        have hcq : (if c == '"' then 1 else 0) = 0 := by
          have h1 : (c :: rest).take name.length = name := by simpa [isPrefixOf] using hp
          have : quoteCount ((c :: rest).take name.length) = 0 := by rw [h1]; exact hn
          obtain ⟨k, hk⟩ : ∃ k, name.length = k + 1 := ⟨name.length - 1, by omega⟩
          rw [hk] at this
          simp only [List.take_succ_cons, quoteCount_cons] at this; omega
        rw [quoteCount_cons, hcq]; simp
      · rw [quoteCount_cons, quoteCount_cons, Nat.add_mod,
          ih (some c) 0 (by simp) (by simp [quoteCount]), ← Nat.add_mod]

theorem expandOne_quote_parity (name exp q : List Char) (hn : quoteCount name = 0)
    (he : quoteCount exp % 2 = 0) :
    quoteCount (expandOne name exp q) % 2 = quoteCount q % 2 :=
  expandOneAux_quote_parity name exp hn he q none 0 (by simp) (by simp [quoteCount])

/-- A pass over a text in which the name matches nowhere changes nothing. -/
theorem expandOneAux_id_of_no_match (name exp : List Char) :
    ∀ (s : List Char) (prev : Option Char),
      (∀ (pre : List Char) (c : Char) (post : List Char) (p : Option Char),
          s = pre ++ c :: post → p = (if pre = [] then prev else pre.getLast?) →
          matchesAt name p (c :: post) = false) →
      expandOneAux name exp prev 0 s = s := by
  intro s
  induction s with
  | nil => intro prev _; simp [expandOneAux]
  | cons c rest ih =>
    intro prev h
    simp only [expandOneAux]
    have h0 := h [] c rest prev (by simp) (by simp)
    simp only [h0, and_false, if_false, Bool.false_eq_true]
    congr 1
    apply ih
    intro pre d post p hs hp
    apply h (c :: pre) d post p (by simp [hs])
    subst hp
    cases pre with
    | nil => simp
    | cons x xs => simp [List.getLast?_cons_cons]

/-! ### facts about the regenerated macro table (kernel-evaluated on every run) -/

/-- No macro name holds a quote or a non-word character; names are non-empty. -/
theorem c17_table_names_are_words :
    Gen.Macros.table.all (fun m => !m.1.toList.isEmpty && m.1.toList.all isWord) = true := by decide

/-- Every parenthesised definition holds an even number of quotes. -/
theorem c17_table_definitions_balanced :
    Gen.Macros.table.all (fun m => evenQuotes (wrap m.2)) = true := by decide

/-- No definition mentions a macro name outside a string literal: expanding a definition by
    the token-level spec leaves it as it is (so an expansion never creates a new occurrence). -/
theorem c17_table_definitions_closed :
    Gen.Macros.table.all (fun m =>
      specExpandToks Gen.Macros.table (tokenize (wrap m.2)) == wrap m.2) = true := by decide

/-- Names of equal length are distinct, so two equal-length macros never match the same text. -/
theorem c17_table_names_distinct :
    (Gen.Macros.table.map (·.1)).Nodup := by decide

/-- Non-vacuity / regression: the identifier that used to be rewritten is left alone, the
    standalone name is expanded, the literal is preserved. -/
example : expand "request.httpVersion == \"http\" and http"
    = "request.httpVersion == \"http\" and (protocol.abbr == \"HTTP\")" := by decide

end KsVerif.Proofs.C17
