/-
  C03, the server half: every pipelined sequence of well-formed responses is read back as exactly
  those responses, in order; and interim responses (1xx other than 101 Switching Protocols) sent in
  front of a final response are read and passed over, so that the k-th response that counts is the
  k-th final response sent - what `observe` pairs with the k-th request.
-/
import KsVerif.Proofs.C03

namespace KsVerif.Proofs.C03Server
open KsVerif KsVerif.Http KsVerif.Http.Wire KsVerif.Http.Spec KsVerif.Proofs.C03

/-- **A whole server half** (bodies delimited by length or chunks): read back message by message. -/
theorem c03_server_half : ∀ (ms : List Msg), (∀ m ∈ ms, ∀ rest, WfResp m rest) → (∀ m ∈ ms, m.framing ≠ .close) →
    ∀ fuel, ms.length < fuel → parseAll false fuel ((ms.map encMsgCore).flatten) = ms.map parsedOf
  | [], _, _, fuel, hf => by
    cases fuel with
    | zero => omega
    | succ f => simp [parseAll]
  | m :: ms, hw, hnc, fuel, hf => by
    cases fuel with
    | zero => omega
    | succ f =>
      have h1 := c03_response_enc m ((ms.map encMsgCore).flatten) (hw m (by simp) _)
      have hc : m.framing ≠ .close := hnc m (by simp)
      simp only [hc, if_false] at h1
      have ih := c03_server_half ms (fun x hx => hw x (by simp [hx])) (fun x hx => hnc x (by simp [hx])) f
        (by simp only [List.length_cons] at hf; omega)
      have hne : ((encMsgCore m) ++ (ms.map encMsgCore).flatten).isEmpty = false := by
        have := encMsg_ne_nil m
        cases h : encMsgCore m <;> simp_all
      simp only [List.map_cons, List.flatten_cons, parseAll, hne, Bool.false_eq_true, if_false, h1, ih]


/-! ### interim responses -/

/-- the test `observe` applies: 1xx other than 101 -/
def isInterim (m : Message) : Bool := 100 ≤ m.status && m.status < 200 && m.status != 101

def interimStatus (st : Nat) : Prop := 100 ≤ st ∧ st < 200 ∧ st ≠ 101

theorem wf_interim (st : Nat) (h : interimStatus st) (rest : Bytes) : WfResp (interimMsg st) rest := by
  refine ⟨rfl, (by show noByte 13 (bytesOfString "Interim"); unfold noByte; decide), Or.inr rfl, by intro h hh; simp [interimMsg] at hh,
    by intro x hx; simp [interimMsg] at hx, Or.inl ⟨?_, rfl, rfl⟩, ⟨rfl, rfl⟩⟩
  unfold noBodyStatus interimMsg
  obtain ⟨h1, h2, _⟩ := h
  have : st / 100 = 1 := by omega
  simp [this]

/-- a response with its interim responses, as separate messages -/
def expand (m : Msg) : List Msg := m.pre.map interimMsg ++ [m]

theorem encMsg_expand (m : Msg) : encMsg m = ((expand m).map encMsgCore).flatten := by
  unfold encMsg expand
  simp only [List.map_append, List.map_map, List.flatten_append, List.map_cons, List.map_nil, List.flatten_cons,
    List.flatten_nil, List.append_nil]
  rfl

theorem flatten_encMsg (ms : List Msg) : (ms.map encMsg).flatten = ((ms.flatMap expand).map encMsgCore).flatten := by
  induction ms with
  | nil => simp
  | cons m ms ih =>
    simp only [List.map_cons, List.flatten_cons, List.flatMap_cons, List.map_append, List.flatten_append, ih, encMsg_expand]

theorem isInterim_parsed_interim (st : Nat) (h : interimStatus st) : isInterim (parsedOf (interimMsg st)) = true := by
  obtain ⟨h1, h2, h3⟩ := h
  simp [isInterim, parsedOf, interimMsg, h1, h2, h3]

theorem filter_expand (m : Msg) (hp : ∀ st ∈ m.pre, interimStatus st) (hf : ¬ interimStatus m.status) :
    ((expand m).map parsedOf).filter (fun x => !isInterim x) = [parsedOf m] := by
  unfold expand
  rw [List.map_append, List.filter_append]
  have h1 : ((m.pre.map interimMsg).map parsedOf).filter (fun x => !isInterim x) = [] := by
    rw [List.filter_eq_nil_iff]
    intro x hx
    simp only [List.mem_map] at hx
    obtain ⟨y, ⟨st, hst, rfl⟩, rfl⟩ := hx
    simp [isInterim_parsed_interim st (hp st hst)]
  have h2 : isInterim (parsedOf m) = false := by
    unfold isInterim parsedOf
    simp only
    unfold interimStatus at hf
    by_cases a : 100 ≤ m.status <;> by_cases b : m.status < 200 <;> by_cases c : m.status = 101 <;> simp_all
  rw [h1]
  simp [h2]

/-- **Interim responses are transparent.** A server half in which any final response is preceded by
    interim responses (1xx other than 101) reads back, once the interim ones are passed over, as
    exactly the final responses, in order. -/
theorem c03_server_half_interim (ms : List Msg) (hw : ∀ m ∈ ms, ∀ rest, WfResp m rest) (hnc : ∀ m ∈ ms, m.framing ≠ .close)
    (hp : ∀ m ∈ ms, ∀ st ∈ m.pre, interimStatus st) (hf : ∀ m ∈ ms, ¬ interimStatus m.status)
    (fuel : Nat) (hfuel : (ms.flatMap expand).length < fuel) :
    (parseAll false fuel ((ms.map encMsg).flatten)).filter (fun x => !isInterim x) = ms.map parsedOf := by
  rw [flatten_encMsg]
  rw [c03_server_half (ms.flatMap expand) ?_ ?_ fuel hfuel]
  · induction ms with
    | nil => simp
    | cons m ms ih =>
      rw [List.flatMap_cons, List.map_append, List.filter_append,
        filter_expand m (hp m (by simp)) (hf m (by simp)),
        ih (fun x hx => hw x (by simp [hx])) (fun x hx => hnc x (by simp [hx])) (fun x hx => hp x (by simp [hx]))
          (fun x hx => hf x (by simp [hx]))]
      · simp
      · simp only [List.flatMap_cons, List.length_append] at hfuel; omega
  · intro x hx rest
    simp only [List.mem_flatMap] at hx
    obtain ⟨m, hm, hxm⟩ := hx
    unfold expand at hxm
    simp only [List.mem_append, List.mem_map, List.mem_singleton] at hxm
    rcases hxm with ⟨st, hst, rfl⟩ | rfl
    · exact wf_interim st (hp m hm st hst) rest
    · exact hw x hm rest
  · intro x hx
    simp only [List.mem_flatMap] at hx
    obtain ⟨m, hm, hxm⟩ := hx
    unfold expand at hxm
    simp only [List.mem_append, List.mem_map, List.mem_singleton] at hxm
    rcases hxm with ⟨st, hst, rfl⟩ | rfl
    · simp [interimMsg]
    · exact hnc x hm


theorem count_le_bytes : ∀ (ms : List Msg), ms.length ≤ ((ms.map encMsgCore).flatten).length
  | [] => by simp
  | m :: ms => by
    have ih := count_le_bytes ms
    have hne := encMsg_ne_nil m
    have : 1 ≤ (encMsgCore m).length := by
      cases h : encMsgCore m with
      | nil => simp [h] at hne
      | cons _ _ => simp
    simp only [List.map_cons, List.flatten_cons, List.length_append, List.length_cons]
    omega

/-- **What is paired does not depend on interim responses**: the dissection of a conversation whose
    server half carries interim responses is that of the same conversation without them. -/
theorem c03_observe_interim (cb : Bytes) (ms : List Msg) (hw : ∀ m ∈ ms, ∀ rest, WfResp m rest) (hnc : ∀ m ∈ ms, m.framing ≠ .close)
    (hp : ∀ m ∈ ms, ∀ st ∈ m.pre, interimStatus st) (hf : ∀ m ∈ ms, ¬ interimStatus m.status) :
    observe cb ((ms.map encMsg).flatten) = observe cb ((ms.map encMsgCore).flatten) := by
  have hA := c03_server_half_interim ms hw hnc hp hf (((ms.map encMsg).flatten).length + 1) (by
    have := count_le_bytes (ms.flatMap expand)
    rw [← flatten_encMsg] at this
    omega)
  have hB : (parseAll false (((ms.map encMsgCore).flatten).length + 1) ((ms.map encMsgCore).flatten)).filter (fun x => !isInterim x)
      = ms.map parsedOf := by
    rw [c03_server_half ms hw hnc _ (by have := count_le_bytes ms; omega)]
    rw [List.filter_eq_self]
    intro x hx
    simp only [List.mem_map] at hx
    obtain ⟨m, hm, rfl⟩ := hx
    have h2 : isInterim (parsedOf m) = false := by
      have hfm := hf m hm
      unfold isInterim parsedOf
      simp only
      unfold interimStatus at hfm
      by_cases a : 100 ≤ m.status <;> by_cases b : m.status < 200 <;> by_cases c : m.status = 101 <;> simp_all
    simp [h2]
  unfold observe
  have e1 : (parseAll false (((ms.map encMsg).flatten).length + 1) ((ms.map encMsg).flatten)).filter
      (fun m => !(100 ≤ m.status && m.status < 200 && m.status != 101)) = ms.map parsedOf := hA
  have e2 : (parseAll false (((ms.map encMsgCore).flatten).length + 1) ((ms.map encMsgCore).flatten)).filter
      (fun m => !(100 ≤ m.status && m.status < 200 && m.status != 101)) = ms.map parsedOf := hB
  simp only [e1, e2]

/-- not vacuous: 100 and 103 are interim, 101 and 200 are not -/
example : interimStatus 100 ∧ interimStatus 103 ∧ ¬ interimStatus 101 ∧ ¬ interimStatus 200 := by
  unfold interimStatus; omega

end KsVerif.Proofs.C03Server
