/-
  C20 — byte and event accounting neither loses nor double-counts.
  Property theorems only; the model is regenerated from /repo on every run.
-/
import KsVerif.Api.Progress
import KsVerif.Sched.Protocols
import KsVerif.Generated.GenAtomicShapes

namespace KsVerif.Proofs.C20
open KsVerif.Progress

/-- Invariant tying the generated state to the spec's `pending`. -/
def Inv (p : St) (pending : Int) : Prop := p.readBytes - p.lastCurrent = pending

theorem step_refines (p : St) (pending : Int) (op : Op) (h : Inv p pending) :
    (step p op).2 = (specStep pending op).2 ∧ Inv (step p op).1 (specStep pending op).1 := by
  cases op <;>
    simp [step, specStep, Inv, Gen.ReadProgress.feed, Gen.ReadProgress.current,
      Gen.ReadProgress.reset] at * <;> omega

theorem run_refines (ops : List Op) : ∀ (p : St) (pending : Int), Inv p pending →
    run p ops = specRun pending ops := by
  induction ops with
  | nil => intros; rfl
  | cons op ops ih =>
    intro p pending h
    have hs := step_refines p pending op h
    unfold run specRun
    rcases hstep : step p op with ⟨p', r⟩
    rcases hspec : specStep pending op with ⟨q, r'⟩
    rw [hstep, hspec] at hs
    simp only at hs
    obtain ⟨hr, hinv⟩ := hs
    subst hr
    cases r <;> simp [ih p' q hinv]

/-- **C20 (progress counter).** For every sequence of feed / read / reset operations, of any
    length and with any amounts, each reading of the counter is exactly the number of bytes
    fed since the previous reading. -/
theorem c20_progress (ops : List Op) :
    run Gen.ReadProgress.init ops = specRun 0 ops :=
  run_refines ops _ _ (by simp [Inv, Gen.ReadProgress.init])

/-- What is still pending after `ops` in the spec. -/
def specEnd (pending : Int) : List Op → Int
  | [] => pending
  | op :: ops => specEnd (specStep pending op).1 ops

/-- Total fed by `ops`. -/
def fed : List Op → Int
  | [] => 0
  | .feed n :: ops => n + fed ops
  | _ :: ops => fed ops

/-- Consequence: the capture sizes reported for successive messages add up to the bytes
    consumed (no reset in between): readings plus what is still pending = total fed. -/
theorem spec_conservation (ops : List Op) (pending : Int)
    (hnr : ∀ op ∈ ops, op ≠ .reset) :
    (specRun pending ops).sum + specEnd pending ops = pending + fed ops := by
  induction ops generalizing pending with
  | nil => simp [specRun, specEnd, fed]
  | cons op ops ih =>
    have hnr' : ∀ o ∈ ops, o ≠ .reset := fun o ho => hnr o (List.mem_cons_of_mem _ ho)
    cases op with
    | feed n =>
      have := ih (pending + n) hnr'
      simp only [specRun, specStep, specEnd, fed, List.sum_cons] at *; omega
    | current =>
      have := ih 0 hnr'
      simp only [specRun, specStep, specEnd, fed, List.sum_cons] at *; omega
    | reset => exact absurd rfl (hnr _ (List.mem_cons_self))

theorem c20_conservation (ops : List Op) (hnr : ∀ op ∈ ops, op ≠ .reset) :
    (run Gen.ReadProgress.init ops).sum + specEnd 0 ops = fed ops := by
  rw [c20_progress, spec_conservation ops 0 hnr]; simp

/-- Non-vacuity: the sequence on which the shipped code used to fail. -/
example : run Gen.ReadProgress.init
    [.feed 10, .current, .feed 5, .current, .feed 3, .current] = [10, 5, 3] := by
  rw [c20_progress]; rfl

end KsVerif.Proofs.C20

/-! ## Statistics dumps partition the counted events -/

namespace KsVerif.Proofs.C20
open KsVerif.Sched

theorem dump_inv (es : List DEvent) : ∀ s : DState,
    (drun s es).dumps.sum + (drun s es).cell
      = s.dumps.sum + s.cell + (es.filter (· == .inc)).length := by
  induction es with
  | nil => intro s; simp [drun]
  | cons e es ih =>
    intro s
    have := ih (dstep s e)
    simp only [drun, List.foldl_cons] at *
    rw [this]
    cases e <;> simp [dstep, List.filter_cons] <;> omega

/-- **C20 (dumps).** Whatever the interleaving of increments and dumps, and however many of
    each: the values reported by the dumps plus what is left in the counter equal the number
    of increments — every increment shows up in exactly one dump or in the residue. -/
theorem c20_dump_conservation (es : List DEvent) :
    (drun {} es).dumps.sum + (drun {} es).cell = (es.filter (· == .inc)).length := by
  have := dump_inv es {}
  simpa using this

/-- The reset the code performs today is the atomic exchange of the protocol above
    (regenerated shape, checked on every run). -/
theorem c20_reset_shape_atomic : isAtomicReset Gen.Shapes.resetUint64 = true := by decide

example : (drun {} [.inc, .inc, .dump, .inc, .dump, .inc]).dumps = [2, 1] := by decide

/-- every counter update of AppStats in the current tree (regenerated list) is a single atomic
    add: the increments the conservation statements count cannot be lost between a load and a store -/
theorem c20_counter_updates_atomic : Gen.Shapes.statsCounterOps.all Sched.isAtomicCounterOp = true := by decide

end KsVerif.Proofs.C20
