/-
  C02 for the Kafka decoder model: the number of elements decoded for an array, and of headers for
  a record, is bounded by the bytes the message still holds - not by the count the message declares
  (decode.go: decodeArray / decodeCompactArray / the header loop of decodeRecordV0 clamp the count
  to `remain`; the model carries the clamp, the kafka.layout / kafka.conv correspondence ties it to
  the code).
-/
import KsVerif.Proofs.C06

namespace KsVerif.Proofs.C02Kafka
open KsVerif KsVerif.Kafka KsVerif.Proofs.C06

theorem zeros_chainLen (z : Val) : ∀ n, (zeros z n).chainLen = n := by
  intro n
  induction n with
  | zero => simp [zeros, Val.chainLen]
  | succ n ih => simp [zeros, Val.chainLen, ih]

/-- the element loop fills exactly the slots it was given -/
theorem repeatDec_chainLen (f : D → Val × D) (z : Val) : ∀ (n : Nat) (d : D), (repeatDec f z n d).1.chainLen = n := by
  intro n
  induction n with
  | zero => intro d; simp [repeatDec, Val.chainLen]
  | succ n ih =>
    intro d
    simp only [repeatDec]
    split
    · simp only [Val.chainLen]; rw [ih]
    · exact zeros_chainLen z (n + 1)

/-- the header loop of a record runs at most the iterations it was given -/
theorem repeatWhile_chainLen (f : D → Val × D) : ∀ (n : Nat) (d : D), (repeatWhile f n d).1.chainLen ≤ n := by
  intro n
  induction n with
  | zero => intro d; simp [repeatWhile, Val.chainLen]
  | succ n ih =>
    intro d
    simp only [repeatWhile]
    split
    · simp only [Val.chainLen]; have := ih (f d).2; omega
    · simp [Val.chainLen]

/-- **C02 (Kafka, arrays).** Whatever count an array declares, the decoder produces at most as many
    elements as the message has bytes left. -/
theorem c02_kafka_array_len (e : Ty) (d : D) (vs : Val) (h : (decode (.arr e) d).1 = .arr vs) :
    vs.chainLen ≤ d.remain := by
  simp only [decode] at h
  obtain ⟨c, hc, _, hr⟩ := readInt_within 4 d
  split at h
  · cases h
  · simp only [Val.arr.injEq] at h
    subst h
    rw [repeatDec_chainLen]
    have := Nat.min_le_right (readInt 4 d).1.toNat (readInt 4 d).2.remain
    omega

/-- not vacuous: an array declaring 65535 elements in a message of 9 bytes yields 5 -/
example : (decode (.arr (.prim .int8)) { stream := [0, 0, 255, 255, 1, 2, 3, 4, 5], remain := 9 }).1
    = .arr (.cons (.int 1) (.cons (.int 2) (.cons (.int 3) (.cons (.int 4) (.cons (.int 5) .nil))))) := by
  decide

end KsVerif.Proofs.C02Kafka
