/-
  C02 for the Kafka decoder model: the number of elements decoded for an array, and of headers for
  a record, is bounded by the bytes the message still holds - not by the count the message declares
  (decode.go: decodeArray / decodeCompactArray / the header loop of decodeRecordV0 clamp the count
  to `remain`; the model carries the clamp, the kafka.layout / kafka.conv correspondence ties it to
  the code).
-/
import KsVerif.Proofs.C06

namespace KsVerif.Proofs.C02Kafka
open KsVerif KsVerif.Kafka KsVerif.Proofs.C06

theorem zeros_chainLen (z : Val) : ∀ n, (zeros z n).chainLen = n := by
  intro n
  induction n with
  | zero => simp [zeros, Val.chainLen]
  | succ n ih => simp [zeros, Val.chainLen, ih]

/-- the element loop fills exactly the slots it was given -/
theorem repeatDec_chainLen (f : D → Val × D) (z : Val) : ∀ (n : Nat) (d : D), (repeatDec f z n d).1.chainLen = n := by
  intro n
  induction n with
  | zero => intro d; simp [repeatDec, Val.chainLen]
  | succ n ih =>
    intro d
    simp only [repeatDec]
    split
    · simp only [Val.chainLen]; rw [ih]
    · exact zeros_chainLen z (n + 1)

/-- the header loop of a record runs at most the iterations it was given -/
theorem repeatWhile_chainLen (f : D → Val × D) : ∀ (n : Nat) (d : D), (repeatWhile f n d).1.chainLen ≤ n := by
  intro n
  induction n with
  | zero => intro d; simp [repeatWhile, Val.chainLen]
  | succ n ih =>
    intro d
    simp only [repeatWhile]
    split
    · simp only [Val.chainLen]; have := ih (f d).2; omega
    · simp [Val.chainLen]

/-- **C02 (Kafka, arrays).** Whatever count an array declares, the decoder produces at most as many
    elements as the message has bytes left. -/
theorem c02_kafka_array_len (e : Ty) (d : D) (vs : Val) (h : (decode (.arr e) d).1 = .arr vs) :
    vs.chainLen ≤ d.remain := by
  simp only [decode] at h
  obtain ⟨c, hc, _, hr⟩ := readInt_within 4 d
  split at h
  · cases h
  · simp only [Val.arr.injEq] at h
    subst h
    rw [repeatDec_chainLen]
    have := Nat.min_le_right (readInt 4 d).1.toNat (readInt 4 d).2.remain
    omega

/-- not vacuous: an array declaring 65535 elements in a message of 9 bytes yields 5 -/
example : (decode (.arr (.prim .int8)) { stream := [0, 0, 255, 255, 1, 2, 3, 4, 5], remain := 9 }).1
    = .arr (.cons (.int 1) (.cons (.int 2) (.cons (.int 3) (.cons (.int 4) (.cons (.int 5) .nil))))) := by
  decide


/-! ### progress of the two halves: every accepted message takes its size prefix and at least its minimal
    size off the stream, so the number of messages a half yields is bounded by its bytes, whatever the sizes,
    counts and lengths the messages declare -/

/-- skipping what is left of a message leaves the stream shorter by the declared size (as far as it goes) -/
theorem discardAll_length {d0 d : D} (h : Within d0 d) :
    d.discardAll.stream.length = d0.stream.length - min d0.remain d0.stream.length := by
  obtain ⟨c, hc, hs, hr⟩ := h
  unfold D.discardAll
  simp only
  rw [hs, hr]
  simp only [List.length_drop]
  omega

/-- an accepted request takes at least 8 bytes off the client half (or all that is left of it) -/
theorem readRequest_progress (s : Bytes) (q : Req) (rest : Bytes) (h : readRequest s = .ok (q, rest)) :
    rest.length ≤ s.length - 8 := by
  unfold readRequest at h
  dsimp only at h
  obtain ⟨c, hc, hs, hr⟩ := readInt_within 4 { stream := s, remain := 4 }
  generalize (lookupLayout _ _).1 = lay at h
  split at h
  · cases h
  · rename_i hbig
    split at h
    · split at h <;> cases h
    · rename_i hsmall
      split at h
      · cases h
      · split at h
        · split at h
          · cases h
          · injection h with h
            injection h with hq hrest
            rw [← hrest, discardAll_length (request_chain _ _)]
            simp only [hs, List.length_drop]
            omega
        · simp only [Except.ok.injEq, Prod.mk.injEq] at h
          obtain ⟨hq, hrest⟩ := h
          rw [← hrest, discardAll_length (request_chain_hdr _)]
          simp only [hs, List.length_drop]
          omega

theorem register_length (open_ : List Req) (q : Req) : (register open_ q).length ≤ open_.length + 1 := by
  unfold register
  have := List.length_filter_le (fun o => o.corr != q.corr) open_
  simp only [List.length_append, List.length_cons, List.length_nil]
  omega

theorem readRequest_nil : ∃ e, readRequest [] = .error e := ⟨.eof, by rfl⟩

theorem dissectClient_nil (n : Nat) (acc : List Req) : (dissectClient n [] acc).1 = acc := by
  cases n with
  | zero => simp [dissectClient]
  | succ n =>
    obtain ⟨e, he⟩ := readRequest_nil
    unfold dissectClient
    rw [he]

/-- **C02 (Kafka, client half).** The requests a client half leaves registered number at most one per 8 bytes of
    the half (plus one), whatever it declares - for every byte string and every fuel. -/
theorem c02_kafka_requests_le_bytes : ∀ (fuel : Nat) (s : Bytes) (acc : List Req),
    (dissectClient fuel s acc).1.length ≤ acc.length + s.length / 8 + 1 := by
  intro fuel
  induction fuel with
  | zero => intro s acc; simp [dissectClient]; omega
  | succ n ih =>
    intro s acc
    unfold dissectClient
    cases hr : readRequest s with
    | error e => simp only []; omega
    | ok v =>
      obtain ⟨q, rest⟩ := v
      simp only []
      have hp := readRequest_progress s q rest hr
      have hreg := register_length acc q
      have := ih rest (register acc q)
      by_cases hs8 : s.length < 8
      · -- the next call sees an empty stream: nothing more is registered
        have hnil : rest = [] := List.eq_nil_of_length_eq_zero (by omega)
        rw [hnil, dissectClient_nil]
        omega
      · have : rest.length / 8 + 1 ≤ s.length / 8 := by omega
        omega

/-- an accepted response takes at least 4 bytes off the server half (or all that is left of it) -/
theorem readResponse_progress (open_ : List Req) (s : Bytes) (it : Option Item) (open' : List Req) (rest : Bytes)
    (h : readResponse open_ s = .ok (it, open', rest)) : rest.length ≤ s.length - 4 := by
  unfold readResponse at h
  dsimp only at h
  obtain ⟨c, hc, hs, hr⟩ := readInt_within 4 { stream := s, remain := 4 }
  generalize (open_.find? _) = found at h
  split at h
  · cases h
  · split at h
    · split at h <;> cases h
    · split at h
      · cases h
      · split at h
        · split at h
          · cases h
          · injection h with h
            injection h with _ h
            injection h with _ hrest
            rw [← hrest, discardAll_length (Within.trans (readInt_within 4 _) (decode_within _ _))]
            simp only [hs, List.length_drop]
            omega
        · injection h with h
          injection h with _ h
          injection h with _ hrest
          rw [← hrest, discardAll_length (readInt_within 4 _)]
          simp only [hs, List.length_drop]
          omega

theorem readResponse_nil (open_ : List Req) : ∃ e, readResponse open_ [] = .error e := ⟨.eof, by rfl⟩

theorem dissectServer_nil (n : Nat) (open_ : List Req) (acc : List Item) : (dissectServer n [] open_ acc).1 = acc := by
  cases n with
  | zero => simp [dissectServer]
  | succ n =>
    obtain ⟨e, he⟩ := readResponse_nil open_
    unfold dissectServer
    rw [he]

/-- **C02 (Kafka, server half).** The items a server half yields number at most one per 4 bytes of the half (plus
    one), whatever the messages declare and whatever requests are open - for every byte string and every fuel. -/
theorem c02_kafka_items_le_bytes : ∀ (fuel : Nat) (s : Bytes) (open_ : List Req) (acc : List Item),
    (dissectServer fuel s open_ acc).1.length ≤ acc.length + s.length / 4 + 1 := by
  intro fuel
  induction fuel with
  | zero => intro s open_ acc; simp [dissectServer]; omega
  | succ n ih =>
    intro s open_ acc
    unfold dissectServer
    cases hr : readResponse open_ s with
    | error e => simp only []; omega
    | ok v =>
      obtain ⟨it, open', rest⟩ := v
      have hp := readResponse_progress open_ s it open' rest hr
      cases it with
      | none =>
        simp only []
        have := ih rest open' acc
        by_cases hs4 : s.length < 4
        · have hnil : rest = [] := List.eq_nil_of_length_eq_zero (by omega)
          rw [hnil, dissectServer_nil]
          omega
        · have : rest.length / 4 + 1 ≤ s.length / 4 := by omega
          omega
      | some i =>
        simp only []
        have := ih rest open' (acc ++ [i])
        have hl : (acc ++ [i]).length = acc.length + 1 := by simp
        by_cases hs4 : s.length < 4
        · have hnil : rest = [] := List.eq_nil_of_length_eq_zero (by omega)
          rw [hnil, dissectServer_nil]
          omega
        · have : rest.length / 4 + 1 ≤ s.length / 4 := by omega
          omega

/-- not vacuous: the bound is about real work - an ApiVersions v0 request (12 bytes) is accepted and registered -/
example : (dissectClient 5 [0, 0, 0, 10, 0, 18, 0, 0, 0, 0, 0, 7, 255, 255] []).1.length = 1 := by decide

/-! ### the fuel the driver gives (`length + 1`) is enough: more fuel changes nothing -/

theorem dissectClient_nil_eq (n : Nat) (acc : List Req) : dissectClient n [] acc = (acc, .eof) := by
  cases n with
  | zero => rfl
  | succ n =>
    unfold dissectClient
    have : readRequest [] = .error .eof := by rfl
    rw [this]

/-- **C02 (Kafka, totality of the client half).** With fuel above the length of the half the dissection ends because
    the stream does (or a message is refused), never because the fuel does: one more unit changes nothing. -/
theorem c02_kafka_client_fuel_suffices : ∀ (n : Nat) (s : Bytes) (acc : List Req), s.length < n →
    dissectClient (n + 1) s acc = dissectClient n s acc := by
  intro n
  induction n with
  | zero => intro s acc h; omega
  | succ n ih =>
    intro s acc h
    rw [dissectClient, dissectClient]
    cases hr : readRequest s with
    | error e => rfl
    | ok v =>
      obtain ⟨q, rest⟩ := v
      simp only []
      have hp := readRequest_progress s q rest hr
      by_cases hs8 : s.length < 8
      · have hnil : rest = [] := List.eq_nil_of_length_eq_zero (by omega)
        rw [hnil, dissectClient_nil_eq, dissectClient_nil_eq]
      · exact ih rest _ (by omega)

theorem dissectServer_nil_eq (n : Nat) (open_ : List Req) (acc : List Item) :
    dissectServer n [] open_ acc = (acc, open_, .eof) := by
  cases n with
  | zero => rfl
  | succ n =>
    unfold dissectServer
    have : readResponse open_ [] = .error .eof := by rfl
    rw [this]

/-- the same for the server half -/
theorem c02_kafka_server_fuel_suffices : ∀ (n : Nat) (s : Bytes) (open_ : List Req) (acc : List Item), s.length < n →
    dissectServer (n + 1) s open_ acc = dissectServer n s open_ acc := by
  intro n
  induction n with
  | zero => intro s open_ acc h; omega
  | succ n ih =>
    intro s open_ acc h
    rw [dissectServer, dissectServer]
    cases hr : readResponse open_ s with
    | error e => rfl
    | ok v =>
      obtain ⟨it, open', rest⟩ := v
      simp only []
      have hp := readResponse_progress open_ s it open' rest hr
      by_cases hs4 : s.length < 4
      · have hnil : rest = [] := List.eq_nil_of_length_eq_zero (by omega)
        rw [hnil, dissectServer_nil_eq, dissectServer_nil_eq]
      · exact ih rest _ _ (by omega)

end KsVerif.Proofs.C02Kafka
