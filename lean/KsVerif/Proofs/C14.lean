/-
  C14 — filtering never alters a record.
-/
import KsVerif.Kfl.Eval

namespace KsVerif.Proofs.C14
open KsVerif.Kfl

/-! `NoRedact`: no helper of the prepared query is `redact`. -/
mutual
  def nrExpr : Expr → Bool
    | .empty => true
    | .mk l => nrLogical l
  def nrLogical : Logical → Bool
    | .one e => nrEquality e
    | .bin e _ n => nrEquality e && nrLogical n
  def nrEquality : Equality → Bool
    | .one c => nrComparison c
    | .bin c _ n => nrComparison c && nrEquality n
  def nrComparison : Comparison → Bool
    | .one u => nrUnary u
    | .bin u _ n => nrUnary u && nrComparison n
  def nrUnary : Unary → Bool
    | .op _ u => nrUnary u
    | .pri p => nrPrimary p
  def nrPrimary : Primary → Bool
    | .sub e => nrExpr e
    | .call _ params sel _ helper => helper != some "redact" && nrParams params && nrSel sel
    | _ => true
  def nrParams : Params → Bool
    | .none => true
    | .some ps => nrParamList ps
  def nrParamList : ParamList → Bool
    | .nil => true
    | .cons p rest => nrParam p && nrParamList rest
  def nrParam : Param → Bool
    | .expr e => nrExpr e
    | _ => true
  def nrSel : Sel → Bool
    | .none => true
    | .mk _ _ _ _ e => nrExpr e
end

/-- Every helper other than `redact` hands the record back untouched. -/
theorem applyHelper_frame (name : String) (obj : Json) (v : Val) (ps : List Val) (o : Json) (w : Val)
    (hn : name ≠ "redact") (h : applyHelper name obj v ps = some (o, w)) : o = obj := by
  unfold applyHelper at h
  simp only at h
  repeat' split at h
  all_goals first
    | (simp only [Option.some.injEq, Prod.mk.injEq] at h; exact h.1.symm)
    | (rename_i hr; exact absurd (by simpa using hr) hn)
    | (cases h)

mutual
  theorem frame_expr : ∀ (e : Expr) (obj : Json), nrExpr e = true → (evalExpr e obj).2 = obj
    | .empty, _, _ => rfl
    | .mk l, obj, h => by
      simp only [evalExpr]
      exact frame_logical l obj (by simpa [nrExpr] using h)
  theorem frame_logical : ∀ (l : Logical) (obj : Json), nrLogical l = true → (evalLogical l obj).obj = obj
    | .one e, obj, h => by
      simp only [evalLogical]; exact frame_equality e obj (by simpa [nrLogical] using h)
    | .bin e op n, obj, h => by
      have h' : nrEquality e = true ∧ nrLogical n = true := by simpa [nrLogical] using h
      have h1 := frame_equality e obj h'.1
      simp only [evalLogical]
      split
      · exact h1
      · split
        · exact h1
        · split
          · exact h1
          · have h2 := frame_logical n (evalEquality e obj).obj h'.2
            split
            · rw [h2, h1]
            · simp only; rw [h2, h1]
  theorem frame_equality : ∀ (q : Equality) (obj : Json), nrEquality q = true → (evalEquality q obj).obj = obj
    | .one c, obj, h => by
      simp only [evalEquality]; exact frame_comparison c obj (by simpa [nrEquality] using h)
    | .bin c op n, obj, h => by
      have h' : nrComparison c = true ∧ nrEquality n = true := by simpa [nrEquality] using h
      have h1 := frame_comparison c obj h'.1
      have h2 := frame_equality n (evalComparison c obj).obj h'.2
      simp only [evalEquality]
      split
      · exact h1
      · split
        · rw [h2, h1]
        · simp only; rw [h2, h1]
  theorem frame_comparison : ∀ (c : Comparison) (obj : Json), nrComparison c = true → (evalComparison c obj).obj = obj
    | .one u, obj, h => by
      simp only [evalComparison]; exact frame_unary u obj (by simpa [nrComparison] using h)
    | .bin u op n, obj, h => by
      have h' : nrUnary u = true ∧ nrComparison n = true := by simpa [nrComparison] using h
      have h1 := frame_unary u obj h'.1
      have h2 := frame_comparison n (evalUnary u obj).obj h'.2
      simp only [evalComparison]
      split
      · exact h1
      · split
        · rw [h2, h1]
        · simp only; rw [h2, h1]
  theorem frame_unary : ∀ (u : Unary) (obj : Json), nrUnary u = true → (evalUnary u obj).obj = obj
    | .pri p, obj, h => by
      simp only [evalUnary]; exact frame_primary p obj (by simpa [nrUnary] using h)
    | .op o u, obj, h => by
      have h1 := frame_unary u obj (by simpa [nrUnary] using h)
      simp only [evalUnary]
      split
      · exact h1
      · split <;> (try split) <;> simp_all
  theorem frame_primary : ∀ (p : Primary) (obj : Json), nrPrimary p = true → (evalPrimary p obj).obj = obj
    | .bool _, _, _ => rfl
    | .num _, _, _ => rfl
    | .str _, _, _ => rfl
    | .regex _, _, _ => rfl
    | .nil, _, _ => rfl
    | .sub e, obj, h => by
      simp only [evalPrimary]; exact frame_expr e obj (by simpa [nrPrimary] using h)
    | .call ident params sel jsonPath helper, obj, h => by
      have h' : helper ≠ some "redact" ∧ nrParams params = true ∧ nrSel sel = true := by
        simpa [nrPrimary, and_assoc] using h
      unfold evalPrimary
      cases jsonPath with
      | none =>
        simp only
        cases sel with
        | none => rfl
        | mk i k r hasE e =>
          cases hasE with
          | false => rfl
          | true =>
            simp only
            exact frame_expr e obj (by simpa [nrSel] using h'.2.2)
      | some p =>
        simp only
        split
        · rfl
        · cases helper with
          | none => rfl
          | some hname =>
            simp only
            have hp := frame_params params obj h'.2.1
            have hne : hname ≠ "redact" := fun hc => h'.1 (by rw [hc])
            cases happ : applyHelper hname (evalParams params obj).2 _ (evalParams params obj).1 with
            | none => simp only [happ]; exact hp
            | some ow =>
              obtain ⟨o, w⟩ := ow
              simp only [happ]
              have := applyHelper_frame hname _ _ _ o w hne happ
              rw [this, hp]
  theorem frame_params : ∀ (ps : Params) (obj : Json), nrParams ps = true → (evalParams ps obj).2 = obj
    | .none, _, _ => rfl
    | .some l, obj, h => by
      simp only [evalParams]; exact frame_paramList l obj (by simpa [nrParams] using h)
  theorem frame_paramList : ∀ (l : ParamList) (obj : Json), nrParamList l = true → (evalParamList l obj).2 = obj
    | .nil, _, _ => rfl
    | .cons p rest, obj, h => by
      have h' : nrParam p = true ∧ nrParamList rest = true := by simpa [nrParamList] using h
      have h1 := frame_param p obj h'.1
      have h2 := frame_paramList rest (evalParam p obj).2 h'.2
      simp only [evalParamList]
      rw [h2, h1]
  theorem frame_param : ∀ (p : Param) (obj : Json), nrParam p = true → (evalParam p obj).2 = obj
    | .path _, _, _ => rfl
    | .time, _, _ => rfl
    | .expr e, obj, h => by
      simp only [evalParam]; exact frame_expr e obj (by simpa [nrParam] using h)
end

/-- **C14.** A prepared query in which no helper is `redact` — whatever its shape, depth,
    helpers, selectors, and whether or not it matches — returns the record it was given. -/
theorem c14_frame (e : Expr) (record : Json) (h : nrExpr e = true) :
    (eval e record).2 = record := by
  simp only [eval]
  exact frame_expr e record h

end KsVerif.Proofs.C14
