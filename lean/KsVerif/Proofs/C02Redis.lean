/-
  C02 for the Redis model, second part: the model's fuel never decides.

  `process` / `elems` mirror the recursion of read.go (processArray calling process for every
  element) with a fuel argument, and `dissect` the Dissect loop.  With more fuel than bytes none
  of them fails for lack of it (`process_elems_fuel`), and the amounts `read` and `dissectAll`
  hand over are enough (`c02_redis_dissect_total`): for every byte sequence and stream end the
  modelled dissection ends because the stream ended or was rejected - nesting depth and element
  counts are bounded by the bytes present, not by what `*N` declares.
-/
import KsVerif.Proofs.C02

namespace KsVerif.Proofs.C02Redis
open KsVerif.Redis KsVerif.Proofs.C02

theorem endErr_ne (st : St) : st.endErr ≠ .outOfFuel := by
  unfold St.endErr; split <;> simp

theorem next_err {st : St} {e : Err} (h : next st = .error e) : e ≠ .outOfFuel := by
  unfold next at h
  split at h
  · cases h; exact endErr_ne st
  · cases h

theorem readLineBytes_err {st : St} {e : Err} (h : readLineBytes st = .error e) : e ≠ .outOfFuel := by
  unfold readLineBytes at h
  split at h
  · cases h
  · cases h; exact endErr_ne st

theorem readLine_err {st : St} {e : Err} (h : readLine st = .error e) : e ≠ .outOfFuel := by
  unfold readLine at h
  split at h
  · rename_i e' hl; cases h; exact readLineBytes_err hl
  · split at h
    · cases h; simp
    · cases h

theorem digits_err : ∀ (bs : Bytes) (v : Int) (t : Tail) (e : Err), digits bs v t = .error e → e ≠ .outOfFuel := by
  intro bs v t
  fun_induction digits bs v t with
  | case1 => intro e h; cases h; split <;> simp
  | case2 => intro e h; cases h; split <;> simp
  | case3 => intro e h; cases h
  | case4 => intro e h; cases h; simp
  | case5 _ _ _ _ _ _ ih => intro e h; exact ih e h

theorem readInt_err {st : St} {e : Err} (h : readInt st = .error e) : e ≠ .outOfFuel := by
  unfold readInt at h
  split at h
  · cases h; exact endErr_ne st
  · simp only at h
    split at h
    · rename_i e' hd; cases h; exact digits_err _ _ _ _ hd
    · cases h

theorem bulkBody_err {l : Int} {st : St} {e : Err} (h : bulkBody l st = .error e) : e ≠ .outOfFuel := by
  unfold bulkBody at h
  simp only at h
  split at h
  · cases h; exact endErr_ne st
  · split at h
    · rename_i e' h1; cases h; exact next_err h1
    · split at h
      · cases h; simp
      · split at h
        · rename_i e' h2; cases h; exact next_err h2
        · split at h
          · cases h; simp
          · cases h

theorem errorString_err {msg : Bytes} {e : Err} (h : errorString msg = .error e) : e ≠ .outOfFuel := by
  unfold errorString at h
  simp only at h
  repeat' (split at h)
  all_goals first
    | (cases h; simp)
    | cases h

/-- with more fuel than bytes, fuel is not what fails -/
def InvP (fuel : Nat) (st : St) : Except Err (RVal × RType × St) → Prop
  | .ok _ => True
  | .error e => st.rem.length + 1 ≤ fuel → e ≠ .outOfFuel

def InvE (fuel : Nat) (st : St) : Except Err (List RVal × St) → Prop
  | .ok _ => True
  | .error e => st.rem.length + 2 ≤ fuel → e ≠ .outOfFuel

theorem process_elems_fuel : ∀ (fuel : Nat),
    (∀ st r, process fuel st = r → InvP fuel st r) ∧
    (∀ n st r, elems fuel n st = r → InvE fuel st r) := by
  intro fuel
  induction fuel with
  | zero =>
    exact ⟨fun st r h => by subst h; simp [process, InvP], fun n st r h => by subst h; simp [elems, InvE]⟩
  | succ fuel ih =>
    constructor
    · intro st r h
      simp only [process] at h
      cases hn : next st with
      | error e => simp only [hn] at h; subst h; exact fun _ => next_err hn
      | ok x =>
        obtain ⟨b, st1⟩ := x
        simp only [hn] at h
        have h1 := next_shorter hn
        by_cases c1 : b = 43
        · simp only [c1, if_true] at h
          cases hl : readLineBytes st1 with
          | error e => simp only [hl] at h; subst h; exact fun _ => readLineBytes_err hl
          | ok y => obtain ⟨l, st2⟩ := y; simp only [hl] at h; subst h; trivial
        · simp only [c1, if_false] at h
          by_cases c2 : b = 36
          · simp only [c2, if_true] at h
            cases hi : readInt st1 with
            | error e => simp only [hi] at h; subst h; exact fun _ => readInt_err hi
            | ok y =>
              obtain ⟨l, st2⟩ := y
              simp only [hi] at h
              split at h
              · subst h; trivial
              · cases hb : bulkBody l st2 with
                | error e => simp only [hb] at h; subst h; exact fun _ => bulkBody_err hb
                | ok z => obtain ⟨body, st3⟩ := z; simp only [hb] at h; subst h; trivial
          · simp only [c2, if_false] at h
            by_cases c3 : b = 42
            · simp only [c3, if_true] at h
              cases hi : readInt st1 with
              | error e => simp only [hi] at h; subst h; exact fun _ => readInt_err hi
              | ok y =>
                obtain ⟨l, st2⟩ := y
                simp only [hi] at h
                have a := readInt_shorter hi
                split at h
                · subst h; trivial
                · have hE := ih.2 l.toNat st2 _ rfl
                  cases he : elems fuel l.toNat st2 with
                  | error e =>
                    simp only [he] at h hE; subst h
                    simp only [InvE] at hE
                    exact fun hn => hE (by omega)
                  | ok z => obtain ⟨xs, st3⟩ := z; simp only [he] at h; subst h; trivial
            · simp only [c3, if_false] at h
              by_cases c4 : b = 58
              · simp only [c4, if_true] at h
                cases hi : readInt st1 with
                | error e => simp only [hi] at h; subst h; exact fun _ => readInt_err hi
                | ok y => obtain ⟨l, st2⟩ := y; simp only [hi] at h; subst h; trivial
              · simp only [c4, if_false] at h
                by_cases c5 : b = 45
                · simp only [c5, if_true] at h
                  cases hl : readLine st1 with
                  | error e => simp only [hl] at h; subst h; exact fun _ => readLine_err hl
                  | ok y =>
                    obtain ⟨msg, st2⟩ := y
                    simp only [hl] at h
                    cases hes : errorString msg with
                    | error e => simp only [hes] at h; subst h; exact fun _ => errorString_err hes
                    | ok sres => simp only [hes] at h; subst h; trivial
                · simp only [c5, if_false] at h
                  subst h; exact fun _ => by simp
    · intro n st r h
      cases n with
      | zero => simp only [elems] at h; subst h; trivial
      | succ n =>
        simp only [elems] at h
        have hP := ih.1 st _ rfl
        cases hp : process fuel st with
        | error e =>
          simp only [hp] at h hP; subst h
          simp only [InvP] at hP
          exact fun hn => hP (by omega)
        | ok x =>
          obtain ⟨v, t, st1⟩ := x
          simp only [hp] at h
          have a := (process_elems_shorter fuel).1 _ _ _ _ hp
          have hE := ih.2 n st1 _ rfl
          cases he : elems fuel n st1 with
          | error e =>
            simp only [he] at h hE; subst h
            simp only [InvE] at hE
            exact fun hn => hE (by omega)
          | ok z => obtain ⟨vs, st2⟩ := z; simp only [he] at h; subst h; trivial

/-- `read` hands over enough fuel -/
theorem read_err {st : St} {e : Err} (h : Redis.read (2 * st.rem.length + 4) st = .error e) : e ≠ .outOfFuel := by
  unfold Redis.read at h
  split at h
  · rename_i e' hp
    cases h
    have := (process_elems_fuel _).1 st _ hp
    exact this (by omega)
  · split at h
    · rename_i e' hs
      cases h
      revert hs
      unfold shape
      simp only
      intro hs
      repeat' (split at hs)
      all_goals first
        | (cases hs; simp)
        | cases hs
    · cases h

/-- **C02 (Redis, termination of the model).** For every byte sequence and stream end the modelled
    Dissect loop ends because the stream ended or was rejected, never because fuel ran out. -/
theorem dissect_total : ∀ (fuel : Nat) (st : St), st.rem.length + 1 ≤ fuel → (dissect fuel st).2 ≠ .outOfFuel := by
  intro fuel
  induction fuel with
  | zero => intro st h; omega
  | succ fuel ih =>
    intro st hn
    simp only [dissect]
    split
    · rename_i e hr; exact read_err hr
    · rename_i p st' hr
      have a := read_shorter hr
      exact ih st' (by omega)

theorem c02_redis_dissect_total (bytes : Bytes) (tail : Tail) : (dissectAll bytes tail).2 ≠ .outOfFuel := by
  unfold dissectAll
  exact dissect_total _ _ (by simp only; omega)

end KsVerif.Proofs.C02Redis
