/-
  C15 — redaction removes every targeted value and nothing else.

  The correspondence check evaluates, for every generated record × path set, the real
  `redact`, the Lean model of `redactRecursively` (jp.Get / jp.Set semantics, `.json()` hops,
  base64 re-wrapping) and the structural spec `RedactSpec.expected`, and compares the records
  as values, looking through nested documents.  Three shapes of path on which the
  implementation adds keys or rewrites the wrong document are recorded findings.
  Theorems here are about the two ends of that comparison:
  * model: a path that denotes nothing leaves the record untouched (`c15_absent_path_noop`);
  * spec: the rewrite never adds a member for a key that is not there
    (`c15_spec_no_key_added`), and leaves values of other kinds alone.
  Partial: "marker at every denoted location ∧ frame" as one theorem over the model is not
  proved; XML hops are outside the model.
-/
import KsVerif.Kfl.RedactSpec

namespace KsVerif.Proofs.C15
open KsVerif.Kfl KsVerif.Kfl.RedactSpec

/-- A redaction argument that is one plain path denoting nothing in the record: the helper
    hands the record back unchanged and no key appears. -/
theorem c15_absent_path_noop (obj : Json) (path : String) (p : Path)
    (hsplit : path.splitOn ".json()" = [path])
    (hxml : (path.splitOn ".xml()").length ≤ 1)
    (hparse : Path.parse path = .ok p)
    (hmiss : Path.getAllOf p obj = []) :
    redactHelper obj [.json (.str path)] = obj := by
  have hx : ¬ ((path.splitOn ".xml()").length > 1) := by omega
  simp [redactHelper, splitOnStr, stringOperand, stringOfJson, hsplit, redactRec, hx, hparse, hmiss]

/-- Spec: a child step whose key the object does not have rewrites nothing — no key is added
    for a path that does not exist. -/
theorem c15_spec_no_key_added (fuel : Nat) (k : String) (r : Path) (f : Json → Json)
    (kvs : List (String × Json)) (h : ∀ kv ∈ kvs, kv.1 ≠ k) :
    rewriteAt (fuel + 1) (.child k :: r) f (.obj kvs) = .obj kvs := by
  simp only [rewriteAt]
  congr 1
  have : ∀ (l : List (String × Json)), (∀ kv ∈ l, kv.1 ≠ k) →
      l.map (fun kv => if (kv.1 == k) = true then (kv.1, rewriteAt fuel r f kv.2) else kv) = l := by
    intro l hl
    induction l with
    | nil => rfl
    | cons a t ih =>
      have ha : (a.1 == k) = false := by simpa using hl a (by simp)
      simp only [List.map_cons, ha, Bool.false_eq_true, if_false]
      rw [ih (fun kv hkv => hl kv (by simp [hkv]))]
  exact this kvs h

/-- Spec: the rewrite keeps the keys of an object it passes through by a child step. -/
theorem c15_spec_keys_kept (fuel : Nat) (k : String) (r : Path) (f : Json → Json)
    (kvs : List (String × Json)) :
    ∃ kvs', rewriteAt (fuel + 1) (.child k :: r) f (.obj kvs) = .obj kvs' ∧
      kvs'.map (·.1) = kvs.map (·.1) := by
  refine ⟨_, rfl, ?_⟩
  induction kvs with
  | nil => rfl
  | cons a t ih =>
    simp only [List.map_cons]
    split <;> simp_all

/-- Spec: a child or index step on a value of another kind changes nothing. -/
theorem c15_spec_scalar_untouched (fuel : Nat) (k : String) (r : Path) (f : Json → Json) (s : String) :
    rewriteAt (fuel + 1) (.child k :: r) f (.str s) = .str s := rfl

end KsVerif.Proofs.C15
