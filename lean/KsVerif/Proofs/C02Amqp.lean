/-
  C02 for the AMQP model: what the Dissect loop of pkg/extensions/amqp/main.go can cost.

   * every frame read that succeeds, or that fails with a protocol error after which the loop goes
     on, leaves at least 7 bytes fewer in the stream (`readFrame_progress`): the loop runs at most
     n/7 + 1 times on n bytes, whatever sizes the frames declare;
   * the model's fuel is an artefact of writing the recursion of read.go structurally: it never
     runs out (`c02_amqp_fuel_suffices`, `c02_amqp_dissect_total`), i.e. the nesting of field
     tables and arrays and the number of their entries are bounded by the bytes present;
   * the events of a half carry no more body bytes than the half held (`c02_amqp_bodies_le_bytes`):
     no announced body size, frame size or count multiplies what is reported.
-/
import KsVerif.Amqp.Dissect

namespace KsVerif.Proofs.C02Amqp
open KsVerif.Amqp

/-! ### where the stream stands after a read -/

theorem readFull_ok {n : Nat} {st st' : St} {b : Bytes} (h : readFull n st = .ok (b, st')) :
    st'.rem.length + n = st.rem.length ∧ b.length = n := by
  unfold readFull at h
  split at h
  · cases h; simp [*]
  · split at h
    · cases h; simp; omega
    · split at h
      · simp [fail] at h
      · split at h <;> simp [fail] at h

theorem readFull_err {n : Nat} {st : St} {f : Fail} (h : readFull n st = .error f) :
    f.err ≠ .outOfFuel ∧ f.err.isProtocol = false ∧ f.st.rem.length ≤ st.rem.length := by
  unfold readFull at h
  split at h
  · cases h
  · split at h
    · cases h
    · split at h
      · simp only [fail, Except.error.injEq] at h; subst h; simp [Err.isProtocol]
      · split at h <;> (simp only [fail, Except.error.injEq] at h; subst h; simp [Err.isProtocol])

theorem readUInt_ok {n : Nat} {st st' : St} {v : Nat} (h : readUInt n st = .ok (v, st')) :
    st'.rem.length + n = st.rem.length := by
  unfold readUInt at h
  split at h
  · cases h
  · rename_i bs st1 hr
    cases h
    exact (readFull_ok hr).1

theorem readUInt_err {n : Nat} {st : St} {f : Fail} (h : readUInt n st = .error f) :
    f.err ≠ .outOfFuel ∧ f.err.isProtocol = false ∧ f.st.rem.length ≤ st.rem.length := by
  unfold readUInt at h
  split at h
  · rename_i e hr; cases h; exact readFull_err hr
  · cases h

theorem readShortStr_ok {st st' : St} {b : Bytes} (h : readShortStr st = .ok (b, st')) :
    st'.rem.length + 1 + b.length = st.rem.length := by
  unfold readShortStr at h
  split at h
  · cases h
  · rename_i n st1 hr
    have h1 := readUInt_ok hr
    have h2 := readFull_ok h
    omega

theorem readShortStr_err {st : St} {f : Fail} (h : readShortStr st = .error f) :
    f.err ≠ .outOfFuel ∧ f.err.isProtocol = false ∧ f.st.rem.length ≤ st.rem.length := by
  unfold readShortStr at h
  split at h
  · rename_i e hr; cases h; exact readUInt_err hr
  · rename_i n st1 hr
    have h1 := readUInt_ok hr
    have h2 := readFull_err h
    exact ⟨h2.1, h2.2.1, by omega⟩

theorem readLongStr_ok {st st' : St} {s : Bytes} (h : readLongStr st = .ok (s, st')) :
    st'.rem.length + 4 + s.length ≤ st.rem.length := by
  unfold readLongStr at h
  split at h
  · cases h
  · rename_i n st1 hr
    have h1 := readUInt_ok hr
    split at h
    · cases h; simp; omega
    · have h2 := readFull_ok h
      omega

theorem readLongStr_err {st : St} {f : Fail} (h : readLongStr st = .error f) :
    f.err ≠ .outOfFuel ∧ f.err.isProtocol = false ∧ f.st.rem.length ≤ st.rem.length := by
  unfold readLongStr at h
  split at h
  · rename_i e hr; cases h; exact readUInt_err hr
  · rename_i n st1 hr
    have h1 := readUInt_ok hr
    split at h
    · cases h
    · have h2 := readFull_err h
      exact ⟨h2.1, h2.2.1, by omega⟩


/-! ### the recursion of readField / readArray / readTable: it consumes, and its depth is bounded by the bytes -/

/-- readField: a value costs at least its type byte; a failure leaves the stream no longer; with more
    fuel than bytes the fuel is not what fails -/
def InvF (n : Nat) (st : St) : R FVal → Prop
  | .ok (_, st') => st'.rem.length + 1 ≤ st.rem.length
  | .error f => f.st.rem.length ≤ st.rem.length ∧ (st.rem.length + 1 ≤ n → f.err ≠ .outOfFuel)

def InvA (n : Nat) (st : St) : R (List FVal) → Prop
  | .ok (_, st') => st'.rem.length ≤ st.rem.length
  | .error f => f.st.rem.length ≤ st.rem.length ∧ (st.rem.length + 2 ≤ n → f.err ≠ .outOfFuel)

def InvT (n : Nat) (st : St) : R (List (Bytes × FVal)) → Prop
  | .ok (_, st') => st'.rem.length + 4 ≤ st.rem.length
  | .error f => f.st.rem.length ≤ st.rem.length ∧ (st.rem.length + 1 ≤ n → f.err ≠ .outOfFuel)

def InvP (n : Nat) (st : St) : Except Fail (List (Bytes × FVal)) → Prop
  | .ok _ => True
  | .error f => st.rem.length + 1 ≤ n → f.err ≠ .outOfFuel

theorem fields_inv : ∀ (n : Nat),
    (∀ st r, readField n st = r → InvF n st r) ∧
    (∀ st r, readArrayItems n st = r → InvA n st r) ∧
    (∀ st r, readTable n st = r → InvT n st r) ∧
    (∀ st r, readPairs n st = r → InvP n st r) := by
  intro n
  induction n with
  | zero =>
    refine ⟨?_, ?_, ?_, ?_⟩ <;> intro st r h <;> subst h <;>
      simp [readField, readArrayItems, readTable, readPairs, fail, InvF, InvA, InvT, InvP]
  | succ n ih =>
    obtain ⟨ihF, ihA, ihT, ihP⟩ := ih
    refine ⟨?_, ?_, ?_, ?_⟩
    · intro st r h
      unfold readField at h
      split at h
      · rename_i e hr1; subst h; have h1 := readUInt_err hr1
        simp only [InvF]; exact ⟨h1.2.2, fun _ => h1.1⟩
      · rename_i typ st1 hr1
        have h1 := readUInt_ok hr1
        by_cases c116 : typ = 116
        · rw [if_pos c116] at h
          split at h
          · rename_i e hr2; subst h; have h2 := readUInt_err hr2
            simp only [InvF]; exact ⟨by omega, fun _ => h2.1⟩
          · rename_i v st2 hr2; subst h; have h2 := readUInt_ok hr2
            simp only [InvF]; omega
        rw [if_neg c116] at h
        by_cases c98 : typ = 98
        · rw [if_pos c98] at h
          split at h
          · rename_i e hr2; subst h; have h2 := readUInt_err hr2
            simp only [InvF]; exact ⟨by omega, fun _ => h2.1⟩
          · rename_i v st2 hr2; subst h; have h2 := readUInt_ok hr2
            simp only [InvF]; omega
        rw [if_neg c98] at h
        by_cases c115 : typ = 115
        · rw [if_pos c115] at h
          split at h
          · rename_i e hr2; subst h; have h2 := readUInt_err hr2
            simp only [InvF]; exact ⟨by omega, fun _ => h2.1⟩
          · rename_i v st2 hr2; subst h; have h2 := readUInt_ok hr2
            simp only [InvF]; omega
        rw [if_neg c115] at h
        by_cases c73 : typ = 73
        · rw [if_pos c73] at h
          split at h
          · rename_i e hr2; subst h; have h2 := readUInt_err hr2
            simp only [InvF]; exact ⟨by omega, fun _ => h2.1⟩
          · rename_i v st2 hr2; subst h; have h2 := readUInt_ok hr2
            simp only [InvF]; omega
        rw [if_neg c73] at h
        by_cases c108 : typ = 108
        · rw [if_pos c108] at h
          split at h
          · rename_i e hr2; subst h; have h2 := readUInt_err hr2
            simp only [InvF]; exact ⟨by omega, fun _ => h2.1⟩
          · rename_i v st2 hr2; subst h; have h2 := readUInt_ok hr2
            simp only [InvF]; omega
        rw [if_neg c108] at h
        by_cases c102 : typ = 102
        · rw [if_pos c102] at h
          split at h
          · rename_i e hr2; subst h; have h2 := readUInt_err hr2
            simp only [InvF]; exact ⟨by omega, fun _ => h2.1⟩
          · rename_i v st2 hr2; subst h; have h2 := readUInt_ok hr2
            simp only [InvF]; omega
        rw [if_neg c102] at h
        by_cases c100 : typ = 100
        · rw [if_pos c100] at h
          split at h
          · rename_i e hr2; subst h; have h2 := readUInt_err hr2
            simp only [InvF]; exact ⟨by omega, fun _ => h2.1⟩
          · rename_i v st2 hr2; subst h; have h2 := readUInt_ok hr2
            simp only [InvF]; omega
        rw [if_neg c100] at h
        by_cases c68 : typ = 68
        · rw [if_pos c68] at h
          split at h
          · rename_i e hr2; subst h; have h2 := readUInt_err hr2
            simp only [InvF]; exact ⟨by omega, fun _ => h2.1⟩
          · rename_i sc st2 hr2
            have h2 := readUInt_ok hr2
            split at h
            · rename_i e hr3; subst h; have h3 := readUInt_err hr3
              simp only [InvF]; exact ⟨by omega, fun _ => h3.1⟩
            · rename_i v st3 hr3; subst h; have h3 := readUInt_ok hr3
              simp only [InvF]; omega
        rw [if_neg c68] at h
        by_cases c83 : typ = 83
        · rw [if_pos c83] at h
          split at h
          · rename_i e hr2; subst h; have h2 := readLongStr_err hr2
            simp only [InvF]; exact ⟨by omega, fun _ => h2.1⟩
          · rename_i s st2 hr2; subst h; have h2 := readLongStr_ok hr2
            simp only [InvF]; omega
        rw [if_neg c83] at h
        by_cases c65 : typ = 65
        · rw [if_pos c65] at h
          split at h
          · rename_i e hr2; subst h; have h2 := readUInt_err hr2
            simp only [InvF]; exact ⟨by omega, fun _ => h2.1⟩
          · rename_i size st2 hr2
            have h2 := readUInt_ok hr2
            dsimp only at h
            generalize hw : ({ rem := st2.rem.take size, tail := if st2.rem.length ≥ size then Tail.eof else st2.tail } : St) = window at h
            have hwl : window.rem.length ≤ st2.rem.length ∧ window.rem.length ≤ size := by
              subst hw; simp only [List.length_take]; omega
            have hA := ihA window _ rfl
            generalize hres : readArrayItems n window = res at h hA
            cases res with
            | error f =>
              subst h
              simp only [InvA] at hA
              simp only [InvF, List.length_append, List.length_drop]
              exact ⟨by omega, fun hn => hA.2 (by omega)⟩
            | ok p =>
              obtain ⟨xs, w⟩ := p
              subst h
              simp only [InvA] at hA
              simp only [InvF, List.length_append, List.length_drop]
              omega
        rw [if_neg c65] at h
        by_cases c84 : typ = 84
        · rw [if_pos c84] at h
          split at h
          · rename_i e hr2; subst h; have h2 := readUInt_err hr2
            simp only [InvF]; exact ⟨by omega, fun _ => h2.1⟩
          · rename_i v st2 hr2; subst h; have h2 := readUInt_ok hr2
            simp only [InvF]; omega
        rw [if_neg c84] at h
        by_cases c70 : typ = 70
        · rw [if_pos c70] at h
          have hT := ihT st1 _ rfl
          generalize hres : readTable n st1 = res at h hT
          cases res with
          | error f =>
            subst h
            simp only [InvT] at hT
            simp only [InvF]
            exact ⟨by omega, fun hn => hT.2 (by omega)⟩
          | ok p =>
            obtain ⟨t, st2⟩ := p
            subst h
            simp only [InvT] at hT
            simp only [InvF]
            omega
        rw [if_neg c70] at h
        by_cases c120 : typ = 120
        · rw [if_pos c120] at h
          split at h
          · rename_i e hr2; subst h; have h2 := readUInt_err hr2
            simp only [InvF]; exact ⟨by omega, fun _ => h2.1⟩
          · rename_i v st2 hr2
            have h2 := readUInt_ok hr2
            by_cases hneg : toSigned 4 v < 0
            · rw [if_pos hneg] at h; subst h
              simp only [InvF, fail]
              exact ⟨by omega, fun _ => by simp⟩
            · rw [if_neg hneg] at h
              generalize hres : readBytesN (toSigned 4 v).toNat st2 = res at h
              cases res with
              | error f =>
                subst h
                have h3 := readFull_err hres
                simp only [InvF]
                exact ⟨by omega, fun _ => h3.1⟩
              | ok p =>
                obtain ⟨b, st3⟩ := p
                subst h
                have h3 := readFull_ok hres
                simp only [InvF]
                omega
        rw [if_neg c120] at h
        by_cases c86 : typ = 86
        · rw [if_pos c86] at h; subst h
          simp only [InvF]; omega
        rw [if_neg c86] at h
        subst h
        simp only [InvF, fail]
        exact ⟨by omega, fun _ => by simp⟩
    · intro w r h
      simp only [readArrayItems] at h
      have hF := ihF w _ rfl
      generalize hres : readField n w = res at h hF
      cases res with
      | error f =>
        simp only [InvF] at hF
        by_cases he : f.err = .eof
        · simp only [he, if_true] at h; subst h
          simp only [InvA]; exact hF.1
        · simp only [he, if_false] at h; subst h
          simp only [InvA]; exact ⟨hF.1, fun hn => hF.2 (by omega)⟩
      | ok p =>
        obtain ⟨v, w'⟩ := p
        simp only [InvF] at hF
        dsimp only at h
        have hA := ihA w' _ rfl
        generalize hres2 : readArrayItems n w' = res2 at h hA
        cases res2 with
        | error f =>
          subst h
          simp only [InvA] at hA ⊢
          exact ⟨by omega, fun hn => hA.2 (by omega)⟩
        | ok p2 =>
          obtain ⟨vs, w''⟩ := p2
          subst h
          simp only [InvA] at hA ⊢
          omega
    · intro st r h
      simp only [readTable] at h
      generalize hres : readLongStr st = res at h
      cases res with
      | error f =>
        subst h
        have h1 := readLongStr_err hres
        simp only [InvT]; exact ⟨h1.2.2, fun _ => h1.1⟩
      | ok p =>
        obtain ⟨s, st1⟩ := p
        have h1 := readLongStr_ok hres
        dsimp only at h
        have hP := ihP { rem := s, tail := .eof } _ rfl
        generalize hres2 : readPairs n { rem := s, tail := .eof } = res2 at h hP
        cases res2 with
        | error f =>
          subst h
          simp only [InvP] at hP
          simp only [InvT]
          exact ⟨by omega, fun hn => hP (by show s.length + 1 ≤ n; omega)⟩
        | ok kvs =>
          subst h
          simp only [InvT]; omega
    · intro nested r h
      simp only [readPairs] at h
      by_cases hemp : nested.rem.isEmpty = true
      · simp only [hemp, if_true] at h; subst h; simp only [InvP]
      · simp only [hemp] at h
        generalize hres : readShortStr nested = res at h
        cases res with
        | error f =>
          subst h
          have h1 := readShortStr_err hres
          simp only [InvP]; exact fun _ => h1.1
        | ok p =>
          obtain ⟨k, n1⟩ := p
          have h1 := readShortStr_ok hres
          dsimp only at h
          have hF := ihF n1 _ rfl
          generalize hres2 : readField n n1 = res2 at h hF
          cases res2 with
          | error f =>
            subst h
            simp only [InvF] at hF
            simp only [InvP]; exact fun hn => hF.2 (by omega)
          | ok p2 =>
            obtain ⟨v, n2⟩ := p2
            simp only [InvF] at hF
            dsimp only at h
            have hP := ihP n2 _ rfl
            generalize hres3 : readPairs n n2 = res3 at h hP
            cases res3 with
            | error f =>
              subst h
              simp only [InvP] at hP ⊢
              exact fun hn => hP (by omega)
            | ok kvs => subst h; simp [InvP]


/-! ### method arguments and content properties -/

def InvK {α : Type} (n : Nat) (st : St) : R α → Prop
  | .ok (_, st') => st'.rem.length ≤ st.rem.length
  | .error f => f.st.rem.length ≤ st.rem.length ∧ (st.rem.length + 1 ≤ n → f.err ≠ .outOfFuel)

theorem invK_map {α β : Type} (n : Nat) (st : St) (r : R α) (g : α × St → β) (h : InvK n st r) :
    InvK n st (r.map fun p => (g p, p.2)) := by
  cases r with
  | error f => simpa [Except.map, InvK] using h
  | ok p => obtain ⟨v, st'⟩ := p; simpa [Except.map, InvK] using h

theorem invK_uint (n k : Nat) (st : St) : InvK n st (readUInt k st) := by
  cases hr : readUInt k st with
  | error f => have := readUInt_err hr; exact ⟨this.2.2, fun _ => this.1⟩
  | ok p => obtain ⟨v, st'⟩ := p; have := readUInt_ok hr; simp only [InvK]; omega

theorem invK_shortstr (n : Nat) (st : St) : InvK n st (readShortStr st) := by
  cases hr : readShortStr st with
  | error f => have := readShortStr_err hr; exact ⟨this.2.2, fun _ => this.1⟩
  | ok p => obtain ⟨v, st'⟩ := p; have := readShortStr_ok hr; simp only [InvK]; omega

theorem invK_longstr (n : Nat) (st : St) : InvK n st (readLongStr st) := by
  cases hr : readLongStr st with
  | error f => have := readLongStr_err hr; exact ⟨this.2.2, fun _ => this.1⟩
  | ok p => obtain ⟨v, st'⟩ := p; have := readLongStr_ok hr; simp only [InvK]; omega

theorem invK_table (n : Nat) (st : St) : InvK n st (readTable n st) := by
  have := (fields_inv n).2.2.1 st _ rfl
  cases hr : readTable n st with
  | error f => rw [hr] at this; exact this
  | ok p => obtain ⟨v, st'⟩ := p; rw [hr] at this; simp only [InvT] at this; simp only [InvK]; omega

theorem readKind_inv (fuel : Nat) (name : String) (k : Kind) (st : St) : InvK fuel st (readKind fuel name k st) := by
  cases k with
  | octet => exact invK_map fuel st _ (fun p => [(name, AVal.num p.1)]) (invK_uint fuel 1 st)
  | short => exact invK_map fuel st _ (fun p => [(name, AVal.num p.1)]) (invK_uint fuel 2 st)
  | long => exact invK_map fuel st _ (fun p => [(name, AVal.num p.1)]) (invK_uint fuel 4 st)
  | longlong => exact invK_map fuel st _ (fun p => [(name, AVal.num p.1)]) (invK_uint fuel 8 st)
  | shortstr => exact invK_map fuel st _ (fun p => [(name, AVal.str p.1)]) (invK_shortstr fuel st)
  | longstr => exact invK_map fuel st _ (fun p => [(name, AVal.str p.1)]) (invK_longstr fuel st)
  | table => exact invK_map fuel st _ (fun p => [(name, AVal.table p.1)]) (invK_table fuel st)
  | timestamp => exact invK_map fuel st _ (fun p => [(name, AVal.time (clampTime (toSigned 8 p.1)))]) (invK_uint fuel 8 st)
  | bits names => exact invK_map fuel st _ (fun p => names.zipIdx.map fun (n, i) => (n, AVal.flag (bit p.1 i))) (invK_uint fuel 1 st)


theorem readArgs_inv (fuel : Nat) : ∀ (fields : List (String × Kind)) (st : St), InvK fuel st (readArgs fuel fields st) := by
  intro fields
  induction fields with
  | nil => intro st; simp [readArgs, InvK]
  | cons fk rest ih =>
    intro st
    obtain ⟨name, k⟩ := fk
    simp only [readArgs]
    have hK := readKind_inv fuel name k st
    generalize readKind fuel name k st = res at hK
    cases res with
    | error f => exact hK
    | ok p =>
      obtain ⟨vs, st1⟩ := p
      simp only [InvK] at hK
      have hA := ih st1
      dsimp only
      generalize readArgs fuel rest st1 = res2 at hA
      cases res2 with
      | error f => simp only [InvK] at hA ⊢; exact ⟨by omega, fun hn => hA.2 (by omega)⟩
      | ok p2 => obtain ⟨ws, st2⟩ := p2; simp only [InvK] at hA ⊢; omega

theorem readProps_inv (fuel flags : Nat) : ∀ (ps : List (Nat × String × Kind)) (st : St),
    InvK fuel st (readProps fuel flags ps st) := by
  intro ps
  induction ps with
  | nil => intro st; simp [readProps, InvK]
  | cons fk rest ih =>
    intro st
    obtain ⟨flag, name, k⟩ := fk
    simp only [readProps]
    by_cases hb : (flags / flag) % 2 = 1
    · rw [if_pos hb]
      have hK := readKind_inv fuel name k st
      generalize readKind fuel name k st = res at hK
      cases res with
      | error f => exact hK
      | ok p =>
        obtain ⟨vs, st1⟩ := p
        simp only [InvK] at hK
        have hA := ih st1
        dsimp only
        generalize readProps fuel flags rest st1 = res2 at hA
        cases res2 with
        | error f => simp only [InvK] at hA ⊢; exact ⟨by omega, fun hn => hA.2 (by omega)⟩
        | ok p2 => obtain ⟨ws, st2⟩ := p2; simp only [InvK] at hA ⊢; omega
    · rw [if_neg hb]; exact ih st

/-! ### one frame -/

/-- the payload part of readFrame (after the 7-byte header, before the frame-end octet) -/
def parsedFrame (fuel typ channel size : Nat) (st : St) : R Frame :=
  if typ = 1 then
    match readUInt 2 st with
    | .error e => .error e
    | .ok (c, st) =>
      match readUInt 2 st with
      | .error e => .error e
      | .ok (m, st) =>
        match lookupMethod c m with
        | none => fail (if classKnown c then .unknownMethod else .unknownClass) st
        | some (tname, fields) =>
          match readArgs fuel fields st with
          | .error e => .error e
          | .ok (args, st) => .ok (.method channel c m tname args, st)
  else if typ = 2 then
    match readUInt 2 st with
    | .error e => .error e
    | .ok (c, st) =>
      match readUInt 2 st with      -- weight
      | .error e => .error e
      | .ok (_, st) =>
        match readUInt 8 st with
        | .error e => .error e
        | .ok (bodySize, st) =>
          match readUInt 2 st with
          | .error e => .error e
          | .ok (flags, st) =>
            match readProps fuel flags Gen.Amqp.properties st with
            | .error e => .error e
            | .ok (props, st) => .ok (.header channel c bodySize props, st)
  else if typ = 3 then
    match readFull size st with
    | .error e => .error e
    | .ok (b, st) => .ok (.body channel b, st)
  else if typ = 8 then
    if size > 0 then fail .heartbeatPayload st else .ok (.heartbeat channel, st)
  else fail .frame st

/-- readFrame is the header, the size cap, `parsedFrame` and the frame-end octet -/
theorem readFrame_eq (st : St) : readFrame st =
    match readFull 7 st with
    | .error e => .error e
    | .ok (h, st7) =>
      if beNat ((h.drop 3).take 4) > 16000000 then fail .maxSize st7
      else
        match parsedFrame (st.rem.length + 8) (h.getD 0 0).toNat (beNat ((h.drop 1).take 2)) (beNat ((h.drop 3).take 4)) st7 with
        | .error e => .error e
        | .ok (f, st) =>
          match readFull 1 st with
          | .error e => .error e
          | .ok (e, st) => if (e.getD 0 0).toNat = frameEnd then .ok (f, st) else fail .frame st := by
  rfl


def InvParsed (fuel : Nat) (st7 : St) : R Frame → Prop
  | .ok (f, st2) => st2.rem.length ≤ st7.rem.length ∧
      (∀ ch b, f = .body ch b → st2.rem.length + b.length = st7.rem.length)
  | .error f => f.st.rem.length ≤ st7.rem.length ∧ (st7.rem.length + 1 ≤ fuel → f.err ≠ .outOfFuel)

theorem parsedFrame_inv (fuel typ channel size : Nat) (st7 : St) (r : R Frame)
    (h : parsedFrame fuel typ channel size st7 = r) : InvParsed fuel st7 r := by
  unfold parsedFrame at h
  by_cases c1 : typ = 1
  · rw [if_pos c1] at h
    split at h
    · rename_i e hr1; subst h; have h1 := readUInt_err hr1
      simp only [InvParsed]; exact ⟨h1.2.2, fun _ => h1.1⟩
    · rename_i c st1 hr1
      have h1 := readUInt_ok hr1
      split at h
      · rename_i e hr2; subst h; have h2 := readUInt_err hr2
        simp only [InvParsed]; exact ⟨by omega, fun _ => h2.1⟩
      · rename_i m st2 hr2
        have h2 := readUInt_ok hr2
        split at h
        · subst h; simp only [InvParsed, fail]
          refine ⟨by omega, fun _ => ?_⟩
          split <;> simp
        · rename_i tname fields hl
          have hA := readArgs_inv fuel fields st2
          generalize readArgs fuel fields st2 = res at h hA
          cases res with
          | error f => subst h; simp only [InvK] at hA; simp only [InvParsed]; exact ⟨by omega, fun hn => hA.2 (by omega)⟩
          | ok p =>
            obtain ⟨args, st3⟩ := p
            subst h
            simp only [InvK] at hA
            simp only [InvParsed]
            exact ⟨by omega, fun ch b hb => by cases hb⟩
  rw [if_neg c1] at h
  by_cases c2 : typ = 2
  · rw [if_pos c2] at h
    split at h
    · rename_i e hr1; subst h; have h1 := readUInt_err hr1
      simp only [InvParsed]; exact ⟨h1.2.2, fun _ => h1.1⟩
    · rename_i c st1 hr1
      have h1 := readUInt_ok hr1
      split at h
      · rename_i e hr2; subst h; have h2 := readUInt_err hr2
        simp only [InvParsed]; exact ⟨by omega, fun _ => h2.1⟩
      · rename_i w st2 hr2
        have h2 := readUInt_ok hr2
        split at h
        · rename_i e hr3; subst h; have h3 := readUInt_err hr3
          simp only [InvParsed]; exact ⟨by omega, fun _ => h3.1⟩
        · rename_i bodySize st3 hr3
          have h3 := readUInt_ok hr3
          split at h
          · rename_i e hr4; subst h; have h4 := readUInt_err hr4
            simp only [InvParsed]; exact ⟨by omega, fun _ => h4.1⟩
          · rename_i flags st4 hr4
            have h4 := readUInt_ok hr4
            have hA := readProps_inv fuel flags Gen.Amqp.properties st4
            generalize readProps fuel flags Gen.Amqp.properties st4 = res at h hA
            cases res with
            | error f => subst h; simp only [InvK] at hA; simp only [InvParsed]; exact ⟨by omega, fun hn => hA.2 (by omega)⟩
            | ok p =>
              obtain ⟨props, st5⟩ := p
              subst h
              simp only [InvK] at hA
              simp only [InvParsed]
              exact ⟨by omega, fun ch b hb => by cases hb⟩
  rw [if_neg c2] at h
  by_cases c3 : typ = 3
  · rw [if_pos c3] at h
    split at h
    · rename_i e hr1; subst h; have h1 := readFull_err hr1
      simp only [InvParsed]; exact ⟨h1.2.2, fun _ => h1.1⟩
    · rename_i b st1 hr1
      have h1 := readFull_ok hr1
      subst h
      simp only [InvParsed]
      refine ⟨by omega, fun ch b' hb => ?_⟩
      cases hb
      omega
  rw [if_neg c3] at h
  by_cases c8 : typ = 8
  · rw [if_pos c8] at h
    by_cases hs : size > 0
    · rw [if_pos hs] at h; subst h; simp only [InvParsed, fail]; exact ⟨by omega, fun _ => by simp⟩
    · rw [if_neg hs] at h; subst h; simp only [InvParsed]; exact ⟨by omega, fun ch b hb => by cases hb⟩
  rw [if_neg c8] at h
  subst h; simp only [InvParsed, fail]; exact ⟨by omega, fun _ => by simp⟩

/-- a frame read that succeeds leaves at least 8 bytes fewer (a body frame exactly 8 more than its
    payload); one that fails never fails for lack of fuel, and if it fails with a protocol error -
    the case in which Dissect goes on reading - it has consumed the 7-byte header at least -/
def InvFrame (st : St) : R Frame → Prop
  | .ok (f, st') => st'.rem.length + 8 ≤ st.rem.length ∧
      (∀ ch b, f = .body ch b → st'.rem.length + 8 + b.length = st.rem.length)
  | .error f => f.err ≠ .outOfFuel ∧ (f.err.isProtocol = true → f.st.rem.length + 7 ≤ st.rem.length)

theorem readFrame_inv (st : St) (r : R Frame) (h : readFrame st = r) : InvFrame st r := by
  rw [readFrame_eq] at h
  split at h
  · rename_i e hr; subst h; have h0 := readFull_err hr
    simp only [InvFrame]; exact ⟨h0.1, fun hp => by simp [h0.2.1] at hp⟩
  · rename_i hd st7 hr
    have h0 := readFull_ok hr
    by_cases hsz : beNat ((hd.drop 3).take 4) > 16000000
    · rw [if_pos hsz] at h; subst h
      simp only [InvFrame, fail]; exact ⟨by simp, fun _ => by omega⟩
    · rw [if_neg hsz] at h
      have hP := parsedFrame_inv (st.rem.length + 8) (hd.getD 0 0).toNat (beNat ((hd.drop 1).take 2)) (beNat ((hd.drop 3).take 4)) st7 _ rfl
      generalize parsedFrame (st.rem.length + 8) (hd.getD 0 0).toNat (beNat ((hd.drop 1).take 2)) (beNat ((hd.drop 3).take 4)) st7 = res at h hP
      cases res with
      | error f =>
        subst h
        simp only [InvParsed] at hP
        simp only [InvFrame]
        exact ⟨hP.2 (by omega), fun _ => by omega⟩
      | ok p =>
        obtain ⟨f, st2⟩ := p
        simp only [InvParsed] at hP
        dsimp only at h
        split at h
        · rename_i e hr1; subst h; have h1 := readFull_err hr1
          simp only [InvFrame]; exact ⟨h1.1, fun hp => by simp [h1.2.1] at hp⟩
        · rename_i e st3 hr1
          have h1 := readFull_ok hr1
          by_cases hfe : (e.getD 0 0).toNat = frameEnd
          · rw [if_pos hfe] at h; subst h
            simp only [InvFrame]
            refine ⟨by omega, fun ch b hb => ?_⟩
            have := hP.2 ch b hb
            omega
          · rw [if_neg hfe] at h; subst h
            simp only [InvFrame, fail]; exact ⟨by simp, fun _ => by omega⟩


/-! ### the Dissect loop -/

/-- body bytes carried by a list of events -/
def bodyBytes : List Event → Nat
  | [] => 0
  | e :: rest => (match e.body with | some b => b.length | none => 0) + bodyBytes rest

theorem bodyBytes_append (a b : List Event) : bodyBytes (a ++ b) = bodyBytes a + bodyBytes b := by
  induction a with
  | nil => simp [bodyBytes]
  | cons e rest ih => simp [bodyBytes, ih]; omega

def payloadLen : Frame → Nat
  | .body _ b => b.length
  | _ => 0

/-- one frame through the switch: at most two events, carrying at most the payload of a body frame -/
theorem onFrame_events (isClient : Bool) (s : DState) (f : Frame) :
    (onFrame isClient s f).2.length ≤ 2 ∧ bodyBytes (onFrame isClient s f).2 ≤ payloadLen f := by
  cases f with
  | heartbeat ch => simp [onFrame, bodyBytes]
  | header ch c sz props =>
    simp only [onFrame]
    split
    · simp [bodyBytes]
    · split <;> simp [bodyBytes]
  | body ch payload =>
    simp only [onFrame]
    split
    · simp [bodyBytes, payloadLen]
    · split <;> simp [bodyBytes, payloadLen]
  | method ch c m typ args =>
    simp only [onFrame]
    split
    · simp [bodyBytes]
    · split
      · simp [bodyBytes]
      · split
        · simp [bodyBytes]
        · split <;> simp [bodyBytes]

/-- C02 (AMQP, model): whatever the frames declare, the events of a half are at most one per four
    bytes of it and carry no more body bytes than it held, and the loop's fuel is never what ends it -/
theorem dissect_bounds (isClient : Bool) : ∀ (fuel : Nat) (s : DState) (st : St),
    4 * (dissect isClient fuel s st).1.length + bodyBytes (dissect isClient fuel s st).1 ≤ st.rem.length ∧
    (st.rem.length + 1 ≤ fuel → (dissect isClient fuel s st).2 ≠ .outOfFuel) := by
  intro fuel
  induction fuel with
  | zero => intro s st; simp [dissect, bodyBytes]
  | succ n ih =>
    intro s st
    simp only [dissect]
    have hF := readFrame_inv st _ rfl
    generalize readFrame st = res at hF
    cases res with
    | error f =>
      simp only [InvFrame] at hF
      dsimp only
      by_cases hp : f.err.isProtocol = true
      · rw [if_pos hp]
        have h7 := hF.2 hp
        have := ih s f.st
        exact ⟨by omega, fun hn => this.2 (by omega)⟩
      · rw [if_neg hp]
        exact ⟨by simp [bodyBytes], fun _ => hF.1⟩
    | ok p =>
      obtain ⟨frame, st'⟩ := p
      simp only [InvFrame] at hF
      dsimp only
      have hO := onFrame_events isClient s frame
      generalize onFrame isClient s frame = o at hO
      obtain ⟨s', evs⟩ := o
      dsimp only at hO ⊢
      have := ih s' st'
      generalize dissect isClient n s' st' = d at this
      obtain ⟨rest, e⟩ := d
      dsimp only at this ⊢
      have hpl : payloadLen frame + st'.rem.length + 8 ≤ st.rem.length := by
        cases frame with
        | body ch b => have := hF.2 ch b rfl; simp only [payloadLen]; omega
        | heartbeat ch => simp only [payloadLen]; omega
        | header ch c sz props => simp only [payloadLen]; omega
        | method ch c m typ args => simp only [payloadLen]; omega
      refine ⟨?_, fun hn => this.2 (by omega)⟩
      rw [List.length_append, bodyBytes_append]
      omega

theorem c02_amqp_events_le_bytes (isClient : Bool) (bytes : Bytes) (tail : Tail) :
    4 * (dissectAll isClient bytes tail).1.length ≤ bytes.length := by
  have := (dissect_bounds isClient (bytes.length + 2) {} { rem := bytes, tail }).1
  simp only [dissectAll]
  simp only at this
  omega

theorem c02_amqp_bodies_le_bytes (isClient : Bool) (bytes : Bytes) (tail : Tail) :
    bodyBytes (dissectAll isClient bytes tail).1 ≤ bytes.length := by
  have := (dissect_bounds isClient (bytes.length + 2) {} { rem := bytes, tail }).1
  simp only [dissectAll]
  simp only at this
  omega

/-- the fuel of the model never decides: neither the loop's nor that of the nested readers -/
theorem c02_amqp_dissect_total (isClient : Bool) (bytes : Bytes) (tail : Tail) :
    (dissectAll isClient bytes tail).2 ≠ .outOfFuel := by
  have := (dissect_bounds isClient (bytes.length + 2) {} { rem := bytes, tail }).2
  simp only [dissectAll]
  exact this (by simp only; omega)

/-- a field table or array nested to any depth: with more fuel than bytes, fuel is not what fails -/
theorem c02_amqp_fuel_suffices (fuel : Nat) (st : St) (f : Fail) (hn : st.rem.length + 1 ≤ fuel)
    (h : readField fuel st = .error f) : f.err ≠ .outOfFuel := by
  have := (fields_inv fuel).1 st _ h
  exact this.2 hn

/-- every frame read after which the loop goes on consumed at least the 7-byte header -/
theorem c02_amqp_readFrame_progress (st : St) :
    (∀ f st', readFrame st = .ok (f, st') → st'.rem.length + 8 ≤ st.rem.length) ∧
    (∀ e, readFrame st = .error e → e.err.isProtocol = true → e.st.rem.length + 7 ≤ st.rem.length) := by
  refine ⟨fun f st' h => ?_, fun e h hp => ?_⟩
  · exact (readFrame_inv st _ h).1
  · exact (readFrame_inv st _ h).2 hp

/-- not vacuous: a publish with a two-byte body read from 50 bytes: events are reported, bounded as stated -/
example :
    let bytes : Bytes := [1,0,1,0,0,0,9,0,60,0,40,0,0,1,101,1,107,0,206, 2,0,1,0,0,0,14,0,60,0,0,0,0,0,0,0,0,0,2,0,0,206, 3,0,1,0,0,0,2,104,105,206]
    (dissectAll true bytes .eof).1.length = 2 ∧ bodyBytes (dissectAll true bytes .eof).1 = 2 := by
  decide

end KsVerif.Proofs.C02Amqp
