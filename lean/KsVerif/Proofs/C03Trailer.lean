import KsVerif.Proofs.C03

/-!
# C03: chunked bodies with trailer fields

The wire model reads the trailer part of a chunked body (`parseChunks` skips to the empty line; `chunkTrailers`
returns the fields, which `parseRequest` / `parseResponse` add to the header fields, as the handlers do since
b67c635).  `chunksT` writes a chunked body followed by trailer fields; for every body, every list of well-formed
trailer fields and whatever follows, the body is read back exactly, reading resumes right after the trailer part,
and the trailer fields read are exactly those written.
-/

namespace KsVerif.Proofs.C03Trailer
open KsVerif KsVerif.Http KsVerif.Http.Wire KsVerif.Http.Spec KsVerif.Proofs.C03

/-- a chunked body (chunks of at most 7 bytes, as `chunksOf` cuts them) followed by the trailer fields -/
def chunksT : Nat → Bytes → List (Bytes × Bytes) → Bytes
  | 0, _, _ => []
  | fuel + 1, b, tr =>
    if b.isEmpty then bytesOfString "0" ++ crlf ++ encHeaders tr ++ crlf
    else
      let n := min 7 b.length
      hex n ++ crlf ++ b.take n ++ crlf ++ chunksT fuel (b.drop n) tr

theorem c03_chunked_trailers_enc : ∀ (fuel : Nat) (b : Bytes), b.length < fuel →
    ∀ (tr : List (Bytes × Bytes)), (∀ h ∈ tr, wfHeader h) → ∀ (rest : Bytes) (pf : Nat), b.length < pf →
    parseChunks pf (chunksT fuel b tr ++ rest) = some (b, rest) ∧
    chunkTrailers pf (chunksT fuel b tr ++ rest) = tr
  | 0, _, h, _, _, _, _, _ => by omega
  | fuel + 1, b, hf, tr, htr, rest, pf, hpf => by
    cases pf with
    | zero => omega
    | succ pf' =>
      by_cases hb : b = []
      · subst hb
        have h1 := takeLine_exact (bytesOfString "0") (encHeaders tr ++ crlf ++ rest) (by decide)
        have h2 := parseHeaders_enc tr htr rest ((encHeaders tr ++ crlf ++ rest).length + 1)
          (by have := encHeaders_len tr; simp only [List.length_append]; omega)
        have hform : chunksT (fuel + 1) [] tr ++ rest = bytesOfString "0" ++ [13, 10] ++ (encHeaders tr ++ crlf ++ rest) := by
          simp [chunksT, crlf, List.append_assoc]
        have h0 : hexNat? ((bytesOfString "0").takeWhile (· != 59)) = some 0 := by rfl
        rw [hform]
        constructor
        · simp only [parseChunks, h1, h0, h2, Option.map_some]
        · simp only [chunkTrailers, h1, h0, h2, Option.map_some, Option.getD_some]
      · have hne : b.isEmpty = false := by cases b <;> simp_all
        have hlen : 0 < b.length := by cases b <;> simp_all
        let n := min 7 b.length
        have hn7 : n ≤ 7 := Nat.min_le_left _ _
        have hnb : n ≤ b.length := Nat.min_le_right _ _
        have hn0 : 0 < n := by simp only [n]; omega
        have hline := takeLine_exact (hex n) (b.take n ++ crlf ++ chunksT fuel (b.drop n) tr ++ rest) (by
          rw [hex_small n hn7]; intro x hx; simp at hx; subst hx
          have : n = 1 ∨ n = 2 ∨ n = 3 ∨ n = 4 ∨ n = 5 ∨ n = 6 ∨ n = 7 := by omega
          rcases this with h | h | h | h | h | h | h <;> rw [h] <;> decide)
        have ih := c03_chunked_trailers_enc fuel (b.drop n) (by simp only [List.length_drop]; omega) tr htr rest pf'
          (by simp only [List.length_drop]; omega)
        have hform : chunksT (fuel + 1) b tr ++ rest =
            hex n ++ [13, 10] ++ (b.take n ++ crlf ++ chunksT fuel (b.drop n) tr ++ rest) := by
          simp [chunksT, hne, n, crlf, List.append_assoc]
        rw [hform]
        have hlen2 : ¬ ((b.take n ++ crlf ++ chunksT fuel (b.drop n) tr ++ rest).length < n + 2) := by
          simp only [List.length_append, List.length_take, crlf, List.length_cons, List.length_nil]; omega
        have htake : (b.take n ++ crlf ++ chunksT fuel (b.drop n) tr ++ rest).take n = b.take n := by
          simp [List.append_assoc, List.take_append_of_le_length, List.length_take, Nat.min_eq_left hnb]
        have hdrop : (b.take n ++ crlf ++ chunksT fuel (b.drop n) tr ++ rest).drop n =
            13 :: 10 :: (chunksT fuel (b.drop n) tr ++ rest) := by
          simp [List.append_assoc, crlf, List.drop_append, List.length_take, Nat.min_eq_left hnb]
        constructor
        · simp only [parseChunks, hline]
          rw [hex_small n hn7, hexNat_small n hn7]
          cases hnn : n with
          | zero => omega
          | succ m =>
            simp only
            rw [← hnn]
            simp only [hlen2, if_false]
            rw [htake, hdrop]
            simp only [ih.1, Option.map_some, List.take_append_drop]
        · simp only [chunkTrailers, hline]
          rw [hex_small n hn7, hexNat_small n hn7]
          cases hnn : n with
          | zero => omega
          | succ m =>
            simp only
            rw [← hnn]
            simp only [hlen2, if_false]
            rw [hdrop]
            exact ih.2

/-- not vacuous: a 9-byte body in two chunks with two trailer fields, one of them with an empty value -/
example : ∃ bs, chunksT 10 [1, 2, 3, 4, 5, 6, 7, 8, 9] [(bytesOfString "X-Sum", bytesOfString "abc"), (bytesOfString "Grpc-Message", [])] = bs ∧
    chunkTrailers 12 (bs ++ [71]) = [(bytesOfString "X-Sum", bytesOfString "abc"), (bytesOfString "Grpc-Message", [])] :=
  ⟨_, rfl, by decide⟩

end KsVerif.Proofs.C03Trailer
