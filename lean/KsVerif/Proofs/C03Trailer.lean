import KsVerif.Proofs.C03

/-!
# C03: chunked bodies with trailer fields

The wire model reads the trailer part of a chunked body (`parseChunks` skips to the empty line; `chunkTrailers`
returns the fields, which `parseRequest` / `parseResponse` add to the header fields, as the handlers do since
b67c635).  `chunksT` writes a chunked body followed by trailer fields; for every body, every list of well-formed
trailer fields and whatever follows, the body is read back exactly, reading resumes right after the trailer part,
and the trailer fields read are exactly those written.
-/

namespace KsVerif.Proofs.C03Trailer
open KsVerif KsVerif.Http KsVerif.Http.Wire KsVerif.Http.Spec KsVerif.Proofs.C03

/-- a chunked body (chunks of at most 7 bytes, as `chunksOf` cuts them) followed by the trailer fields -/
def chunksT : Nat → Bytes → List (Bytes × Bytes) → Bytes
  | 0, _, _ => []
  | fuel + 1, b, tr =>
    if b.isEmpty then bytesOfString "0" ++ crlf ++ encHeaders tr ++ crlf
    else
      let n := min 7 b.length
      hex n ++ crlf ++ b.take n ++ crlf ++ chunksT fuel (b.drop n) tr

theorem c03_chunked_trailers_enc : ∀ (fuel : Nat) (b : Bytes), b.length < fuel →
    ∀ (tr : List (Bytes × Bytes)), (∀ h ∈ tr, wfHeader h) → ∀ (rest : Bytes) (pf : Nat), b.length < pf →
    parseChunks pf (chunksT fuel b tr ++ rest) = some (b, rest) ∧
    chunkTrailers pf (chunksT fuel b tr ++ rest) = tr
  | 0, _, h, _, _, _, _, _ => by omega
  | fuel + 1, b, hf, tr, htr, rest, pf, hpf => by
    cases pf with
    | zero => omega
    | succ pf' =>
      by_cases hb : b = []
      · subst hb
        have h1 := takeLine_exact (bytesOfString "0") (encHeaders tr ++ crlf ++ rest) (by decide)
        have h2 := parseHeaders_enc tr htr rest ((encHeaders tr ++ crlf ++ rest).length + 1)
          (by have := encHeaders_len tr; simp only [List.length_append]; omega)
        have hform : chunksT (fuel + 1) [] tr ++ rest = bytesOfString "0" ++ [13, 10] ++ (encHeaders tr ++ crlf ++ rest) := by
          simp [chunksT, crlf, List.append_assoc]
        have h0 : hexNat? ((bytesOfString "0").takeWhile (· != 59)) = some 0 := by rfl
        rw [hform]
        constructor
        · simp only [parseChunks, h1, h0, h2, Option.map_some]
        · simp only [chunkTrailers, h1, h0, h2, Option.map_some, Option.getD_some]
      · have hne : b.isEmpty = false := by cases b <;> simp_all
        have hlen : 0 < b.length := by cases b <;> simp_all
        let n := min 7 b.length
        have hn7 : n ≤ 7 := Nat.min_le_left _ _
        have hnb : n ≤ b.length := Nat.min_le_right _ _
        have hn0 : 0 < n := by simp only [n]; omega
        have hline := takeLine_exact (hex n) (b.take n ++ crlf ++ chunksT fuel (b.drop n) tr ++ rest) (by
          rw [hex_small n hn7]; intro x hx; simp at hx; subst hx
          have : n = 1 ∨ n = 2 ∨ n = 3 ∨ n = 4 ∨ n = 5 ∨ n = 6 ∨ n = 7 := by omega
          rcases this with h | h | h | h | h | h | h <;> rw [h] <;> decide)
        have ih := c03_chunked_trailers_enc fuel (b.drop n) (by simp only [List.length_drop]; omega) tr htr rest pf'
          (by simp only [List.length_drop]; omega)
        have hform : chunksT (fuel + 1) b tr ++ rest =
            hex n ++ [13, 10] ++ (b.take n ++ crlf ++ chunksT fuel (b.drop n) tr ++ rest) := by
          simp [chunksT, hne, n, crlf, List.append_assoc]
        rw [hform]
        have hlen2 : ¬ ((b.take n ++ crlf ++ chunksT fuel (b.drop n) tr ++ rest).length < n + 2) := by
          simp only [List.length_append, List.length_take, crlf, List.length_cons, List.length_nil]; omega
        have htake : (b.take n ++ crlf ++ chunksT fuel (b.drop n) tr ++ rest).take n = b.take n := by
          simp [List.append_assoc, List.take_append_of_le_length, List.length_take, Nat.min_eq_left hnb]
        have hdrop : (b.take n ++ crlf ++ chunksT fuel (b.drop n) tr ++ rest).drop n =
            13 :: 10 :: (chunksT fuel (b.drop n) tr ++ rest) := by
          simp [List.append_assoc, crlf, List.drop_append, List.length_take, Nat.min_eq_left hnb]
        constructor
        · simp only [parseChunks, hline]
          rw [hex_small n hn7, hexNat_small n hn7]
          cases hnn : n with
          | zero => omega
          | succ m =>
            simp only
            rw [← hnn]
            simp only [hlen2, if_false]
            rw [htake, hdrop]
            simp only [ih.1, Option.map_some, List.take_append_drop]
        · simp only [chunkTrailers, hline]
          rw [hex_small n hn7, hexNat_small n hn7]
          cases hnn : n with
          | zero => omega
          | succ m =>
            simp only
            rw [← hnn]
            simp only [hlen2, if_false]
            rw [hdrop]
            exact ih.2

/-- not vacuous: a 9-byte body in two chunks with two trailer fields, one of them with an empty value -/
example : ∃ bs, chunksT 10 [1, 2, 3, 4, 5, 6, 7, 8, 9] [(bytesOfString "X-Sum", bytesOfString "abc"), (bytesOfString "Grpc-Message", [])] = bs ∧
    chunkTrailers 12 (bs ++ [71]) = [(bytesOfString "X-Sum", bytesOfString "abc"), (bytesOfString "Grpc-Message", [])] :=
  ⟨_, rfl, by decide⟩

theorem chunksT_len : ∀ (fuel : Nat) (b : Bytes) (tr : List (Bytes × Bytes)), b.length < fuel → b.length ≤ (chunksT fuel b tr).length
  | 0, _, _, h => by omega
  | fuel + 1, b, tr, h => by
    by_cases hb : b = []
    · subst hb; simp
    · have hne : b.isEmpty = false := by cases b <;> simp_all
      have hpos : 0 < b.length := by cases b <;> simp_all
      have ih := chunksT_len fuel (b.drop (min 7 b.length)) tr (by simp only [List.length_drop]; omega)
      simp only [chunksT, hne, Bool.false_eq_true, if_false, List.length_append, List.length_take, List.length_drop] at ih ⊢
      omega

/-- a chunked request as it travels with trailer fields: request line, header fields, `Transfer-Encoding: chunked`,
    the chunks, the last chunk, the trailer fields, the empty line -/
def encReqT (m : Msg) (tr : List (Bytes × Bytes)) : Bytes :=
  (m.method ++ 32 :: (m.target ++ 32 :: (bytesOfString "HTTP/1." ++ dec m.minor))) ++ [13, 10] ++
    (encHeaders (m.headers ++ [(bytesOfString "Transfer-Encoding", bytesOfString "chunked")]) ++ crlf ++
      chunksT (m.body.length + 1) m.body tr)

/-- **Whole requests with trailer fields round-trip**: a well-formed chunked request followed by any well-formed
    trailer fields and by anything else is read back as that request with the trailer fields added to its header
    fields (what the handlers report since b67c635), and reading resumes right behind the trailer part. -/
theorem c03_request_trailers_enc (m : Msg) (hw : WfReq m) (hch : m.framing = .chunked)
    (tr : List (Bytes × Bytes)) (htr : ∀ h ∈ tr, wfHeader h) (rest : Bytes) :
    parseRequest (encReqT m tr ++ rest) =
      some ({ (parsedOf m) with headers := (parsedOf m).headers ++ tr }, rest) := by
  obtain ⟨hreq, ⟨hm32, hm13⟩, ⟨ht32, ht13⟩, hminor, hhs, hnf, hfr, hst⟩ := hw
  let ver := bytesOfString "HTTP/1." ++ dec m.minor
  have hver : versionMinor? ver = some m.minor := by
    rcases hminor with h | h <;> simp only [ver, h] <;> rfl
  have hver32 : noByte 32 ver := by rcases hminor with h | h <;> simp only [ver, h] <;> unfold noByte <;> decide
  have hver13 : noByte 13 ver := by rcases hminor with h | h <;> simp only [ver, h] <;> unfold noByte <;> decide
  let line := m.method ++ 32 :: (m.target ++ 32 :: ver)
  have hline13 : ∀ b ∈ line, b ≠ 13 := by
    intro b hb
    simp only [line, List.mem_append, List.mem_cons] at hb
    rcases hb with hb | rfl | hb | rfl | hb
    · exact hm13 b hb
    · decide
    · exact ht13 b hb
    · decide
    · exact hver13 b hb
  have hsplit : splitOnByte 32 line = [m.method, m.target, ver] := by
    simp only [line]
    rw [splitOnByte_cons 32 _ _ hm32, splitOnByte_cons 32 _ _ ht32, splitOnByte_single 32 _ hver32]
  let allHs := m.headers ++ [(bytesOfString "Transfer-Encoding", bytesOfString "chunked")]
  have hallwf : ∀ h ∈ allHs, wfHeader h := by
    intro h hh
    simp only [allHs, List.mem_append, List.mem_singleton] at hh
    rcases hh with hh | hh
    · exact hhs h hh
    · subst hh; exact te_wf
  let body := chunksT (m.body.length + 1) m.body tr
  have hform : encReqT m tr ++ rest = line ++ [13, 10] ++ (encHeaders allHs ++ crlf ++ (body ++ rest)) := by
    simp [encReqT, line, ver, allHs, body, List.append_assoc]
  have htl := takeLine_exact line (encHeaders allHs ++ crlf ++ (body ++ rest)) hline13
  have hph := parseHeaders_enc allHs hallwf (body ++ rest) ((encHeaders allHs ++ crlf ++ (body ++ rest)).length + 1)
    (by have := encHeaders_len allHs
        simp only [List.length_append]; omega)
  have hte : headerValue allHs "transfer-encoding" = some (bytesOfString "chunked") := by
    simp only [allHs]
    rw [headerValue_append _ _ _ (fun x hx => (hnf x hx).2)]; rfl
  have hlow : (lower (bytesOfString "chunked") == bytesOfString "chunked") = true := by decide
  have hfrm : framingOf true 0 allHs = .chunked := by
    simp only [framingOf, Bool.not_true, Bool.false_and, Bool.false_eq_true, if_false, hte, hlow, if_true]
  have hlen := chunksT_len (m.body.length + 1) m.body tr (by omega)
  have hb := c03_chunked_trailers_enc (m.body.length + 1) m.body (by omega) tr htr rest ((body ++ rest).length + 1)
    (by simp only [body, List.length_append]; omega)
  rw [hform]
  simp only [parseRequest, htl, hsplit, hver, hph, hfrm, parseBody, trailersOf, body, hb.1, hb.2, Option.map_some]
  simp [parsedOf, hreq, hst, hch, allHs]

/-- not vacuous: the chunked POST of `exReq` with two trailer fields -/
example : ∃ r, parseRequest (encReqT exReq [(bytesOfString "X-Sum", bytesOfString "abc"), (bytesOfString "Grpc-Message", [])] ++ [71, 69, 84]) = some r ∧
    r.1.headers.length = 5 ∧ r.2 = [71, 69, 84] :=
  ⟨_, c03_request_trailers_enc exReq (by
      refine ⟨rfl, ⟨by unfold noByte; decide, by unfold noByte; decide⟩, ⟨by unfold noByte; decide, by unfold noByte; decide⟩,
        Or.inr rfl, ?_, ?_, Or.inr (Or.inl rfl), rfl⟩
      · intro h hh
        have : h = (bytesOfString "Host", bytesOfString "h") ∨ h = (bytesOfString "X-Q", bytesOfString "a b") := by
          simpa [exReq] using hh
        rcases this with rfl | rfl <;> exact ⟨by unfold noByte; decide, by unfold noByte; decide, by unfold noByte; decide, by decide⟩
      · intro h hh
        have : h = (bytesOfString "Host", bytesOfString "h") ∨ h = (bytesOfString "X-Q", bytesOfString "a b") := by
          simpa [exReq] using hh
        rcases this with rfl | rfl <;> exact ⟨by decide, by decide⟩) rfl _ (by
      intro h hh
      have : h = (bytesOfString "X-Sum", bytesOfString "abc") ∨ h = (bytesOfString "Grpc-Message", []) := by simpa using hh
      rcases this with rfl | rfl <;> exact ⟨by unfold noByte; decide, by unfold noByte; decide, by unfold noByte; decide, by decide⟩) _,
    by simp [parsedOf, exReq], rfl⟩

/-- a chunked response as it travels with trailer fields -/
def encRespT (m : Msg) (tr : List (Bytes × Bytes)) : Bytes :=
  ((bytesOfString "HTTP/1." ++ dec m.minor) ++ 32 :: (dec m.status ++ 32 :: m.reason)) ++ [13, 10] ++
    (encHeaders (m.headers ++ [(bytesOfString "Transfer-Encoding", bytesOfString "chunked")]) ++ crlf ++
      chunksT (m.body.length + 1) m.body tr)

/-- **Whole responses with trailer fields round-trip** (any status that may carry a body): read back as that
    response with the trailer fields added to its header fields, reading resumes right behind the trailer part. -/
theorem c03_response_trailers_enc (m : Msg) (rest : Bytes) (hw : WfResp m rest) (hch : m.framing = .chunked)
    (hnb : noBodyStatus m.status = false) (tr : List (Bytes × Bytes)) (htr : ∀ h ∈ tr, wfHeader h) :
    parseResponse (encRespT m tr ++ rest) =
      some ({ (parsedOf m) with headers := (parsedOf m).headers ++ tr }, rest) := by
  obtain ⟨hresp, hr13, hminor, hhs, hnf, hfr, ⟨hmeth, htarg⟩⟩ := hw
  let ver := bytesOfString "HTTP/1." ++ dec m.minor
  have hver : versionMinor? ver = some m.minor := by
    rcases hminor with h | h <;> simp only [ver, h] <;> rfl
  have hver32 : noByte 32 ver := by rcases hminor with h | h <;> simp only [ver, h] <;> unfold noByte <;> decide
  have hver13 : noByte 13 ver := by rcases hminor with h | h <;> simp only [ver, h] <;> unfold noByte <;> decide
  let line := ver ++ 32 :: (dec m.status ++ 32 :: m.reason)
  have hline13 : ∀ b ∈ line, b ≠ 13 := by
    intro b hb
    simp only [line, List.mem_append, List.mem_cons] at hb
    rcases hb with hb | rfl | hb | rfl | hb
    · exact hver13 b hb
    · decide
    · exact dec_noByte m.status 13 (Or.inl (by decide)) b hb
    · decide
    · exact hr13 b hb
  have hsplit : ∃ more, splitOnByte 32 line = ver :: dec m.status :: more := by
    simp only [line]
    rw [splitOnByte_cons 32 _ _ hver32, splitOnByte_cons 32 _ _ (dec_noByte m.status 32 (Or.inl (by decide)))]
    exact ⟨_, rfl⟩
  obtain ⟨more, hsplit⟩ := hsplit
  let allHs := m.headers ++ [(bytesOfString "Transfer-Encoding", bytesOfString "chunked")]
  have hallwf : ∀ h ∈ allHs, wfHeader h := by
    intro h hh
    simp only [allHs, List.mem_append, List.mem_singleton] at hh
    rcases hh with hh | hh
    · exact hhs h hh
    · subst hh; exact te_wf
  let body := chunksT (m.body.length + 1) m.body tr
  have hform : encRespT m tr ++ rest = line ++ [13, 10] ++ (encHeaders allHs ++ crlf ++ (body ++ rest)) := by
    simp [encRespT, line, ver, allHs, body, List.append_assoc]
  have htl := takeLine_exact line (encHeaders allHs ++ crlf ++ (body ++ rest)) hline13
  have hph := parseHeaders_enc allHs hallwf (body ++ rest) ((encHeaders allHs ++ crlf ++ (body ++ rest)).length + 1)
    (by have := encHeaders_len allHs
        simp only [List.length_append]; omega)
  have hte : headerValue allHs "transfer-encoding" = some (bytesOfString "chunked") := by
    simp only [allHs]
    rw [headerValue_append _ _ _ (fun x hx => (hnf x hx).2)]; rfl
  have hlow : (lower (bytesOfString "chunked") == bytesOfString "chunked") = true := by decide
  have hnb' : (m.status / 100 == 1 || m.status == 204 || m.status == 304) = false := hnb
  have hfrm : framingOf false m.status allHs = .chunked := by
    simp only [framingOf, Bool.not_false, Bool.true_and, hnb', Bool.false_eq_true, if_false, hte, hlow, if_true]
  have hlen := chunksT_len (m.body.length + 1) m.body tr (by omega)
  have hb := c03_chunked_trailers_enc (m.body.length + 1) m.body (by omega) tr htr rest ((body ++ rest).length + 1)
    (by simp only [body, List.length_append]; omega)
  rw [hform]
  simp only [parseResponse, htl, hsplit, hver, decNat_dec, hph, hfrm, parseBody, trailersOf, body, hb.1, hb.2, Option.map_some]
  simp [parsedOf, hresp, hmeth, htarg, hch, allHs]

/-! ### a whole client half in which some requests travel with trailer fields -/

/-- a request as sent: plainly (the reference encoder), or chunked with trailer fields -/
structure SentReq where
  m : Msg
  tr : Option (List (Bytes × Bytes))

def SentReq.enc (s : SentReq) : Bytes :=
  match s.tr with
  | none => encMsgCore s.m
  | some tr => encReqT s.m tr

/-- what the dissector must report for it: the trailer fields among the header fields -/
def SentReq.parsed (s : SentReq) : Message :=
  match s.tr with
  | none => parsedOf s.m
  | some tr => { (parsedOf s.m) with headers := (parsedOf s.m).headers ++ tr }

def SentReq.Wf (s : SentReq) : Prop :=
  WfReq s.m ∧ match s.tr with
    | none => True
    | some tr => s.m.framing = .chunked ∧ ∀ h ∈ tr, wfHeader h

theorem SentReq.enc_read (s : SentReq) (hw : s.Wf) (rest : Bytes) :
    parseRequest (s.enc ++ rest) = some (s.parsed, rest) := by
  obtain ⟨m, tr⟩ := s
  cases tr with
  | none => exact c03_request_enc m hw.1 rest
  | some tr => exact c03_request_trailers_enc m hw.1 hw.2.1 tr hw.2.2 rest

theorem SentReq.enc_ne_nil (s : SentReq) : s.enc.isEmpty = false := by
  obtain ⟨m, tr⟩ := s
  cases tr with
  | none => exact encMsg_ne_nil m
  | some tr => simp [SentReq.enc, encReqT]

/-- **A whole client half with trailer fields**: every pipelined sequence of well-formed requests, any of them
    travelling chunked with trailer fields, is read back as exactly those requests in order, each with its own
    trailer fields among its header fields - none dropped, none attributed to a neighbour. -/
theorem c03_client_half_trailers : ∀ (ss : List SentReq), (∀ s ∈ ss, s.Wf) → ∀ fuel, ss.length < fuel →
    parseAll true fuel ((ss.map SentReq.enc).flatten) = ss.map SentReq.parsed
  | [], _, fuel, hf => by
    cases fuel with
    | zero => omega
    | succ f => simp [parseAll]
  | s :: ss, hw, fuel, hf => by
    cases fuel with
    | zero => omega
    | succ f =>
      have h1 := SentReq.enc_read s (hw s (by simp)) ((ss.map SentReq.enc).flatten)
      have ih := c03_client_half_trailers ss (fun x hx => hw x (by simp [hx])) f (by simp only [List.length_cons] at hf; omega)
      have hne : (s.enc ++ (ss.map SentReq.enc).flatten).isEmpty = false := by
        have := SentReq.enc_ne_nil s
        cases h : s.enc <;> simp_all
      simp only [List.map_cons, List.flatten_cons, parseAll, hne, Bool.false_eq_true, if_false, if_true, h1, ih]

/-! ### a whole server half in which some responses travel with trailer fields -/

structure SentResp where
  m : Msg
  tr : Option (List (Bytes × Bytes))

def SentResp.enc (s : SentResp) : Bytes :=
  match s.tr with
  | none => encMsgCore s.m
  | some tr => encRespT s.m tr

def SentResp.parsed (s : SentResp) : Message :=
  match s.tr with
  | none => parsedOf s.m
  | some tr => { (parsedOf s.m) with headers := (parsedOf s.m).headers ++ tr }

/-- well-formed, delimited by length or chunks (a body delimited by the end of the stream can only be the last) -/
def SentResp.Wf (s : SentResp) : Prop :=
  (∀ rest, WfResp s.m rest) ∧ s.m.framing ≠ .close ∧ match s.tr with
    | none => True
    | some tr => s.m.framing = .chunked ∧ noBodyStatus s.m.status = false ∧ ∀ h ∈ tr, wfHeader h

theorem SentResp.enc_read (s : SentResp) (hw : s.Wf) (rest : Bytes) :
    parseResponse (s.enc ++ rest) = some (s.parsed, rest) := by
  obtain ⟨m, tr⟩ := s
  cases tr with
  | none =>
    have h1 := c03_response_enc m rest (hw.1 rest)
    have hc : m.framing ≠ .close := hw.2.1
    simp only [hc, if_false] at h1
    exact h1
  | some tr => exact c03_response_trailers_enc m rest (hw.1 rest) hw.2.2.1 hw.2.2.2.1 tr hw.2.2.2.2

theorem SentResp.enc_ne_nil (s : SentResp) : s.enc.isEmpty = false := by
  obtain ⟨m, tr⟩ := s
  cases tr with
  | none => exact encMsg_ne_nil m
  | some tr => simp [SentResp.enc, encRespT]

/-- **A whole server half with trailer fields**: read back response by response, each with its own trailer fields
    among its header fields. -/
theorem c03_server_half_trailers : ∀ (ss : List SentResp), (∀ s ∈ ss, s.Wf) → ∀ fuel, ss.length < fuel →
    parseAll false fuel ((ss.map SentResp.enc).flatten) = ss.map SentResp.parsed
  | [], _, fuel, hf => by
    cases fuel with
    | zero => omega
    | succ f => simp [parseAll]
  | s :: ss, hw, fuel, hf => by
    cases fuel with
    | zero => omega
    | succ f =>
      have h1 := SentResp.enc_read s (hw s (by simp)) ((ss.map SentResp.enc).flatten)
      have ih := c03_server_half_trailers ss (fun x hx => hw x (by simp [hx])) f (by simp only [List.length_cons] at hf; omega)
      have hne : (s.enc ++ (ss.map SentResp.enc).flatten).isEmpty = false := by
        have := SentResp.enc_ne_nil s
        cases h : s.enc <;> simp_all
      simp only [List.map_cons, List.flatten_cons, parseAll, hne, Bool.false_eq_true, if_false, h1, ih]

/-- **A whole conversation with trailer fields**: the items paired from the two halves (k-th request with k-th
    response) are exactly the exchanges sent, every message with its own trailer fields among its header fields. -/
theorem c03_conversation_trailers (qs : List SentReq) (rs : List SentResp)
    (hq : ∀ s ∈ qs, s.Wf) (hr : ∀ s ∈ rs, s.Wf) :
    (parseAll true (qs.length + 1) ((qs.map SentReq.enc).flatten)).zip
      (parseAll false (rs.length + 1) ((rs.map SentResp.enc).flatten)) =
    (qs.map SentReq.parsed).zip (rs.map SentResp.parsed) := by
  rw [c03_client_half_trailers qs hq _ (by omega), c03_server_half_trailers rs hr _ (by omega)]

end KsVerif.Proofs.C03Trailer
