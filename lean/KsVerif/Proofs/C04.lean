/-
  C04 — HTTP/2 and gRPC streams are reassembled and reported exactly.

  Frame parsing and HPACK (golang.org/x/net/http2) are library code: the model starts from
  decoded frames, and the harness encodes the same abstract frames with that library (one
  HPACK encoder per half, CONTINUATION splits, interleaved streams, non-message frames).
  Theorems over the assembler model:
  * `c04_stream_isolation` — for every interleaving of any number of streams, the messages
    assembled for a stream are those assembled from that stream's own frames alone: no field
    or data byte of one stream ends up in another's message, nothing depends on what the other
    streams do in between;
  * `c04_cap` — the data kept for a stream never exceeds 1 MiB, whatever arrives;
  * `c04_no_message_before_end` — frames without END_STREAM assemble nothing;
  * `c04_grpc_iff` — an item is gRPC exactly when one of its two messages carries a gRPC
    content type or a grpc-status field.
-/
import KsVerif.Http.H2

namespace KsVerif.Proofs.C04
open KsVerif.Http KsVerif.Http.H2

def onSid (sid : Nat) (g : Fragment) : Bool := g.sid == sid

theorem filter_map_other (frags : List Fragment) (sid s' : Nat) (h : s' ≠ sid) (upd : Fragment → Fragment)
    (hupd : ∀ g, (upd g).sid = g.sid) :
    (frags.map fun g => if g.sid == s' then upd g else g).filter (onSid sid) = frags.filter (onSid sid) := by
  induction frags with
  | nil => rfl
  | cons g t ih =>
    simp only [List.map_cons, List.filter_cons]
    by_cases hg : (g.sid == s') = true
    · have hs : g.sid = s' := by simpa using hg
      have : onSid sid (upd g) = false := by simp [onSid, hupd, hs, h]
      have h2 : onSid sid g = false := by simp [onSid, hs, h]
      simp only [hg, if_true, this, h2, Bool.false_eq_true, if_false, ih]
    · have hg' : (g.sid == s') = false := by simpa using hg
      simp only [hg', Bool.false_eq_true, if_false, ih]

/-- a frame of another stream does not touch the fragments of `sid` -/
theorem appendFrame_other (frags : List Fragment) (f : Frame) (sid : Nat) (h : frameSid f ≠ sid) :
    (appendFrame frags f).filter (onSid sid) = frags.filter (onSid sid) := by
  cases f with
  | other s => rfl
  | headers s fields e =>
    simp only [frameSid] at h
    simp only [appendFrame]
    split
    · exact filter_map_other frags sid s h _ (fun g => rfl)
    · simp [List.filter_append, onSid, h]
  | data s p e =>
    simp only [frameSid] at h
    simp only [appendFrame]
    split
    · exact filter_map_other frags sid s h _ (fun g => rfl)
    · simp [List.filter_append, onSid, h]

theorem any_filter_same (frags : List Fragment) (sid : Nat) :
    (frags.filter (onSid sid)).any (·.sid == sid) = frags.any (·.sid == sid) := by
  induction frags with
  | nil => rfl
  | cons g t ih =>
    simp only [List.filter_cons, onSid]
    by_cases hg : (g.sid == sid) = true
    · simp [hg]
    · simp [hg, ih]

theorem map_filter_same (frags : List Fragment) (sid : Nat) (upd : Fragment → Fragment) (hupd : ∀ g, (upd g).sid = g.sid) :
    (frags.map fun g => if g.sid == sid then upd g else g).filter (onSid sid)
      = (frags.filter (onSid sid)).map fun g => if g.sid == sid then upd g else g := by
  induction frags with
  | nil => rfl
  | cons g t ih =>
    simp only [List.map_cons, List.filter_cons, onSid]
    by_cases hg : (g.sid == sid) = true
    · have : ((upd g).sid == sid) = true := by rw [hupd]; exact hg
      simp only [hg, if_true, this, List.map_cons, ih, onSid]
    · simp only [hg, if_false, Bool.false_eq_true, ih, onSid]

/-- a frame of the stream acts on its fragments alone -/
theorem appendFrame_same (frags : List Fragment) (f : Frame) (sid : Nat) (h : frameSid f = sid) :
    (appendFrame frags f).filter (onSid sid) = appendFrame (frags.filter (onSid sid)) f := by
  cases f with
  | other s => rfl
  | headers s fields e =>
    simp only [frameSid] at h; subst h
    simp only [appendFrame, any_filter_same]
    split
    · exact map_filter_same frags s _ (fun g => rfl)
    · simp [List.filter_append, onSid]
  | data s p e =>
    simp only [frameSid] at h; subst h
    simp only [appendFrame, any_filter_same]
    split
    · exact map_filter_same frags s _ (fun g => rfl)
    · simp [List.filter_append, onSid]

theorem find_filter_same (frags : List Fragment) (sid : Nat) :
    (frags.filter (onSid sid)).find? (·.sid == sid) = frags.find? (·.sid == sid) := by
  induction frags with
  | nil => rfl
  | cons g t ih =>
    simp only [List.filter_cons, onSid]
    by_cases hg : (g.sid == sid) = true
    · simp [hg]
    · simp [hg, ih]

theorem filter_ne_filter (frags : List Fragment) (sid s' : Nat) (h : s' ≠ sid) :
    (frags.filter (·.sid != s')).filter (onSid sid) = frags.filter (onSid sid) := by
  induction frags with
  | nil => rfl
  | cons g t ih =>
    simp only [List.filter_cons]
    by_cases hg : g.sid = s'
    · have h1 : (g.sid != s') = false := by simp [hg]
      have h2 : onSid sid g = false := by simp [onSid, hg, h]
      simp only [h1, Bool.false_eq_true, if_false, ih, h2]
    · have h1 : (g.sid != s') = true := by simp [hg]
      simp only [h1, if_true, List.filter_cons, ih]

theorem filter_same_empty (frags : List Fragment) (sid : Nat) :
    (frags.filter (·.sid != sid)).filter (onSid sid) = [] := by
  induction frags with
  | nil => rfl
  | cons g t ih =>
    simp only [List.filter_cons]
    by_cases hg : g.sid = sid
    · simp [hg, ih]
    · have h1 : (g.sid != sid) = true := by simp [hg]
      have h2 : onSid sid g = false := by simp [onSid, hg]
      simp only [h1, if_true, List.filter_cons, h2, Bool.false_eq_true, if_false, ih]

theorem filter_same_idem (frags : List Fragment) (sid : Nat) :
    ((frags.filter (onSid sid)).filter (·.sid != sid)) = [] := by
  induction frags with
  | nil => rfl
  | cons g t ih =>
    simp only [List.filter_cons, onSid]
    by_cases hg : (g.sid == sid) = true
    · have : (g.sid != sid) = false := by simp at hg; simp [hg]
      simp only [hg, if_true, List.filter_cons, this, Bool.false_eq_true, if_false, ih]
    · simp only [hg, Bool.false_eq_true, if_false, ih]

/-- **C04 (stream isolation).** For every interleaving of the frames of any number of
    streams: the messages assembled for stream `sid` are exactly the messages assembled from
    the frames of `sid` alone.  Nothing of another stream — header field, data byte, timing —
    can show up in them. -/
theorem c04_stream_isolation (sid : Nat) (fs : List Frame) : ∀ (frags : List Fragment),
    (assemble frags fs).filter (fun m => m.sid == sid)
      = assemble (frags.filter (onSid sid)) (fs.filter fun f => frameSid f == sid) := by
  induction fs with
  | nil => intro frags; simp [assemble]
  | cons f rest ih =>
    intro frags
    by_cases hs : frameSid f = sid
    · -- a frame of the stream itself
      have hf : (frameSid f == sid) = true := by simp [hs]
      simp only [List.filter_cons, hf, if_true, assemble]
      rw [← appendFrame_same frags f sid hs]
      by_cases he : isStreamEnd f = true
      · simp only [he, if_true, hs, find_filter_same]
        cases hfind : (appendFrame frags f).find? (·.sid == sid) with
        | none => simp only; exact ih _
        | some g =>
          simp only
          have hrest := ih ((appendFrame frags f).filter (·.sid != sid))
          rw [filter_same_empty] at hrest
          have hempty : ((appendFrame frags f).filter (onSid sid)).filter (·.sid != sid) = [] := filter_same_idem _ _
          rw [hempty]
          have hnil : ([] : List Fragment) = ([] : List Fragment).filter (onSid sid) := rfl
          split
          · simp only [List.filter_cons, beq_self_eq_true, if_true]
            rw [hrest]
          · split
            · split
              · simp only [List.filter_cons, beq_self_eq_true, if_true]
                rw [hrest]
              · exact hrest
            · exact hrest
      · simp only [he, Bool.false_eq_true, if_false]
        exact ih _
    · -- a frame of another stream
      have hf : (frameSid f == sid) = false := by simp [hs]
      simp only [List.filter_cons, hf, Bool.false_eq_true, if_false, assemble]
      by_cases he : isStreamEnd f = true
      · simp only [he, if_true]
        cases hfind : (appendFrame frags f).find? (·.sid == frameSid f) with
        | none =>
          simp only
          rw [ih, appendFrame_other frags f sid hs]
        | some g =>
          simp only
          have key : ((appendFrame frags f).filter (·.sid != frameSid f)).filter (onSid sid) = frags.filter (onSid sid) := by
            rw [filter_ne_filter _ sid (frameSid f) hs, appendFrame_other frags f sid hs]
          have hne : (frameSid f == sid) = false := hf
          split
          · simp only [List.filter_cons, hne, Bool.false_eq_true, if_false]
            rw [ih, key]
          · split
            · split
              · simp only [List.filter_cons, hne, Bool.false_eq_true, if_false]
                rw [ih, key]
              · rw [ih, key]
            · rw [ih, key]
      · simp only [he, Bool.false_eq_true, if_false]
        rw [ih, appendFrame_other frags f sid hs]

/-- the data kept for a stream never grows beyond the cap -/
theorem appendFrame_cap (frags : List Fragment) (f : Frame) (h : ∀ g ∈ frags, g.data.length ≤ maxData) :
    ∀ g ∈ appendFrame frags f, g.data.length ≤ maxData := by
  intro g hg
  cases f with
  | other s => exact h g hg
  | headers s fields e =>
    simp only [appendFrame] at hg
    split at hg
    · simp only [List.mem_map] at hg
      obtain ⟨g0, hg0, rfl⟩ := hg
      split <;> exact h g0 hg0
    · simp only [List.mem_append, List.mem_singleton] at hg
      rcases hg with hg | rfl
      · exact h g hg
      · simp [maxData]
  | data s p e =>
    simp only [appendFrame] at hg
    split at hg
    · simp only [List.mem_map] at hg
      obtain ⟨g0, hg0, rfl⟩ := hg
      have := h g0 hg0
      split
      · simp only [List.length_append, List.length_take]; omega
      · exact this
    · simp only [List.mem_append, List.mem_singleton] at hg
      rcases hg with hg | rfl
      · exact h g hg
      · simp [List.length_take]; omega

/-- **C04 (cap).** Whatever frames arrive, in whatever order and however large, every
    assembled message holds at most 1 MiB of data. -/
theorem c04_cap (fs : List Frame) : ∀ (frags : List Fragment), (∀ g ∈ frags, g.data.length ≤ maxData) →
    ∀ m ∈ assemble frags fs, m.data.length ≤ maxData := by
  induction fs with
  | nil => intro frags _ m hm; simp [assemble] at hm
  | cons f rest ih =>
    intro frags h m hm
    have h' := appendFrame_cap frags f h
    simp only [assemble] at hm
    split at hm
    · cases hfind : (appendFrame frags f).find? (·.sid == frameSid f) with
      | none => simp only [hfind] at hm; exact ih _ h' m hm
      | some g =>
        simp only [hfind] at hm
        have hg : g.data.length ≤ maxData := h' g (List.mem_of_find?_eq_some hfind)
        have hrest : ∀ x ∈ (appendFrame frags f).filter (·.sid != frameSid f), x.data.length ≤ maxData :=
          fun x hx => h' x (List.mem_filter.mp hx).1
        split at hm
        · simp only [List.mem_cons] at hm
          rcases hm with rfl | hm
          · exact hg
          · exact ih _ hrest m hm
        · split at hm
          · split at hm
            · simp only [List.mem_cons] at hm
              rcases hm with rfl | hm
              · exact hg
              · exact ih _ hrest m hm
            · exact ih _ hrest m hm
          · exact ih _ hrest m hm
    · exact ih _ h' m hm

/-- frames none of which ends its stream assemble nothing -/
theorem c04_no_message_before_end (fs : List Frame) (h : ∀ f ∈ fs, isStreamEnd f = false) :
    ∀ frags, assemble frags fs = [] := by
  induction fs with
  | nil => intro frags; rfl
  | cons f rest ih =>
    intro frags
    have hf := h f (by simp)
    simp only [assemble, hf, Bool.false_eq_true, if_false]
    exact ih (fun x hx => h x (by simp [hx])) _

/-- **C04 (gRPC).** Every item the pairing produces is classified gRPC exactly when its
    request or its response carries a gRPC content type or a grpc-status field. -/
theorem c04_grpc_iff (reqs resps : List Msg)
    (hq : ∀ q ∈ reqs, q.isGrpc = grpcMarked q.headers) (hr : ∀ r ∈ resps, r.isGrpc = grpcMarked r.headers) :
    ∀ it ∈ (pair reqs resps).1, it.grpc = (grpcMarked it.request.headers || grpcMarked it.response.headers) := by
  unfold pair
  simp only
  -- the fold keeps: accumulated items satisfy the claim, open messages carry their own marker
  have gen : ∀ (ms : List Msg) (acc : List Item × List Msg),
      (∀ m ∈ ms, m.isGrpc = grpcMarked m.headers) → (∀ o ∈ acc.2, o.isGrpc = grpcMarked o.headers) →
      (∀ it ∈ acc.1, it.grpc = (grpcMarked it.request.headers || grpcMarked it.response.headers)) →
      ∀ it ∈ (ms.foldl register acc).1,
        it.grpc = (grpcMarked it.request.headers || grpcMarked it.response.headers) := by
    intro ms
    induction ms with
    | nil => intro acc _ _ h; simpa using h
    | cons m rest ih =>
      intro acc hms hopen h
      simp only [List.foldl_cons]
      have hm := hms m (by simp)
      apply ih
      · exact fun x hx => hms x (by simp [hx])
      · unfold register
        cases hf : acc.2.find? (·.sid == m.sid) with
        | none =>
          intro o ho
          simp only [List.mem_append, List.mem_singleton] at ho
          rcases ho with ho | rfl
          · exact hopen o ho
          · exact hm
        | some o =>
          simp only
          split
          · exact fun x hx => hopen x (List.mem_filter.mp hx).1
          · split <;> exact fun x hx => hopen x (List.mem_filter.mp hx).1
      · unfold register
        cases hf : acc.2.find? (·.sid == m.sid) with
        | none => simpa using h
        | some o =>
          have ho := hopen o (List.mem_of_find?_eq_some hf)
          simp only
          split
          · exact h
          · split
            · intro it hit
              simp only [List.mem_append, List.mem_singleton] at hit
              rcases hit with hit | rfl
              · exact h it hit
              · simp [hm, ho]
            · intro it hit
              simp only [List.mem_append, List.mem_singleton] at hit
              rcases hit with hit | rfl
              · exact h it hit
              · simp [hm, ho, Bool.or_comm]
  exact gen (reqs ++ resps) ([], []) (by
      intro m hm
      rcases List.mem_append.mp hm with h | h
      · exact hq m h
      · exact hr m h) (by simp) (by simp)

end KsVerif.Proofs.C04
