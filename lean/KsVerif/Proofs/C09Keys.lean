/-
  C09, the pairing keys.  `c09_pairing` is a statement about keys: a request and a response meet iff
  they carry the same key.  That two different exchanges - of one connection or of two connections
  dissected in the same process - never carry the same key is a fact about how the keys are built:
  fmt.Sprintf with a format whose verbs are separated by underscores, from components (addresses,
  ports, decimal counters and ids) that hold no underscore.

   * `joinKey_inj`: joining with '_' is injective on lists of equal length whose parts hold no '_';
   * `render_inj`: hence a key rendered from a separated format determines its arguments;
   * `c09_key_formats_separated` (decide, on the format strings regenerated from the source): every
     key format of the dissectors is separated;
   * `c09_key_formats_present`: every dissector that pairs through a matcher has one.
  Modelled: fmt.Sprintf for the verbs %s and %d substitutes the text of its arguments for the verbs
  and copies the rest of the format.
-/
import KsVerif.Generated.GenKeyFormats

namespace KsVerif.Proofs.C09Keys

abbrev Str := List Char

/-- strings.Join(parts, "_") -/
def joinKey : List Str → Str
  | [] => []
  | [p] => p
  | p :: q :: rest => p ++ '_' :: joinKey (q :: rest)

def clean (p : Str) : Prop := '_' ∉ p

/-- splitting at the first underscore is unique -/
theorem split_first (l1 l2 r1 r2 : Str) (h1 : clean l1) (h2 : clean l2) (h : l1 ++ '_' :: r1 = l2 ++ '_' :: r2) :
    l1 = l2 ∧ r1 = r2 := by
  induction l1 generalizing l2 with
  | nil =>
    cases l2 with
    | nil => simp at h; exact ⟨rfl, h⟩
    | cons y ys =>
      simp at h
      exact absurd (by rw [← h.1]; simp) h2
  | cons y ys ih =>
    cases l2 with
    | nil =>
      simp at h
      exact absurd (by rw [h.1]; simp) h1
    | cons z zs =>
      simp only [List.cons_append, List.cons.injEq] at h
      have := ih zs (fun hm => h1 (List.mem_cons_of_mem _ hm)) (fun hm => h2 (List.mem_cons_of_mem _ hm)) h.2
      exact ⟨by rw [h.1, this.1], this.2⟩

theorem joinKey_cons2 (p q : Str) (rest : List Str) : joinKey (p :: q :: rest) = p ++ '_' :: joinKey (q :: rest) := rfl

/-- **Keys joined with underscores are injective**: two lists of the same number of underscore-free
    components give the same key only if they are the same list. -/
theorem joinKey_inj : ∀ (a b : List Str), a.length = b.length → (∀ p ∈ a, clean p) → (∀ p ∈ b, clean p) →
    joinKey a = joinKey b → a = b
  | [], [], _, _, _, _ => rfl
  | [], _ :: _, hl, _, _, _ => by simp at hl
  | _ :: _, [], hl, _, _, _ => by simp at hl
  | [p], [q], _, _, _, h => by simp [joinKey] at h; rw [h]
  | [_], _ :: _ :: _, hl, _, _, _ => by simp at hl
  | _ :: _ :: _, [_], hl, _, _, _ => by simp at hl
  | p :: p2 :: ps, q :: q2 :: qs, hl, ha, hb, h => by
    rw [joinKey_cons2, joinKey_cons2] at h
    obtain ⟨h1, h2⟩ := split_first p q _ _ (ha p (by simp)) (hb q (by simp)) h
    have ih := joinKey_inj (p2 :: ps) (q2 :: qs) (by simp at hl ⊢; omega)
      (fun x hx => ha x (List.mem_cons_of_mem _ hx)) (fun x hx => hb x (List.mem_cons_of_mem _ hx)) h2
    rw [h1, ih]

/-! ### formats -/

inductive Part where
  | verb                -- %s or %d: the text of the next argument
  | lit (s : Str)       -- copied
  deriving DecidableEq, Repr

/-- the pieces of a format between its underscores -/
def splitUnderscore : Str → List Str
  | [] => [[]]
  | c :: rest =>
    match splitUnderscore rest with
    | [] => [[c]]        -- unreachable
    | p :: ps => if c = '_' then [] :: p :: ps else (c :: p) :: ps

def partOf (piece : Str) : Option Part :=
  if piece = ['%', 's'] ∨ piece = ['%', 'd'] then some .verb
  else if '%' ∈ piece then none
  else some (.lit piece)

/-- a separated format: every piece between underscores is exactly one verb, or verb-free text -/
def parseFormat (fmt : String) : Option (List Part) := (splitUnderscore fmt.toList).mapM partOf

def separated (fmt : String) : Bool := (parseFormat fmt).isSome

/-- the pieces of the rendered key: a verb takes the next argument -/
def pieces : List Part → List Str → List Str
  | [], _ => []
  | .verb :: ps, a :: as => a :: pieces ps as
  | .verb :: ps, [] => [] :: pieces ps []
  | .lit s :: ps, as => s :: pieces ps as

/-- fmt.Sprintf(format, args...) for a separated format -/
def render (ps : List Part) (args : List Str) : Str := joinKey (pieces ps args)

def verbs : List Part → Nat
  | [] => 0
  | .verb :: ps => verbs ps + 1
  | .lit _ :: ps => verbs ps

def litsClean : List Part → Prop
  | [] => True
  | .verb :: ps => litsClean ps
  | .lit s :: ps => clean s ∧ litsClean ps

theorem pieces_length : ∀ (ps : List Part) (as : List Str), (pieces ps as).length = ps.length
  | [], _ => rfl
  | .verb :: ps, a :: as => by simp [pieces, pieces_length ps as]
  | .verb :: ps, [] => by simp [pieces, pieces_length ps []]
  | .lit s :: ps, as => by simp [pieces, pieces_length ps as]

theorem pieces_clean : ∀ (ps : List Part) (as : List Str), litsClean ps → (∀ a ∈ as, clean a) → ∀ p ∈ pieces ps as, clean p
  | [], _, _, _ => by intro p hp; simp [pieces] at hp
  | .verb :: ps, a :: as, hl, ha => by
    intro p hp
    simp only [pieces, List.mem_cons] at hp
    rcases hp with rfl | hp
    · exact ha _ (by simp)
    · exact pieces_clean ps as hl (fun x hx => ha x (List.mem_cons_of_mem _ hx)) p hp
  | .verb :: ps, [], hl, ha => by
    intro p hp
    simp only [pieces, List.mem_cons] at hp
    rcases hp with rfl | hp
    · simp [clean]
    · exact pieces_clean ps [] hl ha p hp
  | .lit s :: ps, as, hl, ha => by
    intro p hp
    simp only [pieces, List.mem_cons] at hp
    rcases hp with rfl | hp
    · exact hl.1
    · exact pieces_clean ps as hl.2 ha p hp

theorem pieces_inj : ∀ (ps : List Part) (a b : List Str), a.length = verbs ps → b.length = verbs ps →
    pieces ps a = pieces ps b → a = b
  | [], a, b, ha, hb, _ => by
    simp [verbs] at ha hb
    rw [ha, hb]
  | .verb :: ps, x :: a, y :: b, ha, hb, h => by
    simp only [pieces, List.cons.injEq] at h
    have := pieces_inj ps a b (by simp [verbs] at ha; omega) (by simp [verbs] at hb; omega) h.2
    rw [h.1, this]
  | .verb :: ps, [], _, ha, _, _ => by simp [verbs] at ha
  | .verb :: ps, _ :: _, [], _, hb, _ => by simp [verbs] at hb
  | .lit s :: ps, a, b, ha, hb, h => by
    simp only [pieces, List.cons.injEq] at h
    exact pieces_inj ps a b (by simpa [verbs] using ha) (by simpa [verbs] using hb) h.2

/-- **A key determines what it was built from.** For a separated format whose literal pieces hold no
    underscore, and arguments that hold none (addresses, ports, decimal numbers), equal keys mean
    equal arguments: two exchanges that differ in connection or ordinal never share a key. -/
theorem render_inj (ps : List Part) (hl : litsClean ps) (a b : List Str)
    (ha : a.length = verbs ps) (hb : b.length = verbs ps) (hca : ∀ x ∈ a, clean x) (hcb : ∀ x ∈ b, clean x)
    (h : render ps a = render ps b) : a = b := by
  unfold render at h
  have := joinKey_inj (pieces ps a) (pieces ps b) (by rw [pieces_length, pieces_length])
    (pieces_clean ps a hl hca) (pieces_clean ps b hl hcb) h
  exact pieces_inj ps a b ha hb this

/-! ### the formats of the source -/

/-- every key-like format of the dissectors separates its verbs by underscores -/
theorem c09_key_formats_separated : Gen.KeyFormats.formats.all (fun f => separated f.2) = true := by decide

def litsCleanB : List Part → Bool
  | [] => true
  | .verb :: ps => litsCleanB ps
  | .lit s :: ps => !s.contains '_' && litsCleanB ps

theorem litsCleanB_sound : ∀ ps, litsCleanB ps = true → litsClean ps
  | [], _ => trivial
  | .verb :: ps, h => litsCleanB_sound ps (by simpa [litsCleanB] using h)
  | .lit s :: ps, h => by
    simp only [litsCleanB, Bool.and_eq_true, Bool.not_eq_true'] at h
    refine ⟨?_, litsCleanB_sound ps h.2⟩
    intro hm
    have : s.contains '_' = true := by simpa using hm
    rw [this] at h
    exact absurd h.1 (by simp)

/-- ... and their literal pieces hold no underscore: `render_inj` applies to every one of them -/
theorem c09_key_formats_applicable :
    Gen.KeyFormats.formats.all (fun f => match parseFormat f.2 with | some ps => litsCleanB ps | none => false) = true := by decide

/-- every dissector that pairs through a matcher builds its keys with such a format -/
theorem c09_key_formats_present :
    ["amqp", "http", "kafka", "redis"].all (fun p => Gen.KeyFormats.formats.any (fun f => f.1 == p)) = true := by decide

/-- the format of the Redis keys, rendered: the connection and the ordinal, each between underscores -/
example : (parseFormat "%s_%s_%s_%s_%d").map (fun ps => String.ofList (render ps
    ["10.0.0.1".toList, "10.0.0.2".toList, "40000".toList, "6379".toList, "11".toList])) = some "10.0.0.1_10.0.0.2_40000_6379_11" := by
  decide

/-- what C09-8 did: the ordinal appended without its underscore - such a format is not separated -/
example : separated "%s_%s_%s_%s%d" = false := by decide

end KsVerif.Proofs.C09Keys
