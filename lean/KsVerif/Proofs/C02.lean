/-
  C02 — dissection cost is bounded by the bytes actually seen.

  What the model carries: the progress invariant behind "every loop iteration consumes input
  or returns" for the Redis reader — every successful `process` / `read` leaves strictly fewer
  bytes, whatever lengths and counts the input declares — and hence that the number of
  packets (Dissect loop iterations) and of array elements parsed is bounded by the number of
  bytes, not by declared values; and for AMQP that a declared length beyond the stream ends
  the read without fabricating or pre-allocating (C05.readFull_short).
  CPU time, the allocator and the garbage collector are runtime behaviour the model cannot
  exhibit: they are *measured* by the correspondence families cost.<protocol> (every length
  field × every boundary value × three kinds of stream end, TotalAlloc and wall time of the
  real Dissect and the later stages against a fixed linear bound).  Partial.
-/
import KsVerif.Redis.Model

namespace KsVerif.Proofs.C02
open KsVerif.Redis

theorem scanLine_shorter : ∀ (s l r : Bytes), scanLine s = some (l, r) → r.length + 2 ≤ s.length := by
  intro s
  induction s using scanLine.induct with
  | case1 => intro l r h; simp [scanLine] at h
  | case2 b => intro l r h; simp [scanLine] at h
  | case3 rest => intro l r h; simp [scanLine] at h; obtain ⟨_, rfl⟩ := h; simp
  | case4 c rest hc ih =>
    intro l r h
    simp only [scanLine, hc, if_true, if_false] at h
    cases hs : scanLine rest with
    | none => simp [hs] at h
    | some y =>
      obtain ⟨l', r'⟩ := y
      simp [hs] at h
      obtain ⟨_, rfl⟩ := h
      have := ih l' r' hs
      simp; omega
  | case5 b c rest hb ih =>
    intro l r h
    simp only [scanLine, hb, if_false] at h
    cases hs : scanLine (c :: rest) with
    | none => simp [hs] at h
    | some y =>
      obtain ⟨l', r'⟩ := y
      simp [hs] at h
      obtain ⟨_, rfl⟩ := h
      have := ih l' r' hs
      simp at this ⊢; omega

theorem next_shorter {st st' : St} {b : UInt8} (h : next st = .ok (b, st')) : st'.rem.length + 1 = st.rem.length := by
  unfold next at h
  split at h
  · cases h
  · rename_i hb; simp only [Except.ok.injEq, Prod.mk.injEq] at h; obtain ⟨_, rfl⟩ := h; simp [hb]

theorem readLineBytes_shorter {st st' : St} {l : Bytes} (h : readLineBytes st = .ok (l, st')) :
    st'.rem.length + 2 ≤ st.rem.length := by
  unfold readLineBytes at h
  split at h
  · rename_i l' r hs
    simp only [Except.ok.injEq, Prod.mk.injEq] at h; obtain ⟨_, rfl⟩ := h
    exact scanLine_shorter _ _ _ hs
  · cases h

theorem readLine_shorter {st st' : St} {l : Bytes} (h : readLine st = .ok (l, st')) :
    st'.rem.length + 2 ≤ st.rem.length := by
  unfold readLine at h
  split at h
  · cases h
  · rename_i l' st'' hl
    split at h
    · cases h
    · simp only [Except.ok.injEq, Prod.mk.injEq] at h; obtain ⟨_, rfl⟩ := h
      exact readLineBytes_shorter hl

theorem digits_shorter : ∀ (bs : Bytes) (v : Int) (t : Tail) (n : Int) (r : Bytes),
    digits bs v t = .ok (n, r) → r.length + 2 ≤ bs.length := by
  intro bs v t
  fun_induction digits bs v t with
  | case1 => intro n r h; cases h
  | case2 => intro n r h; cases h
  | case3 => intro n r h; simp only [Except.ok.injEq, Prod.mk.injEq] at h; obtain ⟨_, rfl⟩ := h; simp
  | case4 => intro n r h; cases h
  | case5 _ _ _ _ _ _ ih => intro n r h; have := ih n r h; simp at this ⊢; omega

theorem readInt_shorter {st st' : St} {n : Int} (h : readInt st = .ok (n, st')) :
    st'.rem.length + 2 ≤ st.rem.length := by
  unfold readInt at h
  split at h
  · cases h
  · rename_i b r hb
    simp only at h
    split at h
    · cases h
    · rename_i v rest hd
      simp only [Except.ok.injEq, Prod.mk.injEq] at h; obtain ⟨_, rfl⟩ := h
      have := digits_shorter _ _ _ _ _ hd
      simp only
      split at this <;> simp_all <;> omega

theorem bulkBody_shorter {l : Int} {st st' : St} {b : Bytes} (h : bulkBody l st = .ok (b, st')) :
    st'.rem.length + 2 ≤ st.rem.length := by
  unfold bulkBody at h
  simp only at h
  split at h
  · cases h
  · split at h
    · cases h
    · rename_i c1 st1 h1
      split at h
      · cases h
      · split at h
        · cases h
        · rename_i c2 st2 h2
          split at h
          · cases h
          · simp only [Except.ok.injEq, Prod.mk.injEq] at h; obtain ⟨_, rfl⟩ := h
            have a := next_shorter h1
            have b := next_shorter h2
            simp at a; omega

/-- **Progress.** Whatever the input declares — array counts, bulk lengths, nesting — a value
    that is read successfully consumed at least one byte, and the elements of an array never
    give bytes back. -/
theorem process_elems_shorter : ∀ (fuel : Nat),
    (∀ st v t st', process fuel st = .ok (v, t, st') → st'.rem.length < st.rem.length) ∧
    (∀ n st vs st', elems fuel n st = .ok (vs, st') → st'.rem.length ≤ st.rem.length ∧ vs.length ≤ st.rem.length - st'.rem.length) := by
  intro fuel
  induction fuel with
  | zero =>
    exact ⟨fun st v t st' h => by simp [process] at h, fun n st vs st' h => by simp [elems] at h⟩
  | succ fuel ih =>
    constructor
    · intro st v t st' h
      simp only [process] at h
      cases hn : next st with
      | error e => simp [hn] at h
      | ok x =>
        obtain ⟨b, st1⟩ := x
        simp only [hn] at h
        have h1 := next_shorter hn
        by_cases c1 : b = 43
        · simp only [c1, if_true] at h
          cases hl : readLineBytes st1 with
          | error e => simp [hl] at h
          | ok y =>
            obtain ⟨l, st2⟩ := y
            simp only [hl, Except.ok.injEq, Prod.mk.injEq] at h
            obtain ⟨_, _, rfl⟩ := h
            have := readLineBytes_shorter hl; omega
        · simp only [c1, if_false] at h
          by_cases c2 : b = 36
          · simp only [c2, if_true] at h
            cases hi : readInt st1 with
            | error e => simp [hi] at h
            | ok y =>
              obtain ⟨l, st2⟩ := y
              simp only [hi] at h
              have a := readInt_shorter hi
              split at h
              · simp only [Except.ok.injEq, Prod.mk.injEq] at h; obtain ⟨_, _, rfl⟩ := h; omega
              · cases hb : bulkBody l st2 with
                | error e => simp [hb] at h
                | ok z =>
                  obtain ⟨body, st3⟩ := z
                  simp only [hb, Except.ok.injEq, Prod.mk.injEq] at h
                  obtain ⟨_, _, rfl⟩ := h
                  have := bulkBody_shorter hb; omega
          · simp only [c2, if_false] at h
            by_cases c3 : b = 42
            · simp only [c3, if_true] at h
              cases hi : readInt st1 with
              | error e => simp [hi] at h
              | ok y =>
                obtain ⟨l, st2⟩ := y
                simp only [hi] at h
                have a := readInt_shorter hi
                split at h
                · simp only [Except.ok.injEq, Prod.mk.injEq] at h; obtain ⟨_, _, rfl⟩ := h; omega
                · cases he : elems fuel l.toNat st2 with
                  | error e => simp [he] at h
                  | ok z =>
                    obtain ⟨xs, st3⟩ := z
                    simp only [he, Except.ok.injEq, Prod.mk.injEq] at h
                    obtain ⟨_, _, rfl⟩ := h
                    have := (ih.2 _ _ _ _ he).1; omega
            · simp only [c3, if_false] at h
              by_cases c4 : b = 58
              · simp only [c4, if_true] at h
                cases hi : readInt st1 with
                | error e => simp [hi] at h
                | ok y =>
                  obtain ⟨l, st2⟩ := y
                  simp only [hi, Except.ok.injEq, Prod.mk.injEq] at h
                  obtain ⟨_, _, rfl⟩ := h
                  have := readInt_shorter hi; omega
              · simp only [c4, if_false] at h
                by_cases c5 : b = 45
                · simp only [c5, if_true] at h
                  cases hl : readLine st1 with
                  | error e => simp [hl] at h
                  | ok y =>
                    obtain ⟨msg, st2⟩ := y
                    simp only [hl] at h
                    have a := readLine_shorter hl
                    cases hes : errorString msg with
                    | error e => simp [hes] at h
                    | ok sres =>
                      simp only [hes, Except.ok.injEq, Prod.mk.injEq] at h
                      obtain ⟨_, _, rfl⟩ := h
                      omega
                · simp only [c5, if_false] at h
                  cases h
    · intro n st vs st' h
      cases n with
      | zero => simp [elems] at h; obtain ⟨rfl, rfl⟩ := h; simp
      | succ n =>
        simp only [elems] at h
        split at h
        · cases h
        · rename_i v t st1 hp
          split at h
          · cases h
          · rename_i vs1 st2 he
            simp only [Except.ok.injEq, Prod.mk.injEq] at h
            obtain ⟨rfl, rfl⟩ := h
            have a := ih.1 _ _ _ _ hp
            have b := ih.2 _ _ _ _ he
            simp only [List.length_cons]
            omega

/-- every packet `read` returns consumed at least one byte -/
theorem read_shorter {fuel : Nat} {st st' : St} {p : Packet} (h : Redis.read fuel st = .ok (p, st')) :
    st'.rem.length < st.rem.length := by
  unfold Redis.read at h
  split at h
  · cases h
  · rename_i v t st1 hp
    split at h
    · cases h
    · simp only [Except.ok.injEq, Prod.mk.injEq] at h; obtain ⟨_, rfl⟩ := h
      exact (process_elems_shorter _).1 _ _ _ _ hp

/-- **C02 (Redis, iterations).** The Dissect loop hands over at most as many packets as the
    stream has bytes — for every input, in particular for every declared count or length. -/
theorem c02_redis_packets_le_bytes : ∀ (fuel : Nat) (st : St), (dissect fuel st).1.length ≤ st.rem.length := by
  intro fuel
  induction fuel with
  | zero => intro st; simp [dissect]
  | succ fuel ih =>
    intro st
    simp only [dissect]
    split
    · simp
    · rename_i p st' hr
      have a := read_shorter hr
      have b := ih st'
      simp only [List.length_cons]
      omega

/-- the elements parsed for one array are bounded by the bytes they occupy, not by the
    declared count -/
theorem c02_redis_array_elems_le_bytes (fuel n : Nat) (st st' : St) (vs : List RVal)
    (h : elems fuel n st = .ok (vs, st')) : vs.length ≤ st.rem.length :=
  by have := ((process_elems_shorter fuel).2 n st vs st' h).2; omega

/-- Non-vacuity: a declared count beyond what is present ends with the stream's end. -/
example : (dissectAll [42, 57, 13, 10] .eof).2 = .eof := by decide

end KsVerif.Proofs.C02
