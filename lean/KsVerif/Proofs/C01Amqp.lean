/-
  C01 for the AMQP model: dissecting any byte stream never panics.  The model writes every Go
  operation that can panic as an explicit `.panic` outcome; after the repairs of the ledger none is
  left in read.go / main.go, and this file proves it for the model: no reader, no frame read and no
  run of the Dissect loop - for any bytes, any stream end - ends in a panic outcome.
-/
import KsVerif.Proofs.C02Amqp

namespace KsVerif.Proofs.C01Amqp
open KsVerif.Amqp KsVerif.Proofs.C02Amqp

/-- a result that is not a panic -/
def NP {α : Type} : R α → Prop
  | .ok _ => True
  | .error f => f.err.isPanic = false

def NPp : Except Fail (List (Bytes × FVal)) → Prop
  | .ok _ => True
  | .error f => f.err.isPanic = false

theorem readFull_np {n : Nat} {st : St} {f : Fail} (h : readFull n st = .error f) : f.err.isPanic = false := by
  unfold readFull at h
  repeat' (split at h)
  all_goals ((try simp only [fail] at h); cases h; first | done | rfl)

theorem readUInt_np {n : Nat} {st : St} {f : Fail} (h : readUInt n st = .error f) : f.err.isPanic = false := by
  unfold readUInt at h
  split at h
  · rename_i e hr; cases h; exact readFull_np hr
  · cases h

theorem readShortStr_np {st : St} {f : Fail} (h : readShortStr st = .error f) : f.err.isPanic = false := by
  unfold readShortStr at h
  split at h
  · rename_i e hr; cases h; exact readUInt_np hr
  · exact readFull_np h

theorem readLongStr_np {st : St} {f : Fail} (h : readLongStr st = .error f) : f.err.isPanic = false := by
  unfold readLongStr at h
  split at h
  · rename_i e hr; cases h; exact readUInt_np hr
  · split at h
    · cases h
    · exact readFull_np h

theorem fields_np : ∀ (n : Nat),
    (∀ st r, readField n st = r → NP r) ∧
    (∀ st r, readArrayItems n st = r → NP r) ∧
    (∀ st r, readTable n st = r → NP r) ∧
    (∀ st r, readPairs n st = r → NPp r) := by
  intro n
  induction n with
  | zero =>
    refine ⟨?_, ?_, ?_, ?_⟩ <;> intro st r h <;> subst h <;>
      simp [readField, readArrayItems, readTable, readPairs, fail, NP, NPp, Err.isPanic]
  | succ n ih =>
    obtain ⟨ihF, ihA, ihT, ihP⟩ := ih
    refine ⟨?_, ?_, ?_, ?_⟩
    · intro st r h
      unfold readField at h
      split at h
      · subst h; simp only [NP]; exact readUInt_np ‹_›
      · rename_i typ st1 hr1
        by_cases c116 : typ = 116
        · rw [if_pos c116] at h
          repeat' (split at h)
          all_goals (subst h; simp only [NP]; first | done | exact readUInt_np ‹_› | exact readLongStr_np ‹_› | exact readFull_np ‹_› | simp [fail, Err.isPanic])
        rw [if_neg c116] at h
        by_cases c98 : typ = 98
        · rw [if_pos c98] at h
          repeat' (split at h)
          all_goals (subst h; simp only [NP]; first | done | exact readUInt_np ‹_› | exact readLongStr_np ‹_› | exact readFull_np ‹_› | simp [fail, Err.isPanic])
        rw [if_neg c98] at h
        by_cases c115 : typ = 115
        · rw [if_pos c115] at h
          repeat' (split at h)
          all_goals (subst h; simp only [NP]; first | done | exact readUInt_np ‹_› | exact readLongStr_np ‹_› | exact readFull_np ‹_› | simp [fail, Err.isPanic])
        rw [if_neg c115] at h
        by_cases c73 : typ = 73
        · rw [if_pos c73] at h
          repeat' (split at h)
          all_goals (subst h; simp only [NP]; first | done | exact readUInt_np ‹_› | exact readLongStr_np ‹_› | exact readFull_np ‹_› | simp [fail, Err.isPanic])
        rw [if_neg c73] at h
        by_cases c108 : typ = 108
        · rw [if_pos c108] at h
          repeat' (split at h)
          all_goals (subst h; simp only [NP]; first | done | exact readUInt_np ‹_› | exact readLongStr_np ‹_› | exact readFull_np ‹_› | simp [fail, Err.isPanic])
        rw [if_neg c108] at h
        by_cases c102 : typ = 102
        · rw [if_pos c102] at h
          repeat' (split at h)
          all_goals (subst h; simp only [NP]; first | done | exact readUInt_np ‹_› | exact readLongStr_np ‹_› | exact readFull_np ‹_› | simp [fail, Err.isPanic])
        rw [if_neg c102] at h
        by_cases c100 : typ = 100
        · rw [if_pos c100] at h
          repeat' (split at h)
          all_goals (subst h; simp only [NP]; first | done | exact readUInt_np ‹_› | exact readLongStr_np ‹_› | exact readFull_np ‹_› | simp [fail, Err.isPanic])
        rw [if_neg c100] at h
        by_cases c68 : typ = 68
        · rw [if_pos c68] at h
          repeat' (split at h)
          all_goals (subst h; simp only [NP]; first | done | exact readUInt_np ‹_› | exact readLongStr_np ‹_› | exact readFull_np ‹_› | simp [fail, Err.isPanic])
        rw [if_neg c68] at h
        by_cases c83 : typ = 83
        · rw [if_pos c83] at h
          repeat' (split at h)
          all_goals (subst h; simp only [NP]; first | done | exact readUInt_np ‹_› | exact readLongStr_np ‹_› | exact readFull_np ‹_› | simp [fail, Err.isPanic])
        rw [if_neg c83] at h
        by_cases c65 : typ = 65
        · rw [if_pos c65] at h
          split at h
          · subst h; simp only [NP]; exact readUInt_np ‹_›
          · dsimp only at h
            generalize hw : ({ rem := _, tail := _ } : St) = window at h
            have hA := ihA window _ rfl
            generalize hres : readArrayItems n window = res at h hA
            cases res with
            | error f => subst h; simp only [NP] at hA ⊢; exact hA
            | ok p => obtain ⟨xs, w⟩ := p; subst h; simp only [NP]
        rw [if_neg c65] at h
        by_cases c84 : typ = 84
        · rw [if_pos c84] at h
          repeat' (split at h)
          all_goals (subst h; simp only [NP]; first | done | exact readUInt_np ‹_› | exact readLongStr_np ‹_› | exact readFull_np ‹_› | simp [fail, Err.isPanic])
        rw [if_neg c84] at h
        by_cases c70 : typ = 70
        · rw [if_pos c70] at h
          have hT := ihT st1 _ rfl
          generalize hres : readTable n st1 = res at h hT
          cases res with
          | error f => subst h; simp only [NP] at hT ⊢; exact hT
          | ok p => obtain ⟨t, st2⟩ := p; subst h; simp only [NP]
        rw [if_neg c70] at h
        by_cases c120 : typ = 120
        · rw [if_pos c120] at h
          split at h
          · subst h; simp only [NP]; exact readUInt_np ‹_›
          · rename_i v st2 hr2
            by_cases hneg : toSigned 4 v < 0
            · rw [if_pos hneg] at h; subst h; simp [NP, fail, Err.isPanic]
            · rw [if_neg hneg] at h
              generalize hres : readBytesN (toSigned 4 v).toNat st2 = res at h
              cases res with
              | error f => subst h; simp only [NP]; exact readFull_np hres
              | ok p => obtain ⟨b, st3⟩ := p; subst h; simp only [NP]
        rw [if_neg c120] at h
        by_cases c86 : typ = 86
        · rw [if_pos c86] at h
          repeat' (split at h)
          all_goals (subst h; simp only [NP]; first | done | exact readUInt_np ‹_› | exact readLongStr_np ‹_› | exact readFull_np ‹_› | simp [fail, Err.isPanic])
        rw [if_neg c86] at h
        subst h
        simp [NP, fail, Err.isPanic]
    · intro w r h
      simp only [readArrayItems] at h
      have hF := ihF w _ rfl
      generalize hres : readField n w = res at h hF
      cases res with
      | error f =>
        simp only [NP] at hF
        by_cases he : f.err = .eof
        · simp only [he, if_true] at h; subst h; simp only [NP]
        · simp only [he, if_false] at h; subst h; simp only [NP]; exact hF
      | ok p =>
        obtain ⟨v, w'⟩ := p
        dsimp only at h
        have hA := ihA w' _ rfl
        generalize hres2 : readArrayItems n w' = res2 at h hA
        cases res2 with
        | error f => subst h; simp only [NP] at hA ⊢; exact hA
        | ok p2 => obtain ⟨vs, w''⟩ := p2; subst h; simp only [NP]
    · intro st r h
      simp only [readTable] at h
      generalize hres : readLongStr st = res at h
      cases res with
      | error f => subst h; simp only [NP]; exact readLongStr_np hres
      | ok p =>
        obtain ⟨s, st1⟩ := p
        dsimp only at h
        have hP := ihP { rem := s, tail := .eof } _ rfl
        generalize hres2 : readPairs n { rem := s, tail := .eof } = res2 at h hP
        cases res2 with
        | error f => subst h; simp only [NPp] at hP; simp only [NP]; exact hP
        | ok kvs => subst h; simp only [NP]
    · intro nested r h
      simp only [readPairs] at h
      by_cases hemp : nested.rem.isEmpty = true
      · simp only [hemp, if_true] at h; subst h; simp only [NPp]
      · simp only [hemp] at h
        generalize hres : readShortStr nested = res at h
        cases res with
        | error f => subst h; simp only [NPp]; exact readShortStr_np hres
        | ok p =>
          obtain ⟨k, n1⟩ := p
          dsimp only at h
          have hF := ihF n1 _ rfl
          generalize hres2 : readField n n1 = res2 at h hF
          cases res2 with
          | error f => subst h; simp only [NP] at hF; simp only [NPp]; exact hF
          | ok p2 =>
            obtain ⟨v, n2⟩ := p2
            dsimp only at h
            have hP := ihP n2 _ rfl
            generalize hres3 : readPairs n n2 = res3 at h hP
            cases res3 with
            | error f => subst h; simp only [NPp] at hP ⊢; exact hP
            | ok kvs => subst h; simp [NPp]


theorem np_map {α β : Type} (r : R α) (g : α × St → β) (h : NP r) : NP (r.map fun p => (g p, p.2)) := by
  cases r with
  | error f => simpa [Except.map, NP] using h
  | ok p => simp [Except.map, NP]

theorem np_of {α : Type} {r : R α} (h : ∀ f, r = .error f → f.err.isPanic = false) : NP r := by
  cases r with
  | error f => exact h f rfl
  | ok p => simp [NP]

theorem readKind_np (fuel : Nat) (name : String) (k : Kind) (st : St) : NP (readKind fuel name k st) := by
  have hu : ∀ n, NP (readUInt n st) := fun n => np_of (fun f h => readUInt_np h)
  cases k with
  | octet => exact np_map _ (fun p => [(name, AVal.num p.1)]) (hu 1)
  | short => exact np_map _ (fun p => [(name, AVal.num p.1)]) (hu 2)
  | long => exact np_map _ (fun p => [(name, AVal.num p.1)]) (hu 4)
  | longlong => exact np_map _ (fun p => [(name, AVal.num p.1)]) (hu 8)
  | shortstr => exact np_map _ (fun p => [(name, AVal.str p.1)]) (np_of (fun f h => readShortStr_np h))
  | longstr => exact np_map _ (fun p => [(name, AVal.str p.1)]) (np_of (fun f h => readLongStr_np h))
  | table => exact np_map _ (fun p => [(name, AVal.table p.1)]) ((fields_np fuel).2.2.1 st _ rfl)
  | timestamp => exact np_map _ (fun p => [(name, AVal.time (clampTime (toSigned 8 p.1)))]) (hu 8)
  | bits names => exact np_map _ (fun p => names.zipIdx.map fun (n, i) => (n, AVal.flag (bit p.1 i))) (hu 1)

theorem readArgs_np (fuel : Nat) : ∀ (fields : List (String × Kind)) (st : St), NP (readArgs fuel fields st) := by
  intro fields
  induction fields with
  | nil => intro st; simp [readArgs, NP]
  | cons fk rest ih =>
    intro st
    obtain ⟨name, k⟩ := fk
    simp only [readArgs]
    have hK := readKind_np fuel name k st
    generalize readKind fuel name k st = res at hK
    cases res with
    | error f => exact hK
    | ok p =>
      obtain ⟨vs, st1⟩ := p
      have hA := ih st1
      dsimp only
      generalize readArgs fuel rest st1 = res2 at hA
      cases res2 with
      | error f => exact hA
      | ok p2 => obtain ⟨ws, st2⟩ := p2; simp [NP]

theorem readProps_np (fuel flags : Nat) : ∀ (ps : List (Nat × String × Kind)) (st : St), NP (readProps fuel flags ps st) := by
  intro ps
  induction ps with
  | nil => intro st; simp [readProps, NP]
  | cons fk rest ih =>
    intro st
    obtain ⟨flag, name, k⟩ := fk
    simp only [readProps]
    by_cases hb : (flags / flag) % 2 = 1
    · rw [if_pos hb]
      have hK := readKind_np fuel name k st
      generalize readKind fuel name k st = res at hK
      cases res with
      | error f => exact hK
      | ok p =>
        obtain ⟨vs, st1⟩ := p
        have hA := ih st1
        dsimp only
        generalize readProps fuel flags rest st1 = res2 at hA
        cases res2 with
        | error f => exact hA
        | ok p2 => obtain ⟨ws, st2⟩ := p2; simp [NP]
    · rw [if_neg hb]; exact ih st

theorem parsedFrame_np (fuel typ channel size : Nat) (st7 : St) : NP (parsedFrame fuel typ channel size st7) := by
  apply np_of
  intro f h
  unfold parsedFrame at h
  by_cases c1 : typ = 1
  · rw [if_pos c1] at h
    split at h
    · cases h; exact readUInt_np ‹_›
    · split at h
      · cases h; exact readUInt_np ‹_›
      · split at h
        · simp only [fail] at h; cases h; split <;> rfl
        · rename_i tname fields hl
          have hA := readArgs_np fuel fields ‹St›
          generalize readArgs fuel fields _ = res at h hA
          cases res with
          | error e => cases h; exact hA
          | ok p => obtain ⟨args, st3⟩ := p; cases h
  rw [if_neg c1] at h
  by_cases c2 : typ = 2
  · rw [if_pos c2] at h
    split at h
    · cases h; exact readUInt_np ‹_›
    · split at h
      · cases h; exact readUInt_np ‹_›
      · split at h
        · cases h; exact readUInt_np ‹_›
        · split at h
          · cases h; exact readUInt_np ‹_›
          · rename_i flags st4 hr4
            have hA := readProps_np fuel flags Gen.Amqp.properties st4
            generalize readProps fuel flags Gen.Amqp.properties st4 = res at h hA
            cases res with
            | error e => cases h; exact hA
            | ok p => obtain ⟨props, st5⟩ := p; cases h
  rw [if_neg c2] at h
  by_cases c3 : typ = 3
  · rw [if_pos c3] at h
    split at h
    · cases h; exact readFull_np ‹_›
    · cases h
  rw [if_neg c3] at h
  by_cases c8 : typ = 8
  · rw [if_pos c8] at h
    split at h
    · simp only [fail] at h; cases h; rfl
    · cases h
  rw [if_neg c8] at h
  simp only [fail] at h; cases h; rfl

theorem readFrame_np (st : St) : NP (readFrame st) := by
  apply np_of
  intro f h
  rw [readFrame_eq] at h
  split at h
  · cases h; exact readFull_np ‹_›
  · rename_i hd st7 hr
    split at h
    · simp only [fail] at h; cases h; rfl
    · have hP := parsedFrame_np (st.rem.length + 8) (hd.getD 0 0).toNat (beNat ((hd.drop 1).take 2)) (beNat ((hd.drop 3).take 4)) st7
      generalize parsedFrame (st.rem.length + 8) (hd.getD 0 0).toNat (beNat ((hd.drop 1).take 2)) (beNat ((hd.drop 3).take 4)) st7 = res at h hP
      cases res with
      | error e => cases h; exact hP
      | ok p =>
        obtain ⟨fr, st2⟩ := p
        dsimp only at h
        split at h
        · cases h; exact readFull_np ‹_›
        · split at h
          · cases h
          · simp only [fail] at h; cases h; rfl

/-- **C01 (AMQP, model).** For every byte sequence and every stream end, the modelled Dissect loop ends
    with the end of the stream, a reader error or a rejected frame - never with a panic outcome. -/
theorem dissect_np (isClient : Bool) : ∀ (fuel : Nat) (s : DState) (st : St), (dissect isClient fuel s st).2.isPanic = false := by
  intro fuel
  induction fuel with
  | zero => intro s st; rfl
  | succ n ih =>
    intro s st
    simp only [dissect]
    have hF := readFrame_np st
    generalize readFrame st = res at hF
    cases res with
    | error f =>
      dsimp only
      split
      · exact ih s f.st
      · exact hF
    | ok p =>
      obtain ⟨frame, st'⟩ := p
      dsimp only
      generalize onFrame isClient s frame = o
      obtain ⟨s', evs⟩ := o
      dsimp only
      have := ih s' st'
      generalize dissect isClient n s' st' = d at this
      obtain ⟨rest, e⟩ := d
      exact this

theorem c01_amqp_no_panic (isClient : Bool) (bytes : Bytes) (tail : Tail) :
    (dissectAll isClient bytes tail).2.isPanic = false := by
  unfold dissectAll
  exact dissect_np isClient _ _ _

end KsVerif.Proofs.C01Amqp
