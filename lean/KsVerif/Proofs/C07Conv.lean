import KsVerif.Proofs.C07
import KsVerif.Redis.Driver

/-!
# C07: a whole Redis conversation

`c07_client_half` and `c07_server_half` read each half back packet by packet.  The driver's observation of a
conversation (`observeConv`: both halves dissected with the fuel it really uses, the k-th command paired with the
k-th reply) is therefore exactly the sequence of exchanges sent - for every number of commands and replies, every
value, binary or not.
-/

namespace KsVerif.Proofs.C07Conv
open KsVerif KsVerif.Redis KsVerif.Redis.Spec KsVerif.Proofs.C07

theorem encAll_len : ∀ rs : List Reply, rs.length ≤ (encAll rs).length
  | [] => by simp [encAll]
  | r :: rs => by
    have ih := encAll_len rs
    have := encReply_pos r
    simp only [encAll, List.map_cons, List.flatten_cons, List.length_append, List.length_cons] at ih ⊢
    omega

/-- **A whole conversation**: the items the driver observes are the commands sent paired with the replies sent,
    k-th with k-th, each as `packetOf` reports it (`c07_command_reported`, `c07_reply_reported`). -/
theorem c07_conversation (cs : List Command) (rs : List Reply)
    (hc : ∀ c ∈ cs, Redis.inTable Gen.Redis.commands (upperAscii c.name) = true ∧ c.name.length ≤ 9223372036854775807 ∧
      (∀ a ∈ c.args, a.length ≤ 9223372036854775807) ∧ c.args.length < 9223372036854775807)
    (hr : ∀ r ∈ rs, wfR r = true ∧ reportable r = true) (ct st : Tail) :
    (Redis.Driver.observeConv ((cs.map encCommand).flatten) (encAll rs) ct st).2 =
      (cs.map fun c => packetOf (cmdReply c)).zip (rs.map packetOf) := by
  have hlc : cs.length ≤ ((cs.map encCommand).flatten).length := by
    have he : cs.map encCommand = (cs.map cmdReply).map encReply := by
      simp [List.map_map, Function.comp_def, encCommand_eq]
    have := encAll_len (cs.map cmdReply)
    simp only [encAll, List.length_map] at this
    rw [he]; exact this
  have hA := c07_client_half cs hc ct (((cs.map encCommand).flatten).length + 2) (by omega)
  have hB := c07_server_half rs hr st ((encAll rs).length + 2) (by have := encAll_len rs; omega)
  unfold Redis.Driver.observeConv dissectAll
  simp only [hA, hB]

end KsVerif.Proofs.C07Conv
