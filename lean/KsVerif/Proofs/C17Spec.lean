/-
  C17 — the regexp model of one ExpandMacros pass equals the token-level spec.

  `expandOne` models the regexp `(?<![\w.])name(?![\w.])(?=(?:[^"]|"[^"]*")*$)`: a look-behind,
  a look-ahead for the identifier boundary, and a look-ahead over the WHOLE remainder counting
  quotes.  `specExpandToks ∘ tokenize` is the statement of C17: split the text into string
  literals, identifiers and other characters; replace the identifiers that ARE a macro name;
  copy everything else byte for byte.  `c17_pass_eq_spec` proves the two equal for every text
  with terminated literals and no backslash (the escaped-quote case is the recorded finding).
-/
import KsVerif.Proofs.C17

namespace KsVerif.Proofs.C17
open KsVerif.Kfl.Macro

/-! ### characters -/

theorem isWord_isWordDot {c : Char} (h : isWord c = true) : isWordDot c = true := by
  simp [isWordDot, h]

theorem quote_not_wordDot : isWordDot '"' = false := by decide

/-- the previous character after consuming `l` -/
def lastOr (prev : Option Char) (l : List Char) : Option Char :=
  match l.getLast? with
  | some c => some c
  | none => prev

@[simp] theorem lastOr_nil (p : Option Char) : lastOr p [] = p := rfl

theorem lastOr_cons (p : Option Char) (c : Char) (l : List Char) :
    lastOr p (c :: l) = lastOr (some c) l := by
  cases l with
  | nil => simp [lastOr]
  | cons x xs =>
    simp only [lastOr, List.getLast?_cons_cons]
    cases h : (x :: xs).getLast? with
    | none => simp at h
    | some y => rfl

/-! ### the look-ahead on texts without a backslash: parity of the quotes -/

theorem closedAfter_cons (inLit : Bool) (c : Char) (r : List Char) (hc : c ≠ '\\') :
    closedAfter inLit (c :: r) = if (c == '"') = true then closedAfter (!inLit) r else closedAfter inLit r :=
  closedAfter.eq_4 inLit c r (fun _ _ h _ => hc h) (fun h _ => hc h)

theorem closedAfter_noBackslash : ∀ (s : List Char) (inLit : Bool), '\\' ∉ s →
    closedAfter inLit s = (quoteCount s % 2 == (if inLit then 1 else 0)) := by
  intro s
  induction s with
  | nil => intro inLit _; cases inLit <;> simp [closedAfter, quoteCount]
  | cons c r ih =>
    intro inLit hb
    have hc : c ≠ '\\' := fun h => hb (by simp [h])
    have hr : '\\' ∉ r := fun h => hb (by simp [h])
    rw [closedAfter_cons inLit c r hc, quoteCount_cons]
    by_cases hq : (c == '"') = true
    · simp only [hq, if_true]
      rw [ih (!inLit) hr]
      have h2 : quoteCount r % 2 = 0 ∨ quoteCount r % 2 = 1 := by omega
      cases inLit <;> rcases h2 with h2 | h2 <;> simp [h2] <;> omega
    · have hq' : (c == '"') = false := by simpa using hq
      simp only [hq', Bool.false_eq_true, if_false]
      rw [ih inLit hr]
      simp

theorem closedAfter_even (s : List Char) (hb : '\\' ∉ s) : closedAfter false s = evenQuotes s := by
  rw [closedAfter_noBackslash s false hb]; simp [evenQuotes]

/-! ### one pass of the model, run by run -/

/-- the skipped characters of a matched name produce nothing -/
theorem aux_skip (name exp : List Char) :
    ∀ (a : List Char) (prev : Option Char) (r : List Char),
      expandOneAux name exp prev a.length (a ++ r) = expandOneAux name exp (lastOr prev a) 0 r := by
  intro a
  induction a with
  | nil => intro prev r; simp
  | cons c cs ih =>
    intro prev r
    simp only [List.length_cons, List.cons_append, expandOneAux]
    rw [ih, lastOr_cons]

theorem aux_nil (name exp : List Char) (prev : Option Char) (k : Nat) :
    expandOneAux name exp prev k [] = [] := by
  cases k <;> simp [expandOneAux]

/-- no match: the character is copied -/
theorem aux_copy (name exp : List Char) (prev : Option Char) (c : Char) (rest : List Char)
    (h : matchesAt name prev (c :: rest) = false) :
    expandOneAux name exp prev 0 (c :: rest) = c :: expandOneAux name exp (some c) 0 rest := by
  simp [expandOneAux, h]

/-- a text that starts with another character than the name does not match -/
theorem no_match_head (n : Char) (ns : List Char) (prev : Option Char) (c : Char) (rest : List Char)
    (h : c ≠ n) : matchesAt (n :: ns) prev (c :: rest) = false := by
  have : isPrefixOf (n :: ns) (c :: rest) = false := by
    simp only [isPrefixOf, List.length_cons, List.take_succ_cons]
    simp [h]
  simp [matchesAt, this]

/-- after a word character nothing matches -/
theorem no_match_after_word (name : List Char) (p : Char) (s : List Char) (hp : isWordDot p = true) :
    matchesAt name (some p) s = false := by
  simp [matchesAt, hp]

/-- the rest of an identifier is copied -/
theorem aux_word_tail (name exp : List Char) :
    ∀ (w : List Char) (p : Char) (r : List Char), isWordDot p = true → w.all isWordDot = true →
      expandOneAux name exp (some p) 0 (w ++ r) = w ++ expandOneAux name exp (lastOr (some p) w) 0 r := by
  intro w
  induction w with
  | nil => intro p r _ _; simp
  | cons c cs ih =>
    intro p r hp hw
    simp only [List.all_cons, Bool.and_eq_true] at hw
    rw [List.cons_append, aux_copy _ _ _ _ _ (no_match_after_word name p _ hp), ih c r hw.1 hw.2, lastOr_cons]
    rfl

/-- Where the name can match inside an identifier: only when the identifier IS the name. -/
theorem match_word_iff :
    ∀ (name w r : List Char), name.all isWord = true → w.all isWordDot = true →
      (∀ x, r.head? = some x → isWordDot x = false) →
      isPrefixOf name (w ++ r) = true →
      (∀ x, ((w ++ r).drop name.length).head? = some x → isWordDot x = false) →
      name = w := by
  intro name
  induction name with
  | nil =>
    intro w r _ hw _ _ hnext
    cases w with
    | nil => rfl
    | cons c cs =>
      simp only [List.all_cons, Bool.and_eq_true] at hw
      have := hnext c (by simp)
      rw [hw.1] at this; exact absurd this (by simp)
  | cons n ns ih =>
    intro w r hn hw hr hp hnext
    simp only [List.all_cons, Bool.and_eq_true] at hn
    cases w with
    | nil =>
      exfalso
      simp only [List.nil_append] at hp
      cases r with
      | nil => simp [isPrefixOf] at hp
      | cons x xs =>
        simp only [isPrefixOf, List.length_cons, List.take_succ_cons, beq_iff_eq, List.cons.injEq] at hp
        have := hr x (by simp)
        rw [hp.1, isWord_isWordDot hn.1] at this
        exact absurd this (by simp)
    | cons c cs =>
      simp only [List.all_cons, Bool.and_eq_true] at hw
      simp only [List.cons_append, isPrefixOf, List.length_cons, List.take_succ_cons, beq_iff_eq,
        List.cons.injEq] at hp
      have hp' : isPrefixOf ns (cs ++ r) = true := by simp [isPrefixOf, hp.2]
      have hnext' : ∀ x, ((cs ++ r).drop ns.length).head? = some x → isWordDot x = false := by
        intro x hx; apply hnext x; simpa using hx
      rw [hp.1, ih cs r hn.2 hw.2 hr hp' hnext']

/-- **An identifier**: replaced when it is the name, copied otherwise. -/
theorem aux_word (name exp : List Char) (hn : name.all isWord = true) (hne : name ≠ [])
    (prev : Option Char) (w r : List Char)
    (hprev : ∀ p, prev = some p → isWordDot p = false)
    (hw : w.all isWordDot = true) (hwne : w ≠ [])
    (hr : ∀ x, r.head? = some x → isWordDot x = false)
    (heven : evenQuotes r = true) (hbr : '\\' ∉ r) :
    expandOneAux name exp prev 0 (w ++ r)
      = (if name = w then exp else w) ++ expandOneAux name exp (lastOr prev w) 0 r := by
  have hcl : closedAfter false r = true := by rw [closedAfter_even r hbr]; exact heven
  cases w with
  | nil => exact absurd rfl hwne
  | cons c cs =>
    by_cases heq : name = c :: cs
    · -- the identifier is the name: it matches
      have hm : matchesAt name prev (c :: cs ++ r) = true := by
        subst heq
        have h1 : isPrefixOf (c :: cs) (c :: cs ++ r) = true := by simp [isPrefixOf]
        have h2 : ((c :: cs ++ r).drop (c :: cs).length) = r := by simp
        simp only [matchesAt, h1, h2, hcl, Bool.true_and, Bool.and_true, Bool.and_eq_true]
        constructor
        · cases prev with
          | none => rfl
          | some p => simp [hprev p rfl]
        · cases hh : r.head? with
          | none => rfl
          | some x => simp [hr x hh]
      simp only [List.cons_append, expandOneAux]
      rw [if_pos ⟨hne, by simpa using hm⟩, if_pos heq]
      congr 1
      have hl : name.length - 1 = cs.length := by rw [heq]; simp
      rw [hl, aux_skip, lastOr_cons]
    · -- it is not: no match at its start, none inside
      have hm : matchesAt name prev (c :: cs ++ r) = false := by
        cases hmm : matchesAt name prev (c :: cs ++ r) with
        | false => rfl
        | true =>
          exfalso
          simp only [matchesAt, Bool.and_eq_true] at hmm
          obtain ⟨⟨⟨hp, _⟩, hnx⟩, _⟩ := hmm
          apply heq
          apply match_word_iff name (c :: cs) r hn hw hr hp
          intro x hx
          rw [hx] at hnx; simpa using hnx
      simp only [List.all_cons, Bool.and_eq_true] at hw
      rw [List.cons_append, aux_copy _ _ _ _ _ (by simpa using hm), if_neg heq,
        aux_word_tail name exp cs c r hw.1 hw.2, lastOr_cons]
      rfl

/-- inside a string literal (an odd number of quotes ahead) nothing matches -/
theorem aux_in_literal (name exp : List Char) (hn : quoteCount name = 0) :
    ∀ (body : List Char) (prev : Option Char) (tail : List Char),
      quoteCount body = 0 → quoteCount tail % 2 = 1 → '\\' ∉ body ++ tail →
      expandOneAux name exp prev 0 (body ++ tail) = body ++ expandOneAux name exp (lastOr prev body) 0 tail := by
  intro body
  induction body with
  | nil => intro prev tail _ _ _; simp
  | cons c cs ih =>
    intro prev tail hb ht hbs
    have hc : (if c == '"' then 1 else 0) = 0 ∧ quoteCount cs = 0 := by
      rw [quoteCount_cons] at hb; omega
    have hm : matchesAt name prev (c :: cs ++ tail) = false := by
      cases hmm : matchesAt name prev (c :: cs ++ tail) with
      | false => rfl
      | true =>
        exfalso
        simp only [matchesAt, Bool.and_eq_true] at hmm
        obtain ⟨⟨⟨hp, _⟩, _⟩, hev⟩ := hmm
        rw [closedAfter_even _ (fun h => hbs (List.mem_of_mem_drop h))] at hev
        have := quoteCount_take_prefix name (c :: cs ++ tail) hn hp
        have h1 : quoteCount (c :: cs ++ tail) = quoteCount tail := by
          rw [List.cons_append, quoteCount_cons, quoteCount_append, hc.1, hc.2]; simp
        rw [h1] at this
        simp only [evenQuotes, beq_iff_eq] at hev
        omega
    rw [List.cons_append, aux_copy _ _ _ _ _ (by simpa using hm),
      ih (some c) tail hc.2 ht (fun h => hbs (by simp only [List.cons_append, List.mem_cons]; exact Or.inr h)), lastOr_cons]
    rfl

/-- **A string literal** is copied byte for byte. -/
theorem aux_literal (name exp : List Char) (hn : name.all isWord = true) (hne : name ≠ [])
    (prev : Option Char) (body r : List Char) (hb : quoteCount body = 0) (heven : evenQuotes r = true)
    (hbb : '\\' ∉ body) (hbr : '\\' ∉ r) :
    expandOneAux name exp prev 0 ('"' :: (body ++ '"' :: r))
      = '"' :: (body ++ '"' :: expandOneAux name exp (some '"') 0 r) := by
  have hq : quoteCount name = 0 := by
    simp only [quoteCount, List.length_eq_zero_iff, List.filter_eq_nil_iff]
    intro a ha
    have := List.all_eq_true.mp hn a ha
    intro h
    simp only [beq_iff_eq] at h
    subst h
    have : isWordDot '"' = true := isWord_isWordDot this
    simp [quote_not_wordDot] at this
  cases name with
  | nil => exact absurd rfl hne
  | cons n ns =>
    simp only [List.all_cons, Bool.and_eq_true] at hn
    have hnq : '"' ≠ n := by
      intro h; subst h
      have : isWordDot '"' = true := isWord_isWordDot hn.1
      simp [quote_not_wordDot] at this
    simp only [evenQuotes, beq_iff_eq] at heven
    rw [aux_copy _ _ _ _ _ (no_match_head n ns prev '"' _ hnq),
      aux_in_literal (n :: ns) exp hq body (some '"') ('"' :: r) hb (by rw [quoteCount_cons]; simp; omega)
        (by simp only [List.mem_append, List.mem_cons, not_or]; exact ⟨hbb, by decide, hbr⟩),
      aux_copy _ _ _ _ _ (no_match_head n ns _ '"' _ hnq)]

/-- any other character is copied -/
theorem aux_other (name exp : List Char) (hn : name.all isWord = true) (hne : name ≠ [])
    (prev : Option Char) (c : Char) (rest : List Char) (hc : isWordDot c = false) :
    expandOneAux name exp prev 0 (c :: rest) = c :: expandOneAux name exp (some c) 0 rest := by
  cases name with
  | nil => exact absurd rfl hne
  | cons n ns =>
    simp only [List.all_cons, Bool.and_eq_true] at hn
    have : c ≠ n := by
      intro h; subst h
      rw [isWord_isWordDot hn.1] at hc; exact absurd hc (by simp)
    rw [aux_copy _ _ _ _ _ (no_match_head n ns prev c _ this)]

/-! ### the tokenizer, run by run -/

theorem tok_word : ∀ (w acc r : List Char), w.all isWordDot = true →
    (∀ x, r.head? = some x → isWordDot x = false) →
    tokenizeAux (w ++ r) (some (0, acc)) = .word (acc.reverse ++ w) :: tokenizeAux r none := by
  intro w
  induction w with
  | nil =>
    intro acc r _ hr
    cases r with
    | nil => simp [tokenizeAux]
    | cons c rest =>
      have hc := hr c (by simp)
      by_cases hq : (c == '"') = true
      · simp [tokenizeAux, hc, hq]
      · have hq' : (c == '"') = false := by simpa using hq
        simp [tokenizeAux, hc, hq']
  | cons x xs ih =>
    intro acc r hw hr
    simp only [List.all_cons, Bool.and_eq_true] at hw
    simp only [List.cons_append, tokenizeAux, hw.1, if_true]
    rw [ih (x :: acc) r hw.2 hr]
    simp

theorem tok_lit : ∀ (body acc r : List Char), quoteCount body = 0 → '\\' ∉ body →
    tokenizeAux (body ++ '"' :: r) (some (1, acc)) = .lit (acc.reverse ++ body ++ ['"']) :: tokenizeAux r none := by
  intro body
  induction body with
  | nil => intro acc r _ _; simp [tokenizeAux]
  | cons x xs ih =>
    intro acc r hq hb
    have hx : (x == '"') = false ∧ quoteCount xs = 0 := by
      rw [quoteCount_cons] at hq
      constructor
      · cases h : x == '"' with
        | false => rfl
        | true => simp [h] at hq
      · omega
    have hbs : (x == '\\') = false ∧ '\\' ∉ xs := by
      simp only [List.mem_cons, not_or] at hb
      exact ⟨by simpa using fun h => hb.1 h.symm, hb.2⟩
    simp only [List.cons_append, tokenizeAux, hx.1, hbs.1]
    rw [ih (x :: acc) r hx.2 hbs.2]
    simp

theorem quoteCount_of_wordDot : ∀ (w : List Char), w.all isWordDot = true → quoteCount w = 0 := by
  intro w
  induction w with
  | nil => intro _; rfl
  | cons c cs ih =>
    intro h
    simp only [List.all_cons, Bool.and_eq_true] at h
    rw [quoteCount_cons, ih h.2]
    have : (c == '"') = false := by
      cases hc : c == '"' with
      | false => rfl
      | true =>
        simp only [beq_iff_eq] at hc
        rw [hc, quote_not_wordDot] at h
        exact absurd h.1 (by simp)
    simp [this]

theorem quoteCount_of_noquote : ∀ (w : List Char), w.all (· != '"') = true → quoteCount w = 0 := by
  intro w
  induction w with
  | nil => intro _; rfl
  | cons c cs ih =>
    intro h
    simp only [List.all_cons, Bool.and_eq_true] at h
    rw [quoteCount_cons, ih h.2]
    have : (c == '"') = false := by simpa using h.1
    simp [this]

theorem lookup_single (nameS body : String) (w : List Char) :
    lookupMacro [(nameS, body)] w = if nameS.toList = w then some (wrap body) else none := by
  simp only [lookupMacro, List.find?]
  by_cases h : nameS.toList = w
  · simp [h]
  · have : (nameS.toList == w) = false := by simpa using h
    simp [this, h]

/-- a position that is not in the middle of an identifier -/
def boundaryOk (prev : Option Char) (s : List Char) : Prop :=
  match prev, s.head? with
  | some p, some c => isWordDot p = false ∨ isWordDot c = false
  | _, _ => True

theorem pass_eq_spec_aux (nameS body : String) (hn : nameS.toList.all isWord = true)
    (hne : nameS.toList ≠ []) :
    ∀ (n : Nat) (s : List Char), s.length ≤ n → ∀ (prev : Option Char), boundaryOk prev s →
      evenQuotes s = true → '\\' ∉ s →
      expandOneAux nameS.toList (wrap body) prev 0 s
        = specExpandToks [(nameS, body)] (tokenizeAux s none) := by
  intro n
  induction n with
  | zero =>
    intro s hl prev _ _ _
    have : s = [] := List.length_eq_zero_iff.mp (by omega)
    subst this
    simp [expandOneAux, tokenizeAux, specExpandToks]
  | succ n ih =>
    intro s hl prev hprev heven hbs
    cases s with
    | nil => simp [expandOneAux, tokenizeAux, specExpandToks]
    | cons c rest =>
      simp only [List.length_cons] at hl
      simp only [evenQuotes, beq_iff_eq] at heven
      by_cases hw : isWordDot c = true
      · -- an identifier
        have hs : rest = rest.takeWhile isWordDot ++ rest.dropWhile isWordDot :=
          List.takeWhile_append_dropWhile.symm
        generalize hw' : rest.takeWhile isWordDot = w' at hs
        generalize hr' : rest.dropWhile isWordDot = r at hs
        have hall : (c :: w').all isWordDot = true := by
          rw [← hw']; simp [hw]
        have hrh : ∀ x, r.head? = some x → isWordDot x = false := by
          intro x hx
          have := List.head?_dropWhile_not isWordDot rest
          rw [hr', hx] at this; exact this
        have hrl : r.length ≤ n := by
          have : r.length ≤ rest.length := by rw [← hr']; exact (List.dropWhile_sublist _).length_le
          omega
        have hcne : (c == '"') = false := by
          cases hc : c == '"' with
          | false => rfl
          | true =>
            simp only [beq_iff_eq] at hc
            rw [hc, quote_not_wordDot] at hw; exact absurd hw (by simp)
        have hqr : evenQuotes r = true := by
          have h0 := quoteCount_of_wordDot (c :: w') hall
          have : quoteCount (c :: rest) = quoteCount (c :: w') + quoteCount r := by
            rw [hs, ← List.cons_append, quoteCount_append]
          simp only [evenQuotes, beq_iff_eq]; omega
        have hpv : ∀ p, prev = some p → isWordDot p = false := by
          intro p hp
          subst hp
          simp only [boundaryOk, List.head?_cons] at hprev
          rcases hprev with h | h
          · exact h
          · rw [hw] at h; exact absurd h (by simp)
        have hbr : '\\' ∉ r := by
          intro h; apply hbs; rw [hs]; simp [h]
        have hbo : boundaryOk (lastOr prev (c :: w')) r := by
          unfold boundaryOk
          cases h1 : lastOr prev (c :: w') with
          | none => trivial
          | some p =>
            cases h2 : r.head? with
            | none => trivial
            | some x => exact Or.inr (hrh x h2)
        have e1 : c :: rest = (c :: w') ++ r := by rw [hs]; rfl
        rw [e1, aux_word nameS.toList (wrap body) hn hne prev (c :: w') r hpv hall (by simp) hrh hqr hbr,
          ih r hrl _ hbo hqr hbr]
        have e2 : tokenizeAux ((c :: w') ++ r) none = .word (c :: w') :: tokenizeAux r none := by
          simp only [List.cons_append, tokenizeAux, hcne, hw]
          simp only [Bool.false_eq_true, if_false, if_true]
          have hall' : w'.all isWordDot = true := by
            simp only [List.all_cons, Bool.and_eq_true] at hall; exact hall.2
          have := tok_word w' [c] r hall' hrh
          simpa using this
        rw [e2]
        simp only [specExpandToks]
        rw [lookup_single]
        by_cases hnm : nameS.toList = c :: w' <;> simp [hnm]
      · have hwf : isWordDot c = false := by simpa using hw
        by_cases hq : c = '"'
        · -- a string literal
          subst hq
          have hs : rest = rest.takeWhile (· != '"') ++ rest.dropWhile (· != '"') :=
            List.takeWhile_append_dropWhile.symm
          generalize hb' : rest.takeWhile (· != '"') = b at hs
          generalize hr' : rest.dropWhile (· != '"') = r' at hs
          have hbq : quoteCount b = 0 := by
            apply quoteCount_of_noquote; rw [← hb']; exact List.all_takeWhile
          have hrh := List.head?_dropWhile_not (· != '"') rest
          rw [hr'] at hrh
          cases r' with
          | nil =>
            exfalso
            rw [hs, quoteCount_cons, quoteCount_append, hbq] at heven
            simp [quoteCount] at heven
          | cons x r =>
            have hx : x = '"' := by simpa using hrh
            subst hx
            have hrl : r.length ≤ n := by
              have : rest.length = b.length + (r.length + 1) := by
                conv => lhs; rw [hs]
                simp
              omega
            have hqr : evenQuotes r = true := by
              rw [hs, quoteCount_cons, quoteCount_append, hbq, quoteCount_cons] at heven
              simp only [evenQuotes, beq_iff_eq]
              simp at heven; omega
            have hbb : '\\' ∉ b := by
              intro h; apply hbs; rw [hs]; simp [h]
            have hbr : '\\' ∉ r := by
              intro h; apply hbs; rw [hs]; simp [h]
            have hbo : boundaryOk (some '"') r := by
              unfold boundaryOk
              cases r.head? with
              | none => trivial
              | some y => exact Or.inl quote_not_wordDot
            rw [hs, aux_literal nameS.toList (wrap body) hn hne prev b r hbq hqr hbb hbr, ih r hrl _ hbo hqr hbr]
            have e2 : tokenizeAux ('"' :: (b ++ '"' :: r)) none = .lit ('"' :: (b ++ ['"'])) :: tokenizeAux r none := by
              simp only [tokenizeAux]
              have := tok_lit b ['"'] r hbq hbb
              simpa using this
            rw [e2]
            simp [specExpandToks]
        · -- any other character
          have hcq : (c == '"') = false := by simpa using hq
          have hqr : evenQuotes rest = true := by
            rw [quoteCount_cons] at heven
            simp only [evenQuotes, beq_iff_eq]
            simp [hcq] at heven; exact heven
          have hbr : '\\' ∉ rest := by
            intro h; apply hbs; simp [h]
          have hbo : boundaryOk (some c) rest := by
            unfold boundaryOk
            cases rest.head? with
            | none => trivial
            | some y => exact Or.inl hwf
          rw [aux_other nameS.toList (wrap body) hn hne prev c rest hwf, ih rest (by omega) _ hbo hqr hbr]
          simp [tokenizeAux, hcq, hwf, specExpandToks]

/-- **One pass of the implementation's regexp = the token-level rewrite** - for every macro whose
    name is an identifier, every definition, and every text with terminated string literals and
    no backslash: identifiers equal to the name are replaced by the parenthesised definition;
    string literals, longer identifiers containing the name, and all other characters are copied
    byte for byte. -/
theorem c17_pass_eq_spec (nameS body : String) (hn : nameS.toList.all isWord = true)
    (hne : nameS.toList ≠ []) (q : List Char) (heven : evenQuotes q = true) (hbs : '\\' ∉ q) :
    expandOne nameS.toList (wrap body) q = specExpandToks [(nameS, body)] (tokenize q) :=
  pass_eq_spec_aux nameS body hn hne q.length q (Nat.le_refl _) none (by simp [boundaryOk]) heven hbs

/-! ### token lists: rendering, well-formedness, the lexer round trip -/

def render : List Tok → List Char
  | [] => []
  | .lit s :: rest => s ++ render rest
  | .opened s :: rest => s ++ render rest
  | .other c :: rest => c :: render rest
  | .word w :: rest => w ++ render rest

def isWordTok : Tok → Bool
  | .word _ => true
  | _ => false

/-- what the tokenizer produces on a text with terminated literals and no backslash: non-empty
    identifiers never adjacent to one another, literals `"body"`, single other characters -/
def WF : List Tok → Prop
  | [] => True
  | .word w :: rest => w ≠ [] ∧ w.all isWordDot = true ∧
      (∀ t, rest.head? = some t → isWordTok t = false) ∧ WF rest
  | .lit s :: rest => (∃ b, s = '"' :: (b ++ ['"']) ∧ quoteCount b = 0 ∧ '\\' ∉ b) ∧ WF rest
  | .other c :: rest => isWordDot c = false ∧ c ≠ '"' ∧ c ≠ '\\' ∧ WF rest
  | .opened _ :: _ => False

theorem render_append : ∀ (a b : List Tok), render (a ++ b) = render a ++ render b := by
  intro a
  induction a with
  | nil => intro b; rfl
  | cons t ts ih =>
    intro b
    cases t <;> simp [render, ih]

theorem render_head (ts : List Tok) (hwf : WF ts)
    (hh : ∀ t, ts.head? = some t → isWordTok t = false) :
    ∀ x, (render ts).head? = some x → isWordDot x = false := by
  intro x hx
  cases ts with
  | nil => simp [render] at hx
  | cons t rest =>
    cases t with
    | word w => have := hh (.word w) (by simp); simp [isWordTok] at this
    | opened s => simp [WF] at hwf
    | other c =>
      simp only [render, List.head?_cons, Option.some.injEq] at hx
      subst hx; exact hwf.1
    | lit s =>
      obtain ⟨⟨b, hs, _, _⟩, _⟩ := hwf
      subst hs
      simp only [render, List.cons_append, List.head?_cons, Option.some.injEq] at hx
      subst hx; exact quote_not_wordDot

/-- **the lexer round trip**: tokenizing the rendering of a well-formed token list gives it back -/
theorem tok_render : ∀ (ts : List Tok), WF ts → tokenizeAux (render ts) none = ts := by
  intro ts
  induction ts with
  | nil => intro _; simp [render, tokenizeAux]
  | cons t rest ih =>
    intro hwf
    cases t with
    | opened s => simp [WF] at hwf
    | other c =>
      obtain ⟨h1, h2, _, h4⟩ := hwf
      have hq : (c == '"') = false := by simpa using h2
      simp [render, tokenizeAux, hq, h1, ih h4]
    | lit s =>
      obtain ⟨⟨b, hs, hb1, hb2⟩, h4⟩ := hwf
      subst hs
      have := tok_lit b ['"'] (render rest) hb1 hb2
      simp only [render, List.cons_append, List.append_assoc, tokenizeAux, List.nil_append]
      simp only [List.reverse_cons, List.reverse_nil, List.nil_append, List.cons_append] at this
      simp only [beq_self_eq_true, if_true]
      rw [this, ih h4]
    | word w =>
      obtain ⟨h1, h2, h3, h4⟩ := hwf
      cases w with
      | nil => exact absurd rfl h1
      | cons c cs =>
        simp only [List.all_cons, Bool.and_eq_true] at h2
        have hq : (c == '"') = false := by
          cases hc : c == '"' with
          | false => rfl
          | true =>
            simp only [beq_iff_eq] at hc
            rw [hc, quote_not_wordDot] at h2; exact absurd h2.1 (by simp)
        have := tok_word cs [c] (render rest) h2.2 (render_head rest h4 h3)
        simp only [render, List.cons_append, tokenizeAux, hq, h2.1]
        simp only [Bool.false_eq_true, if_false, if_true]
        rw [this, ih h4]
        simp

theorem wordDot_no_backslash : isWordDot '\\' = false := by decide

/-- the rendering of a well-formed token list has terminated literals and no backslash -/
theorem render_ok : ∀ (ts : List Tok), WF ts → evenQuotes (render ts) = true ∧ '\\' ∉ render ts := by
  intro ts
  induction ts with
  | nil => intro _; simp [render, evenQuotes, quoteCount]
  | cons t rest ih =>
    intro hwf
    cases t with
    | opened s => simp [WF] at hwf
    | other c =>
      obtain ⟨_, h2, h3, h4⟩ := hwf
      obtain ⟨i1, i2⟩ := ih h4
      have hq : (c == '"') = false := by simpa using h2
      simp only [evenQuotes, beq_iff_eq] at i1 ⊢
      refine ⟨by simp only [render]; rw [quoteCount_cons]; simp [hq]; exact i1, ?_⟩
      simp only [render, List.mem_cons, not_or]
      exact ⟨fun h => h3 h.symm, i2⟩
    | lit s =>
      obtain ⟨⟨b, hs, hb1, hb2⟩, h4⟩ := hwf
      obtain ⟨i1, i2⟩ := ih h4
      subst hs
      simp only [evenQuotes, beq_iff_eq] at i1 ⊢
      refine ⟨?_, ?_⟩
      · simp only [render, List.cons_append, List.append_assoc]
        rw [quoteCount_cons, quoteCount_append, quoteCount_cons, hb1]
        simp only [List.nil_append, beq_self_eq_true, if_true]
        omega
      · simp only [render, List.cons_append, List.append_assoc, List.mem_cons, List.mem_append, not_or]
        refine ⟨by decide, hb2, ?_⟩
        exact ⟨by decide, by simp, i2⟩
    | word w =>
      obtain ⟨_, h2, _, h4⟩ := hwf
      obtain ⟨i1, i2⟩ := ih h4
      simp only [evenQuotes, beq_iff_eq] at i1 ⊢
      refine ⟨by simp only [render]; rw [quoteCount_append, quoteCount_of_wordDot w h2]; simpa using i1, ?_⟩
      simp only [render, List.mem_append, not_or]
      refine ⟨?_, i2⟩
      intro h
      have := List.all_eq_true.mp h2 _ h
      rw [wordDot_no_backslash] at this; exact absurd this (by simp)

/-- how a non-empty text with terminated literals and no backslash starts: an identifier, a
    string literal, or another character - and what the tokenizer makes of it -/
theorem decomp (c : Char) (rest : List Char) (heven : evenQuotes (c :: rest) = true)
    (hbs : '\\' ∉ c :: rest) :
    (isWordDot c = true ∧ ∃ w' r, (c :: w').all isWordDot = true ∧
        (∀ x, r.head? = some x → isWordDot x = false) ∧ r.length ≤ rest.length ∧
        evenQuotes r = true ∧ '\\' ∉ r ∧ c :: rest = (c :: w') ++ r ∧
        tokenizeAux (c :: rest) none = .word (c :: w') :: tokenizeAux r none)
    ∨ (c = '"' ∧ ∃ b r, quoteCount b = 0 ∧ '\\' ∉ b ∧ r.length < rest.length ∧
        evenQuotes r = true ∧ '\\' ∉ r ∧ c :: rest = '"' :: (b ++ '"' :: r) ∧
        tokenizeAux (c :: rest) none = .lit ('"' :: (b ++ ['"'])) :: tokenizeAux r none)
    ∨ (isWordDot c = false ∧ c ≠ '"' ∧ c ≠ '\\' ∧ evenQuotes rest = true ∧ '\\' ∉ rest ∧
        tokenizeAux (c :: rest) none = .other c :: tokenizeAux rest none) := by
  simp only [evenQuotes, beq_iff_eq] at heven
  by_cases hw : isWordDot c = true
  · left
    refine ⟨hw, ?_⟩
    have hs : rest = rest.takeWhile isWordDot ++ rest.dropWhile isWordDot :=
      List.takeWhile_append_dropWhile.symm
    generalize hw' : rest.takeWhile isWordDot = w' at hs
    generalize hr' : rest.dropWhile isWordDot = r at hs
    have hall : (c :: w').all isWordDot = true := by
      rw [← hw']; simp [hw]
    have hall' : w'.all isWordDot = true := by
      simp only [List.all_cons, Bool.and_eq_true] at hall; exact hall.2
    have hrh : ∀ x, r.head? = some x → isWordDot x = false := by
      intro x hx
      have := List.head?_dropWhile_not isWordDot rest
      rw [hr', hx] at this; exact this
    have hcne : (c == '"') = false := by
      cases hc : c == '"' with
      | false => rfl
      | true =>
        simp only [beq_iff_eq] at hc
        rw [hc, quote_not_wordDot] at hw; exact absurd hw (by simp)
    refine ⟨w', r, hall, hrh, ?_, ?_, ?_, ?_, ?_⟩
    · rw [← hr']; exact (List.dropWhile_sublist _).length_le
    · have h0 := quoteCount_of_wordDot (c :: w') hall
      have : quoteCount (c :: rest) = quoteCount (c :: w') + quoteCount r := by
        rw [hs, ← List.cons_append, quoteCount_append]
      simp only [evenQuotes, beq_iff_eq]; omega
    · intro h; apply hbs; rw [hs]; simp [h]
    · rw [hs]; rfl
    · rw [hs]
      simp only [tokenizeAux, hcne, hw]
      simp only [Bool.false_eq_true, if_false, if_true]
      have := tok_word w' [c] r hall' hrh
      simpa using this
  · have hwf : isWordDot c = false := by simpa using hw
    right
    by_cases hq : c = '"'
    · left
      refine ⟨hq, ?_⟩
      subst hq
      have hs : rest = rest.takeWhile (· != '"') ++ rest.dropWhile (· != '"') :=
        List.takeWhile_append_dropWhile.symm
      generalize hb' : rest.takeWhile (· != '"') = b at hs
      generalize hr' : rest.dropWhile (· != '"') = r' at hs
      have hbq : quoteCount b = 0 := by
        apply quoteCount_of_noquote; rw [← hb']; exact List.all_takeWhile
      have hrh := List.head?_dropWhile_not (· != '"') rest
      rw [hr'] at hrh
      cases r' with
      | nil =>
        exfalso
        rw [hs, quoteCount_cons, quoteCount_append, hbq] at heven
        simp [quoteCount] at heven
      | cons x r =>
        have hx : x = '"' := by simpa using hrh
        subst hx
        have hbb : '\\' ∉ b := by
          intro h; apply hbs; rw [hs]; simp [h]
        refine ⟨b, r, hbq, hbb, ?_, ?_, ?_, ?_, ?_⟩
        · have : rest.length = b.length + (r.length + 1) := by
            conv => lhs; rw [hs]
            simp
          omega
        · rw [hs, quoteCount_cons, quoteCount_append, hbq, quoteCount_cons] at heven
          simp only [evenQuotes, beq_iff_eq]
          simp at heven; omega
        · intro h; apply hbs; rw [hs]; simp [h]
        · rw [hs]
        · rw [hs]
          simp only [tokenizeAux]
          have := tok_lit b ['"'] r hbq hbb
          simpa using this
    · right
      have hcq : (c == '"') = false := by simpa using hq
      refine ⟨hwf, hq, ?_, ?_, ?_, ?_⟩
      · intro h; apply hbs; simp [h]
      · rw [quoteCount_cons] at heven
        simp only [evenQuotes, beq_iff_eq]
        simp [hcq] at heven; exact heven
      · intro h; apply hbs; simp [h]
      · simp [tokenizeAux, hcq, hwf]

/-- **what the tokenizer produces**: on a text with terminated literals and no backslash the token
    list is well-formed and renders back to the text, byte for byte -/
theorem tokenize_wf :
    ∀ (n : Nat) (s : List Char), s.length ≤ n → evenQuotes s = true → '\\' ∉ s →
      WF (tokenizeAux s none) ∧ render (tokenizeAux s none) = s ∧
      ((∀ x, s.head? = some x → isWordDot x = false) →
        ∀ t, (tokenizeAux s none).head? = some t → isWordTok t = false) := by
  intro n
  induction n with
  | zero =>
    intro s hl _ _
    have : s = [] := List.length_eq_zero_iff.mp (by omega)
    subst this
    simp [tokenizeAux, WF, render]
  | succ n ih =>
    intro s hl heven hbs
    cases s with
    | nil => simp [tokenizeAux, WF, render]
    | cons c rest =>
      simp only [List.length_cons] at hl
      rcases decomp c rest heven hbs with ⟨hw, w', r, hall, hrh, hrl, hqr, hbr, hs, htk⟩
        | ⟨hq, b, r, hbq, hbb, hrl, hqr, hbr, hs, htk⟩
        | ⟨hwf, hq, hb, hqr, hbr, htk⟩
      · obtain ⟨i1, i2, i3⟩ := ih r (by omega) hqr hbr
        rw [htk]
        refine ⟨⟨by simp, hall, i3 hrh, i1⟩, ?_, ?_⟩
        · simp only [render]; rw [i2, hs]
        · intro hh
          have := hh c (by simp)
          rw [hw] at this; exact absurd this (by simp)
      · obtain ⟨i1, i2, _⟩ := ih r (by omega) hqr hbr
        rw [htk]
        refine ⟨⟨⟨b, rfl, hbq, hbb⟩, i1⟩, ?_, ?_⟩
        · simp only [render]; rw [i2, hs]; simp
        · intro _ t ht
          simp only [List.head?_cons, Option.some.injEq] at ht
          subst ht; rfl
      · obtain ⟨i1, i2, _⟩ := ih rest (by omega) hqr hbr
        rw [htk]
        refine ⟨⟨hwf, hq, hb, i1⟩, ?_, ?_⟩
        · simp only [render]; rw [i2]
        · intro _ t ht
          simp only [List.head?_cons, Option.some.injEq] at ht
          subst ht; rfl

theorem tokenize_ok (q : List Char) (heven : evenQuotes q = true) (hbs : '\\' ∉ q) :
    WF (tokenize q) ∧ render (tokenize q) = q :=
  let h := tokenize_wf q.length q (Nat.le_refl _) heven hbs
  ⟨h.1, h.2.1⟩

/-! ### all passes: substitution on token lists -/

/-- the tokens of a macro's parenthesised definition -/
def etoks (m : String × String) : List Tok := tokenize (wrap m.2)

def substTok (t : List (String × String)) : Tok → List Tok
  | .word w => match t.find? (fun m => m.1.toList == w) with
    | some m => etoks m
    | none => [.word w]
  | tok => [tok]

def substToks (t : List (String × String)) : List Tok → List Tok
  | [] => []
  | tok :: rest => substTok t tok ++ substToks t rest

/-- what the argument needs of a macro table, as one decidable check: names are identifiers;
    definitions have terminated literals and no backslash; their token lists start with `(` and
    end with `)`; and no identifier inside a definition is itself a macro name (closedness) -/
def goodB (t : List (String × String)) : Bool :=
  t.all fun m =>
    !m.1.toList.isEmpty && m.1.toList.all isWord &&
    evenQuotes (wrap m.2) && !(wrap m.2).contains '\\' &&
    ((etoks m).head? == some (.other '(')) && ((etoks m).getLast? == some (.other ')')) &&
    (substToks t (etoks m) == etoks m) &&
    t.all fun m2 => substToks [m2] (etoks m) == etoks m

structure GoodMacro (t : List (String × String)) (m : String × String) : Prop where
  ne : m.1.toList ≠ []
  word : m.1.toList.all isWord = true
  even : evenQuotes (wrap m.2) = true
  nobs : '\\' ∉ wrap m.2
  last : (etoks m).getLast? = some (.other ')')
  closed : substToks t (etoks m) = etoks m
  closed1 : ∀ m2 ∈ t, substToks [m2] (etoks m) = etoks m

theorem good_of {t : List (String × String)} (h : goodB t = true) {m : String × String} (hm : m ∈ t) :
    GoodMacro t m := by
  have := List.all_eq_true.mp h m hm
  simp only [Bool.and_eq_true, Bool.not_eq_true', beq_iff_eq, List.all_eq_true, List.isEmpty_eq_false_iff,
    List.contains_eq_mem, decide_eq_false_iff_not] at this
  obtain ⟨⟨⟨⟨⟨⟨⟨h1, h2⟩, h3⟩, h4⟩, _⟩, h6⟩, h7⟩, h8⟩ := this
  exact ⟨h1, List.all_eq_true.mpr h2, h3, h4, h6, h7, h8⟩

theorem GoodMacro.wf {t m} (g : GoodMacro t m) : WF (etoks m) ∧ render (etoks m) = wrap m.2 :=
  tokenize_ok (wrap m.2) g.even g.nobs

theorem substToks_append (t : List (String × String)) :
    ∀ (a b : List Tok), substToks t (a ++ b) = substToks t a ++ substToks t b := by
  intro a
  induction a with
  | nil => intro b; rfl
  | cons x xs ih => intro b; simp [substToks, ih]

theorem substToks_nil : ∀ (ts : List Tok), substToks [] ts = ts := by
  intro ts
  induction ts with
  | nil => rfl
  | cons x xs ih => cases x <;> simp [substToks, substTok, ih]

/-- the spec is substitution followed by rendering -/
theorem spec_eq_render (t : List (String × String)) (hg : ∀ m ∈ t, render (etoks m) = wrap m.2) :
    ∀ (ts : List Tok), specExpandToks t ts = render (substToks t ts) := by
  intro ts
  induction ts with
  | nil => rfl
  | cons x xs ih =>
    cases x with
    | lit s => simp [specExpandToks, substToks, substTok, render, ih]
    | opened s => simp [specExpandToks, substToks, substTok, render, ih]
    | other c => simp [specExpandToks, substToks, substTok, render, ih]
    | word w =>
      simp only [specExpandToks, substToks, substTok, lookupMacro, render_append, ih]
      cases hf : t.find? (fun m => m.1.toList == w) with
      | none => simp [render]
      | some m => simp [hg m (List.mem_of_find?_eq_some hf)]

theorem WF_append_other : ∀ (a b : List Tok), WF a → (∃ c, a.getLast? = some (.other c)) → WF b →
    WF (a ++ b) := by
  intro a
  induction a with
  | nil => intro b _ ⟨c, hc⟩ _; simp at hc
  | cons x xs ih =>
    intro b ha ⟨c, hc⟩ hb
    cases xs with
    | nil =>
      simp only [List.getLast?_singleton, Option.some.injEq] at hc
      subst hc
      obtain ⟨h1, h2, h3, _⟩ := ha
      exact ⟨h1, h2, h3, hb⟩
    | cons y ys =>
      rw [List.getLast?_cons_cons] at hc
      cases x with
      | opened s => simp [WF] at ha
      | other d =>
        obtain ⟨h1, h2, h3, h4⟩ := ha
        exact ⟨h1, h2, h3, ih b h4 ⟨c, hc⟩ hb⟩
      | lit s =>
        obtain ⟨h1, h4⟩ := ha
        exact ⟨h1, ih b h4 ⟨c, hc⟩ hb⟩
      | word w =>
        obtain ⟨h1, h2, h3, h4⟩ := ha
        exact ⟨h1, h2, by simpa using h3, ih b h4 ⟨c, hc⟩ hb⟩

theorem subst_head (t : List (String × String)) (ts : List Tok)
    (h : ∀ x, ts.head? = some x → isWordTok x = false) :
    ∀ x, (substToks t ts).head? = some x → isWordTok x = false := by
  intro x hx
  cases ts with
  | nil => simp [substToks] at hx
  | cons y ys =>
    have hy := h y (by simp)
    cases y with
    | word w => simp [isWordTok] at hy
    | lit s => simp only [substToks, substTok, List.cons_append, List.nil_append, List.head?_cons, Option.some.injEq] at hx; subst hx; rfl
    | opened s => simp only [substToks, substTok, List.cons_append, List.nil_append, List.head?_cons, Option.some.injEq] at hx; subst hx; rfl
    | other c => simp only [substToks, substTok, List.cons_append, List.nil_append, List.head?_cons, Option.some.injEq] at hx; subst hx; rfl

/-- substitution keeps token lists well-formed -/
theorem WF_subst (t P : List (String × String)) (hP : ∀ m ∈ P, GoodMacro t m) :
    ∀ (ts : List Tok), WF ts → WF (substToks P ts) := by
  intro ts
  induction ts with
  | nil => intro _; trivial
  | cons x xs ih =>
    intro hwf
    cases x with
    | opened s => simp [WF] at hwf
    | other c =>
      obtain ⟨h1, h2, h3, h4⟩ := hwf
      exact ⟨h1, h2, h3, ih h4⟩
    | lit s =>
      obtain ⟨h1, h4⟩ := hwf
      exact ⟨h1, ih h4⟩
    | word w =>
      obtain ⟨h1, h2, h3, h4⟩ := hwf
      simp only [substToks, substTok]
      cases hf : P.find? (fun m => m.1.toList == w) with
      | none => exact ⟨h1, h2, subst_head P xs h3, ih h4⟩
      | some m =>
        have g := hP m (List.mem_of_find?_eq_some hf)
        exact WF_append_other _ _ g.wf.1 ⟨_, g.last⟩ (ih h4)

/-- one pass, on token lists -/
theorem pass_toks (t : List (String × String)) (m : String × String) (g : GoodMacro t m)
    (ts : List Tok) (hwf : WF ts) :
    expandOne m.1.toList (wrap m.2) (render ts) = render (substToks [m] ts) := by
  have hr := render_ok ts hwf
  have h1 := c17_pass_eq_spec m.1 m.2 g.word g.ne (render ts) hr.1 hr.2
  rw [h1]
  have h2 : tokenize (render ts) = ts := tok_render ts hwf
  rw [h2]
  exact spec_eq_render [(m.1, m.2)] (by
    intro m' hm'
    simp only [List.mem_singleton] at hm'
    subst hm'
    exact g.wf.2) ts

/-- a further pass extends the set of substituted names -/
theorem subst_compose (t P : List (String × String)) (m : String × String)
    (hP : ∀ m' ∈ P, GoodMacro t m') (_hPt : ∀ m' ∈ P, m' ∈ t) (hm : m ∈ t) :
    ∀ (ts : List Tok), substToks [m] (substToks P ts) = substToks (P ++ [m]) ts := by
  intro ts
  induction ts with
  | nil => rfl
  | cons x xs ih =>
    cases x with
    | lit s => simp [substToks, substTok, ih]
    | opened s => simp [substToks, substTok, ih]
    | other c => simp [substToks, substTok, ih]
    | word w =>
      simp only [substToks, substTok, List.find?_append]
      cases hf : P.find? (fun m => m.1.toList == w) with
      | some m' =>
        have g := hP m' (List.mem_of_find?_eq_some hf)
        simp only [Option.some_or, substToks_append, ih]
        rw [g.closed1 m hm]
      | none =>
        simp only [Option.none_or, substToks_append, ih]
        congr 1
        simp [substToks, substTok]

theorem expandIn_cons (m : String × String) (rest : List (String × String)) (q : List Char) :
    expandIn (m :: rest) q = expandIn rest (expandOne m.1.toList (wrap m.2) q) := by
  simp [expandIn]

/-- all passes, in any order, on token lists -/
theorem expandIn_toks (t : List (String × String)) (hg : goodB t = true) (ts : List Tok) (hwf : WF ts) :
    ∀ (rest P : List (String × String)), (∀ m ∈ rest, m ∈ t) → (∀ m ∈ P, m ∈ t) →
      expandIn rest (render (substToks P ts)) = render (substToks (P ++ rest) ts) := by
  intro rest
  induction rest with
  | nil => intro P _ _; simp [expandIn]
  | cons m rest ih =>
    intro P hr hP
    have hm : m ∈ t := hr m (by simp)
    have hPg : ∀ m' ∈ P, GoodMacro t m' := fun m' h => good_of hg (hP m' h)
    rw [expandIn_cons, pass_toks t m (good_of hg hm) _ (WF_subst t P hPg ts hwf),
      subst_compose t P m hPg hP hm ts,
      ih (P ++ [m]) (fun x hx => hr x (by simp [hx])) (by
        intro x hx
        simp only [List.mem_append, List.mem_singleton] at hx
        rcases hx with h | h
        · exact hP x h
        · subst h; exact hm)]
    simp

theorem nodup_map_inj : ∀ {l : List (String × String)}, (l.map (·.1)).Nodup →
    ∀ {a b : String × String}, a ∈ l → b ∈ l → a.1 = b.1 → a = b := by
  intro l
  induction l with
  | nil => intro _ a b ha; simp at ha
  | cons x xs ih =>
    intro d a b ha hb h
    simp only [List.map_cons, List.nodup_cons] at d
    simp only [List.mem_cons] at ha hb
    rcases ha with ha | ha <;> rcases hb with hb | hb
    · rw [ha, hb]
    · exfalso; apply d.1; rw [← ha, h]; exact List.mem_map_of_mem hb
    · exfalso; apply d.1; rw [← hb, ← h]; exact List.mem_map_of_mem ha
    · exact ih d.2 ha hb h

/-- with distinct names the substitution does not depend on the order of the table -/
theorem find_perm (l1 l2 : List (String × String)) (hp : l1.Perm l2) (hn : (l1.map (·.1)).Nodup)
    (w : List Char) :
    l1.find? (fun m => m.1.toList == w) = l2.find? (fun m => m.1.toList == w) := by
  cases h1 : l1.find? (fun m => m.1.toList == w) with
  | none =>
    cases h2 : l2.find? (fun m => m.1.toList == w) with
    | none => rfl
    | some b =>
      exfalso
      have hb := List.mem_of_find?_eq_some h2
      have hpb := List.find?_some h2
      have := List.find?_eq_none.mp h1 b (hp.mem_iff.mpr hb)
      exact this hpb
  | some a =>
    have ha := List.mem_of_find?_eq_some h1
    have hpa := List.find?_some h1
    cases h2 : l2.find? (fun m => m.1.toList == w) with
    | none =>
      exfalso
      have := List.find?_eq_none.mp h2 a (hp.mem_iff.mp ha)
      exact this hpa
    | some b =>
      have hb := hp.mem_iff.mpr (List.mem_of_find?_eq_some h2)
      have hpb := List.find?_some h2
      simp only [beq_iff_eq] at hpa hpb
      have hname : a.1 = b.1 := String.ext (by rw [hpa, hpb])
      have := nodup_map_inj hn ha hb hname
      rw [this]

theorem substToks_perm (l1 l2 : List (String × String)) (hp : l1.Perm l2) (hn : (l1.map (·.1)).Nodup) :
    ∀ (ts : List Tok), substToks l1 ts = substToks l2 ts := by
  intro ts
  induction ts with
  | nil => rfl
  | cons x xs ih =>
    cases x with
    | word w => simp only [substToks, substTok, find_perm l1 l2 hp hn w, ih]
    | lit s => simp [substToks, substTok, ih]
    | opened s => simp [substToks, substTok, ih]
    | other c => simp [substToks, substTok, ih]

/-- substituting again changes nothing -/
theorem substToks_idem (t : List (String × String)) (hg : goodB t = true) :
    ∀ (ts : List Tok), substToks t (substToks t ts) = substToks t ts := by
  intro ts
  induction ts with
  | nil => rfl
  | cons x xs ih =>
    cases x with
    | lit s => simp [substToks, substTok, ih]
    | opened s => simp [substToks, substTok, ih]
    | other c => simp [substToks, substTok, ih]
    | word w =>
      simp only [substToks, substTok]
      cases hf : t.find? (fun m => m.1.toList == w) with
      | some m =>
        simp only [substToks_append, ih]
        rw [(good_of hg (List.mem_of_find?_eq_some hf)).closed]
      | none =>
        simp only [substToks_append, ih, substToks, substTok, hf, List.append_nil]

/-! ### the property -/

/-- **C17, equality with the token-level rewrite**: for every table that passes `goodB` and has
    distinct names, every order of the passes, and every query with terminated string literals and
    no backslash, the passes of the implementation's regexps produce exactly: every standalone
    identifier that is a macro name replaced by its parenthesised definition, string literals and
    longer identifiers and everything else byte for byte. -/
theorem c17_expand_eq_spec (t order : List (String × String)) (hg : goodB t = true)
    (hn : (t.map (·.1)).Nodup) (hp : order.Perm t) (q : List Char)
    (heven : evenQuotes q = true) (hbs : '\\' ∉ q) :
    expandIn order q = specExpandToks t (tokenize q) := by
  obtain ⟨hwf, hr⟩ := tokenize_ok q heven hbs
  have h := expandIn_toks t hg (tokenize q) hwf order [] (fun m hm => hp.mem_iff.mp hm) (by simp)
  rw [substToks_nil, hr, List.nil_append] at h
  rw [h, substToks_perm order t hp (by
    have := (hp.map (·.1)).nodup_iff.mpr hn; exact this)]
  exact (spec_eq_render t (fun m hm => (good_of hg hm).wf.2) _).symm

/-- **C17, order independence**: any two orders of the macro table give the same text. -/
theorem c17_order_independent (t o1 o2 : List (String × String)) (hg : goodB t = true)
    (hn : (t.map (·.1)).Nodup) (h1 : o1.Perm t) (h2 : o2.Perm t) (q : List Char)
    (heven : evenQuotes q = true) (hbs : '\\' ∉ q) :
    expandIn o1 q = expandIn o2 q := by
  rw [c17_expand_eq_spec t o1 hg hn h1 q heven hbs, c17_expand_eq_spec t o2 hg hn h2 q heven hbs]

/-- **C17, idempotence**: expanding an expanded query changes nothing (whatever the two orders). -/
theorem c17_idempotent (t o1 o2 : List (String × String)) (hg : goodB t = true)
    (hn : (t.map (·.1)).Nodup) (h1 : o1.Perm t) (h2 : o2.Perm t) (q : List Char)
    (heven : evenQuotes q = true) (hbs : '\\' ∉ q) :
    expandIn o2 (expandIn o1 q) = expandIn o1 q := by
  obtain ⟨hwf, _⟩ := tokenize_ok q heven hbs
  have hgm : ∀ m ∈ t, GoodMacro t m := fun m hm => good_of hg hm
  have e1 : expandIn o1 q = render (substToks t (tokenize q)) := by
    rw [c17_expand_eq_spec t o1 hg hn h1 q heven hbs]
    exact spec_eq_render t (fun m hm => (hgm m hm).wf.2) _
  have hwf2 : WF (substToks t (tokenize q)) := WF_subst t t hgm _ hwf
  have h := expandIn_toks t hg _ hwf2 o2 [] (fun m hm => h2.mem_iff.mp hm) (by simp)
  rw [substToks_nil, List.nil_append] at h
  rw [e1, h, substToks_perm o2 t h2 (by
    have := (h2.map (·.1)).nodup_iff.mpr hn; exact this), substToks_idem t hg]

/-! ### the regenerated table -/

/-- the regenerated macro table passes the check (kernel-evaluated on every run) -/
theorem c17_table_good : goodB Gen.Macros.table = true := by decide

theorem insertByLen_perm (m : String × String) :
    ∀ (l : List (String × String)), (insertByLen m l).Perm (m :: l) := by
  intro l
  induction l with
  | nil => exact List.Perm.refl _
  | cons x xs ih =>
    simp only [insertByLen]
    split
    · exact List.Perm.refl _
    · exact (List.Perm.cons x ih).trans (List.Perm.swap m x xs)

theorem sortByLen_perm : ∀ (t : List (String × String)), (sortByLen t).Perm t := by
  intro t
  induction t with
  | nil => exact List.Perm.refl _
  | cons x xs ih =>
    simp only [sortByLen, List.foldr_cons]
    exact (insertByLen_perm x _).trans (List.Perm.cons x ih)

/-- **C17 for ExpandMacros with the registered macros**: the model of ExpandMacros equals the
    token-level rewrite on every query with terminated literals and no backslash. -/
theorem c17_expand_spec (q : String) (heven : evenQuotes q.toList = true) (hbs : '\\' ∉ q.toList) :
    expand q = specExpand q := by
  simp only [expand, specExpand]
  rw [c17_expand_eq_spec Gen.Macros.table _ c17_table_good c17_table_names_distinct
    (sortByLen_perm _) q.toList heven hbs]

/-- whatever order the map iteration and the sort produce, the result is the same -/
theorem c17_expand_any_order (order : List (String × String)) (hp : order.Perm Gen.Macros.table)
    (q : String) (heven : evenQuotes q.toList = true) (hbs : '\\' ∉ q.toList) :
    String.ofList (expandIn order q.toList) = expand q := by
  simp only [expand]
  rw [c17_order_independent Gen.Macros.table order _ c17_table_good c17_table_names_distinct hp
    (sortByLen_perm _) q.toList heven hbs]

/-- expanding an expanded query changes nothing -/
theorem c17_expand_idempotent (q : String) (heven : evenQuotes q.toList = true) (hbs : '\\' ∉ q.toList) :
    expand (expand q) = expand q := by
  simp only [expand, String.toList_ofList]
  rw [c17_idempotent Gen.Macros.table _ _ c17_table_good c17_table_names_distinct
    (sortByLen_perm _) (sortByLen_perm _) q.toList heven hbs]

/-- non-vacuity: a query with a literal holding a macro name, a longer identifier holding one and
    two standalone names meets the hypotheses -/
example : evenQuotes "request.httpVersion == \"http\" and http and !redis".toList = true ∧
    '\\' ∉ "request.httpVersion == \"http\" and http and !redis".toList := by decide

end KsVerif.Proofs.C17
