/-
  C15 — the redaction spec against the path semantics, for the paths redaction is mostly used
  with: a chain of keys and array indices (`request.headers.Authorization`, `a.b[2].c`).

  `c15_marker_at_target`: after the rewrite, what the path denotes is the marker (wherever it
  denoted something before, and nothing where it denoted nothing).
  `c15_frame`: a path that leaves the rewritten one at some step - another key, another index -
  denotes exactly what it denoted before.
  Both are stated over `Path.get`, the model of `jp.Get` that the evaluator uses, with any fuel
  that covers the length of the path.
-/
import KsVerif.Kfl.RedactSpec

namespace KsVerif.Proofs.C15
open KsVerif.Kfl KsVerif.Kfl.RedactSpec

/-- a chain of keys and array indices (an optional `$` anywhere is harmless) -/
def simplePath : Path → Bool
  | [] => true
  | .root :: r => simplePath r
  | .child _ :: r => simplePath r
  | .nth _ :: r => simplePath r
  | _ => false

theorem lookup_map_rewrite (k : String) (h : Json → Json) :
    ∀ (kvs : List (String × Json)),
      Json.lookup (kvs.map fun kv => if kv.1 == k then (kv.1, h kv.2) else kv) k = (Json.lookup kvs k).map h := by
  intro kvs
  induction kvs with
  | nil => rfl
  | cons a t ih =>
    simp only [Json.lookup, List.map_cons, List.find?_cons] at ih ⊢
    by_cases hk : (a.1 == k) = true
    · simp [hk]
    · have hk' : (a.1 == k) = false := by simpa using hk
      simp only [hk', Bool.false_eq_true, if_false]
      exact ih

theorem lookup_map_rewrite_other (k k' : String) (h : Json → Json) (hne : k ≠ k') :
    ∀ (kvs : List (String × Json)),
      Json.lookup (kvs.map fun kv => if kv.1 == k then (kv.1, h kv.2) else kv) k' = Json.lookup kvs k' := by
  intro kvs
  induction kvs with
  | nil => rfl
  | cons a t ih =>
    simp only [Json.lookup, List.map_cons, List.find?_cons] at ih ⊢
    by_cases hk : (a.1 == k) = true
    · have hak : a.1 = k := by simpa using hk
      have hk2 : (a.1 == k') = false := by
        simp only [beq_eq_false_iff_ne, ne_eq]; rw [hak]; exact hne
      simp only [hk, if_true, hk2]
      exact ih
    · have hk' : (a.1 == k) = false := by simpa using hk
      simp only [hk', Bool.false_eq_true, if_false]
      by_cases hk2 : (a.1 == k') = true
      · simp [hk2]
      · have hk2' : (a.1 == k') = false := by simpa using hk2
        simp only [hk2']
        exact ih

theorem getElem?_mapIdx_rewrite (i : Nat) (h : Json → Json) (xs : List Json) :
    (xs.mapIdx fun idx x => if idx == i then h x else x)[i]? = xs[i]?.map h := by
  simp only [List.getElem?_mapIdx]
  cases xs[i]? <;> simp

theorem getElem?_mapIdx_rewrite_other (i i' : Nat) (h : Json → Json) (xs : List Json) (hne : i ≠ i') :
    (xs.mapIdx fun idx x => if idx == i then h x else x)[i']? = xs[i']? := by
  simp only [List.getElem?_mapIdx]
  cases hx : xs[i']? with
  | none => simp
  | some v =>
    have : (i' == i) = false := by simpa using fun h' => hne h'.symm
    simp [this]

/-- **The marker is at every location the path denotes** (paths of keys and indices): evaluating the
    path on the rewritten record gives the marker wherever it gave a value on the original, and
    nothing where it gave nothing. -/
theorem c15_marker_at_target (m : Json) :
    ∀ (p : Path), simplePath p = true → ∀ (j : Json) (f1 f2 : Nat), p.length < f1 → p.length < f2 →
      Path.get f1 p (rewriteAt f2 p (fun _ => m) j) = (Path.get f1 p j).map (fun _ => m) := by
  intro p
  induction p with
  | nil =>
    intro _ j f1 f2 h1 h2
    obtain ⟨a, rfl⟩ : ∃ a, f1 = a + 1 := ⟨f1 - 1, by simp at h1; omega⟩
    obtain ⟨b, rfl⟩ : ∃ b, f2 = b + 1 := ⟨f2 - 1, by simp at h2; omega⟩
    simp [Path.get, rewriteAt]
  | cons fr r ih =>
    intro hs j f1 f2 h1 h2
    obtain ⟨a, rfl⟩ : ∃ a, f1 = a + 1 := ⟨f1 - 1, by simp at h1; omega⟩
    obtain ⟨b, rfl⟩ : ∃ b, f2 = b + 1 := ⟨f2 - 1, by simp at h2; omega⟩
    simp only [List.length_cons] at h1 h2
    cases fr with
    | root =>
      simp only [simplePath] at hs
      simp only [Path.get, rewriteAt]
      exact ih hs j a b (by omega) (by omega)
    | child k =>
      simp only [simplePath] at hs
      cases j with
      | obj kvs =>
        simp only [Path.get, rewriteAt, lookup_map_rewrite]
        cases hl : Json.lookup kvs k with
        | none => simp
        | some v => simpa using ih hs v a b (by omega) (by omega)
      | null => simp [Path.get, rewriteAt]
      | bool _ => simp [Path.get, rewriteAt]
      | int _ => simp [Path.get, rewriteAt]
      | flt _ => simp [Path.get, rewriteAt]
      | str _ => simp [Path.get, rewriteAt]
      | arr _ => simp [Path.get, rewriteAt]
    | nth n =>
      simp only [simplePath] at hs
      cases j with
      | arr xs =>
        simp only [Path.get, rewriteAt]
        by_cases hneg : (if n < 0 then (xs.length : Int) + n else n) < 0
        · simp [hneg]
        · simp only [hneg, if_false, List.length_mapIdx, getElem?_mapIdx_rewrite]
          cases hx : xs[(if n < 0 then (xs.length : Int) + n else n).toNat]? with
          | none => simp
          | some v => simpa using ih hs v a b (by omega) (by omega)
      | null => simp [Path.get, rewriteAt]
      | bool _ => simp [Path.get, rewriteAt]
      | int _ => simp [Path.get, rewriteAt]
      | flt _ => simp [Path.get, rewriteAt]
      | str _ => simp [Path.get, rewriteAt]
      | obj _ => simp [Path.get, rewriteAt]
    | wildcard => simp [simplePath] at hs
    | descent => simp [simplePath] at hs

/-- two chains of keys / indices that part ways: at the first step where they differ they name
    different keys, different (non-negative) indices, or a key against an index.  (Neither is a
    prefix of the other: a location below or above a redacted one is not "outside" it.) -/
def diverge : Path → Path → Bool
  | .child k :: r, .child k' :: r' => if k == k' then diverge r r' else true
  | .nth n :: r, .nth n' :: r' => if n == n' then diverge r r' else (decide (0 ≤ n) && decide (0 ≤ n'))
  | .child _ :: _, .nth _ :: _ => true
  | .nth _ :: _, .child _ :: _ => true
  | _, _ => false

/-- **Frame**: rewriting (by any function) the locations of `p` leaves what a diverging path `q`
    denotes exactly as it was. -/
theorem c15_frame (g : Json → Json) :
    ∀ (p q : Path), diverge p q = true → ∀ (j : Json) (f1 f2 : Nat), q.length < f1 → p.length < f2 →
      Path.get f1 q (rewriteAt f2 p g j) = Path.get f1 q j := by
  intro p
  induction p with
  | nil => intro q hd; cases q <;> simp [diverge] at hd
  | cons fr r ih =>
    intro q hd j f1 f2 h1 h2
    obtain ⟨b, rfl⟩ : ∃ b, f2 = b + 1 := ⟨f2 - 1, by simp at h2; omega⟩
    simp only [List.length_cons] at h2
    cases q with
    | nil => cases fr <;> simp [diverge] at hd
    | cons fq r' =>
      obtain ⟨a, rfl⟩ : ∃ a, f1 = a + 1 := ⟨f1 - 1, by simp at h1; omega⟩
      simp only [List.length_cons] at h1
      cases fr with
      | root => cases fq <;> simp [diverge] at hd
      | wildcard => cases fq <;> simp [diverge] at hd
      | descent => cases fq <;> simp [diverge] at hd
      | child k =>
        cases fq with
        | root => simp [diverge] at hd
        | wildcard => simp [diverge] at hd
        | descent => simp [diverge] at hd
        | child k' =>
          cases j with
          | obj kvs =>
            simp only [Path.get, rewriteAt]
            by_cases hk : k = k'
            · subst hk
              simp only [diverge, beq_self_eq_true, if_true] at hd
              rw [lookup_map_rewrite]
              cases hl : Json.lookup kvs k with
              | none => simp
              | some v => simpa using ih r' hd v a b (by omega) (by omega)
            · rw [lookup_map_rewrite_other k k' _ hk]
          | null => simp [Path.get, rewriteAt]
          | bool _ => simp [Path.get, rewriteAt]
          | int _ => simp [Path.get, rewriteAt]
          | flt _ => simp [Path.get, rewriteAt]
          | str _ => simp [Path.get, rewriteAt]
          | arr _ => simp [Path.get, rewriteAt]
        | nth n' =>
          cases j <;> simp [Path.get, rewriteAt]
      | nth n =>
        cases fq with
        | root => simp [diverge] at hd
        | wildcard => simp [diverge] at hd
        | descent => simp [diverge] at hd
        | child k' =>
          cases j with
          | arr xs =>
            simp only [rewriteAt]
            by_cases hneg : (if n < 0 then (xs.length : Int) + n else n) < 0 <;> simp [hneg, Path.get]
          | null => simp [Path.get, rewriteAt]
          | bool _ => simp [Path.get, rewriteAt]
          | int _ => simp [Path.get, rewriteAt]
          | flt _ => simp [Path.get, rewriteAt]
          | str _ => simp [Path.get, rewriteAt]
          | obj _ => simp [Path.get, rewriteAt]
        | nth n' =>
          cases j with
          | arr xs =>
            simp only [Path.get, rewriteAt]
            by_cases hn : n = n'
            · subst hn
              simp only [diverge, beq_self_eq_true, if_true] at hd
              by_cases hneg : (if n < 0 then (xs.length : Int) + n else n) < 0
              · simp [hneg]
              · simp only [hneg, if_false, List.length_mapIdx, getElem?_mapIdx_rewrite]
                cases hx : xs[(if n < 0 then (xs.length : Int) + n else n).toNat]? with
                | none => simp
                | some v => simpa using ih r' hd v a b (by omega) (by omega)
            · have hne : (n == n') = false := by simpa using hn
              simp only [diverge, hne, Bool.false_eq_true, if_false, Bool.and_eq_true, decide_eq_true_eq] at hd
              have h0 : ¬ n < 0 := by omega
              have h0' : ¬ n' < 0 := by omega
              simp only [h0, h0', if_false, List.length_mapIdx]
              have hi : n.toNat ≠ n'.toNat := by omega
              rw [getElem?_mapIdx_rewrite_other _ _ _ _ hi]
          | null => simp [Path.get, rewriteAt]
          | bool _ => simp [Path.get, rewriteAt]
          | int _ => simp [Path.get, rewriteAt]
          | flt _ => simp [Path.get, rewriteAt]
          | str _ => simp [Path.get, rewriteAt]
          | obj _ => simp [Path.get, rewriteAt]

/-- **C15 for one plain argument** (`redact("a.b[2].c")`): what the spec's redaction produces holds
    the marker at every location the path denotes ... -/
theorem c15_redact_marks (p : Path) (hs : simplePath p = true) (j : Json) (f1 : Nat) (h1 : p.length < f1) :
    Path.get f1 p (redactHops 2 [p] j) = (Path.get f1 p j).map (fun _ => marker) := by
  simp only [redactHops]
  exact c15_marker_at_target marker p hs j f1 _ h1 (by omega)

/-- ... and every location that parts ways with it holds what it held -/
theorem c15_redact_frame (p q : Path) (hd : diverge p q = true) (j : Json) (f1 : Nat) (h1 : q.length < f1) :
    Path.get f1 q (redactHops 2 [p] j) = Path.get f1 q j := by
  simp only [redactHops]
  exact c15_frame _ p q hd j f1 _ h1 (by omega)

/-- non-vacuity: `request.headers.Authorization` and `request.headers.Host` diverge, as do
    `a.b[0]` and `a.b[1]` -/
example : diverge [.child "request", .child "headers", .child "Authorization"]
    [.child "request", .child "headers", .child "Host"] = true ∧
    diverge [.child "a", .child "b", .nth 0] [.child "a", .child "b", .nth 1, .child "c"] = true := by decide

end KsVerif.Proofs.C15
