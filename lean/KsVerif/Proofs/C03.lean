/-
  C03 — HTTP/1.x exchanges are reported exactly as they were on the wire.

  net/http (request / response parsing), martian/har (the reported form) and net/url are
  library code: `Http.Wire` models them for the message grammar the generators produce and is
  validated, not verified, by the correspondence check — which compares on every generated
  conversation the real dissector's items (in their reported HAR form), the model and the
  spec's expected items, byte for byte on bodies and field for field on headers.
  Theorems (repository logic and the codec pieces it rests on): the k-th request is reported
  with the k-th response and nothing else (`c03_kth_with_kth`, `c03_one_item_per_exchange`);
  a header line and a length-delimited body are read back exactly with reading resuming right
  after them (`takeLine_exact`, `body_by_length_exact`); header names are reported in one
  canonical spelling (`canonicalName_idem`).
  The wire grammar inverts the reference encoder: header blocks (`parseHeaders_enc`), decimal
  lengths (`decNat_dec`), chunked bodies of any bytes (`parseChunks_enc`), whole requests and
  responses with every framing (`c03_request_enc`, `c03_response_enc`), and a whole pipelined
  client half (`c03_client_half`).
-/
import KsVerif.Http.H1

namespace KsVerif.Proofs.C03
open KsVerif.Http

/-- **k-th with k-th.** The k-th item joins the k-th request of the client half with the k-th
    response of the server half — for every pipelining depth. -/
theorem c03_kth_with_kth (reqs resps : List Message) (k : Nat) (hq : k < reqs.length) (hr : k < resps.length) :
    (reqs.zip resps)[k]'(by simp [List.length_zip]; omega) = (reqs[k], resps[k]) := by
  simp [List.getElem_zip]

/-- exactly one item per exchange: as many items as there are answered requests -/
theorem c03_one_item_per_exchange (reqs resps : List Message) :
    (reqs.zip resps).length = min reqs.length resps.length := by simp [List.length_zip]

/-- a line without CR LF inside, terminated by CR LF, is read back exactly -/
theorem takeLine_exact (l rest : Bytes) (h : ∀ b ∈ l, b ≠ 13) :
    Wire.takeLine (l ++ [13, 10] ++ rest) = some (l, rest) := by
  induction l with
  | nil => simp [Wire.takeLine]
  | cons a t ih =>
    have ha : a ≠ 13 := h a (by simp)
    have ht : ∀ b ∈ t, b ≠ 13 := fun b hb => h b (by simp [hb])
    have ih' := ih ht
    cases t with
    | nil =>
      simp only [List.nil_append, List.cons_append] at ih' ⊢
      simp [Wire.takeLine, ha, ih']
    | cons c t' =>
      simp only [List.cons_append, List.append_assoc, List.nil_append] at ih' ⊢
      simp [Wire.takeLine, ha, ih']

/-- **Body bytes are reported exactly** (fixed length): whatever the bytes are, a body of the
    declared length is returned as it is and reading resumes right after it. -/
theorem body_by_length_exact (body rest : Bytes) :
    Wire.parseBody (.length body.length) (body ++ rest) = some (body, rest) := by
  simp [Wire.parseBody]

/-- a close-delimited body is everything up to the end of the stream -/
theorem body_until_close (bs : Bytes) : Wire.parseBody .untilClose bs = some (bs, []) := rfl

theorem canon_go_idem (n : Bytes) : ∀ up, canonicalName.go up (canonicalName.go up n) = canonicalName.go up n := by
  induction n with
  | nil => intro up; rfl
  | cons x rest ih =>
    intro up
    simp only [canonicalName.go]
    cases up
    · -- lower-casing position
      by_cases hx : 65 ≤ x ∧ x ≤ 90
      · have hx' : ¬ (65 ≤ x + 32 ∧ x + 32 ≤ 90) := by
          obtain ⟨h1, h2⟩ := hx
          intro hc
          have : x.toNat + 32 < 256 := by have := UInt8.le_iff_toNat_le.mp h2; simp at this; omega
          have h3 := UInt8.le_iff_toNat_le.mp hc.2
          simp [UInt8.toNat_add] at h3
          have := UInt8.le_iff_toNat_le.mp h1; simp at this
          omega
        have hd : (x + 32 = 45) = False := by
          apply eq_false; intro hc
          have := UInt8.le_iff_toNat_le.mp hx.1; simp at this
          have h2 := UInt8.le_iff_toNat_le.mp hx.2; simp at h2
          have := congrArg UInt8.toNat hc; simp [UInt8.toNat_add] at this; omega
        have hd0 : (x = 45) = False := by
          apply eq_false; intro hc; subst hc; simp at hx
        simp only [Bool.false_eq_true, if_false, hx, and_self, if_true, hx', hd, hd0, decide_false]
        rw [ih]
      · simp only [Bool.false_eq_true, if_false, hx]
        rw [ih]
    · -- upper-casing position
      by_cases hx : 97 ≤ x ∧ x ≤ 122
      · have hx' : ¬ (97 ≤ x - 32 ∧ x - 32 ≤ 122) := by
          obtain ⟨h1, h2⟩ := hx
          intro hc
          have a := UInt8.le_iff_toNat_le.mp h1; simp at a
          have b := UInt8.le_iff_toNat_le.mp h2; simp at b
          have c := UInt8.le_iff_toNat_le.mp hc.1
          simp [UInt8.toNat_sub] at c
          omega
        have hd : (x - 32 = 45) = False := by
          apply eq_false; intro hc
          have a := UInt8.le_iff_toNat_le.mp hx.1; simp at a
          have b := UInt8.le_iff_toNat_le.mp hx.2; simp at b
          have := congrArg UInt8.toNat hc; simp [UInt8.toNat_sub] at this; omega
        have hd0 : (x = 45) = False := by
          apply eq_false; intro hc; subst hc; simp at hx
        simp only [if_true, hx, and_self, hx', if_false, hd, hd0, decide_false]
        rw [ih]
      · simp only [if_true, hx, if_false]
        rw [ih]

/-- header names are reported in one canonical spelling: canonicalising twice changes nothing
    (so `Accept`, `accept` and `ACCEPT` are the same reported field) -/
theorem canonicalName_idem (n : Bytes) : canonicalName (canonicalName n) = canonicalName n :=
  canon_go_idem n true

/-- Non-vacuity. -/
example : canonicalName (bytesOfString "x-cUSTOM-id") = bytesOfString "X-Custom-Id" := by decide

/-! ### whole messages: the wire grammar inverts the reference encoder -/

open Wire Spec

def noByte (x : UInt8) (l : Bytes) : Prop := ∀ b ∈ l, b ≠ x

/-- a header field as the encoder writes it: no colon / CR in the name, no CR in the value, no
    optional whitespace around the value -/
def wfHeader (h : Bytes × Bytes) : Prop :=
  noByte 58 h.1 ∧ noByte 13 h.1 ∧ noByte 13 h.2 ∧ trimOWS h.2 = h.2

def encHeaders (hs : List (Bytes × Bytes)) : Bytes :=
  (hs.map fun (n, v) => n ++ bytesOfString ": " ++ v ++ crlf).flatten

theorem takeWhile_stop (x : UInt8) (a b : Bytes) (h : noByte x a) :
    (a ++ x :: b).takeWhile (· != x) = a ∧ (a ++ x :: b).dropWhile (· != x) = x :: b := by
  induction a with
  | nil => simp
  | cons c t ih =>
    have hc : c ≠ x := h c (by simp)
    have := ih (fun y hy => h y (by simp [hy]))
    simp [List.takeWhile_cons, List.dropWhile_cons, hc, this]

theorem trimOWS_space (v : Bytes) : trimOWS (32 :: v) = trimOWS v := by
  simp [trimOWS, List.dropWhile_cons]

/-- **Header blocks round-trip.** -/
theorem parseHeaders_enc : ∀ (hs : List (Bytes × Bytes)), (∀ h ∈ hs, wfHeader h) → ∀ (rest : Bytes) (fuel : Nat),
    hs.length < fuel → parseHeaders fuel (encHeaders hs ++ crlf ++ rest) = some (hs, rest)
  | [], _, rest, fuel, hf => by
    cases fuel with
    | zero => omega
    | succ f =>
      have := takeLine_exact [] rest (by simp)
      simp only [List.nil_append, List.cons_append] at this
      simp [parseHeaders, encHeaders, crlf, this]
  | (n, v) :: hs, hw, rest, fuel, hf => by
    cases fuel with
    | zero => omega
    | succ f =>
      obtain ⟨h58, h13n, h13v, htrim⟩ := hw (n, v) (by simp)
      let line := n ++ bytesOfString ": " ++ v
      have hline13 : ∀ b ∈ line, b ≠ 13 := by
        intro b hb
        simp only [line, List.mem_append] at hb
        rcases hb with (hb | hb) | hb
        · exact h13n b hb
        · have : b = 58 ∨ b = 32 := by simpa [bytesOfString] using hb
          rcases this with rfl | rfl <;> decide
        · exact h13v b hb
      have htl := takeLine_exact line (encHeaders hs ++ crlf ++ rest) hline13
      have henc : encHeaders ((n, v) :: hs) ++ crlf ++ rest = line ++ [13, 10] ++ (encHeaders hs ++ crlf ++ rest) := by
        simp [encHeaders, line, crlf, List.append_assoc]
      have ih := parseHeaders_enc hs (fun h hh => hw h (by simp [hh])) rest f (by simp only [List.length_cons] at hf; omega)
      have hsplit := takeWhile_stop 58 n (32 :: v) h58
      have hlineform : line = n ++ 58 :: 32 :: v := by simp [line, bytesOfString, List.append_assoc]
      have hne : line.isEmpty = false := by rw [hlineform]; cases n <;> simp
      have hlen : ¬ (n.length = line.length) := by rw [hlineform]; simp
      rw [henc]
      simp only [parseHeaders, htl, hne, Bool.false_eq_true, if_false]
      rw [hlineform, hsplit.1, hsplit.2]
      have hlen' : ¬ (n.length == (n ++ 58 :: 32 :: v).length) = true := by simp
      simp only [hlen', if_false, List.drop_succ_cons, List.drop_zero, trimOWS_space, htrim, ih, Option.map_some]
      simp

/-! decimal and hexadecimal lengths -/

def byteOfChar (c : Char) : UInt8 := c.toNat.toUInt8

theorem dec_eq (n : Nat) : dec n = (Nat.toDigits 10 n).map byteOfChar := by
  simp [dec, bytesOfString, Nat.toList_repr, byteOfChar]

theorem digit_byte (c : Char) (h : c.isDigit = true) : (byteOfChar c).toNat = c.toNat ∧ 48 ≤ c.toNat ∧ c.toNat ≤ 57 := by
  have h' : 48 ≤ c.toNat ∧ c.toNat ≤ 57 := by
    simp only [Char.isDigit, Bool.and_eq_true, decide_eq_true_eq] at h
    exact ⟨by simpa [UInt32.le_iff_toNat_le] using h.1, by simpa [UInt32.le_iff_toNat_le] using h.2⟩
  refine ⟨?_, h'⟩
  unfold byteOfChar
  simp only [Nat.toUInt8_eq, UInt8.toNat_ofNat']
  omega

theorem fold_digits (cs : List Char) (h : ∀ c ∈ cs, c.isDigit = true) : ∀ acc : Nat,
    (cs.map byteOfChar).foldl (fun acc x => acc * 10 + (x.toNat - 48)) acc = Nat.ofDigitChars 10 cs acc := by
  induction cs with
  | nil => intro acc; simp
  | cons c cs ih =>
    intro acc
    obtain ⟨h1, _, _⟩ := digit_byte c (h c (by simp))
    simp only [List.map_cons, List.foldl_cons, Nat.ofDigitChars_cons, h1]
    rw [ih (fun x hx => h x (by simp [hx]))]
    congr 1
    rw [Nat.mul_comm]; rfl

theorem all_digits (cs : List Char) (h : ∀ c ∈ cs, c.isDigit = true) :
    (cs.map byteOfChar).all (fun x => 48 ≤ x && x ≤ 57) = true := by
  simp only [List.all_eq_true, List.mem_map, Bool.and_eq_true, decide_eq_true_eq]
  rintro x ⟨c, hc, rfl⟩
  obtain ⟨h1, h2, h3⟩ := digit_byte c (h c hc)
  constructor <;> (rw [UInt8.le_iff_toNat_le, h1]; simpa using ‹_›)

/-- **Decimal numbers round-trip** (Content-Length, status codes). -/
theorem decNat_dec (n : Nat) : decNat? (dec n) = some n := by
  have hd : ∀ c ∈ Nat.toDigits 10 n, c.isDigit = true := fun _ hc => Nat.isDigit_of_mem_toDigits (by decide) (by decide) hc
  unfold decNat?
  rw [dec_eq]
  have hne : ((Nat.toDigits 10 n).map byteOfChar).isEmpty = false := by
    simp [Nat.toDigits_ne_nil]
  simp only [hne, all_digits _ hd, Bool.not_true, Bool.or_false, Bool.false_eq_true, if_false]
  rw [fold_digits _ hd 0, Nat.ofDigitChars_ten_toDigits]

theorem dec_noByte (n : Nat) (x : UInt8) (hx : x < 48 ∨ 57 < x) : noByte x (dec n) := by
  intro b hb
  rw [dec_eq] at hb
  simp only [List.mem_map] at hb
  obtain ⟨c, hc, rfl⟩ := hb
  obtain ⟨h1, h2, h3⟩ := digit_byte c (Nat.isDigit_of_mem_toDigits (by decide) (by decide) hc)
  intro he
  have : x.toNat = c.toNat := by rw [← he, h1]
  rcases hx with hx | hx
  · have := UInt8.lt_iff_toNat_lt.mp hx; simp at this; omega
  · have := UInt8.lt_iff_toNat_lt.mp hx; simp at this; omega

theorem hex_small (n : Nat) (h : n ≤ 7) : hex n = [(48 + n).toUInt8] := by
  have : n = 0 ∨ n = 1 ∨ n = 2 ∨ n = 3 ∨ n = 4 ∨ n = 5 ∨ n = 6 ∨ n = 7 := by omega
  rcases this with rfl | rfl | rfl | rfl | rfl | rfl | rfl | rfl <;> rfl

theorem hexNat_small (n : Nat) (h : n ≤ 7) : hexNat? (((48 + n).toUInt8 :: ([] : Bytes)).takeWhile (· != 59)) = some n := by
  have : n = 0 ∨ n = 1 ∨ n = 2 ∨ n = 3 ∨ n = 4 ∨ n = 5 ∨ n = 6 ∨ n = 7 := by omega
  rcases this with rfl | rfl | rfl | rfl | rfl | rfl | rfl | rfl <;> rfl

/-- **Chunked bodies round-trip**: any body, cut into chunks, followed by the last chunk and an
    empty trailer, is read back exactly, and reading resumes right after it. -/
theorem parseChunks_enc : ∀ (fuel : Nat) (b : Bytes), b.length < fuel → ∀ (rest : Bytes) (pf : Nat), b.length < pf →
    parseChunks pf (chunksOf fuel b ++ rest) = some (b, rest)
  | 0, _, h, _, _, _ => by omega
  | fuel + 1, b, hf, rest, pf, hpf => by
    cases pf with
    | zero => omega
    | succ pf' =>
      by_cases hb : b = []
      · subst hb
        have h1 := takeLine_exact (bytesOfString "0") (crlf ++ rest) (by decide)
        have h2 := parseHeaders_enc [] (by simp) rest ((crlf ++ rest).length + 1) (by simp)
        simp only [encHeaders, List.map_nil, List.flatten_nil, List.nil_append] at h2
        simp only [chunksOf, List.isEmpty_nil, if_true, List.append_assoc, crlf] at h1 ⊢
        simp only [parseChunks, h1]
        have : hexNat? ((bytesOfString "0").takeWhile (· != 59)) = some 0 := by rfl
        simp only [this, crlf] at h2 ⊢
        simp only [List.cons_append, List.nil_append] at h2 ⊢
        rw [h2]; rfl
      · have hne : b.isEmpty = false := by cases b <;> simp_all
        have hlen : 0 < b.length := by cases b <;> simp_all
        let n := min 7 b.length
        have hn7 : n ≤ 7 := Nat.min_le_left _ _
        have hnb : n ≤ b.length := Nat.min_le_right _ _
        have hn0 : 0 < n := by simp only [n]; omega
        have hline := takeLine_exact (hex n) (b.take n ++ crlf ++ chunksOf fuel (b.drop n) ++ rest) (by
          rw [hex_small n hn7]; intro x hx; simp at hx; subst hx
          have : n = 1 ∨ n = 2 ∨ n = 3 ∨ n = 4 ∨ n = 5 ∨ n = 6 ∨ n = 7 := by omega
          rcases this with h | h | h | h | h | h | h <;> rw [h] <;> decide)
        have ih := parseChunks_enc fuel (b.drop n) (by simp only [List.length_drop]; omega) rest pf'
          (by simp only [List.length_drop]; omega)
        have hform : chunksOf (fuel + 1) b ++ rest =
            hex n ++ [13, 10] ++ (b.take n ++ crlf ++ chunksOf fuel (b.drop n) ++ rest) := by
          simp [chunksOf, hne, n, crlf, List.append_assoc]
        rw [hform]
        simp only [parseChunks, hline]
        rw [hex_small n hn7, hexNat_small n hn7]
        cases hnn : n with
        | zero => omega
        | succ m =>
          simp only
          rw [← hnn]
          have hlen2 : ¬ ((b.take n ++ crlf ++ chunksOf fuel (b.drop n) ++ rest).length < n + 2) := by
            simp only [List.length_append, List.length_take, crlf, List.length_cons, List.length_nil]; omega
          simp only [hlen2, if_false]
          have htake : (b.take n ++ crlf ++ chunksOf fuel (b.drop n) ++ rest).take n = b.take n := by
            simp [List.append_assoc, List.take_append_of_le_length, List.length_take, Nat.min_eq_left hnb]
          have hdrop : (b.take n ++ crlf ++ chunksOf fuel (b.drop n) ++ rest).drop n =
              13 :: 10 :: (chunksOf fuel (b.drop n) ++ rest) := by
            simp [List.append_assoc, crlf, List.drop_append, List.length_take, Nat.min_eq_left hnb]
          rw [htake, hdrop]
          simp only [ih, Option.map_some, List.take_append_drop]

/-- the chunked body the encoder writes has no trailer fields -/
theorem chunkTrailers_enc : ∀ (fuel : Nat) (b : Bytes), b.length < fuel → ∀ (rest : Bytes) (pf : Nat), b.length < pf →
    chunkTrailers pf (chunksOf fuel b ++ rest) = []
  | 0, _, h, _, _, _ => by omega
  | fuel + 1, b, hf, rest, pf, hpf => by
    cases pf with
    | zero => omega
    | succ pf' =>
      by_cases hb : b = []
      · subst hb
        have h1 := takeLine_exact (bytesOfString "0") (crlf ++ rest) (by decide)
        have h2 := parseHeaders_enc [] (by simp) rest ((crlf ++ rest).length + 1) (by simp)
        simp only [encHeaders, List.map_nil, List.flatten_nil, List.nil_append] at h2
        simp only [chunksOf, List.isEmpty_nil, if_true, List.append_assoc, crlf] at h1 ⊢
        simp only [chunkTrailers, h1]
        have : hexNat? ((bytesOfString "0").takeWhile (· != 59)) = some 0 := by rfl
        simp only [this, crlf] at h2 ⊢
        simp only [List.cons_append, List.nil_append] at h2 ⊢
        rw [h2]; rfl
      · have hne : b.isEmpty = false := by cases b <;> simp_all
        have hlen : 0 < b.length := by cases b <;> simp_all
        let n := min 7 b.length
        have hn7 : n ≤ 7 := Nat.min_le_left _ _
        have hnb : n ≤ b.length := Nat.min_le_right _ _
        have hn0 : 0 < n := by simp only [n]; omega
        have hline := takeLine_exact (hex n) (b.take n ++ crlf ++ chunksOf fuel (b.drop n) ++ rest) (by
          rw [hex_small n hn7]; intro x hx; simp at hx; subst hx
          have : n = 1 ∨ n = 2 ∨ n = 3 ∨ n = 4 ∨ n = 5 ∨ n = 6 ∨ n = 7 := by omega
          rcases this with h | h | h | h | h | h | h <;> rw [h] <;> decide)
        have ih := chunkTrailers_enc fuel (b.drop n) (by simp only [List.length_drop]; omega) rest pf'
          (by simp only [List.length_drop]; omega)
        have hform : chunksOf (fuel + 1) b ++ rest =
            hex n ++ [13, 10] ++ (b.take n ++ crlf ++ chunksOf fuel (b.drop n) ++ rest) := by
          simp [chunksOf, hne, n, crlf, List.append_assoc]
        rw [hform]
        simp only [chunkTrailers, hline]
        rw [hex_small n hn7, hexNat_small n hn7]
        cases hnn : n with
        | zero => omega
        | succ m =>
          simp only
          rw [← hnn]
          have hlen2 : ¬ ((b.take n ++ crlf ++ chunksOf fuel (b.drop n) ++ rest).length < n + 2) := by
            simp only [List.length_append, List.length_take, crlf, List.length_cons, List.length_nil]; omega
          simp only [hlen2, if_false]
          have hdrop : (b.take n ++ crlf ++ chunksOf fuel (b.drop n) ++ rest).drop n =
              13 :: 10 :: (chunksOf fuel (b.drop n) ++ rest) := by
            simp [List.append_assoc, crlf, List.drop_append, List.length_take, Nat.min_eq_left hnb]
          rw [hdrop]
          exact ih

/-! start lines -/

theorem splitOnByte_ne_nil (sep : UInt8) (b : Bytes) : ∃ cur more, splitOnByte sep b = cur :: more := by
  induction b with
  | nil => exact ⟨[], [], rfl⟩
  | cons x t ih =>
    obtain ⟨cur, more, h⟩ := ih
    simp only [splitOnByte, List.foldr_cons] at h ⊢
    rw [h]
    by_cases hx : x = sep <;> simp [hx]

theorem splitOnByte_single (sep : UInt8) (a : Bytes) (h : noByte sep a) : splitOnByte sep a = [a] := by
  induction a with
  | nil => rfl
  | cons c t ih =>
    have hc : c ≠ sep := h c (by simp)
    have := ih (fun y hy => h y (by simp [hy]))
    simp only [splitOnByte, List.foldr_cons] at this ⊢
    rw [this]; simp [hc]

theorem splitOnByte_cons (sep : UInt8) (a b : Bytes) (h : noByte sep a) :
    splitOnByte sep (a ++ sep :: b) = a :: splitOnByte sep b := by
  induction a with
  | nil =>
    obtain ⟨cur, more, hb⟩ := splitOnByte_ne_nil sep b
    simp only [List.nil_append, splitOnByte, List.foldr_cons] at hb ⊢
    rw [hb]; simp
  | cons c t ih =>
    have hc : c ≠ sep := h c (by simp)
    have := ih (fun y hy => h y (by simp [hy]))
    simp only [List.cons_append, splitOnByte, List.foldr_cons] at this ⊢
    rw [this]; simp [hc]

theorem trimOWS_id (v : Bytes) (h : ∀ b ∈ v, b ≠ 32 ∧ b ≠ 9) : trimOWS v = v := by
  have hd : ∀ l : Bytes, (∀ b ∈ l, b ≠ 32 ∧ b ≠ 9) → l.dropWhile (fun x => x = 32 || x = 9) = l := by
    intro l hl
    cases l with
    | nil => rfl
    | cons a t =>
      have := hl a (by simp)
      simp [List.dropWhile_cons, this.1, this.2]
  unfold trimOWS
  simp only
  rw [hd v h, hd v.reverse (fun b hb => h b (by simpa using hb)), List.reverse_reverse]

/-- a user header field that would change the framing -/
def noFraming (hs : List (Bytes × Bytes)) : Prop :=
  ∀ h ∈ hs, lower h.1 ≠ bytesOfString "content-length" ∧ lower h.1 ≠ bytesOfString "transfer-encoding"

theorem headerValue_none (hs : List (Bytes × Bytes)) (name : String) (h : ∀ x ∈ hs, lower x.1 ≠ bytesOfString name) :
    headerValue hs name = none := by
  unfold headerValue
  rw [List.find?_eq_none.mpr]
  · rfl
  · intro x hx; simpa using h x hx

theorem headerValue_append (hs : List (Bytes × Bytes)) (x : Bytes × Bytes) (name : String)
    (h : ∀ y ∈ hs, lower y.1 ≠ bytesOfString name) :
    headerValue (hs ++ [x]) name = if lower x.1 == bytesOfString name then some x.2 else none := by
  unfold headerValue
  rw [List.find?_append, List.find?_eq_none.mpr (by intro y hy; simpa using h y hy)]
  by_cases hx : lower x.1 == bytesOfString name <;> simp [hx]

/-- what the dissector's reader must produce for a message the reference encoder wrote -/
def parsedOf (m : Msg) : Message :=
  { isRequest := m.isRequest, method := m.method, target := m.target, status := m.status, minor := m.minor,
    headers := m.headers ++ (match m.framing with
      | .cl => [(bytesOfString "Content-Length", dec m.body.length)]
      | .chunked => [(bytesOfString "Transfer-Encoding", bytesOfString "chunked")]
      | _ => []),
    body := m.body }

/-- well-formed request of the reference encoder -/
structure WfReq (m : Msg) : Prop where
  isReq : m.isRequest = true
  method : noByte 32 m.method ∧ noByte 13 m.method
  target : noByte 32 m.target ∧ noByte 13 m.target
  minor : m.minor = 0 ∨ m.minor = 1
  headers : ∀ h ∈ m.headers, wfHeader h
  noFr : noFraming m.headers
  framing : m.framing = .cl ∨ m.framing = .chunked ∨ (m.framing = .none ∧ m.body = [])
  status : m.status = 0

theorem encHeaders_snoc (hs : List (Bytes × Bytes)) (n v : Bytes) :
    encHeaders (hs ++ [(n, v)]) = encHeaders hs ++ (n ++ bytesOfString ": " ++ v ++ crlf) := by
  simp [encHeaders]

theorem encHeaders_cons (h : Bytes × Bytes) (t : List (Bytes × Bytes)) :
    encHeaders (h :: t) = h.1 ++ bytesOfString ": " ++ h.2 ++ crlf ++ encHeaders t := by
  simp [encHeaders]

theorem encHeaders_len : ∀ hs : List (Bytes × Bytes), hs.length ≤ (encHeaders hs).length
  | [] => by simp [encHeaders]
  | h :: t => by
    have := encHeaders_len t
    rw [encHeaders_cons]
    simp only [List.length_append, List.length_cons, crlf, List.length_nil]; omega

theorem chunks_len : ∀ (fuel : Nat) (b : Bytes), b.length < fuel → b.length ≤ (chunksOf fuel b).length
  | 0, _, h => by omega
  | fuel + 1, b, h => by
    by_cases hb : b = []
    · subst hb; simp
    · have hne : b.isEmpty = false := by cases b <;> simp_all
      have hpos : 0 < b.length := by cases b <;> simp_all
      have ih := chunks_len fuel (b.drop (min 7 b.length)) (by simp only [List.length_drop]; omega)
      simp only [chunksOf, hne, Bool.false_eq_true, if_false, List.length_append, List.length_take, List.length_drop] at ih ⊢
      omega

theorem cl_wf (n : Nat) : wfHeader (bytesOfString "Content-Length", dec n) := by
  refine ⟨by show noByte 58 (bytesOfString "Content-Length"); unfold noByte; decide,
          by show noByte 13 (bytesOfString "Content-Length"); unfold noByte; decide,
          dec_noByte n 13 (Or.inl (by decide)), ?_⟩
  exact trimOWS_id _ (fun b hb => ⟨dec_noByte n 32 (Or.inl (by decide)) b hb, dec_noByte n 9 (Or.inl (by decide)) b hb⟩)

theorem te_wf : wfHeader (bytesOfString "Transfer-Encoding", bytesOfString "chunked") := by
  refine ⟨by unfold noByte; decide, by unfold noByte; decide, by unfold noByte; decide, by decide⟩

/-- **Requests round-trip**: a request written by the reference encoder - any method and target
    without spaces, any header fields, a body of any bytes with a Content-Length or in chunks -
    followed by anything, is read back as exactly that request, and reading resumes right after it. -/
theorem c03_request_enc (m : Msg) (hw : WfReq m) (rest : Bytes) :
    parseRequest (encMsgCore m ++ rest) = some (parsedOf m, rest) := by
  obtain ⟨hreq, ⟨hm32, hm13⟩, ⟨ht32, ht13⟩, hminor, hhs, hnf, hfr, hst⟩ := hw
  let ver := bytesOfString "HTTP/1." ++ dec m.minor
  have hver : versionMinor? ver = some m.minor := by
    rcases hminor with h | h <;> simp only [ver, h] <;> rfl
  have hver32 : noByte 32 ver := by rcases hminor with h | h <;> simp only [ver, h] <;> unfold noByte <;> decide
  have hver13 : noByte 13 ver := by rcases hminor with h | h <;> simp only [ver, h] <;> unfold noByte <;> decide
  let line := m.method ++ 32 :: (m.target ++ 32 :: ver)
  have hline13 : ∀ b ∈ line, b ≠ 13 := by
    intro b hb
    simp only [line, List.mem_append, List.mem_cons] at hb
    rcases hb with hb | rfl | hb | rfl | hb
    · exact hm13 b hb
    · decide
    · exact ht13 b hb
    · decide
    · exact hver13 b hb
  have hsplit : splitOnByte 32 line = [m.method, m.target, ver] := by
    simp only [line]
    rw [splitOnByte_cons 32 _ _ hm32, splitOnByte_cons 32 _ _ ht32, splitOnByte_single 32 _ hver32]
  -- the header block the encoder writes, framing field included
  let allHs := (parsedOf m).headers
  have hallwf : ∀ h ∈ allHs, wfHeader h := by
    intro h hh
    simp only [allHs, parsedOf, List.mem_append] at hh
    rcases hh with hh | hh
    · exact hhs h hh
    · rcases hfr with hf | hf | ⟨hf, _⟩ <;> simp only [hf, List.mem_singleton, List.not_mem_nil] at hh
      · subst hh; exact cl_wf _
      · subst hh; exact te_wf
  have hform : ∃ bodyBytes, encMsgCore m ++ rest = line ++ [13, 10] ++ (encHeaders allHs ++ crlf ++ (bodyBytes ++ rest)) ∧
      parseBody (framingOf true 0 allHs) (bodyBytes ++ rest) = some (m.body, rest) ∧
      trailersOf (framingOf true 0 allHs) (bodyBytes ++ rest) = [] := by
    have hstart : (if m.isRequest then m.method ++ [32] ++ m.target ++ bytesOfString " HTTP/1." ++ dec m.minor
        else bytesOfString "HTTP/1." ++ dec m.minor ++ [32] ++ dec m.status ++ [32] ++ m.reason) = line := by
      simp [hreq, line, ver, bytesOfString, List.append_assoc]
    have hte0 := headerValue_none m.headers "transfer-encoding" (fun x hx => (hnf x hx).2)
    have hcl0 := headerValue_none m.headers "content-length" (fun x hx => (hnf x hx).1)
    rcases hfr with hf | hf | ⟨hf, hbody⟩
    · refine ⟨m.body, ?_, ?_⟩
      · have hsplitStr : bytesOfString "Content-Length: " = bytesOfString "Content-Length" ++ bytesOfString ": " := by decide
        simp only [encMsgCore, hstart, hf, allHs, parsedOf, encHeaders_snoc, hsplitStr]
        simp [encHeaders, crlf, List.append_assoc]
      · have hte : headerValue allHs "transfer-encoding" = none := by
          simp only [allHs, parsedOf, hf]
          rw [headerValue_append _ _ _ (fun x hx => (hnf x hx).2)]; rfl
        have hcl : headerValue allHs "content-length" = some (dec m.body.length) := by
          simp only [allHs, parsedOf, hf]
          rw [headerValue_append _ _ _ (fun x hx => (hnf x hx).1)]; rfl
        simp only [framingOf, Bool.not_true, Bool.false_and, Bool.false_eq_true, if_false, hte, hcl, Option.bind_some, decNat_dec]
        exact ⟨body_by_length_exact m.body rest, rfl⟩
    · refine ⟨chunksOf (m.body.length + 1) m.body, ?_, ?_⟩
      · have hsplitStr : bytesOfString "Transfer-Encoding: chunked" =
            bytesOfString "Transfer-Encoding" ++ bytesOfString ": " ++ bytesOfString "chunked" := by decide
        simp only [encMsgCore, hstart, hf, allHs, parsedOf, encHeaders_snoc, hsplitStr]
        simp [encHeaders, crlf, List.append_assoc]
      · have hte : headerValue allHs "transfer-encoding" = some (bytesOfString "chunked") := by
          simp only [allHs, parsedOf, hf]
          rw [headerValue_append _ _ _ (fun x hx => (hnf x hx).2)]; rfl
        have hlow : (lower (bytesOfString "chunked") == bytesOfString "chunked") = true := by decide
        simp only [framingOf, Bool.not_true, Bool.false_and, Bool.false_eq_true, if_false, hte, hlow, if_true, parseBody]
        have hcl := chunks_len (m.body.length + 1) m.body (by omega)
        refine ⟨parseChunks_enc _ m.body (by omega) rest _ (by simp only [List.length_append]; omega), ?_⟩
        simp only [trailersOf]
        exact chunkTrailers_enc _ m.body (by omega) rest _ (by simp only [List.length_append]; omega)
    · refine ⟨[], ?_, ?_⟩
      · simp only [encMsgCore, hstart, hf, allHs, parsedOf, List.append_nil]
        simp [encHeaders, crlf, List.append_assoc]
      · have hh : allHs = m.headers := by simp [allHs, parsedOf, hf]
        simp only [hh, framingOf, Bool.not_true, Bool.false_and, Bool.false_eq_true, if_false, hte0, hcl0, Option.bind_none,
          if_true, parseBody, List.nil_append, hbody, trailersOf, and_self]
  obtain ⟨bodyBytes, hf1, hf2, hf3⟩ := hform
  have htl := takeLine_exact line (encHeaders allHs ++ crlf ++ (bodyBytes ++ rest)) hline13
  have hph := parseHeaders_enc allHs hallwf (bodyBytes ++ rest) ((encHeaders allHs ++ crlf ++ (bodyBytes ++ rest)).length + 1)
    (by have := encHeaders_len allHs
        simp only [List.length_append]; omega)
  rw [hf1]
  simp only [parseRequest, htl, hsplit, hver, hph, hf2, hf3, List.append_nil, Option.map_some]
  simp [parsedOf, hreq, hst, allHs]

def noBodyStatus (st : Nat) : Bool := st / 100 == 1 || st == 204 || st == 304

/-- well-formed response of the reference encoder; a close-delimited body ends the stream -/
structure WfResp (m : Msg) (rest : Bytes) : Prop where
  isResp : m.isRequest = false
  reason : noByte 13 m.reason
  minor : m.minor = 0 ∨ m.minor = 1
  headers : ∀ h ∈ m.headers, wfHeader h
  noFr : noFraming m.headers
  framing : (noBodyStatus m.status = true ∧ m.framing = .none ∧ m.body = []) ∨
            (noBodyStatus m.status = false ∧ (m.framing = .cl ∨ m.framing = .chunked ∨ (m.framing = .close ∧ rest = [])))
  noReq : m.method = [] ∧ m.target = []

/-- **Responses round-trip**: any status, reason phrase, header fields; a body of any bytes with a
    Content-Length, in chunks, or delimited by the end of the stream; none for 1xx / 204 / 304. -/
theorem c03_response_enc (m : Msg) (rest : Bytes) (hw : WfResp m rest) :
    parseResponse (encMsgCore m ++ rest) = some (parsedOf m, if m.framing = .close then [] else rest) := by
  obtain ⟨hresp, hr13, hminor, hhs, hnf, hfr, ⟨hmeth, htarg⟩⟩ := hw
  let ver := bytesOfString "HTTP/1." ++ dec m.minor
  have hver : versionMinor? ver = some m.minor := by
    rcases hminor with h | h <;> simp only [ver, h] <;> rfl
  have hver32 : noByte 32 ver := by rcases hminor with h | h <;> simp only [ver, h] <;> unfold noByte <;> decide
  have hver13 : noByte 13 ver := by rcases hminor with h | h <;> simp only [ver, h] <;> unfold noByte <;> decide
  let line := ver ++ 32 :: (dec m.status ++ 32 :: m.reason)
  have hline13 : ∀ b ∈ line, b ≠ 13 := by
    intro b hb
    simp only [line, List.mem_append, List.mem_cons] at hb
    rcases hb with hb | rfl | hb | rfl | hb
    · exact hver13 b hb
    · decide
    · exact dec_noByte m.status 13 (Or.inl (by decide)) b hb
    · decide
    · exact hr13 b hb
  have hsplit : ∃ more, splitOnByte 32 line = ver :: dec m.status :: more := by
    simp only [line]
    rw [splitOnByte_cons 32 _ _ hver32, splitOnByte_cons 32 _ _ (dec_noByte m.status 32 (Or.inl (by decide)))]
    exact ⟨_, rfl⟩
  obtain ⟨more, hsplit⟩ := hsplit
  let allHs := (parsedOf m).headers
  have hfrcases : m.framing = .cl ∨ m.framing = .chunked ∨ m.framing = .close ∨ m.framing = .none := by
    rcases hfr with ⟨_, h, _⟩ | ⟨_, h | h | ⟨h, _⟩⟩ <;> simp [h]
  have hallwf : ∀ h ∈ allHs, wfHeader h := by
    intro h hh
    simp only [allHs, parsedOf, List.mem_append] at hh
    rcases hh with hh | hh
    · exact hhs h hh
    · rcases hfrcases with hf | hf | hf | hf <;> simp only [hf, List.mem_singleton, List.not_mem_nil] at hh
      · subst hh; exact cl_wf _
      · subst hh; exact te_wf
  have hstart : (if m.isRequest then m.method ++ [32] ++ m.target ++ bytesOfString " HTTP/1." ++ dec m.minor
      else bytesOfString "HTTP/1." ++ dec m.minor ++ [32] ++ dec m.status ++ [32] ++ m.reason) = line := by
    simp [hresp, line, ver, List.append_assoc]
  have hte0 := headerValue_none m.headers "transfer-encoding" (fun x hx => (hnf x hx).2)
  have hcl0 := headerValue_none m.headers "content-length" (fun x hx => (hnf x hx).1)
  have hform : ∃ bodyBytes, encMsgCore m ++ rest = line ++ [13, 10] ++ (encHeaders allHs ++ crlf ++ (bodyBytes ++ rest)) ∧
      parseBody (framingOf false m.status allHs) (bodyBytes ++ rest) = some (m.body, if m.framing = .close then [] else rest) ∧
      trailersOf (framingOf false m.status allHs) (bodyBytes ++ rest) = [] := by
    rcases hfr with ⟨hnb, hf, hbody⟩ | ⟨hnb, hf | hf | ⟨hf, hrest⟩⟩
    · refine ⟨[], ?_, ?_⟩
      · simp only [encMsgCore, hstart, hf, allHs, parsedOf, List.append_nil]
        simp [encHeaders, crlf, List.append_assoc]
      · have hnb' : (m.status / 100 == 1 || m.status == 204 || m.status == 304) = true := hnb
        simp [framingOf, hnb', parseBody, hbody, hf, trailersOf]
    · refine ⟨m.body, ?_, ?_⟩
      · have hsplitStr : bytesOfString "Content-Length: " = bytesOfString "Content-Length" ++ bytesOfString ": " := by decide
        simp only [encMsgCore, hstart, hf, allHs, parsedOf, encHeaders_snoc, hsplitStr]
        simp [encHeaders, crlf, List.append_assoc]
      · have hte : headerValue allHs "transfer-encoding" = none := by
          simp only [allHs, parsedOf, hf]
          rw [headerValue_append _ _ _ (fun x hx => (hnf x hx).2)]; rfl
        have hcl : headerValue allHs "content-length" = some (dec m.body.length) := by
          simp only [allHs, parsedOf, hf]
          rw [headerValue_append _ _ _ (fun x hx => (hnf x hx).1)]; rfl
        have hnb' : (m.status / 100 == 1 || m.status == 204 || m.status == 304) = false := hnb
        simp only [framingOf, Bool.not_false, Bool.true_and, hnb', Bool.false_eq_true, if_false, hte, hcl, Option.bind_some, decNat_dec, hf]
        refine ⟨by simpa using body_by_length_exact m.body rest, rfl⟩
    · refine ⟨chunksOf (m.body.length + 1) m.body, ?_, ?_⟩
      · have hsplitStr : bytesOfString "Transfer-Encoding: chunked" =
            bytesOfString "Transfer-Encoding" ++ bytesOfString ": " ++ bytesOfString "chunked" := by decide
        simp only [encMsgCore, hstart, hf, allHs, parsedOf, encHeaders_snoc, hsplitStr]
        simp [encHeaders, crlf, List.append_assoc]
      · have hte : headerValue allHs "transfer-encoding" = some (bytesOfString "chunked") := by
          simp only [allHs, parsedOf, hf]
          rw [headerValue_append _ _ _ (fun x hx => (hnf x hx).2)]; rfl
        have hlow : (lower (bytesOfString "chunked") == bytesOfString "chunked") = true := by decide
        have hnb' : (m.status / 100 == 1 || m.status == 204 || m.status == 304) = false := hnb
        have hcl := chunks_len (m.body.length + 1) m.body (by omega)
        simp only [framingOf, Bool.not_false, Bool.true_and, hnb', Bool.false_eq_true, if_false, hte, hlow, if_true, parseBody, hf]
        have := parseChunks_enc (m.body.length + 1) m.body (by omega) rest
          ((chunksOf (m.body.length + 1) m.body ++ rest).length + 1) (by simp only [List.length_append]; omega)
        refine ⟨by simpa using this, ?_⟩
        simp only [trailersOf]
        exact chunkTrailers_enc _ m.body (by omega) rest _ (by simp only [List.length_append]; omega)
    · refine ⟨m.body, ?_, ?_⟩
      · simp only [encMsgCore, hstart, hf, allHs, parsedOf, List.append_nil]
        simp [encHeaders, crlf, List.append_assoc]
      · have hh : allHs = m.headers := by simp [allHs, parsedOf, hf]
        have hnb' : (m.status / 100 == 1 || m.status == 204 || m.status == 304) = false := hnb
        simp [hh, framingOf, hnb', hte0, hcl0, parseBody, hf, hrest, trailersOf]
  obtain ⟨bodyBytes, hf1, hf2, hf3⟩ := hform
  have htl := takeLine_exact line (encHeaders allHs ++ crlf ++ (bodyBytes ++ rest)) hline13
  have hph := parseHeaders_enc allHs hallwf (bodyBytes ++ rest) ((encHeaders allHs ++ crlf ++ (bodyBytes ++ rest)).length + 1)
    (by have := encHeaders_len allHs
        simp only [List.length_append]; omega)
  rw [hf1]
  simp only [parseResponse, htl, hsplit, hver, decNat_dec, hph, hf2, hf3, List.append_nil, Option.map_some]
  simp [parsedOf, hresp, hmeth, htarg, allHs]

/-- Non-vacuity: a chunked POST with a binary body and two header fields is well-formed. -/
theorem encMsg_ne_nil (m : Msg) : (encMsgCore m).isEmpty = false := by
  unfold encMsgCore
  cases hf : m.framing <;> simp [crlf]

/-- **A whole client half**: every pipelined sequence of well-formed requests is read back as
    exactly those requests, in order - the k-th request parsed is the k-th request sent. -/
theorem c03_client_half : ∀ (ms : List Msg), (∀ m ∈ ms, WfReq m) → ∀ fuel, ms.length < fuel →
    parseAll true fuel ((ms.map encMsgCore).flatten) = ms.map parsedOf
  | [], _, fuel, hf => by
    cases fuel with
    | zero => omega
    | succ f => simp [parseAll]
  | m :: ms, hw, fuel, hf => by
    cases fuel with
    | zero => omega
    | succ f =>
      have h1 := c03_request_enc m (hw m (by simp)) ((ms.map encMsgCore).flatten)
      have ih := c03_client_half ms (fun x hx => hw x (by simp [hx])) f (by simp only [List.length_cons] at hf; omega)
      have hne : ((encMsgCore m) ++ (ms.map encMsgCore).flatten).isEmpty = false := by
        have := encMsg_ne_nil m
        cases h : encMsgCore m <;> simp_all
      simp only [List.map_cons, List.flatten_cons, parseAll, hne, Bool.false_eq_true, if_false, if_true, h1, ih]

def exReq : Msg :=
  { isRequest := true, method := bytesOfString "POST", target := bytesOfString "/a?b=1", minor := 1,
    headers := [(bytesOfString "Host", bytesOfString "h"), (bytesOfString "X-Q", bytesOfString "a b")],
    framing := .chunked, body := [0, 13, 10, 255, 1, 2, 3, 4, 5] }

example : WfReq exReq := by
  refine ⟨rfl, ⟨by unfold noByte; decide, by unfold noByte; decide⟩, ⟨by unfold noByte; decide, by unfold noByte; decide⟩,
    Or.inr rfl, ?_, ?_, Or.inr (Or.inl rfl), rfl⟩
  · intro h hh
    have : h = (bytesOfString "Host", bytesOfString "h") ∨ h = (bytesOfString "X-Q", bytesOfString "a b") := by
      simpa [exReq] using hh
    rcases this with rfl | rfl <;> exact ⟨by unfold noByte; decide, by unfold noByte; decide, by unfold noByte; decide, by decide⟩
  · intro h hh
    have : h = (bytesOfString "Host", bytesOfString "h") ∨ h = (bytesOfString "X-Q", bytesOfString "a b") := by
      simpa [exReq] using hh
    rcases this with rfl | rfl <;> exact ⟨by decide, by decide⟩

end KsVerif.Proofs.C03
