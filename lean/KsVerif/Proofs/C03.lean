/-
  C03 — HTTP/1.x exchanges are reported exactly as they were on the wire.

  net/http (request / response parsing), martian/har (the reported form) and net/url are
  library code: `Http.Wire` models them for the message grammar the generators produce and is
  validated, not verified, by the correspondence check — which compares on every generated
  conversation the real dissector's items (in their reported HAR form), the model and the
  spec's expected items, byte for byte on bodies and field for field on headers.
  Theorems (repository logic and the codec pieces it rests on): the k-th request is reported
  with the k-th response and nothing else (`c03_kth_with_kth`, `c03_one_item_per_exchange`);
  a header line and a length-delimited body are read back exactly with reading resuming right
  after them (`takeLine_exact`, `body_by_length_exact`); header names are reported in one
  canonical spelling (`canonicalName_idem`).  Partial: the round trip of whole messages
  (`parseRequest (enc m ++ rest)`) is checked on every generated case, not proved.
-/
import KsVerif.Http.H1

namespace KsVerif.Proofs.C03
open KsVerif.Http

/-- **k-th with k-th.** The k-th item joins the k-th request of the client half with the k-th
    response of the server half — for every pipelining depth. -/
theorem c03_kth_with_kth (reqs resps : List Message) (k : Nat) (hq : k < reqs.length) (hr : k < resps.length) :
    (reqs.zip resps)[k]'(by simp [List.length_zip]; omega) = (reqs[k], resps[k]) := by
  simp [List.getElem_zip]

/-- exactly one item per exchange: as many items as there are answered requests -/
theorem c03_one_item_per_exchange (reqs resps : List Message) :
    (reqs.zip resps).length = min reqs.length resps.length := by simp [List.length_zip]

/-- a line without CR LF inside, terminated by CR LF, is read back exactly -/
theorem takeLine_exact (l rest : Bytes) (h : ∀ b ∈ l, b ≠ 13) :
    Wire.takeLine (l ++ [13, 10] ++ rest) = some (l, rest) := by
  induction l with
  | nil => simp [Wire.takeLine]
  | cons a t ih =>
    have ha : a ≠ 13 := h a (by simp)
    have ht : ∀ b ∈ t, b ≠ 13 := fun b hb => h b (by simp [hb])
    have ih' := ih ht
    cases t with
    | nil =>
      simp only [List.nil_append, List.cons_append] at ih' ⊢
      simp [Wire.takeLine, ha, ih']
    | cons c t' =>
      simp only [List.cons_append, List.append_assoc, List.nil_append] at ih' ⊢
      simp [Wire.takeLine, ha, ih']

/-- **Body bytes are reported exactly** (fixed length): whatever the bytes are, a body of the
    declared length is returned as it is and reading resumes right after it. -/
theorem body_by_length_exact (body rest : Bytes) :
    Wire.parseBody (.length body.length) (body ++ rest) = some (body, rest) := by
  simp [Wire.parseBody]

/-- a close-delimited body is everything up to the end of the stream -/
theorem body_until_close (bs : Bytes) : Wire.parseBody .untilClose bs = some (bs, []) := rfl

theorem canon_go_idem (n : Bytes) : ∀ up, canonicalName.go up (canonicalName.go up n) = canonicalName.go up n := by
  induction n with
  | nil => intro up; rfl
  | cons x rest ih =>
    intro up
    simp only [canonicalName.go]
    cases up
    · -- lower-casing position
      by_cases hx : 65 ≤ x ∧ x ≤ 90
      · have hx' : ¬ (65 ≤ x + 32 ∧ x + 32 ≤ 90) := by
          obtain ⟨h1, h2⟩ := hx
          intro hc
          have : x.toNat + 32 < 256 := by have := UInt8.le_iff_toNat_le.mp h2; simp at this; omega
          have h3 := UInt8.le_iff_toNat_le.mp hc.2
          simp [UInt8.toNat_add] at h3
          have := UInt8.le_iff_toNat_le.mp h1; simp at this
          omega
        have hd : (x + 32 = 45) = False := by
          apply eq_false; intro hc
          have := UInt8.le_iff_toNat_le.mp hx.1; simp at this
          have h2 := UInt8.le_iff_toNat_le.mp hx.2; simp at h2
          have := congrArg UInt8.toNat hc; simp [UInt8.toNat_add] at this; omega
        have hd0 : (x = 45) = False := by
          apply eq_false; intro hc; subst hc; simp at hx
        simp only [Bool.false_eq_true, if_false, hx, and_self, if_true, hx', hd, hd0, decide_false]
        rw [ih]
      · simp only [Bool.false_eq_true, if_false, hx]
        rw [ih]
    · -- upper-casing position
      by_cases hx : 97 ≤ x ∧ x ≤ 122
      · have hx' : ¬ (97 ≤ x - 32 ∧ x - 32 ≤ 122) := by
          obtain ⟨h1, h2⟩ := hx
          intro hc
          have a := UInt8.le_iff_toNat_le.mp h1; simp at a
          have b := UInt8.le_iff_toNat_le.mp h2; simp at b
          have c := UInt8.le_iff_toNat_le.mp hc.1
          simp [UInt8.toNat_sub] at c
          omega
        have hd : (x - 32 = 45) = False := by
          apply eq_false; intro hc
          have a := UInt8.le_iff_toNat_le.mp hx.1; simp at a
          have b := UInt8.le_iff_toNat_le.mp hx.2; simp at b
          have := congrArg UInt8.toNat hc; simp [UInt8.toNat_sub] at this; omega
        have hd0 : (x = 45) = False := by
          apply eq_false; intro hc; subst hc; simp at hx
        simp only [if_true, hx, and_self, hx', if_false, hd, hd0, decide_false]
        rw [ih]
      · simp only [if_true, hx, if_false]
        rw [ih]

/-- header names are reported in one canonical spelling: canonicalising twice changes nothing
    (so `Accept`, `accept` and `ACCEPT` are the same reported field) -/
theorem canonicalName_idem (n : Bytes) : canonicalName (canonicalName n) = canonicalName n :=
  canon_go_idem n true

/-- Non-vacuity. -/
example : canonicalName (bytesOfString "x-cUSTOM-id") = bytesOfString "X-Custom-Id" := by decide

end KsVerif.Proofs.C03
