/-
  C10 — pairing is independent of goroutine interleaving.

  The register functions run under the matcher's mutex (`c10_shapes_atomic`, decided on the
  shapes regenerated from the Go sources), so a step of either goroutine is one atomic
  `Match.register`; a schedule therefore induces an arrival history, and the result follows
  from the pairing theorem C09 for every schedule and every conversation length.
-/
import KsVerif.Proofs.C09
import KsVerif.Sched.Protocols
import KsVerif.Generated.GenAtomicShapes

namespace KsVerif.Proofs.C10
open KsVerif.Match KsVerif.Sched

/-- The history induced by a schedule: `true` lets the client-side goroutine register its
    next request (ordinal `i+1`), `false` lets the server-side goroutine register its next
    response (ordinal `j+1`); a goroutine that has consumed its `n` (resp. `m`) messages
    does nothing. -/
def historyOf (n m : Nat) : Nat → Nat → List Bool → List (Nat × Side)
  | _, _, [] => []
  | i, j, true :: rest =>
    if i < n then (i + 1, Side.req) :: historyOf n m (i + 1) j rest else historyOf n m i j rest
  | i, j, false :: rest =>
    if j < m then (j + 1, Side.resp) :: historyOf n m i (j + 1) rest else historyOf n m i j rest

theorem req_bounds {n m : Nat} (s : List Bool) : ∀ {i j k : Nat},
    (k, Side.req) ∈ historyOf n m i j s → i < k ∧ k ≤ n := by
  induction s with
  | nil => intro i j k h; simp [historyOf] at h
  | cons b s ih =>
    intro i j k h
    cases b
    · simp only [historyOf] at h
      split at h
      · simp at h; exact ih h
      · exact ih h
    · simp only [historyOf] at h
      split at h
      · simp at h
        rcases h with h | h
        · omega
        · have := ih h; omega
      · exact ih h

theorem resp_bounds {n m : Nat} (s : List Bool) : ∀ {i j k : Nat},
    (k, Side.resp) ∈ historyOf n m i j s → j < k ∧ k ≤ m := by
  induction s with
  | nil => intro i j k h; simp [historyOf] at h
  | cons b s ih =>
    intro i j k h
    cases b
    · simp only [historyOf] at h
      split at h
      · simp at h
        rcases h with h | h
        · omega
        · have := ih h; omega
      · exact ih h
    · simp only [historyOf] at h
      split at h
      · simp at h; exact ih h
      · exact ih h

theorem history_nodup {n m : Nat} (s : List Bool) : ∀ {i j : Nat}, (historyOf n m i j s).Nodup := by
  induction s with
  | nil => intro i j; simp [historyOf]
  | cons b s ih =>
    intro i j
    cases b
    · simp only [historyOf]
      split
      · refine List.nodup_cons.mpr ⟨fun h => ?_, ih⟩
        have := resp_bounds s h; omega
      · exact ih
    · simp only [historyOf]
      split
      · refine List.nodup_cons.mpr ⟨fun h => ?_, ih⟩
        have := req_bounds s h; omega
      · exact ih

theorem req_complete {n m : Nat} (s : List Bool) : ∀ {i j : Nat}, n - i ≤ s.count true →
    ∀ k, i < k → k ≤ n → (k, Side.req) ∈ historyOf n m i j s := by
  induction s with
  | nil => intro i j h k h1 h2; simp at h; omega
  | cons b s ih =>
    intro i j h k h1 h2
    cases b
    · simp only [historyOf]
      have h' : n - i ≤ s.count true := by simpa using h
      split
      · exact List.mem_cons_of_mem _ (ih h' k h1 h2)
      · exact ih h' k h1 h2
    · simp only [historyOf]
      have hin : i < n := by omega
      simp only [hin, if_true]
      by_cases hk : k = i + 1
      · subst hk; simp
      · refine List.mem_cons_of_mem _ (ih ?_ k (by omega) h2)
        simp at h; omega

theorem resp_complete {n m : Nat} (s : List Bool) : ∀ {i j : Nat}, m - j ≤ s.count false →
    ∀ k, j < k → k ≤ m → (k, Side.resp) ∈ historyOf n m i j s := by
  induction s with
  | nil => intro i j h k h1 h2; simp at h; omega
  | cons b s ih =>
    intro i j h k h1 h2
    cases b
    · simp only [historyOf]
      have hjm : j < m := by omega
      simp only [hjm, if_true]
      by_cases hk : k = j + 1
      · subst hk; simp
      · refine List.mem_cons_of_mem _ (ih ?_ k (by omega) h2)
        simp at h; omega
    · simp only [historyOf]
      have h' : m - j ≤ s.count false := by simpa using h
      split
      · exact List.mem_cons_of_mem _ (ih h' k h1 h2)
      · exact ih h' k h1 h2

/-- **C10.** The client-side goroutine registers `n` requests, the server-side goroutine `m`
    responses (k-th with k-th). For *every* schedule that lets both finish — whatever `n`,
    `m` and the interleaving — the pairs emitted are exactly the ordinals `1 … min n m`,
    each once, and what stays in the matcher is exactly the unanswered requests (or the
    unsolicited responses). The outcome does not mention the schedule: it is the outcome of
    dissecting one direction after the other. -/
theorem c10_schedule_independent (n m : Nat) (s : List Bool)
    (hc : n ≤ s.count true) (hs : m ≤ s.count false) :
    let st := run (State.init : State Nat) (historyOf n m 0 0 s)
    (∀ k, k ∈ st.emitted ↔ (1 ≤ k ∧ k ≤ n ∧ k ≤ m)) ∧ st.emitted.Nodup ∧
    (∀ k, st.map k = some Side.req ↔ (m < k ∧ 1 ≤ k ∧ k ≤ n)) ∧
    (∀ k, st.map k = some Side.resp ↔ (n < k ∧ 1 ≤ k ∧ k ≤ m)) := by
  have hp := C09.c09_pairing (historyOf n m 0 0 s) (history_nodup s)
  have hreq : ∀ k, (k, Side.req) ∈ historyOf n m 0 0 s ↔ (1 ≤ k ∧ k ≤ n) := fun k =>
    ⟨fun h => by have := req_bounds s h; omega, fun h => req_complete s (by omega) k (by omega) h.2⟩
  have hresp : ∀ k, (k, Side.resp) ∈ historyOf n m 0 0 s ↔ (1 ≤ k ∧ k ≤ m) := fun k =>
    ⟨fun h => by have := resp_bounds s h; omega, fun h => resp_complete s (by omega) k (by omega) h.2⟩
  refine ⟨fun k => ?_, hp.2.1, fun k => ?_, fun k => ?_⟩
  · rw [hp.1 k, hreq, hresp]; omega
  · rw [hp.2.2 k Side.req]; simp only [Side.other]; rw [hreq, hresp]; omega
  · rw [hp.2.2 k Side.resp]; simp only [Side.other]; rw [hreq, hresp]; omega

/-- Two schedules give the same emitted set and the same residue. -/
theorem c10_any_two_schedules_agree (n m : Nat) (s₁ s₂ : List Bool)
    (h1 : n ≤ s₁.count true) (h1' : m ≤ s₁.count false)
    (h2 : n ≤ s₂.count true) (h2' : m ≤ s₂.count false) :
    (∀ k, k ∈ (run (State.init : State Nat) (historyOf n m 0 0 s₁)).emitted ↔
          k ∈ (run (State.init : State Nat) (historyOf n m 0 0 s₂)).emitted) := by
  intro k
  rw [(c10_schedule_independent n m s₁ h1 h1').1 k, (c10_schedule_independent n m s₂ h2 h2').1 k]

/-- The register functions of the three matchers that look up and store are atomic
    (regenerated shapes; a removed or narrowed mutex makes this false). -/
theorem c10_shapes_atomic :
    isAtomicRegister Gen.Shapes.httpRegisterRequest = true ∧
    isAtomicRegister Gen.Shapes.httpRegisterResponse = true ∧
    isAtomicRegister Gen.Shapes.redisRegisterRequest = true ∧
    isAtomicRegister Gen.Shapes.redisRegisterResponse = true ∧
    isAtomicRegister Gen.Shapes.amqpRegisterRequest = true ∧
    isAtomicRegister Gen.Shapes.amqpRegisterResponse = true := by decide

/-- Non-vacuity: server first on exchange 1, client first on exchange 2. -/
example : (run (State.init : State Nat) (historyOf 2 2 0 0 [false, true, true, false])).emitted = [1, 2] := by
  decide

end KsVerif.Proofs.C10
