import KsVerif.Proofs.C03Server

/-!
# C03: from the bytes of a message to what is reported of it

`c03_request_enc` / `c03_response_enc` say that the wire model reads a well-formed message back exactly.  This file
takes the last step, to the observation the check compares: what the model reports of a message read from the
encoder's bytes (`messageSx`) is exactly what the spec expects for that message (`expectedItem`'s halves) - method,
target, version, every header field under its canonical name, the body, the status - provided the message is not
one on which net/http invents a header (`Pragma: no-cache` without `Cache-Control`, the recorded finding).
-/

namespace KsVerif.Proofs.C03Report
open KsVerif KsVerif.Http KsVerif.Http.Wire KsVerif.Http.Spec KsVerif.Proofs.C03 KsVerif.Proofs.C03Server

theorem isFraming_cl : isFramingHeader (bytesOfString "Content-Length") = true := by decide
theorem isFraming_te : isFramingHeader (bytesOfString "Transfer-Encoding") = true := by decide

/-- the framing field the encoder adds does not show in what is reported -/
theorem reported_parsedOf (m : Msg) : reportedHeaders (parsedOf m).headers = reportedHeaders m.headers := by
  unfold reportedHeaders parsedOf
  cases m.framing <;> simp [List.filter_append, isFraming_cl, isFraming_te]

/-- the condition under which net/http adds nothing: no `Pragma: no-cache` first, or a `Cache-Control` present -/
def NoInvention (hs : List (Bytes × Bytes)) : Prop := pragmaFix hs = hs

/-- **What is reported of a request is what was sent**: for every well-formed request of the encoder followed by
    anything, the model's report of the message read from those bytes is the spec's expectation for it. -/
theorem c03_reported_request (m : Msg) (hw : WfReq m) (hni : NoInvention (parsedOf m).headers) (rest : Bytes) :
    (parseRequest (encMsgCore m ++ rest)).map (fun r => (messageSx r.1, r.2)) =
      some (.list [.atom "req", Sx.ofBytes m.method, Sx.ofBytes m.target, Sx.ofNat m.minor, headersSx m.headers, Sx.ofBytes m.body], rest) := by
  rw [c03_request_enc m hw rest]
  have hreq : (parsedOf m).isRequest = true := by simp [parsedOf, hw.isReq]
  simp only [Option.map_some, messageSx, hreq, if_true]
  unfold NoInvention at hni
  rw [hni]
  simp only [headersSx, reported_parsedOf]
  simp [parsedOf]

/-- the same for a response (length- or chunk-delimited, or bodyless by its status) -/
theorem c03_reported_response (m : Msg) (rest : Bytes) (hw : WfResp m rest) (hnc : m.framing ≠ .close)
    (hni : NoInvention (parsedOf m).headers) :
    (parseResponse (encMsgCore m ++ rest)).map (fun r => (messageSx r.1, r.2)) =
      some (.list [.atom "resp", Sx.ofNat m.status, Sx.ofNat m.minor, headersSx m.headers, Sx.ofBytes m.body], rest) := by
  have h1 := c03_response_enc m rest hw
  simp only [hnc, if_false] at h1
  rw [h1]
  have hresp : (parsedOf m).isRequest = false := by simp [parsedOf, hw.isResp]
  simp only [Option.map_some, messageSx, hresp, Bool.false_eq_true, if_false]
  unfold NoInvention at hni
  rw [hni]
  simp only [headersSx, reported_parsedOf]
  simp [parsedOf]

/-- not vacuous: `exReq` (a chunked POST with two header fields) invents nothing -/
example : NoInvention (parsedOf exReq).headers := by unfold NoInvention; decide

/-! ### whole conversations: the model's observation is the spec's expectation -/

theorem messageSx_req (m : Msg) (hreq : m.isRequest = true) (hni : NoInvention (parsedOf m).headers) :
    messageSx (parsedOf m) =
      .list [.atom "req", Sx.ofBytes m.method, Sx.ofBytes m.target, Sx.ofNat m.minor, headersSx m.headers, Sx.ofBytes m.body] := by
  have h : (parsedOf m).isRequest = true := by simp [parsedOf, hreq]
  simp only [messageSx, h, if_true]
  unfold NoInvention at hni
  rw [hni]
  simp only [headersSx, reported_parsedOf]
  simp [parsedOf]

theorem messageSx_resp (m : Msg) (hresp : m.isRequest = false) (hni : NoInvention (parsedOf m).headers) :
    messageSx (parsedOf m) =
      .list [.atom "resp", Sx.ofNat m.status, Sx.ofNat m.minor, headersSx m.headers, Sx.ofBytes m.body] := by
  have h : (parsedOf m).isRequest = false := by simp [parsedOf, hresp]
  simp only [messageSx, h, Bool.false_eq_true, if_false]
  unfold NoInvention at hni
  rw [hni]
  simp only [headersSx, reported_parsedOf]
  simp [parsedOf]

/-- the items: k-th request with k-th response, each reported as sent -/
theorem items_meet_spec : ∀ (conv : List (Msg × Msg)),
    (∀ p ∈ conv, p.1.isRequest = true ∧ NoInvention (parsedOf p.1).headers ∧ p.2.isRequest = false ∧ NoInvention (parsedOf p.2).headers) →
    (((conv.map fun p => parsedOf p.1).zip (conv.map fun p => parsedOf p.2)).map
        fun (x : Message × Message) => Sx.list [messageSx x.1, messageSx x.2, .atom "cs"]) =
      conv.map fun (p : Msg × Msg) => expectedItem p.1 p.2
  | [], _ => rfl
  | p :: conv, h => by
    obtain ⟨h1, h2, h3, h4⟩ := h p (by simp)
    have ih := items_meet_spec conv (fun x hx => h x (by simp [hx]))
    simp only [List.map_cons, List.zip_cons_cons, ih, messageSx_req p.1 h1 h2, messageSx_resp p.2 h3 h4, expectedItem]

/-- **The observation of a well-formed conversation is what the spec expects** - for every number of pipelined
    exchanges, every method, target, header list and body, length- or chunk-delimited: one item per exchange, the
    k-th request with the k-th response, each message reported exactly as sent, nothing left over.  (Excluded, as in
    the theorems this composes: bodies delimited by the end of the stream, interim statuses as final ones, and the
    messages on which net/http invents a header.) -/
theorem c03_observe_meets_spec (conv : List (Msg × Msg))
    (hq : ∀ p ∈ conv, WfReq p.1 ∧ NoInvention (parsedOf p.1).headers)
    (hr : ∀ p ∈ conv, (∀ rest, WfResp p.2 rest) ∧ p.2.framing ≠ .close ∧ ¬ interimStatus p.2.status ∧
      NoInvention (parsedOf p.2).headers) :
    observe ((conv.map fun p => encMsgCore p.1).flatten) ((conv.map fun p => encMsgCore p.2).flatten) = expected conv := by
  let qs := conv.map (·.1)
  let rs := conv.map (·.2)
  have hcb : (conv.map fun p => encMsgCore p.1) = qs.map encMsgCore := by simp [qs, List.map_map]
  have hsb : (conv.map fun p => encMsgCore p.2) = rs.map encMsgCore := by simp [rs, List.map_map]
  have hwq : ∀ m ∈ qs, WfReq m := by
    intro m hm; simp only [qs, List.mem_map] at hm; obtain ⟨p, hp, rfl⟩ := hm; exact (hq p hp).1
  have hwr : ∀ m ∈ rs, ∀ rest, WfResp m rest := by
    intro m hm; simp only [rs, List.mem_map] at hm; obtain ⟨p, hp, rfl⟩ := hm; exact (hr p hp).1
  have hnc : ∀ m ∈ rs, m.framing ≠ .close := by
    intro m hm; simp only [rs, List.mem_map] at hm; obtain ⟨p, hp, rfl⟩ := hm; exact (hr p hp).2.1
  have hfin : ∀ m ∈ rs, ¬ interimStatus m.status := by
    intro m hm; simp only [rs, List.mem_map] at hm; obtain ⟨p, hp, rfl⟩ := hm; exact (hr p hp).2.2.1
  have hA : parseAll true (((qs.map encMsgCore).flatten).length + 1) ((qs.map encMsgCore).flatten) = qs.map parsedOf :=
    c03_client_half qs hwq _ (by have := count_le_bytes qs; omega)
  have hB : (parseAll false (((rs.map encMsgCore).flatten).length + 1) ((rs.map encMsgCore).flatten)).filter
      (fun m => !(100 ≤ m.status && m.status < 200 && m.status != 101)) = rs.map parsedOf := by
    rw [c03_server_half rs hwr hnc _ (by have := count_le_bytes rs; omega)]
    rw [List.filter_eq_self]
    intro x hx
    simp only [List.mem_map] at hx
    obtain ⟨m, hm, rfl⟩ := hx
    have hfm := hfin m hm
    unfold interimStatus at hfm
    simp only [parsedOf]
    by_cases a : 100 ≤ m.status
    · by_cases b : m.status < 200
      · by_cases c : m.status = 101
        · simp [a, b, c]
        · exact absurd ⟨a, b, c⟩ hfm
      · simp [a, b]
    · simp [a]
  unfold observe expected
  rw [hcb, hsb]
  simp only [hA, hB]
  have hlen : ((qs.map parsedOf).zip (rs.map parsedOf)).length = conv.length := by simp [qs, rs]
  have hitems := items_meet_spec conv (fun p hp =>
    ⟨(hq p hp).1.isReq, (hq p hp).2, ((hr p hp).1 []).isResp, (hr p hp).2.2.2⟩)
  have hzip : (qs.map parsedOf).zip (rs.map parsedOf) =
      (conv.map fun p => parsedOf p.1).zip (conv.map fun p => parsedOf p.2) := by
    simp [qs, rs, List.map_map, Function.comp_def]
  rw [hzip] at hlen ⊢
  rw [hitems]
  simp [qs, rs, hlen]

end KsVerif.Proofs.C03Report
